module crdverif/extract

go 1.24.0

require gopkg.in/yaml.v3 v3.0.1
