module crdverif/extract

go 1.24.0

require gopkg.in/yaml.v3 v3.0.1

require (
	golang.org/x/mod v0.22.0 // indirect
	golang.org/x/sync v0.10.0 // indirect
	golang.org/x/tools v0.29.0
)
