// extract: reads berquerant/crd's SOURCE (go/parser, no execution of repo code), its
// embedded YAML dictionaries and chords.y, and writes Lean data files
// (Crd/Generated/*.lean).  It emits data only, never logic.
//
// usage: extract <repo> <outdir>
package main

import (
	"bufio"
	"fmt"
	"go/ast"
	"go/parser"
	"go/token"
	"go/types"
	"golang.org/x/tools/go/packages"
	"os"
	"path/filepath"
	"sort"
	"strconv"
	"strings"

	"gopkg.in/yaml.v3"
)

// ---------- values ----------

type Val interface{}
type Enum struct{ Name string }
type Str string
type Int int64
type Bool bool
type Field struct {
	Name string
	V    Val
}
type Struct struct {
	Type   string
	Fields []Field
}
type List []Val
type KV struct{ K, V Val }
type MapV []KV
type Call struct {
	Fun  string
	Args []Val
}

func (s Struct) get(name string) Val {
	for _, f := range s.Fields {
		if f.Name == name {
			return f.V
		}
	}
	return nil
}

// ---------- package loading ----------

type Pkg struct {
	dir    string
	fset   *token.FileSet
	files  []*ast.File
	consts map[string]ast.Expr // non-iota const / var initialisers
	enums  map[string]bool
	funcs  map[string]*ast.FuncDecl
	cache  map[string]Val
	busy   map[string]bool
}

func fatalf(f string, a ...any) {
	fmt.Fprintf(os.Stderr, "extract: "+f+"\n", a...)
	os.Exit(3)
}

func load(dir string) *Pkg {
	p := &Pkg{dir: dir, fset: token.NewFileSet(), consts: map[string]ast.Expr{}, enums: map[string]bool{},
		funcs: map[string]*ast.FuncDecl{}, cache: map[string]Val{}, busy: map[string]bool{}}
	ents, err := os.ReadDir(dir)
	if err != nil {
		fatalf("%v", err)
	}
	for _, e := range ents {
		n := e.Name()
		if !strings.HasSuffix(n, ".go") || strings.HasSuffix(n, "_test.go") {
			continue
		}
		src, err := os.ReadFile(filepath.Join(dir, n))
		if err != nil {
			fatalf("%v", err)
		}
		// honour build constraints of our own hook files: skip files guarded by the verif tag
		if strings.Contains(string(src), "//go:build verif") {
			continue
		}
		f, err := parser.ParseFile(p.fset, filepath.Join(dir, n), src, parser.ParseComments)
		if err != nil {
			fatalf("parse %s: %v", n, err)
		}
		p.files = append(p.files, f)
		for _, d := range f.Decls {
			switch d := d.(type) {
			case *ast.FuncDecl:
				name := d.Name.Name
				if d.Recv != nil && len(d.Recv.List) == 1 {
					name = recvName(d.Recv.List[0].Type) + "." + name
				}
				p.funcs[name] = d
			case *ast.GenDecl:
				if d.Tok != token.CONST && d.Tok != token.VAR {
					continue
				}
				usesIota := false
				if d.Tok == token.CONST {
					ast.Inspect(d, func(n ast.Node) bool {
						if id, ok := n.(*ast.Ident); ok && id.Name == "iota" {
							usesIota = true
						}
						return true
					})
				}
				for _, s := range d.Specs {
					vs := s.(*ast.ValueSpec)
					for i, nm := range vs.Names {
						if usesIota {
							p.enums[nm.Name] = true
							continue
						}
						if len(vs.Values) == len(vs.Names) {
							p.consts[nm.Name] = vs.Values[i]
						} else if len(vs.Values) == 1 && i == 0 {
							// x, _ = f(...)
							p.consts[nm.Name] = vs.Values[0]
						}
					}
				}
			}
		}
	}
	return p
}

func recvName(e ast.Expr) string {
	switch e := e.(type) {
	case *ast.StarExpr:
		return recvName(e.X)
	case *ast.Ident:
		return e.Name
	case *ast.IndexExpr:
		return recvName(e.X)
	}
	return "?"
}

func (p *Pkg) pos(n ast.Node) string { return p.fset.Position(n.Pos()).String() }

func (p *Pkg) ident(name string) Val {
	if v, ok := p.cache[name]; ok {
		return v
	}
	if p.enums[name] {
		return Enum{name}
	}
	e, ok := p.consts[name]
	if !ok {
		return Enum{name} // foreign or unknown identifier: keep symbolic
	}
	if p.busy[name] {
		fatalf("cyclic initialiser %s", name)
	}
	p.busy[name] = true
	v := p.eval(e)
	p.busy[name] = false
	p.cache[name] = v
	return v
}

func (p *Pkg) eval(e ast.Expr) Val {
	switch e := e.(type) {
	case *ast.BasicLit:
		switch e.Kind {
		case token.INT:
			n, err := strconv.ParseInt(e.Value, 0, 64)
			if err != nil {
				fatalf("%s: int %s", p.pos(e), e.Value)
			}
			return Int(n)
		case token.STRING:
			s, err := strconv.Unquote(e.Value)
			if err != nil {
				fatalf("%s: string %s", p.pos(e), e.Value)
			}
			return Str(s)
		case token.CHAR:
			s, err := strconv.Unquote(e.Value)
			if err != nil {
				fatalf("%s: char %s", p.pos(e), e.Value)
			}
			return Str(s)
		}
	case *ast.Ident:
		switch e.Name {
		case "true":
			return Bool(true)
		case "false":
			return Bool(false)
		case "nil":
			return nil
		}
		return p.ident(e.Name)
	case *ast.SelectorExpr:
		if x, ok := e.X.(*ast.Ident); ok {
			return Enum{x.Name + "." + e.Sel.Name}
		}
		return Enum{"?." + e.Sel.Name}
	case *ast.UnaryExpr:
		v := p.eval(e.X)
		switch e.Op {
		case token.SUB:
			if n, ok := v.(Int); ok {
				return -n
			}
		case token.AND:
			return v
		case token.NOT:
			if b, ok := v.(Bool); ok {
				return !b
			}
		}
		return Call{Fun: "unop" + e.Op.String(), Args: []Val{v}}
	case *ast.ParenExpr:
		return p.eval(e.X)
	case *ast.CompositeLit:
		typ := typeString(e.Type)
		allKV := len(e.Elts) > 0
		for _, el := range e.Elts {
			if _, ok := el.(*ast.KeyValueExpr); !ok {
				allKV = false
			}
		}
		_, isMap := e.Type.(*ast.MapType)
		if isMap {
			var m MapV
			for _, el := range e.Elts {
				kv := el.(*ast.KeyValueExpr)
				m = append(m, KV{p.evalElt(kv.Key), p.evalElt(kv.Value)})
			}
			return m
		}
		_, isArr := e.Type.(*ast.ArrayType)
		if isArr || (!allKV && e.Type != nil && len(e.Elts) > 0 && !looksStruct(e)) {
			var l List
			for _, el := range e.Elts {
				l = append(l, p.evalElt(el))
			}
			return l
		}
		if allKV {
			s := Struct{Type: typ}
			for _, el := range e.Elts {
				kv := el.(*ast.KeyValueExpr)
				k, ok := kv.Key.(*ast.Ident)
				if !ok {
					fatalf("%s: struct key", p.pos(kv))
				}
				s.Fields = append(s.Fields, Field{k.Name, p.evalElt(kv.Value)})
			}
			return s
		}
		var l List
		for _, el := range e.Elts {
			l = append(l, p.evalElt(el))
		}
		if len(l) == 0 && !isArr {
			return Struct{Type: typ}
		}
		return l
	case *ast.CallExpr:
		c := Call{Fun: typeString(e.Fun)}
		for _, a := range e.Args {
			c.Args = append(c.Args, p.eval(a))
		}
		return c
	case *ast.FuncLit:
		return Enum{"<func>"}
	case *ast.BinaryExpr:
		a, b := p.eval(e.X), p.eval(e.Y)
		ai, aok := a.(Int)
		bi, bok := b.(Int)
		if aok && bok {
			switch e.Op {
			case token.ADD:
				return ai + bi
			case token.SUB:
				return ai - bi
			case token.MUL:
				return ai * bi
			}
		}
		as, aok := a.(Str)
		bs, bok := b.(Str)
		if aok && bok && e.Op == token.ADD {
			return as + bs
		}
		return Call{Fun: "binop" + e.Op.String(), Args: []Val{a, b}}
	case *ast.IndexExpr:
		return Call{Fun: "index", Args: []Val{p.eval(e.X), p.eval(e.Index)}}
	}
	fatalf("%s: unsupported expression %T", p.pos(e), e)
	return nil
}

func looksStruct(e *ast.CompositeLit) bool {
	_, ok := e.Type.(*ast.Ident)
	return ok
}

func (p *Pkg) evalElt(e ast.Expr) Val {
	if cl, ok := e.(*ast.CompositeLit); ok && cl.Type == nil {
		// elided type: struct if all key-values with ident keys, else list
		allKV := len(cl.Elts) > 0
		for _, el := range cl.Elts {
			kv, ok := el.(*ast.KeyValueExpr)
			if !ok {
				allKV = false
				break
			}
			if _, ok := kv.Key.(*ast.Ident); !ok {
				allKV = false
			}
		}
		if allKV {
			s := Struct{}
			for _, el := range cl.Elts {
				kv := el.(*ast.KeyValueExpr)
				s.Fields = append(s.Fields, Field{kv.Key.(*ast.Ident).Name, p.evalElt(kv.Value)})
			}
			return s
		}
		var l List
		for _, el := range cl.Elts {
			l = append(l, p.evalElt(el))
		}
		return l
	}
	return p.eval(e)
}

func typeString(e ast.Expr) string {
	switch e := e.(type) {
	case nil:
		return ""
	case *ast.Ident:
		return e.Name
	case *ast.SelectorExpr:
		return typeString(e.X) + "." + e.Sel.Name
	case *ast.ArrayType:
		return "[]" + typeString(e.Elt)
	case *ast.MapType:
		return "map[" + typeString(e.Key) + "]" + typeString(e.Value)
	case *ast.StarExpr:
		return "*" + typeString(e.X)
	case *ast.IndexExpr:
		return typeString(e.X) + "[" + typeString(e.Index) + "]"
	case *ast.StructType:
		return "struct"
	case *ast.FuncLit:
		return "<func>"
	case *ast.CallExpr:
		return typeString(e.Fun) + "()"
	case *ast.ParenExpr:
		return typeString(e.X)
	}
	return fmt.Sprintf("%T", e)
}

// composite literals inside a function body, in source order
func (p *Pkg) litsIn(fn string) []Val {
	d, ok := p.funcs[fn]
	if !ok {
		fatalf("function %s not found in %s", fn, p.dir)
	}
	var out []Val
	ast.Inspect(d.Body, func(n ast.Node) bool {
		if cl, ok := n.(*ast.CompositeLit); ok {
			out = append(out, p.eval(cl))
			return false
		}
		return true
	})
	return out
}

// calls to a given function name inside a function body
func (p *Pkg) callsIn(fn, callee string) []Call {
	d, ok := p.funcs[fn]
	if !ok {
		fatalf("function %s not found in %s", fn, p.dir)
	}
	var out []Call
	ast.Inspect(d.Body, func(n ast.Node) bool {
		if c, ok := n.(*ast.CallExpr); ok && typeString(c.Fun) == callee {
			out = append(out, p.eval(c).(Call))
		}
		return true
	})
	return out
}

// ---------- Lean emission helpers ----------

var enumMap = map[string]string{
	// note.DegreeName
	"UnknownDegree": ".unknown", "MajorDegree": ".major", "MinorDegree": ".minor", "PerfectDegree": ".perfect",
	"AugmentedDegree": ".augmented", "DiminishedDegree": ".diminished",
	"DoublyAugmentedDegree": ".daug", "DoublyDiminishedDegree": ".ddim",
	// note.CoerceDegreeName
	"UnknownCoerceDegreeName": ".unknown", "MajorOrPerfectCoerceDegree": ".majPerf",
	"MinorOrDiminishedCoerceDegree": ".minDim", "AugmentedCoerceDegree": ".aug", "DiminishedCoerceDegree": ".dim",
	"DoublyAugmentedCoerceDegree": ".daug", "DoublyDiminishedCoerceDegree": ".ddim",
	// note.Name
	"UnknownName": ".unknown", "C": ".C", "D": ".D", "E": ".E", "F": ".F", "G": ".G", "A": ".A", "B": ".B",
	"note.C": ".C", "note.D": ".D", "note.E": ".E", "note.F": ".F", "note.G": ".G", "note.A": ".A", "note.B": ".B",
	// accidentals (note and op share names)
	"UnknownAccidental": ".unknown", "Natural": ".natural", "Sharp": ".sharp", "Flat": ".flat",
	"DoubleSharp": ".dsharp", "DoubleFlat": ".dflat",
	// op.DynamicSign
	"UnknownDynamicSign": ".unknown", "Pianissimo": ".pp", "Piano": ".p", "MezzoPiano": ".mp",
	"MezzoForte": ".mf", "Forte": ".f", "Fortissimo": ".ff", "op.MezzoPiano": ".mp",
	// tokens
	"SYLLABLE": ".SYLLABLE", "SLASH": ".SLASH", "LBRA": ".LBRA", "RBRA": ".RBRA", "COMMA": ".COMMA",
	"SEMICOLON": ".SEMICOLON", "SHARP": ".SHARP", "FLAT": ".FLAT", "NUMBER": ".NUMBER", "SYMBOL": ".SYMBOL",
	"REST": ".REST", "UNDERSCORE": ".UNDERSCORE", "LCBRA": ".LCBRA", "RCBRA": ".RCBRA", "EQUAL": ".EQUAL",
	"METADATA": ".METADATA",
}

func lean(v Val) string {
	switch v := v.(type) {
	case Enum:
		if s, ok := enumMap[v.Name]; ok {
			return s
		}
		fatalf("no Lean name for Go identifier %q", v.Name)
	case Str:
		return leanStr(string(v))
	case Int:
		if v < 0 {
			return fmt.Sprintf("(%d)", int64(v))
		}
		return fmt.Sprintf("%d", int64(v))
	case Bool:
		if v {
			return "true"
		}
		return "false"
	}
	fatalf("cannot emit %#v", v)
	return ""
}

func leanStr(s string) string {
	var b strings.Builder
	b.WriteByte('"')
	for _, r := range s {
		switch {
		case r == '"':
			b.WriteString("\\\"")
		case r == '\\':
			b.WriteString("\\\\")
		case r == '\n':
			b.WriteString("\\n")
		case r == '\t':
			b.WriteString("\\t")
		case r == '\r':
			b.WriteString("\\r")
		case r < 0x20 || r == 0x7f:
			b.WriteString(fmt.Sprintf("\\u{%x}", r))
		default:
			b.WriteRune(r)
		}
	}
	b.WriteByte('"')
	return b.String()
}

func leanChar(r rune) string { return fmt.Sprintf("(Char.ofNat 0x%x)", r) }

func asStruct(v Val, what string) Struct {
	s, ok := v.(Struct)
	if !ok {
		fatalf("%s: expected struct literal, got %#v", what, v)
	}
	return s
}
func asMap(v Val, what string) MapV {
	m, ok := v.(MapV)
	if !ok {
		fatalf("%s: expected map literal, got %T", what, v)
	}
	return m
}
func asList(v Val, what string) List {
	l, ok := v.(List)
	if !ok {
		fatalf("%s: expected list literal, got %T %#v", what, v, v)
	}
	return l
}
func asInt(v Val, what string) Int {
	i, ok := v.(Int)
	if !ok {
		fatalf("%s: expected int, got %#v", what, v)
	}
	return i
}
func asStr(v Val, what string) Str {
	s, ok := v.(Str)
	if !ok {
		fatalf("%s: expected string, got %#v", what, v)
	}
	return s
}

type out struct {
	b strings.Builder
}

func (o *out) f(format string, a ...any) { fmt.Fprintf(&o.b, format, a...) }

func (o *out) list(name, typ string, items []string) {
	o.f("def %s : %s :=\n  [", name, typ)
	for i, it := range items {
		if i > 0 {
			o.f(",\n   ")
		}
		o.f("%s", it)
	}
	o.f("]\n\n")
}

func write(dir, name string, o *out) {
	hdr := "-- GENERATED by /verif/extract from /repo's source on every run. Do not edit.\n"
	if err := os.WriteFile(filepath.Join(dir, name), []byte(hdr+o.b.String()), 0o644); err != nil {
		fatalf("%v", err)
	}
}

// ---------- tables ----------

func degreeLit(v Val, what string) string {
	s := asStruct(v, what)
	return fmt.Sprintf("⟨%s, %s⟩", lean(s.get("Value")), lean(s.get("Name")))
}

func genTables(repo, outdir string) {
	note := load(filepath.Join(repo, "note"))
	o := &out{}
	o.f("import Crd.Model.Types\nnamespace Crd.Generated\nopen Crd\n\n")

	// degreeSemitoneMap (source order = literal order; Go iterates it in map order)
	var items []string
	for _, kv := range asMap(note.ident("degreeSemitoneMap"), "degreeSemitoneMap") {
		items = append(items, fmt.Sprintf("(%s, %s)", degreeLit(kv.K, "degreeSemitoneMap key"), lean(kv.V)))
	}
	o.list("degreeSemitoneTable", "List (Degree × Int)", items)
	o.f("def octaveDegree : Degree := %s\n\n", degreeLit(note.ident("perfect8"), "perfect8"))
	o.f("def octaveSemitones : Int := %s\n\n", lean(note.ident("octaveSemitones")))

	items = nil
	for _, kv := range asMap(note.ident("degreeCoerceMap"), "degreeCoerceMap") {
		items = append(items, fmt.Sprintf("(%s, (%s : Coerce))", lean(kv.K), lean(kv.V)))
	}
	o.list("degreeCoerceTable", "List (Quality × Coerce)", items)

	items = nil
	for _, kv := range asMap(note.ident("stringCoerceDegreeNameMap"), "stringCoerceDegreeNameMap") {
		items = append(items, fmt.Sprintf("(%s, (%s : Coerce))", lean(kv.K), lean(kv.V)))
	}
	o.list("stringCoerceTable", "List (String × Coerce)", items)

	// ParseDegree's ordered symbol list
	lits := note.litsIn("ParseDegree")
	var sym List
	for _, l := range lits {
		if ll, ok := l.(List); ok && len(ll) > 0 {
			if _, ok := ll[0].(Struct); ok {
				sym = ll
			}
		}
	}
	if sym == nil {
		fatalf("ParseDegree: symbol list not found")
	}
	items = nil
	for _, e := range sym {
		s := asStruct(e, "ParseDegree entry")
		symv := s.get("symbol")
		if symv == nil {
			symv = Str("")
		}
		items = append(items, fmt.Sprintf("(%s, (%s : Coerce))", lean(symv), lean(s.get("name"))))
	}
	o.list("parseDegreeSymbols", "List (String × Coerce)", items)

	// GenerateDegrees' quality order
	lits = note.litsIn("GenerateDegrees")
	items = nil
	for _, e := range asList(lits[0], "GenerateDegrees names") {
		items = append(items, "("+lean(e)+" : Quality)")
	}
	o.list("generateDegreeNames", "List Quality", items)

	// CoerceDegreeName.Degree: the case table is logic; we record the try-order pairs
	items = nil
	for _, kv := range asMap(note.ident("nameSemitoneMap"), "nameSemitoneMap") {
		items = append(items, fmt.Sprintf("((%s : Letter), %s)", lean(kv.K), lean(kv.V)))
	}
	o.list("nameSemitoneTable", "List (Letter × Int)", items)
	items = nil
	for _, kv := range asMap(note.ident("nameStringMap"), "nameStringMap") {
		items = append(items, fmt.Sprintf("((%s : Letter), %s)", lean(kv.K), lean(kv.V)))
	}
	o.list("nameStringTable", "List (Letter × String)", items)
	items = nil
	for _, kv := range asMap(note.ident("accidentalSemitoneMap"), "accidentalSemitoneMap") {
		items = append(items, fmt.Sprintf("((%s : NAcc), %s)", lean(kv.K), lean(kv.V)))
	}
	o.list("naccSemitoneTable", "List (NAcc × Int)", items)
	items = nil
	for _, kv := range asMap(note.ident("accidentalStringMap"), "note.accidentalStringMap") {
		s := asStruct(kv.V, "accidentalStringMap value")
		items = append(items, fmt.Sprintf("((%s : NAcc), %s, %s)", lean(kv.K), lean(s.get("origin")), lean(s.get("simple"))))
	}
	o.list("naccStringTable", "List (NAcc × String × String)", items)
	// the letters tried by findNameBySemitone, in order
	lits = note.litsIn("Note.findNameBySemitone")
	items = nil
	for _, e := range asList(lits[0], "findNameBySemitone names") {
		items = append(items, "("+lean(e)+" : Letter)")
	}
	o.list("findNameOrder", "List Letter", items)
	// nameRing
	ring, ok := note.ident("nameRing").(Call)
	if !ok {
		fatalf("nameRing")
	}
	items = nil
	for _, e := range ring.Args {
		items = append(items, "("+lean(e)+" : Letter)")
	}
	o.list("nameRing", "List Letter", items)
	o.f("end Crd.Generated\n")
	write(outdir, "Tables.lean", o)
}

func genKeys(repo, outdir string) {
	op := load(filepath.Join(repo, "op"))
	o := &out{}
	o.f("import Crd.Model.Types\nnamespace Crd.Generated\nopen Crd\n\n")
	var items []string
	for _, kv := range asMap(op.ident("keyStringSignatures"), "keyStringSignatures") {
		items = append(items, fmt.Sprintf("(%s, %s)", lean(kv.K), lean(kv.V)))
	}
	o.list("keyStringSignatures", "List (String × Int)", items)
	items = nil
	for _, e := range asList(op.ident("flatSequence"), "flatSequence") {
		items = append(items, "("+lean(e)+" : Letter)")
	}
	o.list("flatSequence", "List Letter", items)
	// raw scale ring
	calls := op.callsIn("newRawScaleNotes", "util.MustNewRing")
	if len(calls) != 1 {
		fatalf("newRawScaleNotes: ring")
	}
	items = nil
	for _, e := range calls[0].Args {
		items = append(items, "("+lean(e)+" : Letter)")
	}
	o.list("scaleRing", "List Letter", items)
	// op accidental strings
	items = nil
	for _, kv := range asMap(op.ident("accidentalStringMap"), "op.accidentalStringMap") {
		items = append(items, fmt.Sprintf("((%s : Acc), %s)", lean(kv.K), lean(kv.V)))
	}
	o.list("accStringTable", "List (Acc × String)", items)
	// extra spellings accepted by op.NewAccidental's switch (case "x": return Y)
	items = nil
	if d, ok := op.funcs["NewAccidental"]; ok {
		ast.Inspect(d.Body, func(n ast.Node) bool {
			cc, ok := n.(*ast.CaseClause)
			if !ok {
				return true
			}
			if len(cc.Body) == 1 {
				if rs, ok := cc.Body[0].(*ast.ReturnStmt); ok && len(rs.Results) == 1 {
					for _, e := range cc.List {
						items = append(items, fmt.Sprintf("(%s, (%s : Acc))", lean(op.eval(e)), lean(op.eval(rs.Results[0]))))
					}
				}
			}
			return true
		})
	}
	o.list("accExtraSpellings", "List (String × Acc)", items)
	o.f("def minorKeyMark : String := %s\n\n", lean(op.ident("minorKeyMark")))
	kr, ok := op.ident("keyRegex").(Call)
	if !ok || len(kr.Args) != 1 {
		fatalf("keyRegex")
	}
	o.f("def keyRegexSource : String := %s\n\n", lean(kr.Args[0]))

	// circle seeds
	for _, fn := range []struct{ f, n string }{{"newMajorCircle", "majorSeeds"}, {"newMinorCircle", "minorSeeds"}} {
		lits := op.litsIn(fn.f)
		seeds := asList(lits[0], fn.f)
		items = nil
		for _, s := range seeds {
			c, ok := s.(Call)
			if !ok || len(c.Args) != 1 {
				fatalf("%s: seed shape", fn.f)
			}
			var ks []string
			for _, k := range asList(c.Args[0], "seed") {
				ks = append(ks, lean(k))
			}
			items = append(items, "["+strings.Join(ks, ", ")+"]")
		}
		o.list(fn.n, "List (List String)", items)
	}
	// conversion deltas: find(key, minorExpr, delta) calls
	type conv struct{ fn, name string }
	for _, c := range []conv{{"CircleOfFifth.Relative", "relativeDelta"}, {"CircleOfFifth.Dominant", "dominantDelta"}, {"CircleOfFifth.SubDominant", "subdominantDelta"}} {
		calls := op.callsIn(c.fn, "c.find")
		if len(calls) != 1 || len(calls[0].Args) != 3 {
			fatalf("%s: find call", c.fn)
		}
		o.f("def %s : Int := %s\n", c.name, lean(asInt(calls[0].Args[2], c.fn)))
		flips := 0
		if _, ok := calls[0].Args[1].(Bool); !ok {
			// !key.Minor is evaluated as Call/Enum; detect by source text
			d := op.funcs[c.fn]
			ast.Inspect(d.Body, func(n ast.Node) bool {
				if ce, ok := n.(*ast.CallExpr); ok && typeString(ce.Fun) == "c.find" {
					if u, ok := ce.Args[1].(*ast.UnaryExpr); ok && u.Op == token.NOT {
						flips = 1
					}
				}
				return true
			})
		}
		o.f("def %sFlipsMode : Bool := %v\n\n", strings.TrimSuffix(c.name, "Delta"), flips == 1)
	}
	// Parallel: delta assigned in if/else
	{
		d := op.funcs["CircleOfFifth.Parallel"]
		var vals []int64
		ast.Inspect(d.Body, func(n ast.Node) bool {
			if as, ok := n.(*ast.AssignStmt); ok && len(as.Lhs) == 1 && typeString(as.Lhs[0]) == "delta" {
				vals = append(vals, int64(asInt(op.eval(as.Rhs[0]), "parallel delta")))
			}
			return true
		})
		if len(vals) != 2 {
			fatalf("Parallel: deltas")
		}
		o.f("def parallelDeltaFromMinor : Int := %s\ndef parallelDeltaFromMajor : Int := %s\n\n", lean(Int(vals[0])), lean(Int(vals[1])))
	}
	// dynamics
	items = nil
	for _, kv := range asMap(op.ident("stringDynamicSignMap"), "stringDynamicSignMap") {
		items = append(items, fmt.Sprintf("(%s, (%s : Dyn))", lean(kv.K), lean(kv.V)))
	}
	o.list("dynamicStrings", "List (String × Dyn)", items)
	items = nil
	for _, kv := range asMap(op.ident("dynamicSignVelocityMap"), "dynamicSignVelocityMap") {
		items = append(items, fmt.Sprintf("((%s : Dyn), %s)", lean(kv.K), lean(kv.V)))
	}
	o.list("dynamicVelocities", "List (Dyn × Nat)", items)
	// diatonic names
	for _, fn := range []struct{ f, n string }{{"DiatonicChorderImpl.seventhNames", "seventh"}, {"DiatonicChorderImpl.triadNames", "triad"}} {
		lits := op.litsIn(fn.f)
		if len(lits) != 2 {
			fatalf("%s: expected 2 literals", fn.f)
		}
		for i, nm := range []string{"Minor", "Major"} {
			items = nil
			for _, e := range asList(lits[i], fn.f) {
				items = append(items, lean(e))
			}
			o.list(fn.n+"Names"+nm, "List String", items)
		}
	}
	o.f("end Crd.Generated\n")
	write(outdir, "Keys.lean", o)
}

func genDefaults(repo, outdir string) {
	play := load(filepath.Join(repo, "play"))
	midix := load(filepath.Join(repo, "midix"))
	input := load(filepath.Join(repo, "input"))
	o := &out{}
	o.f("import Crd.Model.Types\nnamespace Crd.Generated\nopen Crd\n\n")
	c, ok := play.ident("defaultBPM").(Call)
	if !ok || c.Fun != "op.NewBPM" {
		fatalf("defaultBPM")
	}
	o.f("def defaultBPM : Nat := %s\n", lean(c.Args[0]))
	c, ok = play.ident("defaultKey").(Call)
	if !ok || c.Fun != "op.MustParseKey" {
		fatalf("defaultKey")
	}
	o.f("def defaultKeyString : String := %s\n", lean(c.Args[0]))
	c, ok = play.ident("defaultMeter").(Call)
	if !ok || c.Fun != "op.MustNewMeter" {
		fatalf("defaultMeter")
	}
	o.f("def defaultMeter : Nat × Nat := (%s, %s)\n", lean(c.Args[0]), lean(c.Args[1]))
	o.f("def defaultVelocity : Dyn := %s\n", lean(play.ident("defaultVelocity")))
	mc := asStruct(play.ident("MiddleC"), "MiddleC")
	o.f("def middleCName : Letter := %s\ndef middleCOctave : Int := %s\n", lean(mc.get("Name")), lean(mc.get("Octave")))
	o.f("def defaultSequenceName : String := %s\n", lean(midix.ident("DefaultTrackSequenceName")))
	o.f("def defaultInstrument : String := %s\n", lean(midix.ident("DefaultInstrument")))
	o.f("def ticksPerQuarter : Nat := %s\n", lean(midix.ident("DefaultTicksPerQuoaterNote")))
	for _, k := range []string{"MetaTextKey", "MetaLyricKey", "MetaMarkerKey", "MetaBPMKey", "MetaVelocityKey", "MetaMeterKey", "MetaKeyKey"} {
		o.f("def %s : String := %s\n", strings.ToLower(k[:1])+k[1:], lean(input.ident(k)))
	}
	o.f("\nend Crd.Generated\n")
	write(outdir, "Defaults.lean", o)
}

// ---------- dictionary YAML ----------

type yChord struct {
	Name string `yaml:"name"`
	Meta struct {
		Display string `yaml:"display"`
	} `yaml:"meta"`
	Attributes []string `yaml:"attributes"`
	Extends    string   `yaml:"extends"`
}
type yAttr struct {
	Name   string `yaml:"name"`
	Degree string `yaml:"degree"`
}

func genDict(repo, outdir string) {
	chordPkg := load(filepath.Join(repo, "chord"))
	o := &out{}
	o.f("import Crd.Model.Types\nnamespace Crd.Generated\nopen Crd\n\n")
	var chords []yChord
	b, err := os.ReadFile(filepath.Join(repo, "chord", "chord.yml"))
	if err != nil {
		fatalf("%v", err)
	}
	if err := yaml.Unmarshal(b, &chords); err != nil {
		fatalf("chord.yml: %v", err)
	}
	var attrs []yAttr
	b, err = os.ReadFile(filepath.Join(repo, "chord", "attribute.yml"))
	if err != nil {
		fatalf("%v", err)
	}
	if err := yaml.Unmarshal(b, &attrs); err != nil {
		fatalf("attribute.yml: %v", err)
	}
	var items []string
	for _, c := range chords {
		var as []string
		for _, a := range c.Attributes {
			as = append(as, leanStr(a))
		}
		items = append(items, fmt.Sprintf("(%s, %s, [%s], %s)", leanStr(c.Name), leanStr(c.Meta.Display), strings.Join(as, ", "), leanStr(c.Extends)))
	}
	o.list("rawChords", "List (String × String × List String × String)", items)
	items = nil
	for _, a := range attrs {
		items = append(items, fmt.Sprintf("(%s, %s)", leanStr(a.Name), leanStr(a.Degree)))
	}
	o.list("rawAttributes", "List (String × String)", items)
	items = nil
	for _, kv := range asMap(chordPkg.ident("genAttrDegreeNamePrefix"), "genAttrDegreeNamePrefix") {
		k := kv.K.(Enum)
		k.Name = strings.TrimPrefix(k.Name, "note.")
		items = append(items, fmt.Sprintf("((%s : Quality), %s)", lean(k), lean(kv.V)))
	}
	o.list("genAttrPrefix", "List (Quality × String)", items)
	// go:generate ... gen attr -d N
	max := -1
	for _, f := range chordPkg.files {
		for _, cg := range f.Comments {
			for _, c := range cg.List {
				if strings.HasPrefix(c.Text, "//go:generate") && strings.Contains(c.Text, "gen attr") {
					fs := strings.Fields(c.Text)
					for i, x := range fs {
						if x == "-d" && i+1 < len(fs) {
							max, _ = strconv.Atoi(fs[i+1])
						}
					}
				}
			}
		}
	}
	if max < 0 {
		fatalf("go:generate gen attr -d N not found")
	}
	o.f("def genAttrMaxDegree : Nat := %d\n\nend Crd.Generated\n", max)
	write(outdir, "Dict.lean", o)
}

// ---------- lexer facts ----------

func genLex(repo, outdir string) {
	a := load(filepath.Join(repo, "input", "ast"))
	o := &out{}
	o.f("import Crd.Model.Types\nnamespace Crd.Generated\nopen Crd\n\n")
	d, ok := a.funcs["LexScanner.ScanFunc"]
	if !ok {
		fatalf("ScanFunc not found")
	}
	// the `switch r.Peek()` statement
	var sw *ast.SwitchStmt
	ast.Inspect(d.Body, func(n ast.Node) bool {
		if s, ok := n.(*ast.SwitchStmt); ok && s.Tag != nil && typeString(s.Tag) == "r.Peek()" {
			sw = s
		}
		return true
	})
	if sw == nil {
		fatalf("ScanFunc: switch r.Peek() not found")
	}
	var items []string
	commentRune := ""
	commentGuardEOF := false
	commentStop := ""
	for _, st := range sw.Body.List {
		cc := st.(*ast.CaseClause)
		var runes []string
		for _, e := range cc.List {
			s := string(asStr(a.eval(e), "case rune"))
			r := []rune(s)
			if len(r) != 1 {
				fatalf("case rune %q", s)
			}
			runes = append(runes, leanChar(r[0]))
		}
		// classify the body
		tok := ""
		setSym, setMeta := "none", "none"
		isComment := false
		for _, b := range cc.Body {
			switch b := b.(type) {
			case *ast.ReturnStmt:
				if c, ok := b.Results[0].(*ast.CallExpr); ok {
					switch typeString(c.Fun) {
					case "nextRet":
						id, ok := c.Args[0].(*ast.Ident)
						if !ok {
							fatalf("%s: nextRet argument", a.pos(c))
						}
						tok = lean(Enum{id.Name})
					case "lex.ScanFunc":
						isComment = true
					}
				}
			case *ast.ExprStmt:
				c, ok := b.X.(*ast.CallExpr)
				if !ok {
					fatalf("%s: unexpected statement in case", a.pos(b))
				}
				switch typeString(c.Fun) {
				case "lex.SetExpectSymbol":
					setSym = "some " + lean(a.eval(c.Args[0]))
				case "lex.SetExpectMetadata":
					setMeta = "some " + lean(a.eval(c.Args[0]))
				case "r.DiscardWhile":
					// func(r rune) bool { return r != '\n' [&& r != ybase.EOF] }
					fl := c.Args[0].(*ast.FuncLit)
					src := exprSrc(a, fl.Body)
					commentGuardEOF = strings.Contains(src, "ybase.EOF")
					ast.Inspect(fl.Body, func(n ast.Node) bool {
						if bl, ok := n.(*ast.BasicLit); ok && bl.Kind == token.CHAR {
							s, _ := strconv.Unquote(bl.Value)
							commentStop = leanChar([]rune(s)[0])
						}
						return true
					})
				default:
					fatalf("%s: unexpected call %s in case", a.pos(b), typeString(c.Fun))
				}
			default:
				fatalf("%s: unexpected statement %T in case", a.pos(b), b)
			}
		}
		if isComment {
			if len(runes) != 1 {
				fatalf("comment case with several runes")
			}
			commentRune = runes[0]
			continue
		}
		if tok == "" {
			fatalf("%s: case without nextRet", a.pos(cc))
		}
		for _, r := range runes {
			items = append(items, fmt.Sprintf("(%s, (%s : TK), (%s : Option Bool), (%s : Option Bool))", r, tok, setSym, setMeta))
		}
	}
	if commentRune == "" || commentStop == "" {
		fatalf("comment case not found")
	}
	o.list("singleRuneTokens", "List (Char × TK × Option Bool × Option Bool)", items)
	o.f("def commentStart : Char := %s\ndef commentStop : Char := %s\ndef commentGuardsEOF : Bool := %v\n\n", commentRune, commentStop, commentGuardEOF)

	stops := func(fn string) (string, bool) {
		d, ok := a.funcs[fn]
		if !ok {
			fatalf("%s not found", fn)
		}
		var s string
		found := false
		ast.Inspect(d.Body, func(n ast.Node) bool {
			if c, ok := n.(*ast.CallExpr); ok && typeString(c.Fun) == "strings.ContainsRune" {
				s = string(asStr(a.eval(c.Args[0]), fn))
				found = true
			}
			return true
		})
		if !found {
			fatalf("%s: strings.ContainsRune not found", fn)
		}
		return s, strings.Contains(exprSrc(a, d.Body), "ybase.EOF")
	}
	symStop, _ := stops("LexScanner.isBeginningOfNextOfSymbol")
	_, symEOF := "", strings.Contains(exprSrc(a, a.funcs["LexScanner.isSymbolRune"].Body), "ybase.EOF")
	metaStop, metaEOF := stops("LexScanner.isMetadataRune")
	chars := func(s string) string {
		var xs []string
		for _, r := range s {
			xs = append(xs, leanChar(r))
		}
		return "[" + strings.Join(xs, ", ") + "]"
	}
	o.f("def symbolStopRunes : List Char := %s\ndef symbolRuneGuardsEOF : Bool := %v\n", chars(symStop), symEOF)
	o.f("def symbolRuneExcludesSpace : Bool := %v\n", strings.Contains(exprSrc(a, a.funcs["LexScanner.isSymbolRune"].Body), "unicode.IsSpace"))
	o.f("def metadataStopRunes : List Char := %s\ndef metadataRuneGuardsEOF : Bool := %v\n", chars(metaStop), metaEOF)
	// scanSymbol / scanMetadata test EOF before looping
	o.f("def scanSymbolChecksEOF : Bool := %v\ndef scanMetadataChecksEOF : Bool := %v\n",
		strings.Contains(exprSrc(a, a.funcs["LexScanner.scanSymbol"].Body), "ybase.EOF"),
		strings.Contains(exprSrc(a, a.funcs["LexScanner.scanMetadata"].Body), "ybase.EOF"))
	o.f("\nend Crd.Generated\n")
	write(outdir, "Lex.lean", o)
}

func exprSrc(p *Pkg, n ast.Node) string {
	start := p.fset.Position(n.Pos())
	end := p.fset.Position(n.End())
	b, err := os.ReadFile(start.Filename)
	if err != nil {
		fatalf("%v", err)
	}
	return string(b[start.Offset:end.Offset])
}

// ---------- grammar ----------

// `meta` is a Lean keyword
func ntName(s string) string {
	if s == "meta" {
		return "metaN"
	}
	return s
}

func genGrammar(repo, outdir string) {
	f, err := os.Open(filepath.Join(repo, "input", "ast", "chords.y"))
	if err != nil {
		fatalf("%v", err)
	}
	defer f.Close()
	sc := bufio.NewScanner(f)
	var toks []string
	section := 0
	var body strings.Builder
	for sc.Scan() {
		line := sc.Text()
		if strings.TrimSpace(line) == "%%" {
			section++
			continue
		}
		if section == 0 {
			fs := strings.Fields(line)
			if len(fs) >= 3 && fs[0] == "%token" {
				toks = append(toks, fs[2:]...)
			}
			continue
		}
		if section == 1 {
			body.WriteString(line)
			body.WriteByte('\n')
		}
	}
	// strip { ... } actions (brace matching) and comments
	src := body.String()
	var clean strings.Builder
	depth := 0
	for i := 0; i < len(src); i++ {
		c := src[i]
		switch {
		case c == '{':
			depth++
		case c == '}':
			depth--
		case depth == 0:
			clean.WriteByte(c)
		}
	}
	words := strings.Fields(strings.NewReplacer(":", " : ", "|", " | ").Replace(clean.String()))
	isTok := map[string]bool{}
	for _, t := range toks {
		isTok[t] = true
	}
	type rule struct {
		lhs string
		rhs []string
	}
	var rules []rule
	// a word followed by ':' starts a new lhs
	cur := ""
	var rhs []string
	flush := func() {
		if cur != "" {
			rules = append(rules, rule{cur, rhs})
		}
		rhs = nil
	}
	for i := 0; i < len(words); i++ {
		w := words[i]
		if i+1 < len(words) && words[i+1] == ":" {
			flush()
			cur = w
			i++
			continue
		}
		if w == "|" {
			flush()
			continue
		}
		rhs = append(rhs, w)
	}
	flush()
	o := &out{}
	o.f("import Crd.Model.Types\nnamespace Crd.Generated\nopen Crd\n\n")
	var items []string
	for _, t := range toks {
		items = append(items, "("+lean(Enum{t})+" : TK)")
	}
	o.list("grammarTokens", "List TK", items)
	items = nil
	for i, r := range rules {
		var syms []string
		for _, s := range r.rhs {
			if isTok[s] {
				syms = append(syms, ".t "+lean(Enum{s}))
			} else {
				syms = append(syms, ".n ."+ntName(s))
			}
		}
		items = append(items, fmt.Sprintf("⟨%d, .%s, [%s]⟩", i+1, ntName(r.lhs), strings.Join(syms, ", ")))
	}
	o.list("grammarRules", "List Rule", items)
	o.f("end Crd.Generated\n")
	write(outdir, "Grammar.lean", o)
}

// ---------- sites: map ranges, goroutines, channels, time/rand, panics ----------

// argText prints the arguments of a call as written; long literals are shortened
func argText(c *ast.CallExpr) string {
	var parts []string
	for _, a := range c.Args {
		t := types.ExprString(a)
		if len(t) > 60 {
			t = t[:57] + "..."
		}
		parts = append(parts, t)
	}
	return strings.Join(parts, ", ")
}

func identOf(e ast.Expr) *ast.Ident {
	if id, ok := e.(*ast.Ident); ok {
		return id
	}
	return &ast.Ident{}
}

func rangeKind(t types.Type) string {
	if t == nil {
		return "unknown"
	}
	switch u := t.Underlying().(type) {
	case *types.Map:
		return "map"
	case *types.Slice, *types.Array:
		return "slice"
	case *types.Pointer:
		if _, ok := u.Elem().Underlying().(*types.Array); ok {
			return "slice"
		}
		return "unknown"
	case *types.Chan:
		return "chan"
	case *types.Signature:
		return "func"
	case *types.Basic:
		if u.Info()&types.IsString != 0 {
			return "string"
		}
		if u.Info()&types.IsInteger != 0 {
			return "int"
		}
	}
	return "unknown"
}

// genSites type-checks /repo's packages (go/packages, offline) and lists every construct whose behaviour can
// depend on something other than the program's input: ranges over maps, channels and iterator functions,
// goroutines, selects, channel sends, time/rand/env reads, and every panic/Must call.  Ranges over slices,
// arrays, strings and integers are deterministic and are only counted.
func genSites(repo, outdir string) {
	cfg := &packages.Config{
		Mode: packages.NeedName | packages.NeedFiles | packages.NeedSyntax | packages.NeedTypes | packages.NeedTypesInfo | packages.NeedImports | packages.NeedDeps,
		Dir:  repo,
		Env:  append(os.Environ(), "GOFLAGS=-mod=mod", "GOPROXY=off"),
	}
	pkgs, err := packages.Load(cfg, "./...")
	if err != nil {
		fatalf("go/packages: %v", err)
	}
	var sites, ioSites []string
	ordered := 0
	for _, pkg := range pkgs {
		if len(pkg.Errors) > 0 {
			fatalf("type errors in %s: %v", pkg.PkgPath, pkg.Errors[0])
		}
		if strings.HasSuffix(pkg.PkgPath, "/example") {
			continue
		}
		for _, f := range pkg.Syntax {
			path := pkg.Fset.Position(f.Pos()).Filename
			if strings.HasSuffix(path, "_test.go") || strings.HasSuffix(path, "_generated.go") || !strings.HasPrefix(path, repo) {
				continue
			}
			src, _ := os.ReadFile(path)
			if strings.Contains(string(src), "//go:build verif") {
				continue
			}
			rel, _ := filepath.Rel(repo, path)
			visit := func(fn string, root ast.Node, initOnly bool) {
				ast.Inspect(root, func(n ast.Node) bool {
					switch n := n.(type) {
					case *ast.GoStmt:
						sites = append(sites, fmt.Sprintf("go %s %s", rel, fn))
					case *ast.SelectStmt:
						sites = append(sites, fmt.Sprintf("select %s %s", rel, fn))
					case *ast.SendStmt:
						sites = append(sites, fmt.Sprintf("chansend %s %s", rel, fn))
					case *ast.RangeStmt:
						k := rangeKind(pkg.TypesInfo.TypeOf(n.X))
						switch k {
						case "slice", "string", "int":
							ordered++
						default:
							sites = append(sites, fmt.Sprintf("range-%s %s %s %s", k, rel, fn, typeString(n.X)))
						}
					case *ast.SelectorExpr:
						// every use of a function or variable of the packages input and output go through (io, bufio, os,
						// io/ioutil): the routes by which a subcommand reads its input and writes its result
						if id, ok := n.X.(*ast.Ident); ok {
							if pn, ok := pkg.TypesInfo.Uses[id].(*types.PkgName); ok {
								switch pn.Imported().Path() {
								case "io", "bufio", "os", "io/ioutil", "io/fs":
									switch pkg.TypesInfo.Uses[n.Sel].(type) {
									case *types.Func, *types.Var:
										ioSites = append(ioSites, fmt.Sprintf("%s %s %s.%s", rel, fn, pn.Imported().Path(), n.Sel.Name))
									}
								}
							}
						}
					case *ast.CompositeLit:
						if t := pkg.TypesInfo.TypeOf(n); t != nil {
							if nt, ok := t.(*types.Named); ok && nt.Obj().Pkg() != nil {
								switch nt.Obj().Pkg().Path() {
								case "io", "bufio", "os", "io/ioutil", "io/fs":
									ioSites = append(ioSites, fmt.Sprintf("%s %s %s.%s{}", rel, fn, nt.Obj().Pkg().Path(), nt.Obj().Name()))
								}
							}
						}
					case *ast.CallExpr:
						name := typeString(n.Fun)
						// a direct Read/ReadAt/Seek on a reader takes part of the input only
						if sel, ok := n.Fun.(*ast.SelectorExpr); ok {
							switch sel.Sel.Name {
							case "Read", "ReadAt", "ReadByte", "ReadRune", "ReadLine", "ReadSlice", "ReadString", "ReadBytes", "Peek", "Seek", "Scan", "Buffer", "Truncate", "Stat":
								if _, isPkg := pkg.TypesInfo.Uses[identOf(sel.X)].(*types.PkgName); !isPkg {
									if t := pkg.TypesInfo.TypeOf(sel.X); t != nil && (strings.Contains(t.String(), "io.") || strings.Contains(t.String(), "os.") || strings.Contains(t.String(), "bufio.")) {
										ioSites = append(ioSites, fmt.Sprintf("%s %s (%s).%s", rel, fn, t.String(), sel.Sel.Name))
									}
								}
							}
						}
						// a method called on a value whose type is a map underneath (util.Set): its iteration order is the map's
						if sel, ok := n.Fun.(*ast.SelectorExpr); ok {
							if t := pkg.TypesInfo.TypeOf(sel.X); t != nil {
								if _, isMap := t.Underlying().(*types.Map); isMap && sel.Sel.Name != "In" && sel.Sel.Name != "Len" && sel.Sel.Name != "Get" && sel.Sel.Name != "Set" {
									sites = append(sites, fmt.Sprintf("mapcall %s %s %s", rel, fn, name))
								}
							}
						}
						if name == "slices.Collect" || name == "slices.AppendSeq" {
							sites = append(sites, fmt.Sprintf("collect %s %s %s(%s)", rel, fn, name, argText(n)))
						}
						switch {
						case name == "panic" || strings.HasPrefix(name, "logx.Panic"):
							sites = append(sites, fmt.Sprintf("panic %s %s %s(%s)", rel, fn, name, argText(n)))
						case strings.Contains(name, "Must"):
							sites = append(sites, fmt.Sprintf("must %s %s %s(%s)", rel, fn, name, argText(n)))
						case strings.HasPrefix(name, "slices.Sort") || strings.HasPrefix(name, "sort."):
							sites = append(sites, fmt.Sprintf("sort %s %s %s", rel, fn, name))
						case strings.HasPrefix(name, "time.") || strings.HasPrefix(name, "rand.") || name == "os.Getenv" || name == "maps.Keys" || name == "maps.Values" || name == "maps.All":
							sites = append(sites, fmt.Sprintf("env %s %s %s", rel, fn, name))
						}
					}
					return true
				})
			}
			for _, d := range f.Decls {
				switch d := d.(type) {
				case *ast.FuncDecl:
					if d.Body == nil {
						continue
					}
					fn := d.Name.Name
					if d.Recv != nil && len(d.Recv.List) == 1 {
						fn = recvName(d.Recv.List[0].Type) + "." + fn
					}
					visit(fn, d.Body, false)
				case *ast.GenDecl:
					if d.Tok != token.VAR {
						continue
					}
					for _, sp := range d.Specs {
						vs, ok := sp.(*ast.ValueSpec)
						if !ok {
							continue
						}
						name := "<init>"
						// a cobra command literal: name the site after the variable
						for _, v := range vs.Values {
							hasFunc := false
							ast.Inspect(v, func(n ast.Node) bool {
								if _, ok := n.(*ast.FuncLit); ok {
									hasFunc = true
								}
								return !hasFunc
							})
							if hasFunc && len(vs.Names) > 0 {
								name = vs.Names[0].Name
							}
							visit(name, v, true)
						}
					}
				}
			}
		}
	}
	sort.Strings(sites)
	o := &out{}
	o.f("namespace Crd.Generated\n\n")
	var items []string
	for _, s := range sites {
		items = append(items, leanStr(s))
	}
	o.list("sites", "List String", items)
	var oitems, pitems []string
	for _, s := range sites {
		if !strings.HasPrefix(s, "must ") && !strings.HasPrefix(s, "panic ") {
			oitems = append(oitems, leanStr(s))
		} else {
			pitems = append(pitems, leanStr(s))
		}
	}
	o.f("/-- every call that panics by design (`panic`, `logx.Panic*`, `Must*`) with its arguments as written (C09) -/\n")
	o.list("panicSites", "List String", pitems)
	o.f("/-- the sites whose behaviour can depend on something other than the input (C12) -/\n")
	o.list("orderSites", "List String", oitems)
	sort.Strings(ioSites)
	var ioitems []string
	for _, s := range ioSites {
		ioitems = append(ioitems, leanStr(s))
	}
	o.f("/-- every use of the io, bufio and os packages: how input is read and output written (whole, never a part) -/\n")
	o.list("ioSites", "List String", ioitems)
	o.f("/-- ranges over slices, arrays, strings and integers (deterministic order) -/\ndef orderedRanges : Nat := %d\n\n", ordered)
	o.f("end Crd.Generated\n")
	write(outdir, "Sites.lean", o)
}

func main() {
	if len(os.Args) != 3 {
		fatalf("usage: extract <repo> <outdir>")
	}
	repo, outdir := os.Args[1], os.Args[2]
	if err := os.MkdirAll(outdir, 0o755); err != nil {
		fatalf("%v", err)
	}
	genTables(repo, outdir)
	genKeys(repo, outdir)
	genDefaults(repo, outdir)
	genDict(repo, outdir)
	genLex(repo, outdir)
	genGrammar(repo, outdir)
	genSites(repo, outdir)
}
