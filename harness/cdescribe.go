package main

// cdescribe: `crd info chord describe` through the real binary, with user dictionaries.  One run describes several
// intervals one after the other; each must come out exactly as when it is described alone (`info attr describe`), and
// as the model's Note.addDegree says (root + interval: note name and octave offset).  The chords list compound
// intervals before and after simple ones of the same class, repeat an interval, and inherit from built-in chords.

import (
	"fmt"
	"os"
	"path/filepath"
	"sort"
	"strings"
	"sync"
	"time"

	"gopkg.in/yaml.v3"
)

func init() { streams["cdescribe"] = streamCdescribe }

type describedAttr struct {
	name, semitone, applied, oct string
}

func parseAttrInfo(n *yaml.Node) describedAttr {
	var d describedAttr
	if a := mapGet(n, "attribute"); a != nil {
		if x := mapGet(a, "name"); x != nil {
			d.name = scalar(x)
		}
	}
	get := func(k, def string) string {
		if x := mapGet(n, k); x != nil {
			return scalar(x)
		}
		return def
	}
	d.semitone, d.applied, d.oct = get("semitone", "?"), get("applied", "?"), get("octave_diff", "0")
	return d
}

// the symbol as it can follow a root in a chord text: `_` first where the lexer would otherwise read its first rune
// as something else (a digit, an accidental, a note letter, a rest)
func describeSym(sym string) string {
	if sym == "" {
		return ""
	}
	c := sym[0]
	if c >= 'a' && c <= 'z' && c != 'b' {
		return sym
	}
	return "_" + sym
}

func streamCdescribe() {
	s, done := openStream("cdescribe")
	defer done()
	r := rng("cdescribe")
	// the built-in attribute names
	var builtin []string
	{
		res := runCrd(nil, 20*time.Second, "info", "attr", "list")
		var doc yaml.Node
		if res.class() == "ok" && yaml.Unmarshal(res.stdout, &doc) == nil && len(doc.Content) == 1 {
			for _, e := range doc.Content[0].Content {
				if x := mapGet(e, "name"); x != nil {
					builtin = append(builtin, scalar(x))
				}
			}
		}
		if len(builtin) == 0 {
			builtin = []string{"Perfect1", "Major3", "Perfect5", "Major9", "Major16"}
		}
		s.stats["builtin-attributes"] = len(builtin)
	}
	classOf := func(name string) (string, int) { // "Major16" -> ("Major", 16)
		i := len(name)
		for i > 0 && name[i-1] >= '0' && name[i-1] <= '9' {
			i--
		}
		n := 0
		fmt.Sscan(name[i:], &n)
		return name[:i], n
	}
	byClass := map[string][]string{} // quality + number mod 7 -> names
	for _, b := range builtin {
		q, n := classOf(b)
		if n > 0 {
			k := fmt.Sprintf("%s%d", q, n%7)
			byClass[k] = append(byClass[k], b)
		}
	}
	var classes []string
	for k, v := range byClass {
		if len(v) >= 2 {
			classes = append(classes, k)
		}
	}
	sort.Strings(classes)
	type dcase struct {
		letter, acc int
		sym         string
		sharp       bool
		plain       bool // interval numbers of the attribute file written without quotes
		attrs       []rawAttr
		chords      []rawChordDef
	}
	var cases []dcase
	userDegrees := []string{"9", "b9", "#9", "16", "23", "b17", "#11", "15", "8", "22", "b3", "10", "b10", "17", "2", "b2", "30", "bb7", "bb14", "#4", "#18",
		"010", "011", "09", "016", "017", "b010", "007", "0x10", "+5", "1_0"}
	for i := 0; i < pick(700, 12000); i++ {
		var c dcase
		c.letter, c.acc, c.sharp, c.plain = 1+r.Intn(7), 1+r.Intn(3), r.Intn(2) == 0, r.Intn(3) == 0
		pool := append([]string{}, builtin...)
		for k := 0; k < r.Intn(4); k++ {
			n := fmt.Sprintf("U%d", k)
			c.attrs = append(c.attrs, rawAttr{name: n, degree: sp(userDegrees[r.Intn(len(userDegrees))])})
			pool = append(pool, n, n)
		}
		if r.Intn(8) == 0 { // a built-in interval name given another size
			c.attrs = append(c.attrs, rawAttr{name: builtin[r.Intn(len(builtin))], degree: sp(userDegrees[r.Intn(len(userDegrees))])})
		}
		nch := 1 + r.Intn(3)
		for k := 0; k < nch; k++ {
			d := rawChordDef{name: fmt.Sprintf("Y%d", k), display: fmt.Sprintf("y%d", k)}
			switch r.Intn(4) {
			case 0: // one class, several octaves, in any order (the larger one may come first)
				names := byClass[classes[r.Intn(len(classes))]]
				for _, j := range r.Perm(len(names))[:2+r.Intn(len(names)-1)] {
					d.attrs = append(d.attrs, names[j])
				}
			case 1: // large before small
				for n := 0; n < 2+r.Intn(4); n++ {
					d.attrs = append(d.attrs, pool[r.Intn(len(pool))])
				}
				if r.Intn(2) == 0 {
					d.attrs = append(d.attrs, d.attrs[0])
				}
			default:
				for n := 0; n < 1+r.Intn(5); n++ {
					d.attrs = append(d.attrs, pool[r.Intn(len(pool))])
				}
			}
			if r.Intn(3) == 0 {
				d.extends = []string{"MajorTriad", "m7", "9", "M9", "y0", "Y0"}[r.Intn(6)]
			}
			c.chords = append(c.chords, d)
		}
		c.sym = c.chords[r.Intn(len(c.chords))].display
		if r.Intn(5) == 0 { // a built-in long name defined again under a new symbol; the old symbol still means the old chord
			bn := [][2]string{{"DominantSeventh", "7"}, {"MinorSeventh", "m7"}, {"MajorSeventh", "M7"}, {"Sixth", "6"}, {"DiminishedTriad", "dim"}, {"SuspendedFourth", "sus4"}, {"MinorTriad", "m"}}[r.Intn(7)]
			d := rawChordDef{name: bn[0], display: fmt.Sprintf("z%d", r.Intn(3)), attrs: []string{"Perfect1", pool[r.Intn(len(pool))], pool[r.Intn(len(pool))]}}
			if r.Intn(3) == 0 {
				d.extends = bn[1]
			}
			c.chords = append(c.chords, d)
			c.sym = []string{bn[1], bn[0], d.display}[r.Intn(3)]
		}
		if r.Intn(6) == 0 {
			c.sym = []string{"", "m7", "M9", "7", "aug", "nosuch"}[r.Intn(6)]
		}
		cases = append(cases, c)
	}
	// every built-in chord on every root, and the classes of intervals in both orders
	for _, sym := range symbols {
		for l := 1; l <= 7; l++ {
			for a := 1; a <= 3; a++ {
				if thorough() || r.Intn(6) == 0 {
					cases = append(cases, dcase{letter: l, acc: a, sym: sym, sharp: r.Intn(2) == 0})
				}
			}
		}
	}
	for _, k := range classes {
		names := byClass[k]
		for i := range names {
			for j := range names {
				if i != j && (thorough() || r.Intn(4) == 0) {
					cases = append(cases, dcase{letter: 1 + r.Intn(7), acc: 1 + r.Intn(3), sym: "pq", sharp: r.Intn(2) == 0,
						chords: []rawChordDef{{name: "Pair", display: "pq", attrs: []string{names[i], names[j], names[i]}}}})
				}
			}
		}
	}
	letters := "CDEFGAB"
	accs := []string{"", "#", "b"}
	// the Unicode signs the lexer takes for `#` and `b` are the same roots
	uaccs := []string{"", "♯", "♭"}
	type alone struct {
		d  describedAttr
		ok bool
	}
	var mu sync.Mutex
	results := make([]string, len(cases))
	problems := make([][]string, len(cases))
	parallel(len(cases), func(i int) {
		c := cases[i]
		dir := filepath.Join(outDir, fmt.Sprintf("cdesc-%d", i))
		must(os.MkdirAll(dir, 0o755))
		defer os.RemoveAll(dir)
		var dictArgs []string
		var st *yamlStyle
		if c.plain {
			st = &yamlStyle{kind: "plain"}
		}
		a, ch := dictYAMLStyled(c.attrs, c.chords, st)
		if len(c.attrs) > 0 {
			must(os.WriteFile(filepath.Join(dir, "attr.yml"), []byte(a), 0o644))
			dictArgs = append(dictArgs, "--attr", filepath.Join(dir, "attr.yml"))
		}
		if len(c.chords) > 0 {
			must(os.WriteFile(filepath.Join(dir, "chord.yml"), []byte(ch), 0o644))
			dictArgs = append(dictArgs, "--chord", filepath.Join(dir, "chord.yml"))
		}
		root := string(letters[c.letter-1]) + accs[c.acc-1]
		if i%5 == 2 {
			root = string(letters[c.letter-1]) + uaccs[c.acc-1]
		}
		args := append([]string{"info", "chord", "describe", "-t", root + describeSym(c.sym)}, dictArgs...)
		if c.sharp {
			args = append(args, "-s")
		}
		res := runCrd(nil, 20*time.Second, args...)
		switch res.class() {
		case "crash":
			results[i] = "crash"
			return
		case "err":
			results[i] = "err"
			return
		}
		var doc yaml.Node
		if err := yaml.Unmarshal(res.stdout, &doc); err != nil || len(doc.Content) != 1 {
			results[i] = "bad-yaml"
			return
		}
		var items []string
		cache := map[string]alone{}
		if as := mapGet(doc.Content[0], "attributes"); as != nil {
			for _, e := range as.Content {
				d := parseAttrInfo(e)
				items = append(items, strings.Join([]string{hx(d.name), d.semitone, hx(d.applied), d.oct}, " "))
				// the same interval described alone
				al, seen := cache[d.name]
				if !seen {
					aargs := append([]string{"info", "attr", "describe", "-t", d.name, "-r", root}, dictArgs...)
					if c.sharp {
						aargs = append(aargs, "-s")
					}
					ar := runCrd(nil, 20*time.Second, aargs...)
					var adoc yaml.Node
					if ar.class() == "ok" && yaml.Unmarshal(ar.stdout, &adoc) == nil && len(adoc.Content) == 1 {
						al = alone{parseAttrInfo(adoc.Content[0]), true}
					}
					cache[d.name] = al
				}
				if al.ok && al.d != d {
					problems[i] = append(problems[i], fmt.Sprintf("%s on %s is described as %s/%s semitones/octave %s inside the chord and as %s/%s/%s alone",
						d.name, root, d.applied, d.semitone, d.oct, al.d.applied, al.d.semitone, al.d.oct))
				}
			}
		}
		mu.Lock()
		s.stat("attributes-described")
		mu.Unlock()
		results[i] = "ok " + pList(items)
	})
	for i, c := range cases {
		var as, cs []string
		for _, a := range c.attrs {
			as = append(as, hx(a.name)+" "+pOptHx(a.degree))
		}
		for _, d := range c.chords {
			var xs []string
			for _, x := range d.attrs {
				xs = append(xs, hx(x))
			}
			cs = append(cs, strings.Join([]string{hx(d.name), hx(d.display), pList(xs), hx(d.extends)}, " "))
		}
		s.add(fmt.Sprintf("cdescribe %d %d %s %s %s %s", c.letter, c.acc, hx(c.sym), b01(c.sharp), pList(as), pList(cs)), results[i])
		s.stat("class-" + strings.SplitN(results[i], " ", 2)[0])
		for _, p := range problems[i] {
			_, ch := dictYAML(c.attrs, c.chords)
			s.violate("C15", "an interval is described differently inside a chord and alone", fmt.Sprintf("crd info chord describe -t %s%s (sharp=%v) with chords:\n%s", string(letters[c.letter-1])+accs[c.acc-1], describeSym(c.sym), c.sharp, ch), p)
		}
	}
}
