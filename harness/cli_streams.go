package main

import (
	"regexp"
	"bytes"
	"fmt"
	"math/rand"
	"os"
	"path/filepath"
	"sort"
	"strings"
	"time"

	"gopkg.in/yaml.v3"
)

func init() {
	streams["conv"] = streamConv
	streams["write"] = streamWrite
	streams["dict"] = streamDict
}

// ---------- raw instances (scalars as the strings that appear in YAML) ----------

type rawChord struct {
	degree *string
	name   string
	base   *string
}
type rawInstance struct {
	chord    *rawChord
	values   []string
	bpm      *string
	velocity *string
	meter    *string
	key      *string
	meta     *[][2]string // unique keys
}

func pOptHx(s *string) string {
	if s == nil {
		return "~"
	}
	return "+ " + hx(*s)
}

func (r rawInstance) proto() string {
	chord := "~"
	if c := r.chord; c != nil {
		chord = "+ " + strings.Join([]string{pOptHx(c.degree), hx(c.name), pOptHx(c.base)}, " ")
	}
	var vals []string
	for _, v := range r.values {
		vals = append(vals, hx(v))
	}
	meta := "~"
	if r.meta != nil {
		m := append([][2]string{}, (*r.meta)...)
		sort.Slice(m, func(i, j int) bool { return m[i][0] < m[j][0] })
		var kv []string
		for _, x := range m {
			kv = append(kv, hx(x[0])+" "+hx(x[1]))
		}
		meta = "+ " + pList(kv)
	}
	return strings.Join([]string{chord, pList(vals), pOptHx(r.bpm), pOptHx(r.velocity), pOptHx(r.meter), pOptHx(r.key), meta}, " ")
}

func yq(s string) string {
	var b strings.Builder
	b.WriteByte('"')
	for _, r := range s {
		switch r {
		case '"':
			b.WriteString(`\"`)
		case '\\':
			b.WriteString(`\\`)
		case '\n':
			b.WriteString(`\n`)
		case '\t':
			b.WriteString(`\t`)
		case '\r':
			b.WriteString(`\r`)
		case 0x85:
			b.WriteString(`\N`) // written raw, yaml reads these as line breaks and folds them
		case 0x2028:
			b.WriteString(`\L`)
		case 0x2029:
			b.WriteString(`\P`)
		case 0xfeff:
			b.WriteString(`\uFEFF`) // a byte order mark inside a document is not allowed unescaped
		default:
			if r < 0x20 || r == 0x7f {
				b.WriteString(fmt.Sprintf(`\x%02x`, r))
			} else {
				b.WriteRune(r)
			}
		}
	}
	b.WriteByte('"')
	return b.String()
}

// how the scalars of a document are spelled: "" / "quoted" (double quotes everywhere), "plain" (no quotes where YAML
// allows it, so `010`, `0x10`, `+1` arrive as what YAML calls integers), "single" (single quotes), "alias" (a text or
// value that occurred before is referred to by a YAML alias, a metadata map that occurred before by an alias or a
// `<<` merge).  All spellings denote the same strings.
type yamlStyle struct {
	kind    string
	anchors map[string]string // text -> anchor name
	metas   []string          // anchored metadata maps (canonical text), index = anchor number
	metaKV  [][][2]string
}

var plainSafe = regexp.MustCompile(`^[0-9A-Za-z+][0-9A-Za-z#+/_]*$`)
var yamlWords = map[string]bool{"null": true, "Null": true, "NULL": true, "true": true, "True": true, "TRUE": true, "false": true, "False": true, "FALSE": true,
	"yes": true, "no": true, "on": true, "off": true, "y": true, "n": true, "Y": true, "N": true, "Yes": true, "No": true, "On": true, "Off": true}

func (st *yamlStyle) scalar(s string) string {
	if st == nil {
		return yq(s)
	}
	switch st.kind {
	case "plain":
		if plainSafe.MatchString(s) && !yamlWords[s] {
			return s
		}
	case "single":
		ok := s != ""
		for _, r := range s {
			if r == '\'' || r < 0x20 || r == 0x7f || r == 0x85 || r == 0x2028 || r == 0x2029 || r == 0xfeff {
				ok = false
			}
		}
		if ok && !strings.HasPrefix(s, " ") && !strings.HasSuffix(s, " ") {
			return "'" + s + "'"
		}
	}
	return yq(s)
}

// a text that may be referred to again
func (st *yamlStyle) text(s string) string {
	if st == nil || st.kind != "alias" {
		return st.scalar(s)
	}
	if a, ok := st.anchors[s]; ok {
		return "*" + a
	}
	a := fmt.Sprintf("a%d", len(st.anchors))
	st.anchors[s] = a
	return "&" + a + " " + yq(s)
}

func (r rawInstance) yaml(b *strings.Builder) { r.yamlStyled(b, nil) }

func (r rawInstance) yamlStyled(b *strings.Builder, st *yamlStyle) {
	b.WriteString("- ")
	first := true
	line := func(s string) {
		if !first {
			b.WriteString("  ")
		}
		first = false
		b.WriteString(s)
		b.WriteByte('\n')
	}
	if c := r.chord; c != nil {
		line("chord:")
		if c.degree != nil {
			line("  degree: " + st.scalar(*c.degree))
		}
		line("  name: " + st.scalar(c.name))
		if c.base != nil {
			line("  base: " + st.scalar(*c.base))
		}
	}
	if len(r.values) == 0 {
		line("values: []")
	} else if st != nil && st.kind == "plain" && len(r.values)%2 == 0 {
		var vs []string
		for _, v := range r.values {
			vs = append(vs, st.scalar(v))
		}
		line("values: [" + strings.Join(vs, ", ") + "]")
	} else {
		line("values:")
		for _, v := range r.values {
			line("  - " + st.text(v))
		}
	}
	if r.bpm != nil {
		line("bpm: " + st.scalar(*r.bpm))
	}
	if r.velocity != nil {
		line("velocity: " + st.scalar(*r.velocity))
	}
	if r.meter != nil {
		line("meter: " + st.scalar(*r.meter))
	}
	if r.key != nil {
		line("key: " + st.scalar(*r.key))
	}
	if r.meta != nil {
		if len(*r.meta) == 0 {
			line("meta: {}")
			return
		}
		if st != nil && st.kind == "alias" {
			canon := func(kv [][2]string) string {
				m := append([][2]string{}, kv...)
				sort.Slice(m, func(i, j int) bool { return m[i][0] < m[j][0] })
				return fmt.Sprint(m)
			}
			me := canon(*r.meta)
			for i, prev := range st.metas {
				if prev == me {
					line(fmt.Sprintf("meta: *m%d", i))
					return
				}
			}
			// an earlier map whose entries are all here: merge it and add the rest
			for i, prev := range st.metaKV {
				have := map[[2]string]bool{}
				for _, kv := range *r.meta {
					have[kv] = true
				}
				sub := len(prev) > 0 && len(prev) < len(*r.meta)
				for _, kv := range *r.meta {
					if kv[0] == "<<" { // yaml.v3 takes a quoted "<<" next to a merge for a duplicate key
						sub = false
					}
				}
				for _, kv := range prev {
					if !have[kv] {
						sub = false
					}
				}
				if sub {
					in := map[[2]string]bool{}
					for _, kv := range prev {
						in[kv] = true
					}
					line("meta:")
					line(fmt.Sprintf("  <<: *m%d", i))
					for _, kv := range *r.meta {
						if !in[kv] {
							line("  " + yq(kv[0]) + ": " + st.text(kv[1]))
						}
					}
					return
				}
			}
			line(fmt.Sprintf("meta: &m%d", len(st.metas)))
			st.metas = append(st.metas, me)
			st.metaKV = append(st.metaKV, *r.meta)
			for _, kv := range *r.meta {
				line("  " + yq(kv[0]) + ": " + st.text(kv[1]))
			}
			return
		}
		line("meta:")
		for _, kv := range *r.meta {
			line("  " + yq(kv[0]) + ": " + st.scalar(kv[1]))
		}
	}
}

func yamlDoc(is []rawInstance) string { return yamlDocStyled(is, "") }

func yamlDocStyled(is []rawInstance, kind string) string {
	if len(is) == 0 {
		return "[]\n"
	}
	var st *yamlStyle
	if kind != "" && kind != "quoted" {
		st = &yamlStyle{kind: kind, anchors: map[string]string{}}
	}
	var b strings.Builder
	for _, i := range is {
		i.yamlStyled(&b, st)
	}
	return b.String()
}

// ---------- decoding crd's YAML output into raw instances without crd's own types ----------

func scalar(n *yaml.Node) string { return n.Value }

func mapGet(n *yaml.Node, key string) *yaml.Node {
	if n == nil || n.Kind != yaml.MappingNode {
		return nil
	}
	for i := 0; i+1 < len(n.Content); i += 2 {
		if n.Content[i].Value == key {
			return n.Content[i+1]
		}
	}
	return nil
}

func optScalar(n *yaml.Node, key string) *string {
	x := mapGet(n, key)
	if x == nil {
		return nil
	}
	s := scalar(x)
	return &s
}

func rawFromYAML(out []byte) ([]rawInstance, error) {
	var doc yaml.Node
	if err := yaml.Unmarshal(out, &doc); err != nil {
		return nil, err
	}
	if len(doc.Content) != 1 || doc.Content[0].Kind != yaml.SequenceNode {
		return nil, fmt.Errorf("not a sequence")
	}
	var res []rawInstance
	for _, it := range doc.Content[0].Content {
		var r rawInstance
		if c := mapGet(it, "chord"); c != nil {
			rc := rawChord{degree: optScalar(c, "degree"), base: optScalar(c, "base")}
			if nm := mapGet(c, "name"); nm != nil {
				rc.name = scalar(nm)
			}
			r.chord = &rc
		}
		if v := mapGet(it, "values"); v != nil {
			for _, x := range v.Content {
				r.values = append(r.values, scalar(x))
			}
		}
		r.bpm = optScalar(it, "bpm")
		r.velocity = optScalar(it, "velocity")
		r.meter = optScalar(it, "meter")
		r.key = optScalar(it, "key")
		if m := mapGet(it, "meta"); m != nil {
			var kv [][2]string
			for i := 0; i+1 < len(m.Content); i += 2 {
				kv = append(kv, [2]string{m.Content[i].Value, m.Content[i+1].Value})
			}
			r.meta = &kv
		}
		res = append(res, r)
	}
	return res, nil
}

// ---------- conv: crd text conv syllable|degree ----------

type convCase struct {
	mode, key string
	text      []byte
}

func (c convCase) req() string { return fmt.Sprintf("conv %s %s %s", c.mode, hx(c.key), hxb(c.text)) }

func runConv(c convCase) string { return runConvDebug(c, false) }

// with --debug the data on stdout must be the same (a failing run may carry goyacc's trace there: known finding D15)
func runConvDebug(c convCase, debug bool) string {
	args := []string{"text", "conv", c.mode}
	if c.mode == "syllable" && c.key != "" {
		args = append(args, "--key", c.key)
	}
	if debug {
		args = append(args, "--debug")
	}
	res := runCrd(c.text, 10*time.Second, args...)
	switch res.class() {
	case "crash":
		return "crash"
	case "err":
		if len(res.stdout) != 0 && !debug {
			return "err-with-stdout"
		}
		return "err"
	}
	is, err := rawFromYAML(res.stdout)
	if err != nil {
		return "bad-yaml " + err.Error()
	}
	var items []string
	for _, i := range is {
		items = append(items, i.proto())
	}
	return "ok " + pList(items)
}

func streamConv() {
	s, done := openStream("conv")
	defer done()
	r := rng("conv")
	var cases []convCase
	for _, t := range corpusTexts {
		cases = append(cases, convCase{"syllable", "", []byte(t)}, convCase{"degree", "", []byte(t)})
		cases = append(cases, convCase{"syllable", keys28[r.Intn(28)], []byte(t)})
	}
	// exhaustive 28 keys x 21 roots x (no bass + 21 basses)
	if thorough() {
		for _, k := range keys28 {
			for _, root := range rootSpellings() {
				cases = append(cases, convCase{"syllable", k, []byte(root + "[1]")})
				for _, bass := range rootSpellings() {
					cases = append(cases, convCase{"syllable", k, []byte(root + "/" + bass + "[1]")})
				}
			}
		}
	} else {
		for i := 0; i < 1200; i++ {
			k := keys28[r.Intn(28)]
			rs := rootSpellings()
			root := rs[r.Intn(len(rs))]
			if r.Intn(2) == 0 {
				cases = append(cases, convCase{"syllable", k, []byte(root + "[1]")})
			} else {
				cases = append(cases, convCase{"syllable", k, []byte(root + "/" + rs[r.Intn(len(rs))] + "[1]")})
			}
		}
	}
	// a chord heard before and after a key change, for ordered pairs of keys (all 756 in the thorough tier; the
	// enharmonic twins, same-letter and relative/parallel pairs always): nothing remembered about a chord may survive
	// the change of key
	{
		special := func(a, b string) bool {
			ta, tb := strings.TrimSuffix(a, "m"), strings.TrimSuffix(b, "m")
			twins := map[string]string{"C#": "Db", "Db": "C#", "F#": "Gb", "Gb": "F#", "B": "Cb", "Cb": "B", "D#": "Eb", "Eb": "D#", "G#": "Ab", "Ab": "G#", "A#": "Bb", "Bb": "A#"}
			if ta[:1] == tb[:1] || twins[ta] == tb {
				return true
			}
			// relative keys (same signature, other tonic)
			return relativeOf[a] == b
		}
		roots := rootSpellings()
		for _, k1 := range keys28 {
			for _, k2 := range keys28 {
				if k1 == k2 || !(thorough() || special(k1, k2) || r.Intn(12) == 0) {
					continue
				}
				x := roots[r.Intn(len(roots))]
				y := roots[r.Intn(len(roots))]
				tonic := strings.TrimSuffix(k1, "m")
				for _, piece := range []string{
					fmt.Sprintf("%s[1] %s[1]{key=%s} %s[1] %s[1]", x, x, k2, y, x),
					fmt.Sprintf("%s[1] %s/%s[1] R[1]{key=%s} %s[1] %s/%s[1] %s[1]", tonic, x, y, k2, tonic, x, y, strings.TrimSuffix(k2, "m")),
				} {
					cases = append(cases, convCase{"syllable", k1, []byte(piece)})
				}
			}
		}
	}
	// a --key that has no scale is refused whatever the text says about keys itself; the same key named twice in one
	// brace block (the later one counts)
	for _, bad := range []string{"Fb", "E#", "G#", "A#m", "Cbm", "xyz", "H", "Abm"} {
		for _, txt := range []string{"C[1]{key=G} D[1]", "R[1]{key=Am} C[1]", "C[1] D[1]{key=G}", "C[1]{key=" + bad + "} D[1]", "C[1]{txt=x,key=D} D[1]"} {
			cases = append(cases, convCase{"syllable", bad, []byte(txt)})
		}
	}
	for _, k1 := range keys28 {
		k2 := keys28[r.Intn(28)]
		cases = append(cases, convCase{"syllable", "", []byte(fmt.Sprintf("A[1]{key=%s,key=%s} E[1] F#/A#[1] C[1]", k1, k2))},
			convCase{"syllable", k2, []byte(fmt.Sprintf("R[1]{key=%s,txt=a,key=%s,txt=b} E[1] Bb/D[1]", k2, k1))},
			convCase{"degree", "", []byte(fmt.Sprintf("1[1]{key=%s,key=%s,bpm=100,bpm=90,vel=p,vel=f,mtr=3/4,mtr=4/4} 5[1]", k1, k2))})
	}
	// three declarations of a key in one piece, the third being the first again or its enharmonic twin, each carried by
	// a chord or by a rest: whatever is remembered about a key that was left must not come back under another spelling,
	// and a key carried by a rest counts like one carried by a chord
	{
		twins := map[string]string{"C#": "Db", "Db": "C#", "F#": "Gb", "Gb": "F#", "B": "Cb", "Cb": "B", "D#m": "Ebm", "Ebm": "D#m", "A#m": "Bbm", "Bbm": "A#m", "G#m": "Abm", "Abm": "G#m"}
		roots := rootSpellings()
		decl := func(onRest bool, chord, key string) string {
			if onRest {
				return fmt.Sprintf("R[1]{key=%s} %s[1]", key, chord)
			}
			return fmt.Sprintf("%s[1]{key=%s}", chord, key)
		}
		for _, k1 := range keys28 {
			thirds := []string{k1}
			if t, ok := twins[k1]; ok {
				thirds = append(thirds, t)
			}
			for _, k2 := range keys28 {
				if k2 == k1 || !(thorough() || r.Intn(7) == 0) {
					continue
				}
				for _, k3 := range thirds {
					for place := 0; place < 8; place++ {
						if !thorough() && r.Intn(3) != 0 {
							continue
						}
						x, y := roots[r.Intn(len(roots))], roots[r.Intn(len(roots))]
						t1, t3 := strings.TrimSuffix(k1, "m"), strings.TrimSuffix(k3, "m")
						piece := strings.Join([]string{decl(place&1 != 0, t1, k1), x + "[1]", decl(place&2 != 0, y, k2), x + "[1]",
							decl(place&4 != 0, t3, k3), x + "[1]", y + "/" + x + "[1]"}, " ")
						key := ""
						if place == 7 {
							key = keys28[r.Intn(28)]
						}
						cases = append(cases, convCase{"syllable", key, []byte(piece)})
					}
				}
			}
		}
	}
	for i := 0; i < pick(1500, 20000); i++ {
		txt := []byte(genChordText(r, r.Intn(4) == 0))
		if r.Intn(10) == 0 {
			txt = mutateBytes(r, txt)
		}
		mode := "syllable"
		if r.Intn(3) == 0 {
			mode = "degree"
		}
		key := ""
		if mode == "syllable" && r.Intn(3) != 0 {
			key = keys28[r.Intn(28)]
			if r.Intn(20) == 0 {
				key = []string{"E#", "Fb", "zz", "G#", "Abm", "xCx", "H"}[r.Intn(7)]
			}
		}
		cases = append(cases, convCase{mode, key, txt})
	}
	results := make([]string, len(cases))
	parallel(len(cases), func(i int) { results[i] = runConvDebug(cases[i], i%7 == 3) })
	for i, c := range cases {
		s.add(c.req(), results[i])
		s.stat("class-" + strings.SplitN(results[i], " ", 2)[0])
		s.stat("mode-" + c.mode)
		if i%7 == 3 {
			s.stat("with-debug")
		}
	}
}

var relativeOf = map[string]string{"C": "Am", "G": "Em", "D": "Bm", "A": "F#m", "E": "C#m", "B": "G#m", "F#": "D#m", "Gb": "Ebm", "Db": "Bbm", "Ab": "Fm", "Eb": "Cm", "Bb": "Gm", "F": "Dm",
	"Am": "C", "Em": "G", "Bm": "D", "F#m": "A", "C#m": "E", "G#m": "B", "D#m": "F#", "Ebm": "Gb", "Bbm": "Db", "Fm": "Ab", "Cm": "Eb", "Gm": "Bb", "Dm": "F", "Cb": "Abm", "C#": "A#m"}

func rootSpellings() []string {
	var out []string
	for _, l := range "CDEFGAB" {
		for _, a := range []string{"", "#", "b"} {
			out = append(out, string(l)+a)
		}
	}
	return out
}

// ---------- write: crd write [flags] < instances.yaml ----------

type writeFlags struct {
	bpm        uint64
	velocity   string
	meter      string
	key        string
	track      int64
	instrument string
	program    uint8
}

func (f writeFlags) proto() string {
	return fmt.Sprintf("%d %s %s %s %d %s %d", f.bpm, hx(f.velocity), hx(f.meter), hx(f.key), f.track, hx(f.instrument), f.program)
}

func (f writeFlags) args() []string {
	var a []string
	if f.bpm != 0 {
		a = append(a, "--bpm", fmt.Sprint(f.bpm))
	}
	if f.velocity != "" {
		a = append(a, "--velocity", f.velocity)
	}
	if f.meter != "" {
		a = append(a, "--meter", f.meter)
	}
	if f.key != "" {
		a = append(a, "--key", f.key)
	}
	if f.track != 1 {
		a = append(a, "--track", fmt.Sprint(f.track))
	}
	if f.instrument != "Piano" {
		a = append(a, "--instrument", f.instrument)
	}
	if f.program != 0 {
		a = append(a, "--program", fmt.Sprint(f.program))
	}
	return a
}

type rawAttr struct {
	name   string
	degree *string
}
type rawChordDef struct {
	name, display string
	attrs         []string
	extends       string
}

type writeCase struct {
	// repeatFirst = k > 0: the chord definitions go to two files, the first k in one, the rest in another, and the first
	// file is named again after the second (--chord a --chord b --chord a): the dictionary is a, b, a in this order
	repeatFirst int
	debug       bool // run with --debug (the bytes written must be the same)
	style  string // spelling of the YAML document (not part of the request: every spelling means the same)
	flags  writeFlags
	attrs  []rawAttr
	chords []rawChordDef
	is     []rawInstance
}

func (c writeCase) req(op string) string {
	var as, cs, is []string
	for _, a := range c.attrs {
		as = append(as, hx(a.name)+" "+pOptHx(a.degree))
	}
	chords := c.chords
	if c.repeatFirst > 0 {
		chords = append(append([]rawChordDef{}, c.chords...), c.chords[:c.repeatFirst]...)
	}
	for _, d := range chords {
		var xs []string
		for _, x := range d.attrs {
			xs = append(xs, hx(x))
		}
		cs = append(cs, strings.Join([]string{hx(d.name), hx(d.display), pList(xs), hx(d.extends)}, " "))
	}
	for _, i := range c.is {
		is = append(is, i.proto())
	}
	return strings.Join([]string{op, c.flags.proto(), pList(as), pList(cs), pList(is)}, " ")
}

func dictYAML(attrs []rawAttr, chords []rawChordDef) (string, string) {
	return dictYAMLStyled(attrs, chords, nil)
}

func dictYAMLStyled(attrs []rawAttr, chords []rawChordDef, st *yamlStyle) (string, string) {
	var a, c strings.Builder
	for _, x := range attrs {
		a.WriteString("- name: " + yq(x.name) + "\n")
		if x.degree != nil {
			a.WriteString("  degree: " + st.scalar(*x.degree) + "\n")
		}
	}
	for _, x := range chords {
		c.WriteString("- name: " + yq(x.name) + "\n  meta:\n    display: " + yq(x.display) + "\n")
		if len(x.attrs) > 0 {
			c.WriteString("  attributes:\n")
			for _, y := range x.attrs {
				c.WriteString("    - " + yq(y) + "\n")
			}
		}
		if x.extends != "" {
			c.WriteString("  extends: " + yq(x.extends) + "\n")
		}
	}
	if len(attrs) == 0 {
		a.WriteString("[]\n")
	}
	if len(chords) == 0 {
		c.WriteString("[]\n")
	}
	return a.String(), c.String()
}

func runWrite(idx int, c writeCase, sub ...string) (string, []byte) {
	args := append([]string{"write"}, sub...)
	args = append(args, c.flags.args()...)
	if c.debug {
		args = append(args, "--debug")
	}
	if len(c.attrs) > 0 || len(c.chords) > 0 {
		dir := filepath.Join(outDir, fmt.Sprintf("dict-%d", idx))
		must(os.MkdirAll(dir, 0o755))
		defer os.RemoveAll(dir)
		a, ch := dictYAML(c.attrs, c.chords)
		must(os.WriteFile(filepath.Join(dir, "attr.yml"), []byte(a), 0o644))
		must(os.WriteFile(filepath.Join(dir, "chord.yml"), []byte(ch), 0o644))
		if len(c.attrs) > 0 {
			args = append(args, "--attr", filepath.Join(dir, "attr.yml"))
		}
		switch {
		case c.repeatFirst > 0:
			_, ch1 := dictYAML(nil, c.chords[:c.repeatFirst])
			_, ch2 := dictYAML(nil, c.chords[c.repeatFirst:])
			must(os.WriteFile(filepath.Join(dir, "house.yml"), []byte(ch1), 0o644))
			must(os.WriteFile(filepath.Join(dir, "song.yml"), []byte(ch2), 0o644))
			if idx%2 == 0 {
				args = append(args, "--chord", filepath.Join(dir, "house.yml"), "--chord", filepath.Join(dir, "song.yml"), "--chord", filepath.Join(dir, "house.yml"))
			} else {
				args = append(args, "--chord", filepath.Join(dir, "house.yml")+","+filepath.Join(dir, "song.yml")+","+filepath.Join(dir, "house.yml"))
			}
		case len(c.chords) >= 2 && idx%3 == 1:
			// the same definitions in two files (a later file may define what an earlier one builds on); the files
			// are read in the order given and form one dictionary
			cut := 1 + idx%(len(c.chords)-1)
			_, ch1 := dictYAML(nil, c.chords[:cut])
			_, ch2 := dictYAML(nil, c.chords[cut:])
			must(os.WriteFile(filepath.Join(dir, "chord1.yml"), []byte(ch1), 0o644))
			must(os.WriteFile(filepath.Join(dir, "chord2.yml"), []byte(ch2), 0o644))
			if idx%2 == 0 {
				args = append(args, "--chord", filepath.Join(dir, "chord1.yml"), "--chord", filepath.Join(dir, "chord2.yml"))
			} else {
				args = append(args, "--chord", filepath.Join(dir, "chord1.yml")+","+filepath.Join(dir, "chord2.yml"))
			}
		case len(c.chords) > 0:
			args = append(args, "--chord", filepath.Join(dir, "chord.yml"))
		}
	}
	// every fifth case writes through -o onto an existing file that is longer than the result
	viaFile := idx%5 == 4 && len(sub) == 0
	var outPath string
	if viaFile {
		dir := filepath.Join(outDir, fmt.Sprintf("wout-%d", idx))
		must(os.MkdirAll(dir, 0o755))
		defer os.RemoveAll(dir)
		outPath = filepath.Join(dir, "out.mid")
		must(os.WriteFile(outPath, bytes.Repeat([]byte("MTrk previous content "), 2000), 0o644))
		args = append(args, "-o", outPath)
	}
	if d := os.Getenv("CRD_DUMP_REQ"); d != "" && strings.HasPrefix(c.req("write"), d) { // debugging aid: keep the document of one request
		os.WriteFile(filepath.Join(outDir, fmt.Sprintf("dump-%d.yml", idx)), []byte(yamlDocStyled(c.is, c.style)), 0o644)
		os.WriteFile(filepath.Join(outDir, fmt.Sprintf("dump-%d.args", idx)), []byte(strings.Join(args, "\n")), 0o644)
	}
	res := runCrd([]byte(yamlDocStyled(c.is, c.style)), 20*time.Second, args...)
	switch res.class() {
	case "crash":
		return "crash", nil
	case "err":
		if len(res.stdout) != 0 {
			return "err-with-stdout", nil
		}
		return "err", nil
	}
	if viaFile {
		b, err := os.ReadFile(outPath)
		must(err)
		return "ok", b
	}
	return "ok", res.stdout
}

var degreeStrings = []string{"1", "2", "3", "4", "5", "6", "7", "b2", "b3", "#4", "b5", "#5", "b6", "b7", "#1", "#2", "bb7", "bb3", "##4", "bbb5",
	"8", "9", "b9", "#9", "10", "11", "#11", "12", "13", "b13", "14", "15", "b15"}
var baseStrings = []string{"1", "3", "b3", "5", "b7", "7", "2", "4", "6", "b5", "#5", "9"}
var longNames = []string{"MajorTriad", "MinorTriad", "DominantSeventh", "MajorSeventhAlias1", "HalfDiminishedSeventh", "SuspendSecond", "MinorMajorNinth"}

func sp(s string) *string { return &s }

func genValue(r *rand.Rand, adversarial bool) string {
	if !adversarial && r.Intn(25) == 0 { // at and below the resolution of one tick, and zero-padded spellings
		return []string{"1/1919", "1/1920", "1/1921", "1/2000", "1/4000", "1/960", "3/5761", "1/100000", "01", "001/004", "010/08", "0016/0032",
			"010", "012", "0100", "007", "08", "0000000000000000000000001", "000000000000000000003/000000000000000000000000000004"}[r.Intn(19)]
	}
	if !adversarial {
		switch r.Intn(4) {
		case 0:
			return fmt.Sprint(1 + r.Intn(4))
		case 1:
			return fmt.Sprintf("%d/%d", 1+r.Intn(8), 1<<uint(r.Intn(6)))
		case 2:
			return fmt.Sprintf("%d/%d", 1+r.Intn(12), 1+r.Intn(13))
		default:
			return fmt.Sprintf("%d/%d", 1+r.Intn(5), []int{3, 5, 6, 7, 9, 11, 12, 24, 48, 96, 1920}[r.Intn(11)])
		}
	}
	if !adversarial && r.Intn(30) == 0 { // long improper fractions over large odd denominators
		d := uint64(1e8) + uint64(r.Int63n(1e10))
		return fmt.Sprintf("%d/%d", d*uint64(1+r.Intn(3000))+uint64(r.Int63n(int64(d))), d)
	}
	return []string{"0", "1/0", "0/1", "x", "", "1/2/3", "-1", "1.5", " 1", "1/ 2", "18446744073709551616", "+1", "0x10", "0o10", "0b11", "1_0", "1e1", "+1/2", "0x1/0x2"}[r.Intn(19)]
}

func genInstance(r *rand.Rand, malformed bool) rawInstance {
	var i rawInstance
	if r.Intn(5) != 0 {
		c := rawChord{degree: sp(degreeStrings[r.Intn(len(degreeStrings))])}
		if r.Intn(6) == 0 {
			c.name = longNames[r.Intn(len(longNames))]
		} else {
			c.name = symbols[r.Intn(len(symbols))]
		}
		if r.Intn(3) == 0 {
			c.base = sp(baseStrings[r.Intn(len(baseStrings))])
		}
		if r.Intn(20) == 0 { // zero-padded interval numbers are decimal numbers
			c.degree = sp([]string{"01", "05", "07", "010", "011", "012", "b07", "#011", "0013"}[r.Intn(9)])
			if r.Intn(3) == 0 {
				c.base = sp([]string{"03", "010", "b07"}[r.Intn(3)])
			}
		}
		i.chord = &c
	}
	for k := 0; k < 1+r.Intn(3); k++ {
		i.values = append(i.values, genValue(r, false))
	}
	if r.Intn(40) == 0 { // terms over one large power of two whose numerators add up beyond 64 bits
		k := uint(61 + r.Intn(3))
		den := uint64(1) << k
		i.values = nil
		for t := 0; t < 2+r.Intn(2); t++ {
			num := den*uint64(1+r.Intn(3)) + den/2*uint64(r.Intn(2)) + uint64(r.Intn(1000))
			if k == 63 {
				num = den + den/2 + uint64(r.Intn(1000))
			}
			i.values = append(i.values, fmt.Sprintf("%d/%d", num, den))
		}
	}
	if r.Intn(25) == 0 { // tied values whose exact sum lies on a half tick while the terms are not exact in binary
		q := []int{3, 5, 6, 7, 9, 11, 12, 15}[r.Intn(8)]
		m := 1 + r.Intn(4)
		x := 1 + r.Intn(q*m-1)
		half := []string{"1/1920", "3/1920", "1/128", "3/128", "5/384", "7/640", "1/384", "9/1920"}[r.Intn(8)]
		i.values = []string{fmt.Sprintf("%d/%d", x, q), fmt.Sprintf("%d/%d", q*m-x, q), half}
		if r.Intn(2) == 0 {
			y := 1 + r.Intn(q*2-1)
			i.values = append(i.values, fmt.Sprintf("%d/%d", y, q), fmt.Sprintf("%d/%d", q*2-y, q))
		}
		r.Shuffle(len(i.values), func(a, b int) { i.values[a], i.values[b] = i.values[b], i.values[a] })
	}
	if r.Intn(40) == 0 { // a numerator of more than 53 bits over a denominator of far fewer
		n := (r.Uint64() | 1<<63) >> uint(r.Intn(11))
		v := uint64(1) << uint(4+r.Intn(12))
		i.values = []string{fmt.Sprintf("%d/%d", n, n/v+uint64(r.Intn(1<<12))+1)}
	}
	if r.Intn(5) == 0 {
		i.bpm = sp(fmt.Sprint(4 + r.Intn(400)))
		if r.Intn(8) == 0 { // zero-padded numbers are decimal numbers
			i.bpm = sp([]string{"0100", "0120", "007", "090", "0010", "00200"}[r.Intn(6)])
		}
		if r.Intn(10) == 0 { // tempo values that need fewer than three bytes, or exactly fill two or one
			i.bpm = sp([]string{"915", "916", "917", "1000", "2000", "65535", "65536", "234375", "234376", "1000000", "30000000"}[r.Intn(11)])
		}
	}
	if r.Intn(5) == 0 {
		i.velocity = sp([]string{"pp", "p", "mp", "mf", "f", "ff"}[r.Intn(6)])
	}
	if r.Intn(6) == 0 {
		i.meter = sp(fmt.Sprintf("%d/%d", 1+r.Intn(12), 1<<uint(r.Intn(5))))
		if r.Intn(10) == 0 { // parts that are 0 modulo 256 (the SMF event has one byte for each)
			i.meter = sp([]string{"4/256", "256/4", "3/512", "512/8", "256/256", "768/2"}[r.Intn(6)])
		}
	}
	if r.Intn(4) == 0 {
		i.key = sp(keys28[r.Intn(28)])
	}
	if r.Intn(4) == 0 {
		var kv [][2]string
		texts := []string{"hello", "", "a: b", "# not comment", "- dash", "'q'", "\"dq\"", "multi\nline", "é♯ü 日本", "  lead", "trail  ", "{x}", "[y]", "null", "true", "1e3", "~",
			"the end\n", "la la\n\n", "\nlead break", "a\r\nb\r\n", "\n", "tab\there", "x: |\n  y\n", "...", "---",
			"\ttab first\nthen a line", "\u2028sep first\nline", "\u2029par first\nline\n", "\t\n", " lead blank\nline", "\rcr first\nline", "\u0085nel\nline", "<<", "\ufeffbom\nline", "\u00a0nbsp\nline"}
		for _, k := range []string{"txt", "lic", "mrk", "foo", "bpm"} {
			if r.Intn(3) == 0 {
				kv = append(kv, [2]string{k, texts[r.Intn(len(texts))]})
			}
		}
		// free-form entries named like settings, with values a setting could have: they are texts, not settings
		if r.Intn(4) == 0 {
			have := map[string]bool{}
			for _, e := range kv {
				have[e[0]] = true
			}
			for _, e := range [][2]string{{"key", keys28[r.Intn(28)]}, {"bpm", fmt.Sprint(30 + r.Intn(300))}, {"vel", []string{"pp", "ff", "mf"}[r.Intn(3)]}, {"mtr", "3/4"},
				{"velocity", "ff"}, {"meter", "6/8"}, {"<<", "x"}, {"values", "1"}, {"\nkey", "v"}, {"\tk\nk", "v"}} {
				if r.Intn(3) == 0 && !have[e[0]] {
					kv = append(kv, e)
				}
			}
		}
		i.meta = &kv
	}
	if malformed {
		switch r.Intn(12) {
		case 0:
			i.values = nil
		case 1:
			i.values = append(i.values, genValue(r, true))
		case 2:
			i.bpm = sp([]string{"0", "x", "-3", "1.5", ""}[r.Intn(5)])
		case 3:
			i.velocity = sp([]string{"fff", "", "P", "mezzo"}[r.Intn(4)])
		case 4:
			i.meter = sp([]string{"0/4", "4/0", "x", "4", "3/4/5"}[r.Intn(5)])
		case 5:
			i.key = sp([]string{"E#", "Fb", "zz", "G#", "Abm", "", "A#m"}[r.Intn(7)])
		case 6:
			if i.chord != nil {
				i.chord.name = []string{"nope", "M", "min", "7b5", " m"}[r.Intn(5)]
			}
		case 7:
			if i.chord != nil {
				i.chord.degree = sp([]string{"0", "x", "b", "", "b3b", "4b", "major3", "-1", "#0"}[r.Intn(9)])
			}
		case 8:
			if i.chord != nil {
				i.chord.base = sp([]string{"0", "x", "", "b1b"}[r.Intn(4)])
			}
		case 9:
			if i.chord != nil {
				i.chord.degree = nil
			}
		case 10:
			if i.chord != nil { // out of the MIDI range
				i.chord.degree = sp(fmt.Sprint(40 + r.Intn(200)))
			}
		case 11:
			i.meter = sp(fmt.Sprintf("%d/%d", r.Intn(400), r.Intn(400)))
		}
	}
	return i
}

func genWriteCase(r *rand.Rand) writeCase {
	c := writeCase{flags: writeFlags{track: 1, instrument: "Piano"}}
	malformed := r.Intn(7) == 0
	n := 1 + r.Intn(8)
	if r.Intn(20) == 0 {
		n = r.Intn(40)
	}
	bad := -1
	if malformed && n > 0 {
		bad = r.Intn(n)
	}
	for i := 0; i < n; i++ {
		c.is = append(c.is, genInstance(r, i == bad))
	}
	if r.Intn(3) == 0 && n >= 3 { // few distinct symbols, used again and again in one run (state kept between chords)
		pool := []string{symbols[r.Intn(len(symbols))], symbols[r.Intn(len(symbols))], symbols[r.Intn(len(symbols))]}
		if r.Intn(2) == 0 {
			fam := [][]string{{"7", "6", "M7", "add9", ""}, {"m7", "mM7", "m6", "m"}, {"m7b5", "dim7", "dim"}, {"9", "7", "M9", "maj9"}}[r.Intn(4)]
			pool = fam
		}
		for i := range c.is {
			if c.is[i].chord != nil && i != bad {
				c.is[i].chord.name = pool[r.Intn(len(pool))]
			}
		}
	}
	if r.Intn(5) == 0 && n >= 2 && bad < 0 {
		// the same chords again after a key change carried by a chord, by a rest, or by nothing: whatever is remembered
		// from the first time must not be reused in the new key
		k := sp(keys28[r.Intn(28)])
		again := append([]rawInstance{}, c.is...)
		for i := range again {
			again[i].key = nil
		}
		switch r.Intn(3) {
		case 0:
			again[0].key = k
		case 1:
			again = append([]rawInstance{{values: []string{"1"}, key: k}}, again...)
		}
		c.is = append(c.is, again...)
	}
	c.debug = r.Intn(9) == 0
	switch r.Intn(10) {
	case 0, 1:
		c.style = "plain"
	case 2:
		c.style = "single"
	case 3, 4:
		c.style = "alias"
		// say again what was said before: a text, a whole metadata map, a map with one more entry
		for i := 1; i < len(c.is); i++ {
			j := r.Intn(i)
			if c.is[j].meta == nil || len(*c.is[j].meta) == 0 || i == bad || j == bad {
				continue
			}
			switch r.Intn(4) {
			case 0:
				m := append([][2]string{}, (*c.is[j].meta)...)
				c.is[i].meta = &m
			case 1:
				m := append([][2]string{}, (*c.is[j].meta)...)
				have := map[string]bool{}
				for _, kv := range m {
					have[kv[0]] = true
				}
				for _, k := range []string{"mrk", "lic", "txt", "note"} {
					if !have[k] {
						m = append(m, [2]string{k, []string{"again", "Verse", m[0][1]}[r.Intn(3)]})
						break
					}
				}
				c.is[i].meta = &m
			case 2:
				src := (*c.is[j].meta)[r.Intn(len(*c.is[j].meta))][1]
				m := [][2]string{{[]string{"txt", "lic", "mrk"}[r.Intn(3)], src}}
				c.is[i].meta = &m
			}
		}
	}
	if r.Intn(4) == 0 {
		c.flags.key = keys28[r.Intn(28)]
	}
	if r.Intn(6) == 0 {
		c.flags.bpm = uint64(4 + r.Intn(300))
		if r.Intn(8) == 0 {
			c.flags.bpm = []uint64{915, 916, 1000, 2000, 65536, 234375, 234376, 1000000}[r.Intn(8)]
		}
	}
	if r.Intn(6) == 0 {
		c.flags.velocity = []string{"pp", "p", "mp", "mf", "f", "ff"}[r.Intn(6)]
	}
	if r.Intn(6) == 0 {
		c.flags.meter = fmt.Sprintf("%d/%d", 1+r.Intn(9), 1<<uint(r.Intn(4)))
	}
	if r.Intn(3) == 0 {
		c.flags.track = int64(1 + r.Intn(6))
		if r.Intn(5) == 0 {
			c.flags.track = int64(1 + r.Intn(32))
		}
	}
	if r.Intn(10) == 0 {
		c.flags.instrument = []string{"", "Guitar", "ピアノ", "a b"}[r.Intn(4)]
	}
	if r.Intn(10) == 0 {
		c.flags.program = uint8(r.Intn(256))
	}
	if malformed && r.Intn(3) == 0 {
		switch r.Intn(5) {
		case 0:
			c.flags.key = []string{"E#", "zz", "Fb", "G#"}[r.Intn(4)]
		case 1:
			c.flags.velocity = "fff"
		case 2:
			c.flags.meter = []string{"0/4", "x", "4/0"}[r.Intn(3)]
		case 3:
			c.flags.track = int64([]int{0, -1, 65535, 65536, 70000}[r.Intn(5)])
		case 4:
			c.flags.track = int64(r.Intn(3))
		}
	}
	return c
}

func streamWrite() {
	s, done := openStream("write")
	defer done()
	r := rng("write")
	var cases []writeCase
	// corpus: fixed edge cases first
	one := func(i rawInstance) writeCase {
		return writeCase{flags: writeFlags{track: 1, instrument: "Piano"}, is: []rawInstance{i}}
	}
	cases = append(cases,
		one(rawInstance{values: []string{"1"}}),
		one(rawInstance{chord: &rawChord{degree: sp("1"), name: ""}, values: []string{"1"}}),
		one(rawInstance{chord: &rawChord{degree: sp("1"), name: "m"}, values: []string{"1"}, bpm: sp("0")}),
		one(rawInstance{chord: &rawChord{degree: sp("1"), name: "m"}, values: []string{"1"}, key: sp("E#")}),
		one(rawInstance{chord: &rawChord{degree: sp("99999999999"), name: "m"}, values: []string{"1"}}),
		writeCase{flags: writeFlags{track: 1, instrument: "Piano"}},
		// texts made of white space only are texts
		writeCase{flags: writeFlags{track: 1, instrument: "Piano"}, is: []rawInstance{
			{chord: &rawChord{degree: sp("1"), name: ""}, values: []string{"1"}}, {values: []string{"1"}},
			{chord: &rawChord{degree: sp("5"), name: ""}, values: []string{"1"}, meta: &[][2]string{{"txt", " "}, {"lic", "\u3000"}, {"mrk", "\n"}}},
			{chord: &rawChord{degree: sp("1"), name: ""}, values: []string{"1"}, meta: &[][2]string{{"txt", "\t"}, {"lic", "\u00a0"}, {"mrk", "  "}}}}},
		one(rawInstance{chord: &rawChord{degree: sp("1"), name: "m"}, values: []string{"1"}, key: sp("B♭")}),
		one(rawInstance{chord: &rawChord{degree: sp("1"), name: "m"}, values: []string{"1"}, key: sp("F♯m")}),
		writeCase{flags: writeFlags{track: 1, instrument: "Piano", key: "E♭m"}, is: []rawInstance{{chord: &rawChord{degree: sp("1"), name: "m"}, values: []string{"1"}}}},
		// pieces at and beyond the longest delta time a midi file can hold (0x0FFFFFFF ticks = 279620.26 beats)
		one(rawInstance{chord: &rawChord{degree: sp("1"), name: ""}, values: []string{"279620"}}),
		one(rawInstance{chord: &rawChord{degree: sp("1"), name: ""}, values: []string{"279621"}}),
		one(rawInstance{chord: &rawChord{degree: sp("1"), name: ""}, values: []string{"279620", "1/4"}}),
		one(rawInstance{chord: &rawChord{degree: sp("1"), name: ""}, values: []string{"279620", "1/3"}}),
		one(rawInstance{values: []string{"300000"}}),
		one(rawInstance{values: []string{"4473925"}}),
		one(rawInstance{values: []string{"99999999999"}}),
		one(rawInstance{chord: &rawChord{degree: sp("1"), name: ""}, values: []string{"18446744073709551615"}}),
		writeCase{flags: writeFlags{track: 1, instrument: "Piano"}, is: []rawInstance{
			{values: []string{"268435453/960"}}, {values: []string{"1/1600"}}, {values: []string{"1/1600"}}, {values: []string{"1/1600"}}}},
		writeCase{flags: writeFlags{track: 2, instrument: "Piano"}, is: []rawInstance{
			{chord: &rawChord{degree: sp("1"), name: ""}, values: []string{"268435453/960"}}, {values: []string{"1/1600"}}, {values: []string{"1/1600"}},
			{chord: &rawChord{degree: sp("5"), name: ""}, values: []string{"1/1600"}}}},
		writeCase{flags: writeFlags{track: 2, instrument: "Piano"}, is: []rawInstance{
			{chord: &rawChord{degree: sp("1"), name: ""}, values: []string{"150000"}}, {chord: &rawChord{degree: sp("5"), name: ""}, values: []string{"150000"}}}},
		writeCase{flags: writeFlags{track: 1, instrument: "Piano"}, is: []rawInstance{
			{values: []string{"150000"}}, {values: []string{"150000"}}, {chord: &rawChord{degree: sp("5"), name: ""}, values: []string{"1"}}}},
		writeCase{flags: writeFlags{track: 1, instrument: "Piano"}, is: []rawInstance{
			{values: []string{"1"}}, {chord: &rawChord{degree: sp("1"), name: ""}, values: []string{"1/4000"}},
			{chord: &rawChord{degree: sp("5"), name: "7"}, values: []string{"1"}}, {values: []string{"1/2"}}}},
		writeCase{flags: writeFlags{track: 3, instrument: "Piano"}, is: []rawInstance{
			{values: []string{"200000"}}, {values: []string{"79620"}}, {chord: &rawChord{degree: sp("1"), name: ""}, values: []string{"1/4"}}}},
		writeCase{flags: writeFlags{track: 3, instrument: "Piano"}, is: []rawInstance{
			{values: []string{"200000"}}, {values: []string{"79620"}}, {chord: &rawChord{degree: sp("1"), name: ""}, values: []string{"1/2"}}}},
		writeCase{flags: writeFlags{track: 2, instrument: "Piano"}, is: []rawInstance{
			{chord: &rawChord{degree: sp("1"), name: ""}, values: []string{"1"}},
			{chord: &rawChord{degree: sp("2"), name: ""}, values: []string{"1"}}, {values: []string{"2"}}}},
	)
	// fixed: several settings while the piece is still at tick 0 (a first instance shorter than a tick), settings
	// named in the free-form metadata only, sums of large numerators, with and without --debug
	{
		ch := func(d string) *rawChord { return &rawChord{degree: sp(d), name: ""} }
		pieces := [][]rawInstance{
			{{chord: ch("1"), values: []string{"1/4000"}, key: sp("Ab")}, {chord: ch("1"), values: []string{"1"}, key: sp("F#m"), bpm: sp("90"), meter: sp("3/4")}, {chord: ch("5"), values: []string{"1"}}},
			{{values: []string{"1/4000"}, key: sp("Db"), bpm: sp("60")}, {values: []string{"1/5000"}, key: sp("E"), bpm: sp("70")}, {chord: ch("1"), values: []string{"1"}, key: sp("Cb"), bpm: sp("80"), meter: sp("6/8")}},
			{{chord: ch("1"), values: []string{"1"}}, {chord: ch("4"), values: []string{"1"}, meta: &[][2]string{{"txt", "x"}, {"bpm", "200"}, {"mtr", "3/4"}, {"key", "G"}, {"vel", "ff"}}}, {chord: ch("5"), values: []string{"1"}}},
			{{chord: ch("1"), values: []string{"1"}, meta: &[][2]string{{"key", "D"}}}, {chord: ch("1"), values: []string{"1"}, meta: &[][2]string{{"key", "zz"}, {"bpm", "x"}}}},
			{{chord: ch("1"), values: []string{"13835058055282163712/9223372036854775808", "13835058055282163712/9223372036854775808"}}, {chord: ch("5"), values: []string{"1"}}},
			{{chord: ch("1"), values: []string{"6917529027641081856/4611686018427387904", "6917529027641081856/4611686018427387904", "6917529027641081856/4611686018427387904"}}, {chord: ch("5"), values: []string{"1"}}},
			{{chord: ch("1"), values: []string{"9223372049127463984/35184397373439"}}, {chord: ch("5"), values: []string{"1"}}},
			{{chord: ch("1"), values: []string{"1"}, bpm: sp("140"), meter: sp("5/4"), key: sp("Eb")}, {chord: ch("4"), values: []string{"2"}, bpm: sp("70")}, {values: []string{"1"}, key: sp("Cm"), meter: sp("2/2")}},
		}
		for _, p := range pieces {
			for _, dbg := range []bool{false, true} {
				for _, tr := range []int64{1, 3} {
					cases = append(cases, writeCase{debug: dbg, flags: writeFlags{track: tr, instrument: "Piano"}, is: p},
						writeCase{debug: dbg, flags: writeFlags{track: tr, instrument: "Piano", bpm: 140, key: "A", meter: "7/8"}, is: p})
				}
			}
		}
	}
	// fixed: a user chord of more notes than a byte can count, between rests, on one and several tracks
	for _, n := range []int{255, 256, 257, 300} {
		big := rawChordDef{name: "Cluster", display: "clu"}
		small := []string{"Perfect1", "Minor2", "Major2", "Minor3", "Major3", "Perfect4", "Perfect5", "Minor6", "Major6", "Minor7", "Major7", "Perfect8", "Major9"}
		for k := 0; k < n; k++ {
			big.attrs = append(big.attrs, small[k%len(small)])
		}
		for _, tr := range []int64{1, 2, 3, 5} {
			cases = append(cases, writeCase{flags: writeFlags{track: tr, instrument: "Piano"}, chords: []rawChordDef{big},
				is: []rawInstance{{values: []string{"1"}}, {chord: &rawChord{degree: sp("1"), name: "clu"}, values: []string{"2"}}, {values: []string{"1/2"}}, {chord: &rawChord{degree: sp("5"), name: ""}, values: []string{"1"}}}})
		}
	}
	// the same pieces spelled without quotes, with single quotes, and with YAML aliases and merges
	{
		la, verse := [][2]string{{"lic", "la"}}, [][2]string{{"lic", "la"}, {"mrk", "Verse"}}
		pieces := [][]rawInstance{
			{{chord: &rawChord{degree: sp("010"), name: "7"}, values: []string{"010", "012"}, bpm: sp("060")},
				{chord: &rawChord{degree: sp("011"), name: "m", base: sp("03")}, values: []string{"0100/0400", "007"}, bpm: sp("0120"), meter: sp("06/08")}},
			{{chord: &rawChord{degree: sp("1"), name: ""}, values: []string{"1"}, meta: &la}, {values: []string{"1"}},
				{chord: &rawChord{degree: sp("5"), name: "7"}, values: []string{"1"}, meta: &verse},
				{chord: &rawChord{degree: sp("1"), name: ""}, values: []string{"1"}, meta: &la},
				{chord: &rawChord{degree: sp("4"), name: ""}, values: []string{"1"}, meta: &[][2]string{{"txt", "la"}, {"mrk", "Verse"}}}},
			{{chord: &rawChord{degree: sp("1"), name: ""}, values: []string{"0x10"}}},
			{{chord: &rawChord{degree: sp("1"), name: ""}, values: []string{"1"}, bpm: sp("0x78")}},
			{{chord: &rawChord{degree: sp("+5"), name: ""}, values: []string{"1"}}},
		}
		for _, p := range pieces {
			for _, st := range []string{"quoted", "plain", "single", "alias"} {
				for _, tr := range []int64{1, 2} {
					cases = append(cases, writeCase{style: st, flags: writeFlags{track: tr, instrument: "Piano"}, is: p})
				}
			}
		}
	}
	for _, k := range keys28 {
		for _, sym := range []string{"", "m7b5"} {
			cases = append(cases, writeCase{flags: writeFlags{track: 1, instrument: "Piano", key: k},
				is: []rawInstance{{chord: &rawChord{degree: sp("1"), name: sym}, values: []string{"1"}}}})
		}
	}
	for i := 0; i < pick(2000, 30000); i++ {
		cases = append(cases, genWriteCase(r))
	}
	results := make([]string, len(cases))
	parallel(len(cases), func(i int) {
		cl, out := runWrite(i, cases[i])
		if cl == "ok" {
			results[i] = "ok " + hxb(out)
		} else {
			results[i] = cl
		}
	})
	for i, c := range cases {
		s.add(c.req("write"), results[i])
		s.stat("class-" + strings.SplitN(results[i], " ", 2)[0])
		s.stat(fmt.Sprintf("tracks-%d", c.flags.track))
		s.stat(fmt.Sprintf("len-%d", len(c.is)))
		s.stat("yaml-" + c.style)
		if c.debug {
			s.stat("with-debug")
		}
	}
	// C06 on the real code alone: the same document with N tracks and with one track
	var multi []int
	for i, c := range cases {
		if c.flags.track > 1 && c.flags.track <= 64 && strings.HasPrefix(results[i], "ok") && len(c.attrs) == 0 && len(c.chords) == 0 {
			multi = append(multi, i)
		}
	}
	if len(multi) > pick(150, 1500) {
		multi = multi[:pick(150, 1500)]
	}
	problems := make([][]string, len(multi))
	parallel(len(multi), func(j int) {
		c := cases[multi[j]]
		doc := []byte(yamlDoc(c.is))
		many := runCrd(doc, 20*time.Second, append([]string{"write", "event"}, c.flags.args()...)...)
		one := c.flags
		one.track = 1
		single := runCrd(doc, 20*time.Second, append([]string{"write", "event"}, one.args()...)...)
		if many.class() != "ok" || single.class() != "ok" {
			if many.class() != single.class() {
				problems[j] = append(problems[j], fmt.Sprintf("write event ends differently with --track %d (%s) and --track 1 (%s)", c.flags.track, many.class(), single.class()))
			}
			return
		}
		mm, me := mergedEvents(many.stdout)
		sm, se := mergedEvents(single.stdout)
		if strings.Join(mm, "\n") != strings.Join(sm, "\n") {
			problems[j] = append(problems[j], fmt.Sprintf("the merged events with --track %d differ from --track 1: first difference %q vs %q", c.flags.track, firstDiffLine(mm, sm), firstDiffLine(sm, mm)))
		}
		for _, e := range me {
			if len(se) == 1 && e != se[0] {
				problems[j] = append(problems[j], fmt.Sprintf("with --track %d a track ends at tick %s, the piece ends at %s (end-of-track ticks %v)", c.flags.track, e, se[0], me))
				break
			}
		}
		if int64(len(me)) != c.flags.track {
			problems[j] = append(problems[j], fmt.Sprintf("--track %d wrote %d end-of-track events", c.flags.track, len(me)))
		}
	})
	for j, ps := range problems {
		s.stat("c06-sibling-pairs")
		for _, p := range ps {
			c := cases[multi[j]]
			s.violate("C06", p, "crd write event "+strings.Join(c.flags.args(), " ")+"\n"+yamlDoc(c.is), p)
		}
	}
}

var eventLineRe = regexp.MustCompile(`^Track (\d+)\t@(\d+)\(\d+\)\t(.*)$`)

// all events but the end-of-track markers as sorted "tick message" lines, and the end-of-track ticks per track
func mergedEvents(out []byte) (merged []string, eots []string) {
	for _, l := range strings.Split(string(out), "\n") {
		m := eventLineRe.FindStringSubmatch(l)
		if m == nil {
			continue
		}
		if m[3] == "MetaEndOfTrack" {
			eots = append(eots, m[2])
			continue
		}
		merged = append(merged, fmt.Sprintf("%012s %s", m[2], m[3]))
	}
	sort.Strings(merged)
	return
}

func firstDiffLine(a, b []string) string {
	for i := range a {
		if i >= len(b) || a[i] != b[i] {
			return a[i]
		}
	}
	return ""
}

// ---------- dict: user dictionaries through --attr/--chord ----------

func genDict(r *rand.Rand) ([]rawAttr, []rawChordDef, []string) {
	var attrs []rawAttr
	var chords []rawChordDef
	attrNames := []string{"Perfect1", "Major3", "Minor3", "Perfect5", "Minor7", "Major7", "Major9", "Diminished5"}
	for i := 0; i < r.Intn(3); i++ {
		n := fmt.Sprintf("U%d", i)
		attrs = append(attrs, rawAttr{name: n, degree: sp(degreeStrings[r.Intn(len(degreeStrings))])})
		attrNames = append(attrNames, n)
	}
	if r.Intn(6) == 0 { // override a built-in attribute
		attrs = append(attrs, rawAttr{name: "Major3", degree: sp("b3")})
	}
	parents := []string{"MajorTriad", "MinorTriad", "m7", "7"}
	n := 1 + r.Intn(5)
	var queries []string
	for i := 0; i < n; i++ {
		c := rawChordDef{name: fmt.Sprintf("X%d", i), display: fmt.Sprintf("x%d", i)}
		for k := 0; k < r.Intn(3); k++ {
			c.attrs = append(c.attrs, attrNames[r.Intn(len(attrNames))])
		}
		if r.Intn(3) != 0 || len(c.attrs) == 0 {
			c.extends = parents[r.Intn(len(parents))]
		}
		if r.Intn(8) == 0 { // override a built-in display
			c.display = symbols[1+r.Intn(len(symbols)-1)]
		}
		if r.Intn(10) == 0 { // a symbol or name that differs from another one by white space only is another symbol
			c.display = []string{"m7 ", " m", "7\t", " ", "M7 ", " x0", "x0 ", "dim\n"}[r.Intn(8)]
			if r.Intn(3) == 0 {
				c.name = []string{"MinorTriad ", " MajorTriad", "X0 "}[r.Intn(3)]
			}
		}
		parents = append(parents, c.name, c.display)
		queries = append(queries, c.name, c.display)
		chords = append(chords, c)
	}
	if r.Intn(4) == 0 { // re-define a built-in long name, usually under a new symbol
		bn := [][2]string{{"MajorTriad", ""}, {"Sixth", "6"}, {"DominantSeventh", "7"}, {"SeventhSuspendedFourth", "7sus4"}, {"DominantNinth", "9"}, {"MajorSeventh", "M7"},
			{"MajorNinth", "M9"}, {"MinorTriad", "m"}, {"MinorSeventh", "m7"}, {"DiminishedTriad", "dim"}, {"SuspendedFourth", "sus4"}, {"AddedNinth", "add9"}}[r.Intn(12)]
		c := rawChordDef{name: bn[0], display: bn[1]}
		if r.Intn(3) != 0 {
			c.display = fmt.Sprintf("z%d", r.Intn(3))
		}
		switch r.Intn(5) {
		case 0:
			c.extends = "NoSuchChord"
		case 1:
			c.attrs = []string{"Perfect1", "NoSuchAttr"}
		case 2:
			c.extends = bn[0] // self loop
		case 3:
			c.attrs = []string{"Perfect1", "Minor3", "Perfect5"}
		case 4:
			c.extends = parents[r.Intn(len(parents))]
			c.attrs = []string{attrNames[r.Intn(len(attrNames))]}
		}
		if r.Intn(3) == 0 && bn[1] != "" && c.display != bn[1] {
			// the new definition builds on the one it replaces, reached through the old symbol
			c.extends = bn[1]
			c.attrs = []string{attrNames[r.Intn(len(attrNames))]}
		}
		chords = append(chords, c)
		queries = append(queries, bn[0], bn[1], c.display)
	}
	if r.Intn(6) == 0 { // the same name defined twice in one file: the second replaces the first, whose display stays behind as an alias
		first := rawChordDef{name: "Twice", display: "tw1", attrs: []string{"Perfect1"}}
		switch r.Intn(4) {
		case 0:
			first.extends = "tw1" // the stale alias extends itself
		case 1:
			first.extends = "NoSuchChord"
		case 2:
			first.attrs = []string{"NoSuchAttr"}
		case 3:
			first.extends = "MajorTriad"
		}
		second := rawChordDef{name: "Twice", display: "tw2", extends: "MinorTriad"}
		chords = append(chords, first, second)
		queries = append(queries, "tw1", "tw2", "Twice")
	}
	// inconsistencies
	switch r.Intn(10) {
	case 0:
		chords[r.Intn(len(chords))].attrs = append(chords[r.Intn(len(chords))].attrs, "NoSuchAttr")
	case 1:
		chords[r.Intn(len(chords))].extends = "NoSuchChord"
	case 2: // cycle
		i := r.Intn(len(chords))
		chords[i].extends = chords[len(chords)-1].name
		chords[len(chords)-1].extends = chords[i].display
	case 3:
		chords[r.Intn(len(chords))].name = ""
	case 4:
		i := r.Intn(len(chords))
		chords[i].attrs = nil
		chords[i].extends = ""
	case 5:
		chords[r.Intn(len(chords))].display = ""
	case 6:
		if len(attrs) > 0 {
			attrs[0].name = ""
		}
	}
	queries = append(queries, "m", "7", "", "MajorTriad")
	return attrs, chords, queries
}

func streamDict() {
	s, done := openStream("dict")
	defer done()
	r := rng("dict")
	var cases []writeCase
	for i := 0; i < pick(600, 8000); i++ {
		attrs, chords, queries := genDict(r)
		if len(chords) >= 2 && r.Intn(3) == 0 { // children before their parents (and, split over two files, in an earlier file)
			k := 1 + r.Intn(len(chords)-1)
			chords = append(append([]rawChordDef{}, chords[k:]...), chords[:k]...)
		}
		c := writeCase{flags: writeFlags{track: 1, instrument: "Piano"}, attrs: attrs, chords: chords}
		if len(chords) >= 2 && r.Intn(6) == 0 {
			c.repeatFirst = 1 + r.Intn(len(chords)-1)
		}
		q := queries[r.Intn(len(queries))]
		c.is = []rawInstance{{chord: &rawChord{degree: sp("1"), name: q}, values: []string{"1"}}}
		if r.Intn(8) == 0 { // a piece that plays no chord at all: the dictionary is checked all the same
			c.is = []rawInstance{{values: []string{"1"}}, {values: []string{"1/2"}}}
			cases = append(cases, c)
			continue
		}
		if r.Intn(2) == 0 { // several look-ups in one run, with repeats
			for k := 0; k < 2+r.Intn(4); k++ {
				q2 := queries[r.Intn(len(queries))]
				if r.Intn(3) == 0 {
					q2 = q
				}
				c.is = append(c.is, rawInstance{chord: &rawChord{degree: sp(degreeStrings[r.Intn(7)]), name: q2}, values: []string{"1"}})
			}
		}
		cases = append(cases, c)
	}
	// fixed cases: a user chord next to the built-in children of the same parent, each used again after the other
	// (what one chord's resolution leaves behind must not leak into the next)
	family := []struct {
		parent   string
		children []string
	}{
		{"MajorTriad", []string{"7", "M7", "6", "add9", ""}}, {"MinorTriad", []string{"m7", "mM7", "m6", "m"}},
		{"DiminishedTriad", []string{"m7b5", "dim7", "dim"}}, {"AugmentedTriad", []string{"augM7", "aug"}},
		{"DominantSeventh", []string{"9", "7"}}, {"MajorSeventh", []string{"M9", "maj7", "M7"}}, {"MinorSeventh", []string{"m9", "m7"}},
		{"MinorMajorSeventh", []string{"mM9", "mM7"}}, {"SuspendedFourth", []string{"7sus4", "sus4"}}, {"MajorNinth", []string{"maj9", "M9"}},
	}
	for _, fam := range family {
		for _, extra := range []string{"Minor9", "Major13", "Augmented11"} {
			user := []rawChordDef{{name: "UserChild", display: "uc", extends: fam.parent, attrs: []string{extra}},
				{name: "UserGrandChild", display: "ugc", extends: "UserChild", attrs: []string{"Major7"}}}
			for _, child := range fam.children {
				for _, order := range [][]string{{child, "uc", child, "uc"}, {"uc", child, "ugc", "uc", child}, {"ugc", "uc", child, "ugc"}} {
					c := writeCase{flags: writeFlags{track: 1, instrument: "Piano"}, chords: user}
					for k, sym := range order {
						c.is = append(c.is, rawInstance{chord: &rawChord{degree: sp(degreeStrings[k%7]), name: sym}, values: []string{"1"}})
					}
					cases = append(cases, c)
				}
			}
		}
	}
	// fixed cases: a file named again after another file that re-defines its chords (the last definition counts)
	for _, sym := range []string{"pow", "m7", "7"} {
		house := rawChordDef{name: "House" + sym, display: sym, attrs: []string{"Perfect1", "Perfect5"}}
		song := rawChordDef{name: "Song" + sym, display: sym, attrs: []string{"Perfect1", "Perfect5", "Major9"}}
		same := rawChordDef{name: "House" + sym, display: sym, attrs: []string{"Perfect1", "Major3"}}
		for _, b := range []rawChordDef{song, same} {
			for _, tr := range []int64{1, 2} {
				cases = append(cases, writeCase{repeatFirst: 1, flags: writeFlags{track: tr, instrument: "Piano", key: "D"}, chords: []rawChordDef{house, b},
					is: []rawInstance{{chord: &rawChord{degree: sp("2"), name: sym}, values: []string{"1"}}, {chord: &rawChord{degree: sp("5"), name: "House" + sym}, values: []string{"1"}}}})
			}
		}
	}
	// fixed cases: chords of very many notes (more than a byte can count), on one and on several tracks
	for _, n := range []int{127, 128, 129, 255, 256, 257, 258, 300, 513} {
		big := rawChordDef{name: "Cluster", display: "clu"}
		small := []string{"Perfect1", "Minor2", "Major2", "Minor3", "Major3", "Perfect4", "Perfect5", "Minor6", "Major6", "Minor7", "Major7", "Perfect8", "Major9"}
		for k := 0; k < n; k++ {
			big.attrs = append(big.attrs, small[k%len(small)])
		}
		for _, tr := range []int64{1, 2, 3} {
			cases = append(cases, writeCase{flags: writeFlags{track: tr, instrument: "Piano"}, chords: []rawChordDef{big},
				is: []rawInstance{{values: []string{"1"}}, {chord: &rawChord{degree: sp("1"), name: "clu"}, values: []string{"2"}}, {values: []string{"1/2"}}, {chord: &rawChord{degree: sp("5"), name: ""}, values: []string{"1"}}}})
		}
	}
	// fixed cases: long chains of inheritance (every link adds a note; the deepest chord sounds them all)
	for _, n := range []int{8, 31, 32, 33, 34, 40, 64, 65, 130, 300} {
		var chain []rawChordDef
		adds := []string{"Major9", "Perfect11", "Major13", "Minor7", "Major7", "Minor9", "Augmented11", "Minor13", "Perfect8", "Major6"}
		for k := 1; k <= n; k++ {
			parent := "MajorTriad"
			if k > 1 {
				parent = fmt.Sprintf("t%d", k-1)
				if k%2 == 0 {
					parent = fmt.Sprintf("Tower%d", k-1)
				}
			}
			chain = append(chain, rawChordDef{name: fmt.Sprintf("Tower%d", k), display: fmt.Sprintf("t%d", k), extends: parent, attrs: []string{adds[k%len(adds)]}})
		}
		for _, q := range []string{fmt.Sprintf("t%d", n), fmt.Sprintf("Tower%d", n-1), "t1"} {
			cases = append(cases, writeCase{flags: writeFlags{track: 1, instrument: "Piano"}, chords: chain,
				is: []rawInstance{{chord: &rawChord{degree: sp("1"), name: q}, values: []string{"1"}}}})
		}
		if n <= 40 { // children before parents
			rev := append([]rawChordDef{}, chain...)
			for i, j := 0, len(rev)-1; i < j; i, j = i+1, j-1 {
				rev[i], rev[j] = rev[j], rev[i]
			}
			cases = append(cases, writeCase{flags: writeFlags{track: 1, instrument: "Piano"}, chords: rev,
				is: []rawInstance{{chord: &rawChord{degree: sp("1"), name: fmt.Sprintf("t%d", n)}, values: []string{"1"}}}})
		}
	}
	// fixed cases: chord names made of digits and accidentals next to interval numbers, so that writing degree, name
	// and bass one after the other is ambiguous ("1"+"13" = "11"+"3"); each pair is played a, b, a
	{
		user := []rawChordDef{{name: "3", display: "u3", attrs: []string{"Perfect1", "Major3", "Major7"}}, {name: "13", display: "u13", extends: "9", attrs: []string{"Major13"}},
			{name: "1", display: "u1", attrs: []string{"Perfect1", "Perfect5"}}, {name: "11", display: "u11", extends: "m7", attrs: []string{"Perfect11"}},
			{name: "b3", display: "ub3", extends: "MinorTriad"}, {name: "/3", display: "us3", extends: "sus4"}, {name: "7/3", display: "u73", extends: "M7"}}
		type dn struct{ deg, name, base string }
		pairs := [][2]dn{{{"1", "13", ""}, {"11", "3", ""}}, {{"1", "11", ""}, {"11", "1", ""}}, {{"1", "1", ""}, {"11", "", ""}}, {{"b3", "3", ""}, {"b33", "", ""}},
			{{"1", "b3", ""}, {"1b", "3", ""}}, {{"1", "/3", ""}, {"1", "", "3"}}, {{"1", "7/3", ""}, {"1", "7", "3"}}, {{"1", "3", ""}, {"13", "", ""}},
			{{"#1", "3", ""}, {"1", "3", ""}}, {{"1", "13", "5"}, {"11", "3", "5"}}}
		inst := func(x dn, key *string) rawInstance {
			i := rawInstance{chord: &rawChord{degree: sp(x.deg), name: x.name}, values: []string{"1"}, key: key}
			if x.base != "" {
				i.chord.base = sp(x.base)
			}
			return i
		}
		for _, pr := range pairs {
			for _, k := range []string{"", "C", "C#", "Bb"} {
				var key *string
				if k != "" {
					key = sp(k)
				}
				for _, ord := range [][2]int{{0, 1}, {1, 0}} {
					a, b := pr[ord[0]], pr[ord[1]]
					cases = append(cases, writeCase{flags: writeFlags{track: 1, instrument: "Piano"}, chords: user,
						is: []rawInstance{inst(a, key), inst(b, nil), inst(a, nil)}})
				}
			}
		}
		// key and degree next to each other: C + "#1" and C# + "1"
		cases = append(cases, writeCase{flags: writeFlags{track: 1, instrument: "Piano"}, chords: user,
			is: []rawInstance{inst(dn{"#1", "", ""}, sp("C")), inst(dn{"1", "", ""}, sp("C#")), inst(dn{"#1", "", ""}, sp("C")), inst(dn{"b1", "m", ""}, sp("C")), inst(dn{"1", "m", ""}, sp("Cb"))}})
	}
	// fixed cases: long names and display symbols share one space of names.  A user chord named like another chord's
	// symbol (or showing another chord's long name as its symbol) takes that name over, whatever it is itself shown
	// as; the chord that lost the name stays reachable under its other name
	{
		type take struct{ name, display string }
		for _, t := range []take{{"dim", "o"}, {"7", "dom"}, {"m", "min"}, {"M7", "maj"}, {"sus4", "s4"}, {"6", "six"}, {"aug", "plus"}, {"m7b5", "hd"},
			{"Oh", "MajorTriad"}, {"Dom", "DominantSeventh"}, {"MinorTriad", "MajorTriad"}, {"7", "m"}, {"m", "7"}, {"dim", "dim7"}} {
			for _, body := range []rawChordDef{{attrs: []string{"Perfect1", "Minor3", "Diminished5", "Major6"}}, {extends: "MinorTriad", attrs: []string{"Major9"}}, {extends: t.name}, {extends: t.display}} {
				u := rawChordDef{name: t.name, display: t.display, attrs: body.attrs, extends: body.extends}
				child := rawChordDef{name: "ChildOfTaken", display: "cot", extends: t.name, attrs: []string{"Major13"}}
				for _, defs := range [][]rawChordDef{{u}, {u, child}, {child, u}} {
					c := writeCase{flags: writeFlags{track: 1, instrument: "Piano"}, chords: defs}
					for k, q := range []string{t.name, t.display, "cot", t.name, "DiminishedTriad", "dim", "7", "m", ""} {
						if q == "cot" && len(defs) == 1 {
							continue
						}
						c.is = append(c.is, rawInstance{chord: &rawChord{degree: sp(degreeStrings[k%7]), name: q}, values: []string{"1"}})
					}
					cases = append(cases, c)
					// one look-up per run as well: a refused dictionary must not hide behind a chord that is not played
					cases = append(cases, writeCase{flags: writeFlags{track: 1, instrument: "Piano"}, chords: defs,
						is: []rawInstance{{chord: &rawChord{degree: sp("1"), name: t.name}, values: []string{"1"}}}})
				}
			}
		}
	}
	results := make([]string, len(cases))
	parallel(len(cases), func(i int) {
		cl, out := runWrite(i, cases[i])
		if cl == "ok" {
			results[i] = "ok " + hxb(out)
		} else {
			results[i] = cl
		}
	})
	for i, c := range cases {
		s.add(c.req("write"), results[i])
		s.stat("class-" + strings.SplitN(results[i], " ", 2)[0])
	}
}

// ---------- diatonic: info key describe -> text conv syllable -> write, for every key ----------

func init() { streams["diatonic"] = streamDiatonic }

func seqStrings(n *yaml.Node) []string {
	var out []string
	if n == nil {
		return out
	}
	for _, x := range n.Content {
		out = append(out, x.Value)
	}
	return out
}

func streamDiatonic() {
	s, done := openStream("diatonic")
	defer done()
	var spellings []string
	for _, l := range "ABCDEFG" {
		for _, a := range []string{"", "#", "b"} {
			for _, m := range []string{"", "m"} {
				spellings = append(spellings, string(l)+a+m)
			}
		}
	}
	type keyRes struct {
		lines [][2]string
		viol  [][2]string
	}
	results := make([]keyRes, len(spellings))
	parallel(len(spellings), func(i int) {
		k := spellings[i]
		var kr keyRes
		res := runCrd(nil, 10*time.Second, "info", "key", "describe", "--key", k)
		if res.class() != "ok" {
			kr.lines = append(kr.lines, [2]string{"newscale " + hx(k), "none"})
			results[i] = kr
			return
		}
		var doc yaml.Node
		must(yaml.Unmarshal(res.stdout, &doc))
		root := doc.Content[0]
		sc := mapGet(root, "scale")
		num := func(key string) string {
			if x := mapGet(sc, key); x != nil {
				return x.Value
			}
			return "0"
		}
		hxs := func(xs []string) string {
			var o []string
			for _, x := range xs {
				o = append(o, hx(x))
			}
			return pList(o)
		}
		tri := seqStrings(mapGet(mapGet(root, "diatonic"), "triads"))
		sev := seqStrings(mapGet(mapGet(root, "diatonic"), "sevenths"))
		kr.lines = append(kr.lines, [2]string{"newscale " + hx(k),
			fmt.Sprintf("ok %s %s %s %s %s %s", hx(mapGet(sc, "key").Value), num("flat"), num("sharp"), hxs(seqStrings(mapGet(sc, "notes"))), hxs(tri), hxs(sev))})
		for _, str := range append(append([]string{}, tri...), sev...) {
			cc := convCase{"syllable", k, []byte(str + "[1]")}
			out := runConv(cc)
			kr.lines = append(kr.lines, [2]string{cc.req(), out})
			// feed crd's own output into crd write --key K
			cres := runCrd(cc.text, 10*time.Second, "text", "conv", "syllable", "--key", k)
			if cres.class() != "ok" {
				continue
			}
			is, err := rawFromYAML(cres.stdout)
			if err != nil {
				continue
			}
			wc := writeCase{flags: writeFlags{track: 1, instrument: "Piano", key: k}, is: is}
			wres := runCrd(cres.stdout, 10*time.Second, "write", "--key", k)
			real := wres.class()
			if real == "ok" {
				real = "ok " + hxb(wres.stdout)
			}
			kr.lines = append(kr.lines, [2]string{wc.req("write"), real})
		}
		// the chords of the key in one piece, in random order with repeats (state kept between chords), once with a leading rest
		all := append(append([]string{}, tri...), sev...)
		if len(all) > 0 {
			rr := rand.New(rand.NewSource(seed*7919 + int64(i)))
			for _, lead := range []string{"", "R[1] "} {
				var parts []string
				// written the way a person would paste them: any white space the lexer takes, also right after the symbol
				blanks := []string{" ", "", "\t", "\n", "\u00a0", "\u3000", "\u2028", "\v", " \r\n ", "\u0085", " ;chord\n"}
				var plain []string
				for n := 0; n < 18; n++ {
					c := all[rr.Intn(len(all))]
					parts = append(parts, c+blanks[rr.Intn(len(blanks))]+"[1]"+blanks[rr.Intn(len(blanks))])
					plain = append(plain, c+"[1]")
				}
				txt := lead + strings.Join(parts, " ")
				cc := convCase{"syllable", k, []byte(txt)}
				kr.lines = append(kr.lines, [2]string{cc.req(), runConv(cc)})
				cres := runCrd(cc.text, 10*time.Second, "text", "conv", "syllable", "--key", k)
				// the reported chords must be playable however they are spaced: same instances as the plainly spaced text,
				// and `write --key K` takes them
				pres := runCrd([]byte(lead+strings.Join(plain, " ")), 10*time.Second, "text", "conv", "syllable", "--key", k)
				if pres.class() != cres.class() || !bytes.Equal(pres.stdout, cres.stdout) {
					kr.viol = append(kr.viol, [2]string{fmt.Sprintf("crd text conv syllable --key %s on %q", k, txt),
						fmt.Sprintf("%s %q, while the same chords separated by single spaces give %s %q", cres.class(), trunc(cres.stdout), pres.class(), trunc(pres.stdout))})
				} else if cres.class() == "ok" {
					if w := runCrd(cres.stdout, 10*time.Second, "write", "--key", k); w.class() != "ok" {
						kr.viol = append(kr.viol, [2]string{fmt.Sprintf("crd text conv syllable --key %s | crd write --key %s on %q", k, k, txt), "write: " + w.class() + " " + trunc(w.stderr)})
					}
				}
				if cres.class() == "ok" {
					if is, err := rawFromYAML(cres.stdout); err == nil {
						wc := writeCase{flags: writeFlags{track: 1, instrument: "Piano", key: k}, is: is}
						wres := runCrd(cres.stdout, 10*time.Second, "write", "--key", k)
						real := wres.class()
						if real == "ok" {
							real = "ok " + hxb(wres.stdout)
						}
						kr.lines = append(kr.lines, [2]string{wc.req("write"), real})
					}
				}
			}
		}
		results[i] = kr
	})
	for _, kr := range results {
		for _, l := range kr.lines {
			s.add(l[0], l[1])
			s.stat(strings.SplitN(l[0], " ", 2)[0])
		}
		for _, v := range kr.viol {
			s.violate("C17", "the chords reported for a key, fed back with other white space, do not convert and play like the same chords plainly spaced", v[0], v[1])
		}
	}
	// `crd info key list`: all scales alive in one process, printed in order
	{
		res := runCrd(nil, 10*time.Second, "info", "key", "list")
		real := res.class()
		if real == "ok" {
			var doc yaml.Node
			must(yaml.Unmarshal(res.stdout, &doc))
			var items []string
			if len(doc.Content) > 0 {
				for _, sc := range doc.Content[0].Content {
					num := func(key string) string {
						if x := mapGet(sc, key); x != nil {
							return x.Value
						}
						return "0"
					}
					var notes []string
					for _, n := range seqStrings(mapGet(sc, "notes")) {
						notes = append(notes, hx(n))
					}
					items = append(items, fmt.Sprintf("%s %s %s %s", hx(mapGet(sc, "key").Value), num("flat"), num("sharp"), pList(notes)))
				}
			}
			real = "ok " + pList(items)
		}
		s.add("keylist", real)
		s.stat("keylist")
	}
}

// ---------- wconv: crd write conv -c cmt, and its output fed back into crd write ----------

func init() { streams["wconv"] = streamWconv }

func eventLines(out []byte) string {
	var keep []string
	for _, l := range strings.Split(string(out), "\n") {
		if strings.Contains(l, "MetaText") || l == "" {
			continue
		}
		keep = append(keep, l)
	}
	return strings.Join(keep, "\n")
}

func streamWconv() {
	s, done := openStream("wconv")
	defer done()
	r := rng("wconv")
	var cases []writeCase
	var cmds [][]string
	for i := 0; i < pick(800, 12000); i++ {
		c := genWriteCase(r)
		if c.flags.track > 64 {
			c.flags.track = 1
		}
		cases = append(cases, c)
		switch r.Intn(12) {
		case 0:
			cmds = append(cmds, []string{"xyz"})
		case 1:
			cmds = append(cmds, []string{"cmt", "cmt"})
		case 2:
			cmds = append(cmds, nil)
		default:
			cmds = append(cmds, []string{"cmt"})
		}
	}
	type res struct {
		reply  string
		oracle string
	}
	out := make([]res, len(cases))
	parallel(len(cases), func(i int) {
		c := cases[i]
		args := []string{"write", "conv"}
		for _, x := range cmds[i] {
			args = append(args, "-c", x)
		}
		args = append(args, c.flags.args()...)
		doc := []byte(yamlDoc(c.is))
		rr := runCrd(doc, 20*time.Second, args...)
		switch rr.class() {
		case "crash":
			out[i].reply = "crash"
			return
		case "err":
			out[i].reply = "err"
			if len(rr.stdout) != 0 {
				out[i].reply = "err-with-stdout"
			}
			return
		}
		is, err := rawFromYAML(rr.stdout)
		if err != nil {
			out[i].reply = "bad-yaml " + err.Error()
			return
		}
		var items []string
		for _, x := range is {
			items = append(items, x.proto())
		}
		out[i].reply = "ok " + pList(items)
		// property oracle on the real code: the converted document plays exactly like the original (the flags were
		// already folded into the converted document, so the second write runs without them except the track layout)
		extra := writeFlags{track: c.flags.track, instrument: c.flags.instrument, program: c.flags.program}.args()
		direct := runCrd(doc, 20*time.Second, append(append([]string{"write", "event"}, c.flags.args()...))...)
		via := runCrd(rr.stdout, 20*time.Second, append([]string{"write", "event"}, extra...)...)
		if direct.class() != via.class() || eventLines(direct.stdout) != eventLines(via.stdout) {
			out[i].oracle = fmt.Sprintf("direct: %s %q | via write conv: %s %q", direct.class(), trunc([]byte(eventLines(direct.stdout))), via.class(), trunc([]byte(eventLines(via.stdout))))
		}
	})
	for i, c := range cases {
		var cs []string
		for _, x := range cmds[i] {
			cs = append(cs, hx(x))
		}
		req := c.req("wconv")
		// splice the command list before the instance list: wconv flags attrs chords cmds instances
		var as, chs, is []string
		for _, a := range c.attrs {
			as = append(as, hx(a.name)+" "+pOptHx(a.degree))
		}
		_ = chs
		for _, x := range c.is {
			is = append(is, x.proto())
		}
		req = strings.Join([]string{"wconv", c.flags.proto(), pList(as), pList(nil), pList(cs), pList(is)}, " ")
		s.add(req, out[i].reply)
		s.stat("class-" + strings.SplitN(out[i].reply, " ", 2)[0])
		if out[i].oracle != "" {
			s.violate("C10", "`crd write conv | crd write` does not play like `crd write` on the original document", req, out[i].oracle)
		}
	}
}
