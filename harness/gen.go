package main

import (
	"fmt"
	"math/rand"
	"strings"
	"time"
)

func timeAfter() <-chan time.Time { return time.After(5 * time.Second) }

// corpus of minimised past disagreements and hand-picked edge cases; runs first
var corpusTexts = []string{
	"", " ", "C", "Cm", "C[1]", "C[1] ;x", "C[1]{a", "C[1]{a=b", "C[1]{a=b}", "C[1]{a=b,c=d}", "C[1]{a=b,}", "C[1]{}", "C[1]{a=}",
	"C[1]{=b}", "C[1]{a==b}", "R[1]", "R[1/2,3]", "R", "R[", "R[1", "R[1,]", "R[,1]", "C_7[1]", "C_[1]", "C_ 7[1]", "C_;x\n7[1]",
	"C#m7b5[1] ;c\n Bb_7/D[1/4,2]{txt=hi there,key=Am}", "Cb/Eb[1]", "C/[1]", "C/1[1]", "1/C[1]", "1b/3#[2/3]", "1♭[1]", "C♯m[1]",
	"C[1]]", "C[[1]", "C[1] D", "C[1] D[", "C[1]{a=b}{c=d}", "C[01/002]", "C[0]", "C[1/0]", "C[18446744073709551616]",
	"18446744073709551616[1]", "C[1]{bpm=0}", "C[1]{bpm=x}", "C[1]{vel=zz}", "C[1]{mtr=3}", "C[1]{mtr=0/4}", "C[1]{key=E#}", "C[1]{key=zz}",
	"C[1]{ txt = a b , lic=x}", "C[1]{txt=a\nb}", "C[1]{txt=;not comment}", ";only comment", ";c\nC[1]", "\xff", "C\xff[1]", "C[1]\xc3",
	"H[1]", "c[1]", "Cmaj7[1]", "C m[1]", "Cm7/G/B[1]", "C]m[1]", "C,m[1]", "C{m[1]", "C}[1]", "C=[1]", "C_=[1]", "C_/[1]",
	"C[1]{a=b} ;trailing", "C[1]{txt=a}}", "C[1]{{txt=a}", "R[1]{key=Am} C[1]", "C[1]{key=G} D[1]", "\ufeffC[1]", "C\ufeffm7[1]", "C[1]{\ufefftxt=hi}", "C[1]\ufeff", "C[1] \ufeff D[1]", "C\u200bm[1]", "C[1] ;a\u2028D[1]\nE[1]", "C[1] ;a\u2029D[1]\nE[1]", "C[1] ;a\u0085D[1]\nE[1]", "C[1] ;a\rD[1]\nE[1]", "C[1]\u2028D[1]", "C[１]", "C[1/٢]", "２[1]", "C７[1]", "C[1１]", "C_٢[1]", "C[1]{bpm=１}", "D[1]{key=B♭}", "D[1]{key=F♯m} E[1]", "1[1]{key=E♭}", "C[1]{key=♭B}", "C[1]{key=B♭♭}", "G7[1]", "G_7[1]", "5_7[1]", "57[1]",
}

var symbols = []string{"", "m", "dim", "aug", "7", "M7", "maj7", "m7", "mM7", "m7b5", "dim7", "augM7", "9", "mM9", "m9", "M9", "maj9", "sus4", "7sus4", "6", "m6", "add9", "sus2"}
var keys28 = []string{"Gb", "Db", "C#", "Ab", "Eb", "Bb", "F", "C", "G", "D", "A", "E", "B", "Cb", "F#",
	"Ebm", "Bbm", "Fm", "Cm", "Gm", "Dm", "Am", "Em", "Bm", "F#m", "C#m", "G#m", "D#m"}

func trivia(r *rand.Rand, heavy bool) string {
	if !heavy {
		if r.Intn(3) == 0 {
			return " "
		}
		return ""
	}
	var b strings.Builder
	for i := 0; i < r.Intn(4); i++ {
		switch r.Intn(6) {
		case 0:
			b.WriteString(" ")
		case 1:
			b.WriteString("\n")
		case 2:
			b.WriteString("\t")
		case 3:
			b.WriteString(";comment " + fmt.Sprint(r.Intn(100)) + "\n")
		case 4:
			b.WriteString("  ")
		case 5:
			b.WriteString(" ")
		}
	}
	return b.String()
}

func genDur(r *rand.Rand) string {
	n := 1 + r.Intn(8)
	switch r.Intn(5) {
	case 0:
		return fmt.Sprint(n)
	case 1:
		return fmt.Sprintf("%d/%d", n, 1<<uint(r.Intn(6)))
	case 2:
		return fmt.Sprintf("%d/%d", n, 1+r.Intn(13))
	case 3:
		return fmt.Sprintf("0%d/00%d", n, 1+r.Intn(9))
	default:
		return fmt.Sprintf("%d/%d", r.Intn(3), r.Intn(3))
	}
}

func genMeta(r *rand.Rand, heavy bool) string {
	if r.Intn(3) != 0 {
		return ""
	}
	var kv []string
	for i := 0; i < 1+r.Intn(3); i++ {
		switch r.Intn(9) {
		case 0:
			kv = append(kv, "key="+keys28[r.Intn(len(keys28))])
		case 1:
			kv = append(kv, fmt.Sprintf("bpm=%d", r.Intn(300)))
		case 2:
			kv = append(kv, "vel="+[]string{"pp", "p", "mp", "mf", "f", "ff", "fff", ""}[r.Intn(8)])
		case 3:
			kv = append(kv, fmt.Sprintf("mtr=%d/%d", r.Intn(8), r.Intn(9)))
		case 4:
			kv = append(kv, "txt="+[]string{"hello", "a b c", "é♯ü", "x;y", "[1]", "C#m/G", " lead", "trail ", "multi\nline"}[r.Intn(9)])
		case 5:
			kv = append(kv, "lic=la la")
		case 6:
			kv = append(kv, "mrk=A")
		case 7:
			kv = append(kv, "foo=bar")
		case 8:
			kv = append(kv, "key="+[]string{"E#", "Fb", "zz", "G#", "Abm"}[r.Intn(5)])
		}
	}
	sep := ","
	if heavy && r.Intn(2) == 0 {
		sep = " , "
	}
	return "{" + strings.Join(kv, sep) + "}"
}

// a chord text: mostly valid; syllable or degree notation
func genChordText(r *rand.Rand, heavy bool) string {
	degreeMode := r.Intn(3) == 0
	n := 1 + r.Intn(6)
	var b strings.Builder
	b.WriteString(trivia(r, heavy))
	for i := 0; i < n; i++ {
		if r.Intn(6) == 0 {
			b.WriteString("R")
		} else {
			root := func() string {
				acc := []string{"", "", "#", "b", "♯", "♭"}[r.Intn(6)]
				if degreeMode {
					return fmt.Sprint(1+r.Intn(9)) + acc
				}
				return string("CDEFGAB"[r.Intn(7)]) + acc
			}
			b.WriteString(root())
			b.WriteString(trivia(r, heavy))
			sym := symbols[r.Intn(len(symbols))]
			if sym != "" {
				needUnderscore := sym[0] >= '0' && sym[0] <= '9'
				if needUnderscore || r.Intn(4) == 0 {
					b.WriteString("_")
					if heavy && r.Intn(3) == 0 {
						b.WriteString(" ")
					}
				}
				b.WriteString(sym)
				b.WriteString(trivia(r, heavy))
			}
			if r.Intn(4) == 0 {
				b.WriteString("/")
				b.WriteString(trivia(r, heavy))
				b.WriteString(root())
				b.WriteString(trivia(r, heavy))
			}
		}
		b.WriteString("[")
		b.WriteString(trivia(r, heavy))
		for j := 0; j < 1+r.Intn(3); j++ {
			if j > 0 {
				b.WriteString(",")
				b.WriteString(trivia(r, heavy))
			}
			b.WriteString(genDur(r))
			b.WriteString(trivia(r, heavy))
		}
		b.WriteString("]")
		b.WriteString(trivia(r, heavy))
		b.WriteString(genMeta(r, heavy))
		b.WriteString(trivia(r, heavy))
		if i+1 < n {
			b.WriteString(" ")
		}
	}
	return b.String()
}

func mutateBytes(r *rand.Rand, b []byte) []byte {
	out := append([]byte{}, b...)
	for k := 0; k < 1+r.Intn(3); k++ {
		if len(out) == 0 {
			return []byte{byte(r.Intn(256))}
		}
		i := r.Intn(len(out))
		switch r.Intn(6) {
		case 5:
			ins := []string{"１", "٢", "७", "Ⅴ", "²", "é", "♮", "\u00a0", "\u2028", "\ufeff", "\u200b", "\u2029", "\u0085", "\u3000"}[r.Intn(14)]
			out = append(out[:i], append([]byte(ins), out[i:]...)...)
		case 0:
			out = append(out[:i], out[i+1:]...)
		case 1:
			out[i] = "[]{}=,/_;#b CR1m\n"[r.Intn(17)]
		case 2:
			out = append(out[:i], append([]byte{"[]{}=,/_;#b CR1m\n"[r.Intn(17)]}, out[i:]...)...)
		case 3:
			out[i] = byte(r.Intn(256))
		case 4:
			j := r.Intn(len(out))
			out[i], out[j] = out[j], out[i]
		}
	}
	return out
}
