package main

// keyconv: `crd info key conv` through the real binary (the `chain` stream calls the library in process): the command
// line route, including very long commands.

import (
	"fmt"
	"math/rand"
	"os"
	"path/filepath"
	"strings"
	"time"
)

func init() { streams["keyconv"] = streamKeyconv }

func streamKeyconv() {
	s, done := openStream("keyconv")
	defer done()
	r := rng("keyconv")
	type kc struct{ key, chain string }
	var cases []kc
	for _, k := range keys28 {
		for _, ch := range []string{"p", "r", "d", "s", "pp", "ds", "dddddddddddd", "ssssssssssss", "pppppppppppp", "rrrrrrrrrrrr"} {
			cases = append(cases, kc{k, ch})
		}
		cases = append(cases, kc{k, randChain(r, 1+r.Intn(8))})
	}
	for _, n := range []int{100, 255, 256, 1000, 1023, 1024, 1025, 4096, 10000, 20000, 65535, 65536, 65537, 70000, pick(100000, 131000)} {
		cases = append(cases, kc{keys28[r.Intn(28)], randChain(r, n)}, kc{"Cb", strings.Repeat("dprs", n/4) + "d"})
	}
	for _, k := range []string{"E#", "zz", "G#", ""} {
		cases = append(cases, kc{k, "d"})
	}
	// commands of every even length up to 4096 that cancel out, from a key with two spellings: whatever is done to
	// the command in pieces (windows, buffers) must not lose a step or a spelling at a boundary
	for n := 2; n <= 4096; n += 2 {
		unit := []string{"ds", "sd", "pp", "rr"}[(n/2)%4]
		cases = append(cases, kc{[]string{"Cb", "F#", "Db", "D#m"}[(n/2)%4], strings.Repeat(unit, n/2)})
	}
	// long runs of one step in one direction (more than one turn of the circle), alone and between other steps
	for _, n := range []int{13, 14, 23, 24, 25, 26, 35, 37, 49, 61, 100, 121, 127, 128, 129, 255, 256, 257, 258, 300, 511, 512, 513, 1000, 65535, 65536, 65537} {
		for _, c := range []string{"s", "d"} {
			cases = append(cases, kc{keys28[r.Intn(28)], strings.Repeat(c, n)}, kc{keys28[r.Intn(28)], "p" + strings.Repeat(c, n) + "r"},
				kc{keys28[r.Intn(28)], strings.Repeat("d", 3) + strings.Repeat(c, n) + "ds"})
		}
	}
	// commands that are not made of the four letters
	for _, c := range []string{"ép", "p♯d", "é", "pé", "日本dd", "d\xffp", "dx", "D", "d d"} {
		cases = append(cases, kc{"C", c})
	}
	results := make([]string, len(cases))
	parallel(len(cases), func(i int) {
		c := cases[i]
		args := []string{"info", "key", "conv", "-c", c.chain}
		if c.key != "" {
			args = append(args, "--key", c.key)
		}
		// every third case writes through -o FILE (onto an existing, longer file): the file then holds the whole answer
		outPath := ""
		if i%3 == 2 {
			dir := filepath.Join(outDir, fmt.Sprintf("kc-%d", i))
			must(os.MkdirAll(dir, 0o755))
			defer os.RemoveAll(dir)
			outPath = filepath.Join(dir, "out.txt")
			must(os.WriteFile(outPath, []byte(strings.Repeat("previous\n", 50)), 0o644))
			args = append(args, "-o", outPath)
		}
		res := runCrd(nil, 30*time.Second, args...)
		if outPath != "" && res.class() == "ok" {
			b, err := os.ReadFile(outPath)
			must(err)
			if len(res.stdout) != 0 {
				b = append(b, []byte("STDOUT-AS-WELL\n")...)
			}
			res.stdout = b
		}
		switch res.class() {
		case "crash":
			results[i] = "crash"
		case "err":
			results[i] = "err"
		default:
			var keys []string
			for _, l := range strings.Split(strings.TrimSpace(string(res.stdout)), "\n") {
				if l != "" {
					keys = append(keys, hx(l))
				}
			}
			results[i] = "ok " + pList(keys)
		}
	})
	for i, c := range cases {
		k := c.key
		if k == "" {
			k = "C" // the flag's absence means C
		}
		s.add("chain "+hx(k)+" "+hx(c.chain), results[i])
		s.stat("class-" + strings.SplitN(results[i], " ", 2)[0])
	}
}

func randChain(r *rand.Rand, n int) string {
	var b strings.Builder
	for j := 0; j < n; j++ {
		b.WriteByte("prds"[r.Intn(4)])
	}
	return b.String()
}
