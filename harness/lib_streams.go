//go:build !cliharness

package main

import (
	"io"
	"bytes"
	"fmt"
	"sort"
	"strings"

	"github.com/berquerant/crd/chord"
	"github.com/berquerant/crd/desc"
	"github.com/berquerant/crd/input/ast"
	"github.com/berquerant/crd/midix"
	"github.com/berquerant/crd/note"
	"github.com/berquerant/crd/op"
	"github.com/berquerant/crd/util"
	"github.com/berquerant/ybase"
	"gitlab.com/gomidi/midi/v2/smf"
)

func init() {
	streams["note"] = streamNote
	streams["scale"] = streamScale
	streams["chain"] = streamChain
	streams["ticks"] = streamTicks
	streams["midix"] = streamMidix
	streams["lex"] = streamLex
	streams["parse"] = streamParse
	streams["describe"] = streamDescribe
}

var qualities = []note.DegreeName{note.MajorDegree, note.MinorDegree, note.PerfectDegree, note.AugmentedDegree,
	note.DiminishedDegree, note.DoublyAugmentedDegree, note.DoublyDiminishedDegree}

// recover from panics of library entry points: reported as crash
func guard(f func() string) (out string) {
	defer func() {
		if r := recover(); r != nil {
			out = "crash panic"
		}
	}()
	return f()
}

// ---------- note: Degree.Semitone / String / ParseDegree, GenerateAttributes ----------

func streamNote() {
	s, done := openStream("note")
	defer done()
	maxN := pick(140, 300)
	for n := 0; n <= maxN; n++ {
		for _, q := range append([]note.DegreeName{note.UnknownDegree}, qualities...) {
			d := note.Degree{Value: uint(n), Name: q}
			s.add(fmt.Sprintf("semitone %d %d", n, int(q)), guard(func() string {
				v, ok := d.Semitone()
				if !ok {
					return "none"
				}
				s.stat("semitone-ok")
				return fmt.Sprintf("ok %d", int(v))
			}))
			if q != note.UnknownDegree {
				s.add(fmt.Sprintf("degstr %d %d", n, int(q)), guard(func() string { return "ok " + hx(d.String()) }))
			}
		}
	}
	// very wide intervals: the size stays exact as long as it fits the machine word (about 5.3e18)
	{
		var big []uint64
		for k := uint(8); k <= 62; k++ {
			big = append(big, uint64(1)<<k-1, uint64(1)<<k, uint64(1)<<k+1)
		}
		for _, n := range []uint64{1e9, 1e12, 1e15, 1e17, 5e17, 7e17, 768614336404564658, 768614336404564659, 768614336404564660, 1e18, 2e18, 3e18, 4e18, 5e18, 5300000000000000000} {
			big = append(big, n, n+1, n+2, n+3, n+4, n+5, n+6)
		}
		rb := rng("note-big")
		for i := 0; i < pick(300, 3000); i++ {
			big = append(big, rb.Uint64()%5300000000000000000+1)
		}
		for _, n := range big {
			for _, q := range qualities {
				d := note.Degree{Value: uint(n), Name: q}
				s.add(fmt.Sprintf("semitone %d %d", n, int(q)), guard(func() string {
					v, ok := d.Semitone()
					if !ok {
						return "none"
					}
					return fmt.Sprintf("ok %d", int(v))
				}))
			}
		}
	}
	// all notation strings over {b,#,0-9} up to a length bound, plus a few other characters
	alphabet := []byte("b#0123456789")
	maxLen := pick(4, 5)
	var rec func(prefix []byte)
	rec = func(prefix []byte) {
		str := string(prefix)
		s.add("parsedeg "+hx(str), guard(func() string {
			d, err := note.ParseDegree(str)
			if err != nil {
				return "none"
			}
			s.stat("parsedeg-ok")
			return fmt.Sprintf("ok %d %d", d.Value, int(d.Name))
		}))
		if len(prefix) == maxLen {
			return
		}
		for _, c := range alphabet {
			rec(append(append([]byte{}, prefix...), c))
		}
	}
	rec(nil)
	r := rng("note")
	odd := []string{"+1", "-1", " 1", "1 ", "b 3", "3b", "b3b", "#b3", "b#3", "1_0", "0x10", "１", "18446744073709551615", "18446744073709551616",
		"b18446744073709551616", "99999999999999999999", "bbbb3", "###3", "n3", "♭3", "b3#", "3#", "3##", "##3##", "b", "#", ""}
	for _, o := range odd {
		rec2 := o
		s.add("parsedeg "+hx(rec2), guard(func() string {
			d, err := note.ParseDegree(rec2)
			if err != nil {
				return "none"
			}
			return fmt.Sprintf("ok %d %d", d.Value, int(d.Name))
		}))
	}
	for i := 0; i < pick(500, 5000); i++ {
		// prefix + big number, exercises ParseUint's 2^64 bound and the octave recursion
		pre := []string{"", "b", "bb", "bbb", "#", "##"}[r.Intn(6)]
		n := r.Uint64() >> uint(r.Intn(64))
		str := fmt.Sprintf("%s%d", pre, n)
		s.add("parsedeg "+hx(str), guard(func() string {
			d, err := note.ParseDegree(str)
			if err != nil {
				return "none"
			}
			return fmt.Sprintf("ok %d %d", d.Value, int(d.Name))
		}))
	}
	for _, n := range []uint{0, 1, 2, 9, 20, 30} {
		attrs := chord.GenerateAttributes(n)
		var items []string
		for _, a := range attrs {
			items = append(items, hx(a.Name)+" "+hx(a.Degree.String()))
		}
		s.add(fmt.Sprintf("genattr %d", n), "ok "+pList(items))
	}
	// ParseNote
	for _, str := range []string{"C", "C#", "Db", "H", "", "xC#", "c", "Bbb", "C♯", "D♭", "x♯F♭♭", "A♮", "E#m", "  F ", "G#b"} {
		str := str
		s.add("parsenote "+hx(str), guard(func() string {
			n, err := note.ParseNote(str)
			if err != nil {
				return "none"
			}
			return "ok " + hx(n.String())
		}))
	}
}

// ---------- describe: Note.AddDegree for 21 roots x built-in attributes x 2 preferences ----------

func streamDescribe() {
	s, done := openStream("describe")
	defer done()
	names := []note.Name{note.C, note.D, note.E, note.F, note.G, note.A, note.B}
	accs := []note.Accidental{note.Natural, note.Sharp, note.Flat}
	b := chord.NewBuilder()
	for _, a := range chord.BasicAttributes() {
		b.Attribute(a)
	}
	for _, c := range chord.BasicChords() {
		b.Chord(c)
	}
	m, err := b.Build()
	must(err)
	for ni, n := range names {
		for ai, a := range accs {
			root := note.NewNote(n, a)
			for _, at := range chord.BasicAttributes() {
				for _, sharp := range []bool{false, true} {
					at := at
					req := fmt.Sprintf("adddeg %d %d %d %d %s", ni+1, ai+1, at.Degree.Value, int(at.Degree.Name), b01(sharp))
					s.add(req, guard(func() string {
						info, err := desc.NewAttribute(m).Describe(at.Name, root, sharp)
						if err != nil {
							return "err invalid"
						}
						s.stat("describe-ok")
						return fmt.Sprintf("ok %s %d", hx(info.Applied.String()), int(info.OctaveDiff))
					}))
				}
			}
			// larger and altered degrees straight through Note.AddDegree
			for v := uint(1); v <= uint(pick(16, 40)); v++ {
				for _, q := range qualities {
					for _, sharp := range []bool{false, true} {
						d := note.Degree{Value: v, Name: q}
						req := fmt.Sprintf("adddeg %d %d %d %d %s", ni+1, ai+1, v, int(q), b01(sharp))
						s.add(req, guard(func() string {
							x, oct, err := root.AddDegree(d, sharp)
							if err != nil {
								return "err invalid"
							}
							return fmt.Sprintf("ok %s %d", hx(x.String()), int(oct))
						}))
					}
				}
			}
		}
	}
}

// ---------- scale: ParseKey, NewScale, diatonic chords, ScaleNote.GetDegree ----------

func streamScale() {
	s, done := openStream("scale")
	defer done()
	var spellings []string
	for _, l := range "ABCDEFG" {
		for _, a := range []string{"", "#", "b"} {
			for _, m := range []string{"", "m"} {
				spellings = append(spellings, string(l)+a+m)
			}
		}
	}
	extra := []string{"", "H", "c", "xCx", "Cmaj7", "Am7", " Bb", "Bbm ", "C##", "Cbb", "mC", "#C", "C♯", "E♭m", "1", "A-", "Gm#"}
	// every scale is built once and KEPT before any of them is looked at, so that state shared between scales
	// (the way `info key list` holds all of them at once) shows up in the replies below
	kept := map[string]*op.Scale{}
	for _, k := range append(spellings, extra...) {
		func() {
			defer func() { recover() }()
			if x, err := op.ParseKey(k); err == nil {
				if sc, err := op.NewScale(x); err == nil {
					kept[k] = sc
				}
			}
		}()
	}
	s.add("keylist", guard(func() string {
		var items []string
		for _, sc := range op.AllScales() {
			var notes []string
			for _, n := range sc.Notes {
				notes = append(notes, hx(n.String()))
			}
			items = append(items, fmt.Sprintf("%s %d %d %s", hx(sc.Key.String()), sc.Flat, sc.Sharp, pList(notes)))
		}
		return "ok " + pList(items)
	}))
	for _, k := range append(spellings, extra...) {
		k := k
		if sc, ok := kept[k]; ok {
			var notes []string
			for _, n := range sc.Notes {
				notes = append(notes, hx(n.String()))
			}
			s.add("keptscale "+hx(k), fmt.Sprintf("ok %s %d %d %s", hx(sc.Key.String()), sc.Flat, sc.Sharp, pList(notes)))
		}
		s.add("parsekey "+hx(k), guard(func() string {
			x, err := op.ParseKey(k)
			if err != nil {
				return "none"
			}
			return "ok " + hx(x.String())
		}))
		s.add("newscale "+hx(k), guard(func() string {
			x, err := op.ParseKey(k)
			if err != nil {
				return "none"
			}
			sc, err := op.NewScale(x)
			if err != nil {
				return "none"
			}
			s.stat("scale-ok")
			var notes, tri, sev []string
			for _, n := range sc.Notes {
				notes = append(notes, hx(n.String()))
			}
			info := desc.NewKey().Describe(sc)
			for _, c := range info.Diatonic.Triads {
				tri = append(tri, hx(c.String()))
			}
			for _, c := range info.Diatonic.Sevenths {
				sev = append(sev, hx(c.String()))
			}
			return fmt.Sprintf("ok %s %d %d %s %s %s", hx(sc.Key.String()), sc.Flat, sc.Sharp, pList(notes), pList(tri), pList(sev))
		}))
	}
	names := []note.Name{note.C, note.D, note.E, note.F, note.G, note.A, note.B}
	accs := []op.Accidental{op.Natural, op.Sharp, op.Flat}
	for n1 := range names {
		for a1 := range accs {
			for n2 := range names {
				for a2 := range accs {
					for _, sh := range []bool{false, true} {
						x := op.ScaleNote{Name: names[n1], Accidental: accs[a1]}
						y := op.ScaleNote{Name: names[n2], Accidental: accs[a2]}
						s.add(fmt.Sprintf("getdeg %d %d %d %d %s", n1+1, a1+1, n2+1, a2+1, b01(sh)), guard(func() string {
							d, err := x.GetDegree(&y, sh)
							if err != nil {
								return "err invalid"
							}
							s.stat("getdeg-ok")
							return "ok " + hx(d.String())
						}))
					}
				}
			}
		}
	}
}

// ---------- chain: KeyConversionChain.Convert ----------

func convOf(c byte) op.KeyConversion {
	switch c {
	case 'p':
		return op.ParallelKey
	case 'r':
		return op.RelativeKey
	case 'd':
		return op.DominantKey
	case 's':
		return op.SubDominantKey
	}
	return op.UnknownKeyConversion
}

func realChain(circle op.CircleOfFifth, key, chain string) string {
	return guard(func() string {
		k, err := op.ParseKey(key)
		if err != nil {
			return "err"
		}
		cs := make([]op.KeyConversion, len(chain))
		for i := range chain {
			cs[i] = convOf(chain[i])
		}
		m, err := op.KeyConversionChain(cs).Convert(circle, k)
		if err != nil {
			return "err"
		}
		var ks []string
		for x := range m.Keys().All() {
			ks = append(ks, x.String())
		}
		sort.Strings(ks)
		for i := range ks {
			ks[i] = hx(ks[i])
		}
		return "ok " + pList(ks)
	})
}

func streamChain() {
	s, done := openStream("chain")
	defer done()
	circle := op.NewCircleOfFifth()
	var keys []string
	for _, sc := range op.AllScales() {
		keys = append(keys, sc.Key.String())
	}
	sort.Strings(keys)
	maxLen := pick(4, 6)
	var rec func(prefix string)
	rec = func(prefix string) {
		for _, k := range keys {
			s.add("chain "+hx(k)+" "+hx(prefix), realChain(circle, k, prefix))
		}
		if len(prefix) == maxLen {
			return
		}
		for _, c := range "prds" {
			rec(prefix + string(c))
		}
	}
	rec("")
	r := rng("chain")
	for i := 0; i < pick(300, 3000); i++ {
		n := 7 + r.Intn(200)
		var b strings.Builder
		for j := 0; j < n; j++ {
			b.WriteByte("prds"[r.Intn(4)])
		}
		k := keys[r.Intn(len(keys))]
		s.add("chain "+hx(k)+" "+hx(b.String()), realChain(circle, k, b.String()))
		s.stat("long-chain")
	}
	// runs of one conversion (whole turns of the circle and their neighbours), runs that cancel, from every key
	for _, k := range keys {
		for _, c := range "prds" {
			for _, n := range []int{11, 12, 13, 23, 24, 25, 36, 48, 120} {
				ch := strings.Repeat(string(c), n)
				s.add("chain "+hx(k)+" "+hx(ch), realChain(circle, k, ch))
			}
		}
		for _, ch := range []string{"pp", "rr", "ds", "sd", "prrp", "dpps", "ddss", "dsdsds", "pprr", "dddddddddddds", "sdddddddddddd", strings.Repeat("ds", 30), strings.Repeat("pr", 12)} {
			s.add("chain "+hx(k)+" "+hx(ch), realChain(circle, k, ch))
		}
		s.stat("runs")
	}
	for _, k := range []string{"E#", "Fb", "A#m", "xyz", "", "G#"} {
		s.add("chain "+hx(k)+" "+hx("d"), realChain(circle, k, "d"))
	}
	for _, c := range []string{"x", "dxd", "P", " "} {
		s.add("chain "+hx("C")+" "+hx(c), realChain(circle, "C", c))
	}
}

// ---------- ticks: the real writer's tick computation, observed as the end-of-track delta after one Rest ----------

func realTicks(fr [][2]uint64) uint32 {
	set, err := midix.NewTrackSetControllerFromTrackNum(1)
	must(err)
	w := midix.NewWriter(midix.DefaultTicksPerQuoaterNote, set, "x", 0)
	var value float64
	for _, f := range fr {
		value += util.NewRat(uint(f[0]), uint(f[1])).Float()
	}
	w.Rest(value)
	w.Close()
	if _, err := w.WriteTo(io.Discard); err != nil {
		return tooLong // the writer refuses a piece no delta time can span (D22 fix)
	}
	var t smf.Track
	set.Set().Get(0).Apply(&t)
	return t[len(t)-1].Delta
}

const tooLong = ^uint32(0)

func streamTicks() {
	s, done := openStream("ticks")
	defer done()
	r := rng("ticks")
	dens := []uint64{1, 2, 3, 4, 5, 6, 7, 8, 9, 11, 12, 13, 16, 24, 32, 48, 64, 96, 120, 128, 240, 480, 960, 1920, 1000, 1023, 1025, 65535, 65537}
	gen := func() [2]uint64 {
		switch r.Intn(7) {
		case 6: // a numerator of more than 53 bits over a denominator of far fewer: a long note whose exact length matters
			n := (r.Uint64() | 1<<63) >> uint(r.Intn(11))
			v := uint64(1) << uint(8+r.Intn(10)) // the value, roughly, in quarter notes
			d := n/v + uint64(r.Intn(1<<12))
			if d == 0 {
				d = 1
			}
			return [2]uint64{n, d}
		case 0:
			return [2]uint64{uint64(1 + r.Intn(16)), dens[r.Intn(len(dens))]}
		case 1:
			return [2]uint64{uint64(1 + r.Intn(2000)), uint64(1 + r.Intn(2000))}
		case 2: // near a half tick: n/(2*960*k)
			k := uint64(1 + r.Intn(50))
			return [2]uint64{2*uint64(r.Intn(4000)) + 1, 2 * 960 * k}
		case 3:
			return [2]uint64{uint64(1 + r.Intn(100)), (uint64(1) << uint(r.Intn(40))) + uint64(r.Intn(3)) }
		case 4:
			d := r.Uint64()>>uint(r.Intn(60)) | 1
			n := r.Uint64() >> uint(r.Intn(64))
			// keep the value below 2^20 quarter notes so that ticks stay far below 2^32
			for n/d > 1<<20 {
				n >>= 1
			}
			if n == 0 {
				n = 1
			}
			return [2]uint64{n, d}
		default:
			return [2]uint64{uint64(1 + r.Intn(8)), uint64(1 + r.Intn(8))}
		}
	}
	for i := 0; i < pick(4000, 100000); i++ {
		k := 1 + r.Intn(4)
		if r.Intn(10) == 0 {
			k = 1 + r.Intn(8)
		}
		fr := make([][2]uint64, k)
		var items []string
		for j := range fr {
			fr[j] = gen()
			items = append(items, fmt.Sprintf("%d %d", fr[j][0], fr[j][1]))
		}
		if t := realTicks(fr); t == tooLong {
			s.add("ticks "+pList(items), "toolong")
			s.stat("too-long")
		} else {
			s.add("ticks "+pList(items), fmt.Sprintf("ok %d", t))
		}
	}
	// tempo payloads through gomidi
	for i := 0; i < pick(2000, 40000); i++ {
		var bpm uint64
		switch r.Intn(4) {
		case 0:
			bpm = uint64(1 + r.Intn(400))
		case 1:
			bpm = uint64(1 + r.Intn(1<<26))
		case 2:
			bpm = r.Uint64() >> uint(1+r.Intn(63))
			if bpm == 0 {
				bpm = 1
			}
		default:
			bpm = uint64(4 + r.Intn(1000))
		}
		msg := smf.MetaTempo(float64(int(bpm)))
		s.add(fmt.Sprintf("tempo %d", bpm), "ok "+hxb(msg[3:]))
	}
}

// ---------- midix: op histories on the real writer, tracks observed through Track.Apply ----------

func streamMidix() {
	s, done := openStream("midix")
	defer done()
	r := rng("midix")
	for i := 0; i < pick(1500, 20000); i++ {
		n := 1 + r.Intn(6)
		if r.Intn(4) == 0 {
			n = 1 + r.Intn(32)
		}
		set, err := midix.NewTrackSetControllerFromTrackNum(n)
		must(err)
		w := midix.NewWriter(midix.DefaultTicksPerQuoaterNote, set, "Piano", 0)
		nops := r.Intn(12)
		var ops []string
		closed := false
		for j := 0; j < nops; j++ {
			switch r.Intn(8) {
			case 0, 1, 2:
				ticks := uint32(r.Intn(5)) * 480
				if r.Intn(5) == 0 {
					ticks = uint32(r.Intn(100000))
				}
				nk := 1 + r.Intn(5)
				keys := make([]uint8, nk)
				var ks []string
				for k := range keys {
					keys[k] = uint8(r.Intn(128))
					ks = append(ks, fmt.Sprint(keys[k]))
				}
				vel := uint8(r.Intn(128))
				must(w.Note(float64(ticks)/960, vel, keys...))
				ops = append(ops, fmt.Sprintf("note %d %d %s", ticks, vel, pList(ks)))
				s.stat("op-note")
			case 3, 4:
				ticks := uint32(r.Intn(5)) * 240
				w.Rest(float64(ticks) / 960)
				ops = append(ops, fmt.Sprintf("rest %d", ticks))
				s.stat("op-rest")
			case 5:
				txt := []string{"a", "", "hello world", "é♯"}[r.Intn(4)]
				w.Text(txt)
				ops = append(ops, "text "+hx(txt))
				s.stat("op-text")
			case 6:
				num, den := uint8(1+r.Intn(12)), uint8(1<<uint(r.Intn(5)))
				w.Meter(num, den)
				ops = append(ops, fmt.Sprintf("meter %d %d", num, den))
				s.stat("op-meter")
			case 7:
				if r.Intn(3) == 0 && !closed {
					w.Close()
					ops = append(ops, "close")
					closed = true
					s.stat("op-close-mid")
				}
			}
		}
		if r.Intn(4) != 0 {
			w.Close()
			ops = append(ops, "close")
		}
		var tracks []string
		for t := 0; t < n; t++ {
			var tt smf.Track
			set.Set().Get(t).Apply(&tt)
			var evs []string
			for _, ev := range tt {
				evs = append(evs, fmt.Sprintf("%d %s", ev.Delta, hxb(ev.Message)))
			}
			tracks = append(tracks, pList(evs))
		}
		s.add(fmt.Sprintf("midix %d %s", n, pList(ops)), "ok "+pList(tracks))
	}
}

// ---------- lex / parse ----------

var tokNames = map[int]string{
	ast.SYLLABLE: "SYLLABLE", ast.SLASH: "SLASH", ast.LBRA: "LBRA", ast.RBRA: "RBRA", ast.COMMA: "COMMA",
	ast.SEMICOLON: "SEMICOLON", ast.SHARP: "SHARP", ast.FLAT: "FLAT", ast.NUMBER: "NUMBER", ast.SYMBOL: "SYMBOL",
	ast.REST: "REST", ast.UNDERSCORE: "UNDERSCORE", ast.LCBRA: "LCBRA", ast.RCBRA: "RCBRA", ast.EQUAL: "EQUAL",
	ast.METADATA: "METADATA",
}

func realLex(input []byte) string {
	ch := make(chan string, 1)
	go func() {
		ch <- guard(func() string {
			lex := ast.NewLexer(bytes.NewReader(input))
			var toks []string
			for {
				t := lex.DoLex(func(tok ybase.Token) {
					toks = append(toks, tokNames[tok.Type()]+":"+hx(tok.Value()))
				})
				if t == ybase.EOF {
					break
				}
			}
			if lex.Err() != nil {
				return "err " + pList(toks)
			}
			return "ok " + pList(toks)
		})
	}()
	select {
	case x := <-ch:
		return x
	case <-timeAfter():
		return "crash hang"
	}
}

func pTok(t ybase.Token) string { return tokNames[t.Type()] + ":" + hx(t.Value()) }
func pOptTok(t ybase.Token) string {
	if t == nil {
		return "~"
	}
	return "+ " + pTok(t)
}
func pDeg(d *ast.ChordDegree) string { return pTok(d.Degree) + " " + pOptTok(d.Accidental) }
func pVals(v *ast.ChordValues) string {
	var items []string
	for _, x := range v.Values {
		items = append(items, pTok(x.Num)+" "+pOptTok(x.Denom))
	}
	return pList(items)
}
func pMeta(m *ast.ChordMeta) string {
	if m == nil {
		return "~"
	}
	var items []string
	for _, x := range m.Data {
		items = append(items, pTok(x.Key)+" "+pTok(x.Value))
	}
	return "+ " + pList(items)
}

func realParse(input []byte) string {
	ch := make(chan string, 1)
	go func() {
		ch <- guard(func() string {
			lex := ast.NewLexer(bytes.NewReader(input))
			_ = ast.Parse(lex)
			if lex.Err() != nil {
				return "err syntax"
			}
			if lex.Result == nil {
				return "err noresult"
			}
			var items []string
			for _, it := range lex.Result.List {
				switch it := it.(type) {
				case *ast.Chord:
					sym := "~"
					if it.Symbol != nil {
						sym = "+ " + pTok(it.Symbol.Symbol)
					}
					base := "~"
					if it.Base != nil {
						base = "+ " + pDeg(it.Base.Degree)
					}
					items = append(items, strings.Join([]string{"chord", pDeg(it.Degree), sym, base, pVals(it.Values), pMeta(it.Meta)}, " "))
				case *ast.Rest:
					items = append(items, strings.Join([]string{"rest", pVals(it.Values), pMeta(it.Meta)}, " "))
				}
			}
			return "ok " + pList(items)
		})
	}()
	select {
	case x := <-ch:
		return x
	case <-timeAfter():
		return "crash hang"
	}
}

func streamLex() {
	s, done := openStream("lex")
	defer done()
	// all strings over a small alphabet up to a length bound
	alphabet := []string{"C", "b", "#", "m", "7", "_", "/", "[", "]", "{", "}", "=", ",", ";", " ", "\n", "R", "1", "♯", "１", "\ufeff"}
	maxLen := pick(3, 4)
	var rec func(prefix string, n int)
	rec = func(prefix string, n int) {
		s.add("lex "+hxb([]byte(prefix)), realLex([]byte(prefix)))
		if n == maxLen {
			return
		}
		for _, c := range alphabet {
			rec(prefix+c, n+1)
		}
	}
	rec("", 0)
	r := rng("lex")
	for i := 0; i < pick(3000, 40000); i++ {
		txt := genChordText(r, r.Intn(6) == 0)
		b := []byte(txt)
		if r.Intn(8) == 0 {
			b = mutateBytes(r, b)
		}
		s.add("lex "+hxb(b), realLex(b))
	}
}

func streamParse() {
	s, done := openStream("parse")
	defer done()
	r := rng("parse")
	for _, c := range corpusTexts {
		s.add("parse "+hxb([]byte(c)), realParse([]byte(c)))
	}
	for i := 0; i < pick(4000, 60000); i++ {
		txt := genChordText(r, r.Intn(5) == 0)
		b := []byte(txt)
		switch r.Intn(6) {
		case 0:
			b = mutateBytes(r, b)
			s.stat("mutated")
		case 1:
			if len(b) > 0 {
				b = b[:r.Intn(len(b))]
				s.stat("truncated")
			}
		}
		res := realParse(b)
		if strings.HasPrefix(res, "ok") {
			s.stat("accepted")
		} else {
			s.stat("rejected")
		}
		s.add("parse "+hxb(b), res)
	}
	// bounded-exhaustive token strings: every string of token representatives up to a length bound
	reps := []string{"C", "/", "[", "]", ",", "#", "b", "1", "m7", "R", "_", "{", "}", "=", "k"}
	maxLen := pick(4, 5)
	var rec func(prefix []string)
	rec = func(prefix []string) {
		txt := strings.Join(prefix, " ")
		s.add("parse "+hxb([]byte(txt)), realParse([]byte(txt)))
		if len(prefix) == maxLen {
			return
		}
		for _, t := range reps {
			rec(append(append([]string{}, prefix...), t))
		}
	}
	rec(nil)
}
