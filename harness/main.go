// harness: drives the REAL berquerant/crd code (library packages in-process, the CLI as a
// freshly built binary) on generated inputs and writes, per stream,
//
//	<out>/<stream>.req   one request line per case, in the Lean driver's line protocol
//	<out>/<stream>.real  the reply the real implementation gives, in the same format
//
// The orchestrator pipes .req through the Lean driver and diffs the replies with .real.
//
// usage: harness <stream> <outdir> <seed> <tier> [crd-binary]
package main

import (
	"bufio"
	"bytes"
	"encoding/hex"
	"fmt"
	"math/rand"
	"os"
	"os/exec"
	"path/filepath"
	"runtime"
	"strconv"
	"strings"
	"sync"
	"time"
)

// ---------- protocol helpers (must mirror lean/Main.lean) ----------

func hx(s string) string   { return "x" + hex.EncodeToString([]byte(s)) }
func hxb(b []byte) string  { return "x" + hex.EncodeToString(b) }
func pOpt(s *string) string {
	if s == nil {
		return "~"
	}
	return "+ " + *s
}
func some(s string) *string { return &s }
func pList(items []string) string {
	return strings.Join(append([]string{strconv.Itoa(len(items))}, items...), " ")
}
func b01(b bool) string {
	if b {
		return "1"
	}
	return "0"
}

type stream struct {
	req, real *bufio.Writer
	n         int
	stats     map[string]int
	samples   []string
	oracle    []string
}

func (s *stream) add(req, real string) {
	fmt.Fprintln(s.req, req)
	fmt.Fprintln(s.real, real)
	s.n++
	if len(s.samples) < 5 && len(req) < 400 {
		s.samples = append(s.samples, req+"  =>  "+real)
	}
}
func (s *stream) stat(k string) { s.stats[k]++ }

// a property violation observed directly on the real code (real-vs-real or real-vs-independent oracle)
func (s *stream) violate(property, what, input, observed string) {
	s.oracle = append(s.oracle, fmt.Sprintf(`{"property":%q,"what":%q,"input":%q,"observed":%q}`, property, what, input, observed))
}

var (
	outDir string
	seed   int64
	tier   string
	crdBin string
)

func thorough() bool { return tier == "thorough" }

func pick(n, m int) int { // quick n, thorough m
	if thorough() {
		return m
	}
	return n
}

func openStream(name string) (*stream, func()) {
	fr, err := os.Create(filepath.Join(outDir, name+".req"))
	must(err)
	fl, err := os.Create(filepath.Join(outDir, name+".real"))
	must(err)
	s := &stream{req: bufio.NewWriterSize(fr, 1<<20), real: bufio.NewWriterSize(fl, 1<<20), stats: map[string]int{}}
	return s, func() {
		s.req.Flush()
		s.real.Flush()
		fr.Close()
		fl.Close()
		// statistics for the evidence file
		f, err := os.Create(filepath.Join(outDir, name+".stats"))
		must(err)
		fmt.Fprintf(f, "cases %d\n", s.n)
		for k, v := range s.stats {
			fmt.Fprintf(f, "stat %s %d\n", k, v)
		}
		for _, x := range s.samples {
			fmt.Fprintf(f, "sample %s\n", x)
		}
		f.Close()
		o, err := os.Create(filepath.Join(outDir, name+".oracle"))
		must(err)
		for _, x := range s.oracle {
			fmt.Fprintln(o, x)
		}
		o.Close()
	}
}

var workDirOnce sync.Once
var workDirPath string

// a scratch directory under the stream's output directory; removed with it
func workDir() string {
	workDirOnce.Do(func() {
		workDirPath = filepath.Join(outDir, "cwd")
		must(os.MkdirAll(workDirPath, 0o755))
	})
	return workDirPath
}

func must(err error) {
	if err != nil {
		fmt.Fprintln(os.Stderr, "harness:", err)
		os.Exit(3)
	}
}

func rng(name string) *rand.Rand {
	h := int64(1469598103934665603)
	for _, c := range name {
		h = (h ^ int64(c)) * 1099511628211
	}
	return rand.New(rand.NewSource(seed*1000003 + h))
}

// ---------- running the real binary ----------

type runResult struct {
	stdout   []byte
	stderr   []byte
	exit     int
	timedOut bool
	signaled bool
}

func runCrd(stdin []byte, timeout time.Duration, args ...string) runResult {
	return runCrdEnv(stdin, timeout, "", args...)
}

// runCrdEnv runs the real binary, optionally with GOMAXPROCS set for the child
func runCrdEnv(stdin []byte, timeout time.Duration, procs string, args ...string) runResult {
	return runBinEnv(crdBin, stdin, timeout, procs, args...)
}

// a run that timed out under load is repeated once with four times the limit before it counts as a hang
func runBinEnv(bin string, stdin []byte, timeout time.Duration, procs string, args ...string) runResult {
	res := runBinOnce(bin, stdin, timeout, procs, args...)
	if res.timedOut && timeout <= 30*time.Second && !noRetry {
		res = runBinOnce(bin, stdin, 4*timeout, procs, args...)
	}
	return res
}

// the robust stream does its own (sequential) re-run of timed-out cases
var noRetry bool

func runBinOnce(bin string, stdin []byte, timeout time.Duration, procs string, args ...string) runResult {
	cmd := exec.Command(bin, args...)
	cmd.Dir = workDir() // a relative -o value must land in scratch, never in the directory the check was started from
	cmd.Stdin = bytes.NewReader(stdin)
	var so, se bytes.Buffer
	cmd.Stdout = &so
	cmd.Stderr = &se
	cmd.Env = append(os.Environ(), "GOMEMLIMIT=512MiB")
	if procs != "" {
		cmd.Env = append(cmd.Env, "GOMAXPROCS="+procs)
	}
	must(cmd.Start())
	done := make(chan error, 1)
	go func() { done <- cmd.Wait() }()
	var res runResult
	select {
	case err := <-done:
		if err != nil {
			if ee, ok := err.(*exec.ExitError); ok {
				res.exit = ee.ExitCode()
				if res.exit < 0 {
					res.signaled = true
				}
			} else {
				must(err)
			}
		}
	case <-time.After(timeout):
		cmd.Process.Kill()
		<-done
		res.timedOut = true
		res.exit = -1
	}
	res.stdout = so.Bytes()
	res.stderr = se.Bytes()
	return res
}

// class of a CLI outcome: ok / err / crash (panic, fatal error, signal, timeout)
func (r runResult) class() string {
	if r.timedOut {
		return "crash"
	}
	if r.signaled || bytes.Contains(r.stderr, []byte("panic:")) || bytes.Contains(r.stderr, []byte("fatal error:")) || bytes.Contains(r.stderr, []byte("goroutine ")) {
		return "crash"
	}
	if r.exit == 0 {
		return "ok"
	}
	return "err"
}

// parallel map preserving order
func parallel(n int, f func(i int)) {
	workers := runtime.NumCPU()
	var wg sync.WaitGroup
	ch := make(chan int, n)
	for i := 0; i < n; i++ {
		ch <- i
	}
	close(ch)
	for w := 0; w < workers; w++ {
		wg.Add(1)
		go func() {
			defer wg.Done()
			for i := range ch {
				f(i)
			}
		}()
	}
	wg.Wait()
}

var streams = map[string]func(){}

func main() {
	if len(os.Args) < 5 {
		fmt.Fprintln(os.Stderr, "usage: harness <stream> <outdir> <seed> <tier> [crd-binary]")
		os.Exit(3)
	}
	name := os.Args[1]
	outDir = os.Args[2]
	s, err := strconv.ParseInt(os.Args[3], 10, 64)
	must(err)
	seed = s
	tier = os.Args[4]
	if len(os.Args) > 5 {
		crdBin = os.Args[5]
	}
	must(os.MkdirAll(outDir, 0o755))
	f, ok := streams[name]
	if !ok {
		fmt.Fprintln(os.Stderr, "unknown stream", name)
		os.Exit(3)
	}
	f()
}
