package main

// repeat: the real-vs-real oracle of C12.  Every data-producing command is run on the same arguments and
// input several times under different GOMAXPROCS values, with --debug, with the input on stdin / as `-` /
// as FILE and with the output on stdout / in the -o file.  All runs must give the same bytes and the same
// success/failure.  The text-conv cases are also sent to the model.

import (
	"bytes"
	"fmt"
	"os"
	"os/exec"
	"path/filepath"
	"regexp"
	"strings"
	"sync/atomic"
	"syscall"
	"time"
)

func init() { streams["repeat"] = streamRepeat }

type repeatCase struct {
	manyRuns bool       // the order of something may depend on map iteration: many more repetitions
	equalTo  [][]string // other argument lists that must give the same bytes
	kind      string
	args      []string
	stdin     []byte
	readsInput bool
	conv      *convCase
}

var raceRuns atomic.Int64

var goyaccTrace = regexp.MustCompile(`^state-\d+ saw \S+$`)

func runVariant(idx int, tag string, c repeatCase, procs string, debug bool, inputMode string, outFile bool, existing ...[]byte) (class string, out []byte, stdoutWhenFile []byte) {
	dir := filepath.Join(outDir, fmt.Sprintf("repeat-%d-%s", idx, tag))
	must(os.MkdirAll(dir, 0o755))
	defer os.RemoveAll(dir)
	args := append([]string{}, c.args...)
	stdin := c.stdin
	switch inputMode {
	case "dash":
		args = append(args, "-")
	case "file":
		p := filepath.Join(dir, "input")
		must(os.WriteFile(p, c.stdin, 0o644))
		args = append(args, p)
		stdin = nil
	}
	if debug {
		args = append(args, "--debug")
	}
	outPath := filepath.Join(dir, "out")
	if outFile {
		args = append(args, "-o", outPath)
		if len(existing) > 0 { // the -o target already exists and holds more bytes than the command will write
			must(os.WriteFile(outPath, existing[0], 0o644))
		}
	}
	res := runCrdEnv(stdin, 30*time.Second, procs, args...)
	class = res.class()
	out = res.stdout
	if outFile {
		stdoutWhenFile = res.stdout
		b, err := os.ReadFile(outPath)
		if err != nil {
			b = nil
		}
		out = b
	}
	return
}

func streamRepeat() {
	s, done := openStream("repeat")
	defer done()
	r := rng("repeat")
	var cases []repeatCase
	add := func(c repeatCase) { cases = append(cases, c) }

	// texts
	for i := 0; i < pick(60, 1200); i++ {
		txt := []byte(genChordText(r, r.Intn(3) == 0))
		if r.Intn(8) == 0 {
			txt = mutateBytes(r, txt)
		}
		switch r.Intn(3) {
		case 0:
			add(repeatCase{kind: "text-parse", args: []string{"text", "parse"}, stdin: txt, readsInput: true})
		case 1:
			key := ""
			args := []string{"text", "conv", "syllable"}
			if r.Intn(2) == 0 {
				key = keys28[r.Intn(28)]
				args = append(args, "--key", key)
			}
			add(repeatCase{kind: "text-conv-syllable", args: args, stdin: txt, readsInput: true, conv: &convCase{"syllable", key, txt}})
		case 2:
			add(repeatCase{kind: "text-conv-degree", args: []string{"text", "conv", "degree"}, stdin: txt, readsInput: true, conv: &convCase{"degree", "", txt}})
		}
	}
	for _, t := range []string{"C[1] R[1", "C[1] ]", "", "C[1]{txt=a,lic=b,mrk=c,zzz=d,aaa=e}", "C[1]{key=Am} E7[1]{key=C}"} {
		add(repeatCase{kind: "text-parse", args: []string{"text", "parse"}, stdin: []byte(t), readsInput: true})
		add(repeatCase{kind: "text-conv-syllable", args: []string{"text", "conv", "syllable"}, stdin: []byte(t), readsInput: true, conv: &convCase{"syllable", "", []byte(t)}})
	}
	// inputs that begin with a byte order mark or contain line separators: every route must treat them alike
	for _, t := range []string{"\ufeffC[1] G_7[1]", "C[1] ;c\u2028D[1]\nE[1]", "\ufeff", "C[1]\ufeff"} {
		add(repeatCase{kind: "text-special", args: []string{"text", "parse"}, stdin: []byte(t), readsInput: true})
		add(repeatCase{kind: "text-special", args: []string{"text", "conv", "syllable"}, stdin: []byte(t), readsInput: true, conv: &convCase{"syllable", "", []byte(t)}})
	}
	for _, y := range []string{"\ufeff- values: [1]\n", "- values: [1]\n  meta: {txt: \"\ufeffx\"}\n"} {
		for _, a := range [][]string{{"write"}, {"write", "event"}, {"write", "conv", "-c", "cmt"}, {"write", "parse"}} {
			add(repeatCase{kind: "yaml-special", args: a, stdin: []byte(y), readsInput: true})
		}
	}
	// the same dictionary file named more than once, among others that define the same chord differently
	{
		dir := filepath.Join(outDir, "repeat-dicts")
		must(os.MkdirAll(dir, 0o755))
		must(os.WriteFile(filepath.Join(dir, "a.yml"), []byte("- name: Clash\n  meta: {display: cl}\n  attributes: [Perfect1, Major3]\n"), 0o644))
		must(os.WriteFile(filepath.Join(dir, "b.yml"), []byte("- name: Clash\n  meta: {display: cl}\n  attributes: [Perfect1, Minor3]\n- name: Other\n  meta: {display: ot}\n  extends: Clash\n"), 0o644))
		must(os.WriteFile(filepath.Join(dir, "c.yml"), []byte("- name: Third\n  meta: {display: cl}\n  attributes: [Perfect1, Perfect5]\n"), 0o644))
		a, b, c := filepath.Join(dir, "a.yml"), filepath.Join(dir, "b.yml"), filepath.Join(dir, "c.yml")
		doc := []byte("- chord: {degree: \"1\", name: cl}\n  values: [1]\n- chord: {degree: \"1\", name: ot}\n  values: [1]\n")
		for _, files := range [][]string{{a, b, a}, {b, a, b}, {a, b, c, a, b}, {a, a}, {c, b, a, c}, {a + "," + b + "," + a}} {
			var fl []string
			for _, f := range files {
				fl = append(fl, "--chord", f)
			}
			add(repeatCase{kind: "dict-paths", args: append([]string{"write", "event"}, fl...), stdin: doc, readsInput: true, manyRuns: true})
			add(repeatCase{kind: "dict-paths", args: append([]string{"info", "chord", "list"}, fl...), manyRuns: true})
			add(repeatCase{kind: "dict-paths", args: append([]string{"info", "chord", "describe", "-t", "Ccl"}, fl...), manyRuns: true})
		}
	}
	// a dictionary with one faulty entry among good ones (re-defined built-in names, names defined twice, the faulty
	// entry not played): whether it is refused must not depend on the order in which the entries happen to be visited
	{
		dir := filepath.Join(outDir, "repeat-faulty")
		must(os.MkdirAll(dir, 0o755))
		good := "- name: Fine1\n  meta: {display: f1}\n  extends: MajorTriad\n  attributes: [Major9]\n- name: Fine2\n  meta: {display: f2}\n  extends: f1\n- name: MinorSeventh\n  meta: {display: mi7}\n  extends: MinorTriad\n  attributes: [Minor7]\n"
		faults := []string{
			"- name: Sixth\n  meta: {display: six}\n  extends: NoSuchChord\n",
			"- name: Sixth\n  meta: {display: six}\n  attributes: [Perfect1, NoSuchAttr]\n",
			"- name: DominantNinth\n  meta: {display: d9}\n  extends: d9\n",
			"- name: MajorNinth\n  meta: {display: mj9}\n  extends: MajorSeventh\n  attributes: [Mjor9]\n",
			"- name: Fresh\n  meta: {display: fr}\n  extends: NoSuchChord\n",
			"- name: Twice\n  meta: {display: tw1}\n  extends: NoSuchChord\n- name: Twice\n  meta: {display: tw2}\n  extends: MinorTriad\n",
			"- name: Twice\n  meta: {display: tw1}\n  attributes: [NoSuchAttr]\n- name: Twice\n  meta: {display: tw2}\n  attributes: [Perfect1]\n",
			"- name: SuspendedFourth\n  meta: {display: sus}\n  extends: sus4\n  attributes: [Major9]\n", // not faulty: builds on what it replaces
		}
		doc := []byte("- chord: {degree: \"1\", name: m}\n  values: [1]\n- chord: {degree: \"4\", name: f2}\n  values: [1]\n")
		for k, f := range faults {
			for o, body := range []string{good + f, f + good} {
				path := filepath.Join(dir, fmt.Sprintf("faulty-%d-%d.yml", k, o))
				must(os.WriteFile(path, []byte(body), 0o644))
				add(repeatCase{kind: "dict-faulty", args: []string{"write", "event", "--chord", path}, stdin: doc, readsInput: true, manyRuns: true})
				if o == 0 {
					add(repeatCase{kind: "dict-faulty", args: []string{"info", "chord", "list", "--chord", path}, manyRuns: true})
					add(repeatCase{kind: "dict-faulty", args: []string{"info", "chord", "describe", "-t", "Cm", "--chord", path}, manyRuns: true})
				}
			}
		}
	}
	// the two spellings of a switch
	for _, t := range []string{"Caug", "F#m7b5", "Bbdim7"} {
		add(repeatCase{kind: "switch", args: []string{"info", "chord", "describe", "-t", t}, equalTo: [][]string{{"info", "chord", "describe", "-t", t, "--precedeSharp=false"}, {"info", "chord", "describe", "-t", t, "-s=false"}}})
		add(repeatCase{kind: "switch", args: []string{"info", "chord", "describe", "-t", t, "-s"}, equalTo: [][]string{{"info", "chord", "describe", "-t", t, "--precedeSharp=true"}, {"info", "chord", "describe", "-t", t, "--precedeSharp"}}})
	}
	for _, a := range []string{"Augmented4", "Minor2", "Diminished5"} {
		add(repeatCase{kind: "switch", args: []string{"info", "attr", "describe", "-t", a, "-r", "C"}, equalTo: [][]string{{"info", "attr", "describe", "-t", a, "-r", "C", "--precedeSharp=false"}}})
		add(repeatCase{kind: "switch", args: []string{"info", "attr", "describe", "-t", a, "-r", "C", "-s"}, equalTo: [][]string{{"info", "attr", "describe", "-t", a, "-r", "C", "-s=true"}}})
	}
	// empty input for every command that reads one
	for _, a := range [][]string{{"text", "parse"}, {"text", "conv", "syllable"}, {"text", "conv", "degree"}, {"write"}, {"write", "event"},
		{"write", "conv", "-c", "cmt"}, {"write", "parse"}} {
		add(repeatCase{kind: "empty-input", args: a, readsInput: true})
	}
	// instances
	for i := 0; i < pick(60, 1200); i++ {
		is := validYAML(r, 1+r.Intn(6))
		if r.Intn(10) == 0 {
			is = append(is, genInstance(r, true))
		}
		doc := []byte(yamlDoc(is))
		var args []string
		switch r.Intn(4) {
		case 0:
			args = []string{"write"}
		case 1:
			args = []string{"write", "event"}
		case 2:
			args = []string{"write", "conv", "-c", "cmt"}
		case 3:
			args = []string{"write", "parse"}
		}
		kind := strings.Join(args[:min(2, len(args))], "-")
		if r.Intn(3) == 0 && args[len(args)-1] != "parse" {
			args = append(args, "--track", fmt.Sprint(1+r.Intn(5)))
		}
		if r.Intn(4) == 0 {
			args = append(args, "--key", keys28[r.Intn(28)])
		}
		add(repeatCase{kind: kind, args: args, stdin: doc, readsInput: true})
	}
	// listings and descriptions
	add(repeatCase{kind: "info-attr-list", args: []string{"info", "attr", "list"}})
	add(repeatCase{kind: "info-chord-list", args: []string{"info", "chord", "list"}})
	add(repeatCase{kind: "info-key-list", args: []string{"info", "key", "list"}})
	add(repeatCase{kind: "gen-attr", args: []string{"gen", "attr"}})
	add(repeatCase{kind: "gen-attr", args: []string{"gen", "attr", "-d", "40"}})
	for _, k := range keys28 {
		add(repeatCase{kind: "info-key-describe", args: []string{"info", "key", "describe", "--key", k}})
		for _, chain := range []string{"p", "r", "d", "s", "pp", "rd", "dddd", "sssss", "prds", "dpdp"} {
			if thorough() || r.Intn(4) == 0 {
				add(repeatCase{kind: "info-key-conv", args: []string{"info", "key", "conv", "--key", k, "-c", chain}})
			}
		}
	}
	for _, k := range []string{"B", "Cb", "Gb", "F#", "Db", "C#", "Ebm", "D#m"} { // the slots with two spellings
		for _, chain := range []string{"d", "s", "ds", "sd", "pp", "rr", "dd", "ss"} {
			add(repeatCase{kind: "info-key-conv", args: []string{"info", "key", "conv", "--key", k, "-c", chain}})
		}
	}
	for _, sym := range symbols {
		for _, root := range []string{"C", "F#", "Bb"} {
			if thorough() || r.Intn(3) == 0 {
				args := []string{"info", "chord", "describe", "-t", root + strings.TrimPrefix(sym, "_")}
				if r.Intn(2) == 0 {
					args = append(args, "-s")
				}
				add(repeatCase{kind: "info-chord-describe", args: args})
			}
		}
	}
	for _, a := range []string{"Major3", "Minor7", "Perfect5", "Augmented4", "Major9", "nope"} {
		add(repeatCase{kind: "info-attr-describe", args: []string{"info", "attr", "describe", "-t", a, "-r", []string{"C", "F#", "Bb", "E"}[r.Intn(4)]}})
	}

	reps := pick(3, 8)
	procsList := []string{"1", "2", "4", "16", "3", "8", "1", "16"}
	type result struct {
		lines []string // oracle problems
		base  runResult
	}
	results := make([]result, len(cases))
	parallel(len(cases), func(i int) {
		c := cases[i]
		var problems []string
		desc := func(extra string) string {
			in := c.stdin
			if len(in) > 500 {
				in = append(append([]byte{}, in[:500]...), []byte("…")...)
			}
			return fmt.Sprintf("crd %s %s (input=%q)", strings.Join(c.args, " "), extra, in)
		}
		base := runCrdEnv(c.stdin, 30*time.Second, "", c.args...)
		results[i].base = base
		bclass := base.class()
		report := func(what, extra, observed string) {
			problems = append(problems, fmt.Sprintf(`{"property":"C12","what":%q,"input":%q,"observed":%q}`, what, desc(extra), observed))
			// the same observation also speaks against the property whose subject it is
			also := ""
			switch {
			case strings.HasPrefix(what, "with -o naming the input FILE") && len(c.args) > 1 && c.args[0] == "write" && c.args[1] == "conv":
				also = "C10"
			case strings.HasPrefix(what, "two spellings of the same arguments"):
				also = "C15"
			}
			if also != "" {
				problems = append(problems, fmt.Sprintf(`{"property":%q,"what":%q,"input":%q,"observed":%q}`, also, what, desc(extra), observed))
			}
		}
		diff := func(a, b []byte) string {
			return fmt.Sprintf("first=%q other=%q", trunc(firstDiff(a, b)), trunc(firstDiff(b, a)))
		}
		nreps := reps
		if c.manyRuns {
			nreps = pick(40, 120)
		}
		for k := 0; k < nreps; k++ {
			cl, out, _ := runVariant(i, fmt.Sprintf("r%d", k), c, procsList[k%len(procsList)], false, "stdin", false)
			if cl != bclass || !bytes.Equal(out, base.stdout) {
				report("a repeated run printed different bytes or ended differently", "GOMAXPROCS="+procsList[k%len(procsList)], fmt.Sprintf("class %s vs %s; %s", bclass, cl, diff(base.stdout, out)))
				break
			}
		}
		{
			cl, out, _ := runVariant(i, "dbg", c, "", true, "stdin", false)
			if cl != bclass || !bytes.Equal(out, base.stdout) {
				// classify the difference: only goyacc trace lines added?
				extra := extraLines(base.stdout, out)
				onlyTrace := len(extra) > 0 && cl == bclass
				for _, l := range extra {
					if !goyaccTrace.MatchString(l) {
						onlyTrace = false
					}
				}
				what := "with --debug the command printed different bytes or ended differently"
				if onlyTrace {
					what = "with --debug a syntax error makes goyacc print 'state-N saw TOKEN' on standard output"
				}
				report(what, "--debug", fmt.Sprintf("class %s vs %s; extra=%q; %s", bclass, cl, extra, diff(base.stdout, out)))
			}
		}
		if c.readsInput {
			for _, mode := range []string{"dash", "file"} {
				cl, out, _ := runVariant(i, mode, c, "", false, mode, false)
				if cl != bclass || !bytes.Equal(out, base.stdout) {
					report("the result differs when the input arrives as "+map[string]string{"dash": "`-`", "file": "FILE"}[mode]+" instead of stdin", mode, fmt.Sprintf("class %s vs %s; %s", bclass, cl, diff(base.stdout, out)))
				}
			}
		}
		{
			cl, out, so := runVariant(i, "ofile", c, "", false, "stdin", true)
			switch {
			case cl != bclass:
				report("success/failure differs with -o FILE", "-o FILE", fmt.Sprintf("class %s vs %s", bclass, cl))
			case cl == "ok" && !bytes.Equal(out, base.stdout):
				report("the -o file does not hold the bytes printed on stdout without -o", "-o FILE", diff(base.stdout, out))
			case cl == "ok" && len(so) != 0:
				report("with -o FILE something is still printed on stdout", "-o FILE", fmt.Sprintf("stdout=%q", trunc(so)))
			case cl != "ok" && len(out) != 0:
				report("a failing command left bytes in the -o file", "-o FILE", fmt.Sprintf("file=%q", trunc(out)))
			}
		}
		for _, other := range c.equalTo {
			o := runCrdEnv(c.stdin, 30*time.Second, "", other...)
			if o.class() != bclass || !bytes.Equal(o.stdout, base.stdout) {
				report("two spellings of the same arguments give different results", "vs: crd "+strings.Join(other, " "), fmt.Sprintf("class %s vs %s; %s", bclass, o.class(), diff(base.stdout, o.stdout)))
			}
		}
		if c.readsInput {
			// FILE = /dev/stdin, and FILE = a named pipe
			o := runCrdEnv(c.stdin, 30*time.Second, "", append(append([]string{}, c.args...), "/dev/stdin")...)
			if o.class() != bclass || !bytes.Equal(o.stdout, base.stdout) {
				report("the result differs when FILE is /dev/stdin", "/dev/stdin", fmt.Sprintf("class %s vs %s; %s; stderr %q", bclass, o.class(), diff(base.stdout, o.stdout), trunc(o.stderr)))
			}
			dir := filepath.Join(outDir, fmt.Sprintf("repeat-%d-fifo", i))
			must(os.MkdirAll(dir, 0o755))
			fifo := filepath.Join(dir, "pipe")
			if err := syscall.Mkfifo(fifo, 0o644); err == nil {
				go func() {
					if f, err := os.OpenFile(fifo, os.O_WRONLY, 0); err == nil {
						f.Write(c.stdin)
						f.Close()
					}
				}()
				o := runCrdEnv(nil, 30*time.Second, "", append(append([]string{}, c.args...), fifo)...)
				if o.class() != bclass || !bytes.Equal(o.stdout, base.stdout) {
					report("the result differs when FILE is a named pipe", "FIFO", fmt.Sprintf("class %s vs %s; %s; stderr %q", bclass, o.class(), diff(base.stdout, o.stdout), trunc(o.stderr)))
				}
			}
			os.RemoveAll(dir)
			// converting in place: -o names the input FILE
			if bclass == "ok" && len(c.stdin) > 0 {
				dir := filepath.Join(outDir, fmt.Sprintf("repeat-%d-inplace", i))
				must(os.MkdirAll(dir, 0o755))
				f := filepath.Join(dir, "piece")
				must(os.WriteFile(f, c.stdin, 0o644))
				o := runCrdEnv(nil, 30*time.Second, "", append(append([]string{}, c.args...), f, "-o", f)...)
				got, _ := os.ReadFile(f)
				if o.class() != bclass || !bytes.Equal(got, base.stdout) {
					report("with -o naming the input FILE the file does not end up holding the result", "-o FILE FILE", fmt.Sprintf("class %s vs %s; %s", bclass, o.class(), diff(base.stdout, got)))
				}
				os.RemoveAll(dir)
			}
		}
		if c.readsInput && len(c.stdin) == 0 {
			// empty input: a pipe that is closed at once, and stdin connected to /dev/null (cron, CI, exec without stdin)
			cmd := exec.Command(crdBin, c.args...)
			cmd.Dir = workDir()
			cmd.Stdin = nil
			var so, se bytes.Buffer
			cmd.Stdout, cmd.Stderr = &so, &se
			err := cmd.Run()
			cl := "ok"
			if err != nil {
				cl = "err"
			}
			if cl != bclass || !bytes.Equal(so.Bytes(), base.stdout) {
				report("the result differs when stdin is /dev/null instead of an empty pipe", "</dev/null", fmt.Sprintf("class %s vs %s; stdout %q vs %q; stderr %q", bclass, cl, trunc(base.stdout), trunc(so.Bytes()), trunc(se.Bytes())))
			}
		}
		if bclass == "ok" {
			old := append(append([]byte{}, base.stdout...), bytes.Repeat([]byte("previous content of the output file\n"), 40)...)
			cl, out, _ := runVariant(i, "oexist", c, "", false, "stdin", true, old)
			if cl != bclass || !bytes.Equal(out, base.stdout) {
				report("writing with -o onto an existing, longer file does not leave exactly the bytes printed on stdout", "-o EXISTING-FILE", fmt.Sprintf("class %s vs %s; %d bytes in the file, %d on stdout; %s", bclass, cl, len(out), len(base.stdout), diff(base.stdout, out)))
			}
		}
		if raceBin := os.Getenv("CRD_RACE_BIN"); raceBin != "" && (strings.HasPrefix(c.kind, "text-conv") || i%7 == 0) {
			res := runBinEnv(raceBin, c.stdin, 60*time.Second, "4", c.args...)
			if bytes.Contains(res.stderr, []byte("DATA RACE")) {
				report("the race detector reports a data race", "(race build, GOMAXPROCS=4)", trunc(res.stderr))
			} else if res.class() != bclass || !bytes.Equal(res.stdout, base.stdout) {
				report("the race-detector build printed different bytes or ended differently", "(race build, GOMAXPROCS=4)", fmt.Sprintf("class %s vs %s; %s", bclass, res.class(), diff(base.stdout, res.stdout)))
			}
			raceRuns.Add(1)
		}
		results[i].lines = problems
	})
	for i, c := range cases {
		s.stat("kind-" + c.kind)
		s.stat("class-" + results[i].base.class())
		s.oracle = append(s.oracle, results[i].lines...)
		if c.conv != nil {
			s.add(c.conv.req(), convReply(results[i].base))
		}
	}
	s.stats["runs-per-case"] = reps + 6
	s.stats["race-detector-runs"] = int(raceRuns.Load())
}

func firstDiff(a, b []byte) []byte {
	i := 0
	for i < len(a) && i < len(b) && a[i] == b[i] {
		i++
	}
	start := i - 40
	if start < 0 {
		start = 0
	}
	end := i + 120
	if end > len(a) {
		end = len(a)
	}
	return a[start:end]
}

// lines of b that are not in a (multiset difference, order kept)
func extraLines(a, b []byte) []string {
	have := map[string]int{}
	for _, l := range strings.Split(string(a), "\n") {
		have[l]++
	}
	var extra []string
	for _, l := range strings.Split(string(b), "\n") {
		if have[l] > 0 {
			have[l]--
		} else {
			extra = append(extra, l)
		}
	}
	return extra
}
