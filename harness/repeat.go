package main

// repeat: the real-vs-real oracle of C12.  Every data-producing command is run on the same arguments and
// input several times under different GOMAXPROCS values, with --debug, with the input on stdin / as `-` /
// as FILE and with the output on stdout / in the -o file.  All runs must give the same bytes and the same
// success/failure.  The text-conv cases are also sent to the model.

import (
	"bytes"
	"fmt"
	"os"
	"os/exec"
	"path/filepath"
	"regexp"
	"strings"
	"sync/atomic"
	"time"
)

func init() { streams["repeat"] = streamRepeat }

type repeatCase struct {
	kind      string
	args      []string
	stdin     []byte
	readsInput bool
	conv      *convCase
}

var raceRuns atomic.Int64

var goyaccTrace = regexp.MustCompile(`^state-\d+ saw \S+$`)

func runVariant(idx int, tag string, c repeatCase, procs string, debug bool, inputMode string, outFile bool, existing ...[]byte) (class string, out []byte, stdoutWhenFile []byte) {
	dir := filepath.Join(outDir, fmt.Sprintf("repeat-%d-%s", idx, tag))
	must(os.MkdirAll(dir, 0o755))
	defer os.RemoveAll(dir)
	args := append([]string{}, c.args...)
	stdin := c.stdin
	switch inputMode {
	case "dash":
		args = append(args, "-")
	case "file":
		p := filepath.Join(dir, "input")
		must(os.WriteFile(p, c.stdin, 0o644))
		args = append(args, p)
		stdin = nil
	}
	if debug {
		args = append(args, "--debug")
	}
	outPath := filepath.Join(dir, "out")
	if outFile {
		args = append(args, "-o", outPath)
		if len(existing) > 0 { // the -o target already exists and holds more bytes than the command will write
			must(os.WriteFile(outPath, existing[0], 0o644))
		}
	}
	res := runCrdEnv(stdin, 30*time.Second, procs, args...)
	class = res.class()
	out = res.stdout
	if outFile {
		stdoutWhenFile = res.stdout
		b, err := os.ReadFile(outPath)
		if err != nil {
			b = nil
		}
		out = b
	}
	return
}

func streamRepeat() {
	s, done := openStream("repeat")
	defer done()
	r := rng("repeat")
	var cases []repeatCase
	add := func(c repeatCase) { cases = append(cases, c) }

	// texts
	for i := 0; i < pick(60, 1200); i++ {
		txt := []byte(genChordText(r, r.Intn(3) == 0))
		if r.Intn(8) == 0 {
			txt = mutateBytes(r, txt)
		}
		switch r.Intn(3) {
		case 0:
			add(repeatCase{kind: "text-parse", args: []string{"text", "parse"}, stdin: txt, readsInput: true})
		case 1:
			key := ""
			args := []string{"text", "conv", "syllable"}
			if r.Intn(2) == 0 {
				key = keys28[r.Intn(28)]
				args = append(args, "--key", key)
			}
			add(repeatCase{kind: "text-conv-syllable", args: args, stdin: txt, readsInput: true, conv: &convCase{"syllable", key, txt}})
		case 2:
			add(repeatCase{kind: "text-conv-degree", args: []string{"text", "conv", "degree"}, stdin: txt, readsInput: true, conv: &convCase{"degree", "", txt}})
		}
	}
	for _, t := range []string{"C[1] R[1", "C[1] ]", "", "C[1]{txt=a,lic=b,mrk=c,zzz=d,aaa=e}", "C[1]{key=Am} E7[1]{key=C}"} {
		add(repeatCase{kind: "text-parse", args: []string{"text", "parse"}, stdin: []byte(t), readsInput: true})
		add(repeatCase{kind: "text-conv-syllable", args: []string{"text", "conv", "syllable"}, stdin: []byte(t), readsInput: true, conv: &convCase{"syllable", "", []byte(t)}})
	}
	// empty input for every command that reads one
	for _, a := range [][]string{{"text", "parse"}, {"text", "conv", "syllable"}, {"text", "conv", "degree"}, {"write"}, {"write", "event"},
		{"write", "conv", "-c", "cmt"}, {"write", "parse"}} {
		add(repeatCase{kind: "empty-input", args: a, readsInput: true})
	}
	// instances
	for i := 0; i < pick(60, 1200); i++ {
		is := validYAML(r, 1+r.Intn(6))
		if r.Intn(10) == 0 {
			is = append(is, genInstance(r, true))
		}
		doc := []byte(yamlDoc(is))
		var args []string
		switch r.Intn(4) {
		case 0:
			args = []string{"write"}
		case 1:
			args = []string{"write", "event"}
		case 2:
			args = []string{"write", "conv", "-c", "cmt"}
		case 3:
			args = []string{"write", "parse"}
		}
		kind := strings.Join(args[:min(2, len(args))], "-")
		if r.Intn(3) == 0 && args[len(args)-1] != "parse" {
			args = append(args, "--track", fmt.Sprint(1+r.Intn(5)))
		}
		if r.Intn(4) == 0 {
			args = append(args, "--key", keys28[r.Intn(28)])
		}
		add(repeatCase{kind: kind, args: args, stdin: doc, readsInput: true})
	}
	// listings and descriptions
	add(repeatCase{kind: "info-attr-list", args: []string{"info", "attr", "list"}})
	add(repeatCase{kind: "info-chord-list", args: []string{"info", "chord", "list"}})
	add(repeatCase{kind: "info-key-list", args: []string{"info", "key", "list"}})
	add(repeatCase{kind: "gen-attr", args: []string{"gen", "attr"}})
	add(repeatCase{kind: "gen-attr", args: []string{"gen", "attr", "-d", "40"}})
	for _, k := range keys28 {
		add(repeatCase{kind: "info-key-describe", args: []string{"info", "key", "describe", "--key", k}})
		for _, chain := range []string{"p", "r", "d", "s", "pp", "rd", "dddd", "sssss", "prds", "dpdp"} {
			if thorough() || r.Intn(4) == 0 {
				add(repeatCase{kind: "info-key-conv", args: []string{"info", "key", "conv", "--key", k, "-c", chain}})
			}
		}
	}
	for _, k := range []string{"B", "Cb", "Gb", "F#", "Db", "C#", "Ebm", "D#m"} { // the slots with two spellings
		for _, chain := range []string{"d", "s", "ds", "sd", "pp", "rr", "dd", "ss"} {
			add(repeatCase{kind: "info-key-conv", args: []string{"info", "key", "conv", "--key", k, "-c", chain}})
		}
	}
	for _, sym := range symbols {
		for _, root := range []string{"C", "F#", "Bb"} {
			if thorough() || r.Intn(3) == 0 {
				args := []string{"info", "chord", "describe", "-t", root + strings.TrimPrefix(sym, "_")}
				if r.Intn(2) == 0 {
					args = append(args, "-s")
				}
				add(repeatCase{kind: "info-chord-describe", args: args})
			}
		}
	}
	for _, a := range []string{"Major3", "Minor7", "Perfect5", "Augmented4", "Major9", "nope"} {
		add(repeatCase{kind: "info-attr-describe", args: []string{"info", "attr", "describe", "-t", a, "-r", []string{"C", "F#", "Bb", "E"}[r.Intn(4)]}})
	}

	reps := pick(3, 8)
	procsList := []string{"1", "2", "4", "16", "3", "8", "1", "16"}
	type result struct {
		lines []string // oracle problems
		base  runResult
	}
	results := make([]result, len(cases))
	parallel(len(cases), func(i int) {
		c := cases[i]
		var problems []string
		desc := func(extra string) string {
			in := c.stdin
			if len(in) > 500 {
				in = append(append([]byte{}, in[:500]...), []byte("…")...)
			}
			return fmt.Sprintf("crd %s %s (input=%q)", strings.Join(c.args, " "), extra, in)
		}
		base := runCrdEnv(c.stdin, 30*time.Second, "", c.args...)
		results[i].base = base
		bclass := base.class()
		report := func(what, extra, observed string) {
			problems = append(problems, fmt.Sprintf(`{"property":"C12","what":%q,"input":%q,"observed":%q}`, what, desc(extra), observed))
		}
		diff := func(a, b []byte) string {
			return fmt.Sprintf("first=%q other=%q", trunc(firstDiff(a, b)), trunc(firstDiff(b, a)))
		}
		for k := 0; k < reps; k++ {
			cl, out, _ := runVariant(i, fmt.Sprintf("r%d", k), c, procsList[k%len(procsList)], false, "stdin", false)
			if cl != bclass || !bytes.Equal(out, base.stdout) {
				report("a repeated run printed different bytes or ended differently", "GOMAXPROCS="+procsList[k%len(procsList)], fmt.Sprintf("class %s vs %s; %s", bclass, cl, diff(base.stdout, out)))
				break
			}
		}
		{
			cl, out, _ := runVariant(i, "dbg", c, "", true, "stdin", false)
			if cl != bclass || !bytes.Equal(out, base.stdout) {
				// classify the difference: only goyacc trace lines added?
				extra := extraLines(base.stdout, out)
				onlyTrace := len(extra) > 0 && cl == bclass
				for _, l := range extra {
					if !goyaccTrace.MatchString(l) {
						onlyTrace = false
					}
				}
				what := "with --debug the command printed different bytes or ended differently"
				if onlyTrace {
					what = "with --debug a syntax error makes goyacc print 'state-N saw TOKEN' on standard output"
				}
				report(what, "--debug", fmt.Sprintf("class %s vs %s; extra=%q; %s", bclass, cl, extra, diff(base.stdout, out)))
			}
		}
		if c.readsInput {
			for _, mode := range []string{"dash", "file"} {
				cl, out, _ := runVariant(i, mode, c, "", false, mode, false)
				if cl != bclass || !bytes.Equal(out, base.stdout) {
					report("the result differs when the input arrives as "+map[string]string{"dash": "`-`", "file": "FILE"}[mode]+" instead of stdin", mode, fmt.Sprintf("class %s vs %s; %s", bclass, cl, diff(base.stdout, out)))
				}
			}
		}
		{
			cl, out, so := runVariant(i, "ofile", c, "", false, "stdin", true)
			switch {
			case cl != bclass:
				report("success/failure differs with -o FILE", "-o FILE", fmt.Sprintf("class %s vs %s", bclass, cl))
			case cl == "ok" && !bytes.Equal(out, base.stdout):
				report("the -o file does not hold the bytes printed on stdout without -o", "-o FILE", diff(base.stdout, out))
			case cl == "ok" && len(so) != 0:
				report("with -o FILE something is still printed on stdout", "-o FILE", fmt.Sprintf("stdout=%q", trunc(so)))
			case cl != "ok" && len(out) != 0:
				report("a failing command left bytes in the -o file", "-o FILE", fmt.Sprintf("file=%q", trunc(out)))
			}
		}
		if c.readsInput && len(c.stdin) == 0 {
			// empty input: a pipe that is closed at once, and stdin connected to /dev/null (cron, CI, exec without stdin)
			cmd := exec.Command(crdBin, c.args...)
			cmd.Dir = workDir()
			cmd.Stdin = nil
			var so, se bytes.Buffer
			cmd.Stdout, cmd.Stderr = &so, &se
			err := cmd.Run()
			cl := "ok"
			if err != nil {
				cl = "err"
			}
			if cl != bclass || !bytes.Equal(so.Bytes(), base.stdout) {
				report("the result differs when stdin is /dev/null instead of an empty pipe", "</dev/null", fmt.Sprintf("class %s vs %s; stdout %q vs %q; stderr %q", bclass, cl, trunc(base.stdout), trunc(so.Bytes()), trunc(se.Bytes())))
			}
		}
		if bclass == "ok" {
			old := append(append([]byte{}, base.stdout...), bytes.Repeat([]byte("previous content of the output file\n"), 40)...)
			cl, out, _ := runVariant(i, "oexist", c, "", false, "stdin", true, old)
			if cl != bclass || !bytes.Equal(out, base.stdout) {
				report("writing with -o onto an existing, longer file does not leave exactly the bytes printed on stdout", "-o EXISTING-FILE", fmt.Sprintf("class %s vs %s; %d bytes in the file, %d on stdout; %s", bclass, cl, len(out), len(base.stdout), diff(base.stdout, out)))
			}
		}
		if raceBin := os.Getenv("CRD_RACE_BIN"); raceBin != "" && (strings.HasPrefix(c.kind, "text-conv") || i%7 == 0) {
			res := runBinEnv(raceBin, c.stdin, 60*time.Second, "4", c.args...)
			if bytes.Contains(res.stderr, []byte("DATA RACE")) {
				report("the race detector reports a data race", "(race build, GOMAXPROCS=4)", trunc(res.stderr))
			} else if res.class() != bclass || !bytes.Equal(res.stdout, base.stdout) {
				report("the race-detector build printed different bytes or ended differently", "(race build, GOMAXPROCS=4)", fmt.Sprintf("class %s vs %s; %s", bclass, res.class(), diff(base.stdout, res.stdout)))
			}
			raceRuns.Add(1)
		}
		results[i].lines = problems
	})
	for i, c := range cases {
		s.stat("kind-" + c.kind)
		s.stat("class-" + results[i].base.class())
		s.oracle = append(s.oracle, results[i].lines...)
		if c.conv != nil {
			s.add(c.conv.req(), convReply(results[i].base))
		}
	}
	s.stats["runs-per-case"] = reps + 6
	s.stats["race-detector-runs"] = int(raceRuns.Load())
}

func firstDiff(a, b []byte) []byte {
	i := 0
	for i < len(a) && i < len(b) && a[i] == b[i] {
		i++
	}
	start := i - 40
	if start < 0 {
		start = 0
	}
	end := i + 120
	if end > len(a) {
		end = len(a)
	}
	return a[start:end]
}

// lines of b that are not in a (multiset difference, order kept)
func extraLines(a, b []byte) []string {
	have := map[string]int{}
	for _, l := range strings.Split(string(a), "\n") {
		have[l]++
	}
	var extra []string
	for _, l := range strings.Split(string(b), "\n") {
		if have[l] > 0 {
			have[l]--
		} else {
			extra = append(extra, l)
		}
	}
	return extra
}
