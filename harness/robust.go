package main

// robust: the watchdog stream of C09.  Every subcommand of the real binary is run on arbitrary bytes
// (random, truncated, mutated valid input, over-long input; on stdin and as FILE) and on arbitrary flag
// values; a matrix of musically meaningless inputs is planted in otherwise valid pieces on each path
// (text metadata, YAML field, flag).  Oracles, all on the REAL binary:
//
//	no-crash   no panic, fatal error, signal or time-out
//	signalled  a failure has exit status != 0, a diagnostic on stderr and nothing on stdout / in the -o file
//	refused    a planted nonsense makes the first command that has to interpret it fail
//
// Text-command cases are also sent to the model (`conv` requests) so that the no-crash theorems are tied
// to the real code on raw bytes.

import (
	"bytes"
	"fmt"
	"math/rand"
	"os"
	"path/filepath"
	"strings"
	"time"
)

func init() { streams["robust"] = streamRobust }

type robustCase struct {
	kind   string // statistic bucket
	args   []string
	stdin  []byte
	asFile bool   // give the input as FILE argument instead of stdin
	files  map[string][]byte // extra files; "@name" in args is replaced by the path
	refuse bool   // the command must fail
	outFile bool  // add -o FILE and look at the file
	conv   *convCase // also a model request
}

const robustTimeout = 20 * time.Second

func randBytes(r *rand.Rand, n int) []byte {
	b := make([]byte, n)
	for i := range b {
		switch r.Intn(4) {
		case 0:
			b[i] = byte(r.Intn(256))
		case 1:
			const special = "[]{}=,/_;#b CR1m\n-: \"'|>&*!%@`"
			b[i] = special[r.Intn(len(special))]
		default:
			b[i] = byte(32 + r.Intn(95))
		}
	}
	return b
}

func validYAML(r *rand.Rand, n int) []rawInstance {
	var is []rawInstance
	for i := 0; i < n; i++ {
		is = append(is, genInstance(r, false))
	}
	return is
}

func fuzzInput(r *rand.Rand, valid []byte) ([]byte, string) {
	switch r.Intn(8) {
	case 0:
		return randBytes(r, r.Intn(64)), "random"
	case 1:
		if len(valid) > 0 {
			return valid[:r.Intn(len(valid))], "truncated"
		}
		return valid, "valid"
	case 2:
		return mutateBytes(r, valid), "mutated"
	case 3:
		return mutateBytes(r, mutateBytes(r, valid)), "mutated"
	case 4:
		return bytes.Repeat(valid, 1+r.Intn(50)), "repeated"
	case 5:
		return append(append([]byte{}, valid...), randBytes(r, 1+r.Intn(8))...), "junk-suffix"
	case 6:
		return append(randBytes(r, 1+r.Intn(8)), valid...), "junk-prefix"
	}
	return valid, "valid"
}

// YAML shapes the instances decoder does not expect
var yamlShapes = []string{
	"", "\n", "~", "null", "[]", "{}", "- ", "- ~", "- []", "- {}", "- 1", "a: b", "- chord: 1", "- chord: []", "- chord: {name: []}",
	"- values: 1", "- values: {a: b}", "- values: [[1]]", "- values: [~]", "- values: [1.5]", "- values: [-1]", "- values: [1/2/3]", "- values: [\"\"]",
	"- values: [1]\n  bpm: -1", "- values: [1]\n  bpm: 1.5", "- values: [1]\n  bpm: []", "- values: [1]\n  bpm: 99999999999999999999999",
	"- values: [1]\n  velocity: []", "- values: [1]\n  velocity: 1", "- values: [1]\n  meter: 4", "- values: [1]\n  meter: [4, 4]", "- values: [1]\n  meter: 4/4/4",
	"- values: [1]\n  key: []", "- values: [1]\n  key: 1", "- values: [1]\n  key: \"\"", "- values: [1]\n  meta: 1", "- values: [1]\n  meta: [a]", "- values: [1]\n  meta: {a: [b]}",
	"- values: [1]\n  meta: {a: {b: c}}", "- values: [1]\n  unknown: 1", "- values: [1]\n  values: [2]", "- &a values: [1]\n- *a", "- values: &v [1]\n- values: *v",
	"- values: [1]\n  chord: {degree: 1}", "- values: [1]\n  chord: {degree: 0, name: m}", "- values: [1]\n  chord: {degree: x, name: m}", "- values: [1]\n  chord: {degree: 1, name: m, base: 0}",
	"- values: [1]\n  chord: {degree: -1, name: m}", "- values: [1]\n  chord: {degree: 1.0, name: m}", "- values: [1]\n  chord: {degree: 1, name: 7}", "- values: [1]\n  chord: {degree: 1, name: ~}",
	"- values: [1]\n  chord: {degree: 18446744073709551616, name: m}", "- values: [18446744073709551616]", "- values: [1/18446744073709551616]", "- values: [4294967296/1]",
	"- values: [1]\n  chord: {degree: 99999999999, name: m}", "- values: [1]\n  chord: {degree: 1, name: m, base: 99999999999}", "--- \n- values: [1]\n--- \n- values: [2]", "%YAML 1.2\n---\n- values: [1]",
	"- values: [1]\n\t", "\t- values: [1]", "- values: [1", "- values: 1]", "- \"values\": [\"1\"]", "- values: [!!binary AQ==]", "- values: [!!int \"1\"]", "- !!map {values: [1]}",
	"\xef\xbb\xbf- values: [1]", "\xff\xfe-\x00 \x00", "- values: [1]\n  bpm: 0x10", "- values: [1]\n  bpm: 1e2", "- values: [1]\n  bpm: +5", "- values: [1]\n  bpm: \" 5\"", "- values: [0x1]", "- values: [+1]", "- values: [\" 1\"]", "- values: [1_000]",
}

func streamRobust() {
	s, done := openStream("robust")
	defer done()
	r := rng("robust")
	var cases []robustCase
	add := func(c robustCase) { cases = append(cases, c) }

	// ---- A. arbitrary bytes for every subcommand that reads input ----
	textCmds := [][]string{{"text", "parse"}, {"text", "conv", "syllable"}, {"text", "conv", "degree"}}
	yamlCmds := [][]string{{"write"}, {"write", "event"}, {"write", "conv", "-c", "cmt"}, {"write", "parse"}}
	for _, t := range corpusTexts {
		for _, c := range textCmds {
			rc := robustCase{kind: "text-corpus", args: c, stdin: []byte(t)}
			if c[1] == "conv" {
				rc.conv = &convCase{c[2], "", []byte(t)}
			}
			add(rc)
		}
	}
	for _, y := range yamlShapes {
		for _, c := range yamlCmds {
			add(robustCase{kind: "yaml-shape", args: c, stdin: []byte(y)})
		}
	}
	for i := 0; i < pick(600, 12000); i++ {
		valid := []byte(genChordText(r, r.Intn(4) == 0))
		in, how := fuzzInput(r, valid)
		c := textCmds[r.Intn(len(textCmds))]
		rc := robustCase{kind: "text-" + how, args: append([]string{}, c...), stdin: in, asFile: r.Intn(4) == 0, outFile: r.Intn(6) == 0}
		if c[1] == "conv" {
			key := ""
			if c[2] == "syllable" && r.Intn(3) == 0 {
				key = keys28[r.Intn(28)]
				rc.args = append(rc.args, "--key", key)
			}
			rc.conv = &convCase{c[2], key, in}
		}
		add(rc)
	}
	for i := 0; i < pick(600, 12000); i++ {
		valid := []byte(yamlDoc(validYAML(r, 1+r.Intn(5))))
		in, how := fuzzInput(r, valid)
		c := yamlCmds[r.Intn(len(yamlCmds))]
		add(robustCase{kind: "yaml-" + how, args: append([]string{}, c...), stdin: in, asFile: r.Intn(4) == 0, outFile: r.Intn(6) == 0})
	}
	// over-long inputs
	long := []byte(strings.Repeat("C[1] Dm7[1/2] R[1]{txt=x} ", pick(2000, 40000)))
	add(robustCase{kind: "text-long", args: []string{"text", "conv", "syllable"}, stdin: long})
	add(robustCase{kind: "text-long", args: []string{"text", "parse"}, stdin: long[:len(long)-3]})
	add(robustCase{kind: "text-long", args: []string{"text", "conv", "degree"}, stdin: []byte("1" + strings.Repeat("#", pick(5000, 200000)) + "[1]")})
	add(robustCase{kind: "text-long", args: []string{"text", "conv", "syllable"}, stdin: []byte("C" + strings.Repeat("m", pick(5000, 200000)) + "[1]")})
	add(robustCase{kind: "text-long", args: []string{"text", "conv", "syllable"}, stdin: []byte("C[" + strings.Repeat("1,", pick(5000, 100000)) + "1]")})
	add(robustCase{kind: "text-long", args: []string{"text", "conv", "syllable"}, stdin: []byte("C[" + strings.Repeat("9", pick(500, 50000)) + "]")})
	add(robustCase{kind: "text-long", args: []string{"text", "parse"}, stdin: []byte(strings.Repeat(";", pick(5000, 200000)))})
	add(robustCase{kind: "text-long", args: []string{"text", "parse"}, stdin: []byte(strings.Repeat("[", pick(5000, 200000)))})
	add(robustCase{kind: "text-long", args: []string{"text", "parse"}, stdin: []byte("C[1]{a=" + strings.Repeat("x", pick(5000, 200000)))})
	{
		var is []rawInstance
		for i := 0; i < pick(500, 5000); i++ {
			is = append(is, genInstance(r, false))
		}
		doc := []byte(yamlDoc(is))
		add(robustCase{kind: "yaml-long", args: []string{"write"}, stdin: doc})
		add(robustCase{kind: "yaml-long", args: []string{"write", "--track", "16"}, stdin: doc})
		add(robustCase{kind: "yaml-long", args: []string{"write", "event"}, stdin: doc[:len(doc)*2/3]})
		add(robustCase{kind: "yaml-long", args: []string{"write"}, stdin: []byte("- values: [" + strings.Repeat("1, ", pick(2000, 50000)) + "1]")})
		add(robustCase{kind: "yaml-long", args: []string{"write"}, stdin: []byte(strings.Repeat("[", pick(2000, 9000)))})
		add(robustCase{kind: "yaml-long", args: []string{"write"}, stdin: []byte("- values: [1]\n  chord: {degree: 1, name: " + strings.Repeat("m", pick(5000, 100000)) + "}")})
	}

	// ---- B. arbitrary flag values ----
	okDoc := []byte("- chord: {degree: \"1\", name: \"\"}\n  values: [\"1\"]\n- chord: {degree: \"5\", name: \"7\"}\n  values: [\"1/2\"]\n")
	okText := []byte("C[1] G7[1/2]")
	strs := []string{"", " ", "0", "-1", "1", "x", "4/4", "0/4", "4/0", "1/", "/1", "mf", "fff", "C", "Am", "G#", "E#", "zz", "H", "xCx", "♯", "\xff", "18446744073709551616", "4294967296", "256", "65535", "65536", "70000",
		"99999999999999999999", "1e3", "0x10", "+1", "1.5", "a,b", "a=b", "--", "-", "cmt", "cmt,cmt", "cmt,zz", ",", "Major3", "Major3,Minor3", "/nonexistent/file", "/dev/null", "/",
		"ép", "p♯d", "é", "pé", "日本dd", "d\xffp", "dé", "ｄ", "d\u0301d", "♭♭♭", "C♯x", "pd\u2028s"}
	flagSets := []struct {
		cmd   []string
		in    []byte
		flags []string
	}{
		{[]string{"write"}, okDoc, []string{"--bpm", "--velocity", "--meter", "--key", "--track", "--program", "--instrument", "--attr", "--chord", "-o"}},
		{[]string{"write", "event"}, okDoc, []string{"--bpm", "--velocity", "--meter", "--key", "--track", "--program", "--instrument", "--attr", "--chord"}},
		{[]string{"write", "conv"}, okDoc, []string{"-c", "--bpm", "--velocity", "--meter", "--key", "--track", "--attr", "--chord"}},
		{[]string{"write", "parse"}, okDoc, []string{"--key", "--track"}},
		{[]string{"text", "conv", "syllable"}, okText, []string{"--key", "-k", "-o"}},
		{[]string{"text", "conv", "degree"}, okText, []string{"--key"}},
		{[]string{"text", "parse"}, okText, []string{"-o"}},
		{[]string{"info", "attr", "describe"}, nil, []string{"-t", "-r", "--attr"}},
		{[]string{"info", "attr", "list"}, nil, []string{"--attr"}},
		{[]string{"info", "chord", "describe"}, nil, []string{"-t", "-r", "--attr", "--chord"}},
		{[]string{"info", "chord", "list"}, nil, []string{"--attr", "--chord"}},
		{[]string{"info", "key", "conv"}, nil, []string{"-c", "--key"}},
		{[]string{"info", "key", "describe"}, nil, []string{"--key"}},
		{[]string{"info", "key", "list"}, nil, []string{"--key"}},
		{[]string{"gen", "attr"}, nil, []string{"-d"}},
	}
	for _, fs := range flagSets {
		for _, f := range fs.flags {
			for _, v := range strs {
				if f == "-d" && len(v) > 4 {
					continue // the size of the requested output is the caller's business; see DESIGN.md
				}
				if f == "-o" && (v == "" || v == "/dev/null") {
					continue
				}
				add(robustCase{kind: "flag" + f, args: append(append([]string{}, fs.cmd...), f, v), stdin: fs.in})
			}
		}
	}
	for i := 0; i < pick(300, 6000); i++ {
		fs := flagSets[r.Intn(len(flagSets))]
		args := append([]string{}, fs.cmd...)
		for k := 0; k < 1+r.Intn(3); k++ {
			f := fs.flags[r.Intn(len(fs.flags))]
			v := strs[r.Intn(len(strs))]
			if r.Intn(6) == 0 {
				v = string(randBytes(r, r.Intn(12)))
			}
			if f == "-d" || f == "-o" || strings.ContainsRune(v, 0) {
				continue
			}
			args = append(args, f, v)
		}
		if fs.cmd[0] == "info" && r.Intn(2) == 0 {
			args = append(args, strs[r.Intn(len(strs))])
		}
		add(robustCase{kind: "flag-random", args: args, stdin: fs.in})
	}
	// a piece without any instance together with arguments that are nonsense: the arguments are checked all the same
	{
		dir := filepath.Join(outDir, "robust-empty")
		must(os.MkdirAll(dir, 0o755))
		cyc := filepath.Join(dir, "cyc.yml")
		must(os.WriteFile(cyc, []byte("- name: X\n  meta: {display: x}\n  extends: X\n"), 0o644))
		badAttr := filepath.Join(dir, "attr.yml")
		must(os.WriteFile(badAttr, []byte("- name: Q\n  degree: zz\n"), 0o644))
		for _, in := range []string{"[]", "", "~", "[]\n", "# nothing\n"} {
			for _, a := range [][]string{{"write", "conv", "-c", "nosuch"}, {"write", "conv", "-c", "cmt", "--chord", cyc}, {"write", "conv", "-c", "cmt", "--track", "0"},
				{"write", "conv", "-c", "cmt", "--attr", badAttr}, {"write", "conv", "-c", "cmt", "--chord", "/nonexistent"}, {"write", "event", "--chord", cyc},
				{"write", "parse", "--chord", cyc}, {"write", "--chord", cyc}, {"write", "event", "--track", "0"}} {
				// (a nonsense --key/--velocity/--meter override has no instance to apply to here and is not looked at)
				add(robustCase{kind: "nonsense-args-empty-piece", args: a, stdin: []byte(in), refuse: true})
			}
		}
	}
	// arbitrary bytes as dictionary files
	for i := 0; i < pick(150, 3000); i++ {
		a, c := genDictBytes(r)
		fa, ha := fuzzInput(r, a)
		fc, hc := fuzzInput(r, c)
		cmd := [][]string{{"write"}, {"info", "chord", "list"}, {"info", "attr", "list"}, {"info", "chord", "describe", "-t", "m7"}, {"write", "conv", "-c", "cmt"}}[r.Intn(5)]
		add(robustCase{kind: "dict-" + ha + "/" + hc, args: append(append([]string{}, cmd...), "--attr", "@attr.yml", "--chord", "@chord.yml"), stdin: okDoc,
			files: map[string][]byte{"attr.yml": fa, "chord.yml": fc}})
	}
	for _, y := range yamlShapes {
		add(robustCase{kind: "dict-shape", args: []string{"write", "--attr", "@attr.yml"}, stdin: okDoc, files: map[string][]byte{"attr.yml": []byte(y)}})
		add(robustCase{kind: "dict-shape", args: []string{"write", "--chord", "@chord.yml"}, stdin: okDoc, files: map[string][]byte{"chord.yml": []byte(y)}})
	}

	// ---- C. planted nonsense: (kind, path) matrix ----
	for _, mode := range []string{"syllable", "degree"} {
		good, other, g7, am := "C", "1", "G7", "Am"
		if mode == "degree" {
			good, other, g7, am = "1", "C", "5_7", "6m"
		}
		plant := func(kind, bad string) {
			for _, t := range []string{bad, bad + " " + g7 + "[1]", good + "[1] " + bad, good + "[1] " + bad + " " + am + "[2] R[1]"} {
				add(robustCase{kind: "nonsense-text-" + kind, args: []string{"text", "conv", mode}, stdin: []byte(t), refuse: true, conv: &convCase{mode, "", []byte(t)}})
			}
		}
		plant("zero-duration", good+"[0]")
		plant("zero-duration", good+"[0/4]")
		plant("zero-duration", good+"[1/0]")
		plant("zero-duration", good+"[1,0,2]")
		plant("zero-duration", "R[0]")
		plant("zero-duration", good+"[00]")
		plant("no-durations", good+"[]")
		plant("no-durations", good)
		plant("tempo-zero", good+"[1]{bpm=0}")
		plant("tempo-zero", good+"[1]{bpm=000}")
		plant("tempo-zero", "R[1]{bpm=0}")
		plant("tempo-bad", good+"[1]{bpm=-3}")
		plant("tempo-bad", good+"[1]{bpm=1.5}")
		plant("unknown-dynamic", good+"[1]{vel=loud}")
		plant("unknown-dynamic", good+"[1]{vel=fff}")
		plant("unknown-dynamic", good+"[1]{vel=MF}")
		plant("zero-meter", good+"[1]{mtr=0/4}")
		plant("zero-meter", good+"[1]{mtr=4/0}")
		plant("bad-key", good+"[1]{key=zz}")
		plant("mixed-notation", good+"[1] "+other+"[1]")
		plant("mixed-notation", good+"/"+other+"[1]")
		plant("mixed-notation", other+"[1] "+good+"[1]")
		if mode == "syllable" {
			plant("key-without-scale", "C[1]{key=G#}")
			plant("key-without-scale", "C[1]{key=E#}")
			plant("key-without-scale", "C[1]{key=Fb}")
			plant("key-without-scale", "R[1]{key=A#}")
			for _, k := range []string{"G#", "E#", "zz", "Fb", "A#", "Dbm"} {
				add(robustCase{kind: "nonsense-flag-key", args: []string{"text", "conv", "syllable", "--key", k}, stdin: okText, refuse: true,
					conv: &convCase{"syllable", k, okText}})
			}
		}
	}
	for _, t := range []string{"", " ", "\n", ";nothing\n", " ;a\n;b"} {
		for _, c := range textCmds {
			add(robustCase{kind: "nonsense-text-empty-piece", args: c, stdin: []byte(t), refuse: true})
		}
	}
	// YAML fields, for the commands that play (write, write event) and for write conv where it decodes/validates
	inst := func(body string) string { return "- " + strings.ReplaceAll(body, "\n", "\n  ") + "\n" }
	goodI := inst("chord: {degree: \"1\", name: \"m\"}\nvalues: [\"1\"]")
	type yn struct {
		kind, body string
		convToo    bool // also refused by `write conv -c cmt` (it is caught while reading or validating)
	}
	for _, n := range []yn{
		{"zero-duration", "chord: {degree: \"1\", name: \"\"}\nvalues: [\"0\"]", true},
		{"zero-duration", "chord: {degree: \"1\", name: \"\"}\nvalues: [\"1\", \"0/4\"]", true},
		{"zero-duration", "chord: {degree: \"1\", name: \"\"}\nvalues: [\"1/0\"]", true},
		{"zero-duration", "values: [0]", true},
		{"no-durations", "chord: {degree: \"1\", name: \"\"}\nvalues: []", false},
		{"no-durations", "chord: {degree: \"1\", name: \"\"}", false},
		{"no-durations", "bpm: 100", false},
		{"tempo-zero", "values: [1]\nbpm: 0", true},
		{"tempo-zero", "values: [1]\nbpm: \"00\"", true},
		{"unknown-dynamic", "values: [1]\nvelocity: loud", true},
		{"unknown-dynamic", "values: [1]\nvelocity: \"\"", true},
		{"unknown-dynamic", "values: [1]\nvelocity: fff", true},
		{"zero-meter", "values: [1]\nmeter: 0/4", true},
		{"zero-meter", "values: [1]\nmeter: 4/0", true},
		{"unknown-chord", "chord: {degree: \"1\", name: \"xyz\"}\nvalues: [1]", true},
		{"unknown-chord", "chord: {degree: \"1\", name: \"M\"}\nvalues: [1]", true},
		{"unknown-chord", "chord: {degree: \"1\", name: \" m\"}\nvalues: [1]", true},
		{"bad-degree", "chord: {degree: \"0\", name: \"m\"}\nvalues: [1]", true},
		{"bad-degree", "chord: {degree: \"H\", name: \"m\"}\nvalues: [1]", true},
		{"bad-degree", "chord: {degree: \"1\", name: \"m\", base: \"0\"}\nvalues: [1]", true},
		{"key-without-scale", "values: [1]\nkey: G#", false},
		{"key-without-scale", "values: [1]\nkey: E#", false},
		{"key-without-scale", "chord: {degree: \"1\", name: \"m\"}\nvalues: [1]\nkey: Fb", false},
		{"bad-key", "values: [1]\nkey: zz", true},
		{"bad-key", "values: [1]\nkey: \"\"", true},
	} {
		for pos, doc := range []string{inst(n.body), inst(n.body) + goodI, goodI + inst(n.body), goodI + inst(n.body) + goodI} {
			_ = pos
			add(robustCase{kind: "nonsense-yaml-" + n.kind, args: []string{"write"}, stdin: []byte(doc), refuse: true})
			add(robustCase{kind: "nonsense-yaml-" + n.kind, args: []string{"write", "event"}, stdin: []byte(doc), refuse: true})
			add(robustCase{kind: "nonsense-yaml-" + n.kind, args: []string{"write", "--track", "3"}, stdin: []byte(doc), refuse: true, asFile: true})
			if n.convToo {
				add(robustCase{kind: "nonsense-yaml-" + n.kind, args: []string{"write", "conv", "-c", "cmt"}, stdin: []byte(doc), refuse: true})
			}
		}
	}
	for _, doc := range []string{"", "[]", "[]\n", "~", "\n", "# nothing\n", "---\n"} {
		for _, c := range [][]string{{"write"}, {"write", "event"}} {
			add(robustCase{kind: "nonsense-yaml-empty-piece", args: c, stdin: []byte(doc), refuse: true})
		}
	}
	// flag values
	for _, c := range [][]string{{"write"}, {"write", "event"}, {"write", "conv", "-c", "cmt"}} {
		for _, fv := range [][2]string{{"--velocity", "loud"}, {"--velocity", "fff"}, {"--velocity", " "}, {"--meter", "0/4"}, {"--meter", "4/0"}, {"--meter", "x"},
			{"--key", "zz"}, {"--key", " "}, {"--track", "0"}, {"--track", "-1"}, {"--track", "65536"}, {"--track", "99999999"}, {"--bpm", "-1"}, {"--bpm", "x"}, {"--program", "256"}, {"--program", "-1"},
			{"--attr", "/nonexistent/a.yml"}, {"--chord", "/nonexistent/c.yml"}} {
			add(robustCase{kind: "nonsense-flag" + fv[0], args: append(append([]string{}, c...), fv[0], fv[1]), stdin: okDoc, refuse: true})
		}
	}
	for _, k := range []string{"G#", "E#", "Fb", "A#", "Dbm"} {
		add(robustCase{kind: "nonsense-flag--key", args: []string{"write", "--key", k}, stdin: okDoc, refuse: true})
		add(robustCase{kind: "nonsense-flag--key", args: []string{"write", "event", "-k", k}, stdin: okDoc, refuse: true})
	}
	for _, cs := range [][]string{{"-c", "nosuch"}, {"-c", "cmt,nosuch"}, {"-c", "cmt", "-c", "CMT"}, {"-c", ""}, {}} {
		add(robustCase{kind: "nonsense-modifier", args: append([]string{"write", "conv"}, cs...), stdin: okDoc, refuse: true})
	}
	for _, cs := range [][]string{{"-c", "zz", "C"}, {"-c", "", "C"}, {"C"}, {"-c", "dominant", "zz"}, {"-c", "dominant", "G#"}, {"-c", "dominant,zz", "C"}} {
		add(robustCase{kind: "nonsense-keyconv", args: append([]string{"info", "key", "conv"}, cs...), refuse: true})
	}
	add(robustCase{kind: "nonsense-target", args: []string{"info", "attr", "describe", "-t", "nope"}, refuse: true})
	add(robustCase{kind: "nonsense-target", args: []string{"info", "attr", "describe", "-t", "Major3", "-r", "H"}, refuse: true})
	add(robustCase{kind: "nonsense-target", args: []string{"info", "chord", "describe", "-t", "nope"}, refuse: true})
	add(robustCase{kind: "nonsense-target", args: []string{"info", "chord", "describe", "-t", "Cxyz"}, refuse: true})
	add(robustCase{kind: "nonsense-command", args: []string{"nosuch"}, refuse: true})
	add(robustCase{kind: "nonsense-command", args: []string{"write", "--nosuch"}, stdin: okDoc, refuse: true})
	add(robustCase{kind: "nonsense-command", args: []string{"write", "/nonexistent/input.yml"}, refuse: true})
	add(robustCase{kind: "nonsense-command", args: []string{"text", "parse", "/nonexistent/input.txt"}, refuse: true})
	add(robustCase{kind: "nonsense-command", args: []string{"write", "-o", "/nonexistent/dir/out.mid"}, stdin: okDoc, refuse: true})
	// inconsistent dictionaries
	for _, d := range [][2]string{
		{"- name: \"\"\n  degree: \"3\"\n", ""},
		{"", "- name: x\n  meta: {display: x}\n  attributes: [Nope]\n"},
		{"", "- name: x\n  meta: {display: x}\n  extends: nope\n"},
		{"", "- name: x\n  meta: {display: x}\n  extends: y\n- name: y\n  meta: {display: y}\n  extends: x\n"},
		{"", "- name: x\n  meta: {display: x}\n  extends: x\n"},
		{"- name: Bad\n  degree: \"0\"\n", ""},
		{"- name: Bad\n  degree: \"zz\"\n", ""},
	} {
		files := map[string][]byte{}
		args := []string{"write"}
		if d[0] != "" {
			files["attr.yml"] = []byte(d[0])
			args = append(args, "--attr", "@attr.yml")
		}
		if d[1] != "" {
			files["chord.yml"] = []byte(d[1])
			args = append(args, "--chord", "@chord.yml")
		}
		add(robustCase{kind: "nonsense-dictionary", args: args, stdin: okDoc, files: files, refuse: true})
	}

	// ---- run ----
	type outcome struct {
		res     runResult
		fileOut []byte
		hadFile bool
		cmdline string
	}
	results := make([]outcome, len(cases))
	runOne := func(i int, timeout time.Duration) outcome {
		c := cases[i]
		dir := filepath.Join(outDir, fmt.Sprintf("robust-%d", i))
		must(os.MkdirAll(dir, 0o755))
		defer os.RemoveAll(dir)
		args := append([]string{}, c.args...)
		for j, a := range args {
			if _, ok := c.files[strings.TrimPrefix(a, "@")]; ok && strings.HasPrefix(a, "@") {
				p := filepath.Join(dir, a[1:])
				must(os.WriteFile(p, c.files[a[1:]], 0o644))
				args[j] = p
			}
		}
		stdin := c.stdin
		if c.asFile {
			p := filepath.Join(dir, "input")
			must(os.WriteFile(p, c.stdin, 0o644))
			args = append(args, p)
			stdin = nil
		}
		var o outcome
		outPath := filepath.Join(dir, "out")
		if c.outFile {
			args = append(args, "-o", outPath)
		}
		o.cmdline = strings.Join(c.args, " ")
		o.res = runCrd(stdin, timeout, args...)
		if c.outFile {
			if b, err := os.ReadFile(outPath); err == nil {
				o.fileOut, o.hadFile = b, true
			}
		}
		return o
	}
	noRetry = true
	parallel(len(cases), func(i int) { results[i] = runOne(i, robustTimeout) })
	for i := range cases {
		if results[i].res.timedOut { // alone, with a generous limit, before calling it a hang
			results[i] = runOne(i, 90*time.Second)
			s.stat("retimed")
		}
	}
	describe := func(c robustCase) string {
		in := c.stdin
		if len(in) > 600 {
			in = append(append([]byte{}, in[:600]...), []byte(fmt.Sprintf("…(%d bytes)", len(c.stdin)))...)
		}
		how := "stdin"
		if c.asFile {
			how = "FILE"
		}
		extra := ""
		for n, b := range c.files {
			extra += fmt.Sprintf(" [%s=%q]", n, trunc(b))
		}
		return fmt.Sprintf("crd %s  (%s=%q)%s", strings.Join(c.args, " "), how, in, extra)
	}
	for i, c := range cases {
		o := results[i]
		cl := o.res.class()
		s.stat("class-" + cl)
		s.stat("kind-" + strings.SplitN(c.kind, "/", 2)[0])
		s.stat("cmd-" + strings.Join(firstWords(c.args), "-"))
		obs := fmt.Sprintf("exit=%d timedOut=%v stdout=%q stderr=%q", o.res.exit, o.res.timedOut, trunc(o.res.stdout), trunc(o.res.stderr))
		switch cl {
		case "crash":
			what := "crd crashed (panic, fatal error or signal)"
			if o.res.timedOut {
				what = "crd did not terminate within 90 s"
			}
			s.violate("C09", what, describe(c), obs)
		case "err":
			if len(o.res.stdout) != 0 {
				s.violate("C09", "a failing command printed a result on stdout", describe(c), obs)
			}
			if len(bytes.TrimSpace(o.res.stderr)) == 0 {
				s.violate("C09", "a failing command gave no diagnostic on stderr", describe(c), obs)
			}
			if o.hadFile && len(o.fileOut) != 0 {
				s.violate("C09", "a failing command left a result in the -o file", describe(c), obs)
			}
		case "ok":
			if c.refuse {
				s.violate("C09", "musically meaningless input was accepted ("+strings.TrimPrefix(c.kind, "nonsense-")+")", describe(c), obs)
			}
		}
		if c.conv != nil {
			if c.outFile && cl == "ok" {
				if len(o.res.stdout) != 0 {
					s.violate("C09", "with -o the result was (also) printed on stdout", describe(c), obs)
				}
				o.res.stdout = o.fileOut
			}
			s.add(c.conv.req(), convReply(o.res))
		}
	}
}

func firstWords(args []string) []string {
	var w []string
	for _, a := range args {
		if strings.HasPrefix(a, "-") || strings.HasPrefix(a, "@") || strings.HasPrefix(a, "/") || len(w) == 3 {
			break
		}
		w = append(w, a)
	}
	if len(w) > 1 && (w[0] == "info" || w[0] == "text" || w[0] == "gen") {
		if w[0] == "text" && len(w) > 2 && w[1] == "conv" {
			return w[:3]
		}
		if len(w) > 2 && w[0] == "info" {
			return w[:3]
		}
		return w[:2]
	}
	if len(w) > 1 && w[0] == "write" && (w[1] == "event" || w[1] == "conv" || w[1] == "parse") {
		return w[:2]
	}
	return w[:1]
}

func genDictBytes(r *rand.Rand) ([]byte, []byte) {
	attrs, chords, _ := genDict(r)
	a, c := dictYAML(attrs, chords)
	return []byte(a), []byte(c)
}
