package main

// sizes: what must not depend on how long the input is.  Real-only oracles: a piece with a long stretch of trivia
// (blanks, comment lines, YAML comments) in the middle must give exactly the result of the same piece without it, and
// nonsense placed after the stretch must still be refused.  The stretch crosses the usual buffer and limit sizes
// (64 KiB, 1 MiB, 16 MiB; thorough: 32 MiB, 64 MiB).  Also: very long single elements.

import (
	"bytes"
	"fmt"
	"os"
	"strings"
	"time"
)

func init() { streams["sizes"] = streamSizes }

func streamSizes() {
	s, done := openStream("sizes")
	defer done()
	pads := []int{70_000, 1_100_000, 17_000_000}
	textPads := map[int]bool{70_000: true, 1_100_000: true}
	if thorough() {
		pads = append(pads, 34_000_000, 68_000_000)
		textPads[17_000_000] = true
		textPads[34_000_000] = true
	}
	// an obligation about how input is read no longer checks: after the usual sizes, climb a ladder of larger ones and
	// stop at the first length at which a result changes
	escalate := os.Getenv("CRD_ESCALATE") != ""
	slow := time.Duration(1)
	ladder := []int{34_000_000, 68_000_000, 136_000_000, 272_000_000}
	type job struct {
		name string
		run  func() []string // violations: "property|what|input|observed"
	}
	v := func(props []string, what, input, observed string) []string {
		var out []string
		for _, p := range props {
			out = append(out, p+"|"+what+"|"+input+"|"+observed)
		}
		return out
	}
	short := func(b []byte) string {
		if len(b) > 200 {
			return fmt.Sprintf("%q…(%d bytes)", b[:200], len(b))
		}
		return fmt.Sprintf("%q", b)
	}
	var jobs []job
	addSize := func(n int, climbing bool) {
		for _, kind := range []string{"blanks", "comments"} {
			kind := kind
			if !textPads[n] && !climbing || climbing && (kind == "blanks" || n > 136_000_000) {
				continue // climbing: comment padding only, and text up to 136 MB (the lexer takes about a second per MB)
			}
			var pad []byte
			if kind == "blanks" {
				pad = bytes.Repeat([]byte(" "), n)
			} else {
				line := []byte(";" + strings.Repeat("x", 78) + "\n")
				pad = append([]byte("\n"), bytes.Repeat(line, n/len(line)+1)...)
			}
			for _, cmd := range [][]string{{"text", "conv", "syllable"}, {"text", "conv", "degree"}, {"text", "parse"}} {
				cmd := cmd
				a, b := "C[1]", "G_7/B[01]{txt=end}"
				if cmd[len(cmd)-1] == "degree" {
					a, b = "1[1]", "5_7/7[01]{txt=end}"
				}
				jobs = append(jobs, job{fmt.Sprintf("text-%s-%d", kind, n), func() []string {
					plain := runCrd([]byte(a+" "+b), 60*time.Second, cmd...)
					long := runCrd(append(append([]byte(a), pad...), []byte(b)...), slow*120*time.Second, cmd...)
					desc := fmt.Sprintf("crd %s on %q + %d bytes of %s + %q", strings.Join(cmd, " "), a, len(pad), kind, b)
					if long.class() != plain.class() || !bytes.Equal(noPositions(cmd, long.stdout), noPositions(cmd, plain.stdout)) {
						return v([]string{"C04", "C09", "C11"}, "a long stretch of "+kind+" between two chords changes the result", desc,
							fmt.Sprintf("without: %s %s | with: %s %s", plain.class(), short(plain.stdout), long.class(), short(long.stdout)))
					}
					if climbing {
						return nil
					}
					// a malformed tail after the stretch must still be refused
					bad := runCrd(append(append([]byte(a), pad...), []byte("C[")...), slow*120*time.Second, cmd...)
					if bad.class() != "err" {
						return v([]string{"C04", "C09"}, "a malformed tail after a long stretch of "+kind+" is accepted", desc+" with tail \"C[\"",
							fmt.Sprintf("%s %s", bad.class(), short(bad.stdout)))
					}
					return nil
				}})
			}
		}
		// instances YAML: a long comment in the middle
		for ci, cmd := range [][]string{{"write"}, {"write", "event"}, {"write", "conv", "-c", "cmt"}, {"write", "parse"}} {
			cmd := cmd
			if climbing && ci != 1 && ci != 2 {
				continue
			}
			head := "- chord: {degree: \"1\", name: \"\"}\n  values: [\"1\"]\n"
			tail := "- chord: {degree: \"5\", name: \"7\"}\n  values: [\"1/2\"]\n  meta: {txt: \"end\"}\n"
			pad := []byte("#" + strings.Repeat("x", n) + "\n")
			jobs = append(jobs, job{fmt.Sprintf("yaml-comment-%d", n), func() []string {
				plain := runCrd([]byte(head+tail), 60*time.Second, cmd...)
				long := runCrd(append(append([]byte(head), pad...), []byte(tail)...), slow*180*time.Second, cmd...)
				desc := fmt.Sprintf("crd %s on two instances with a %d-byte YAML comment between them", strings.Join(cmd, " "), len(pad))
				if long.class() != plain.class() || !bytes.Equal(long.stdout, plain.stdout) {
					return v([]string{"C09", "C10"}, "a long YAML comment between two instances changes the result", desc,
						fmt.Sprintf("without: %s %s | with: %s %s", plain.class(), short(plain.stdout), long.class(), short(long.stdout)))
				}
				if cmd[len(cmd)-1] != "parse" {
					for ni, nonsense := range []string{"- values: [\"1\"]\n  bpm: 0\n", "- values: [\"0\"]\n", "- chord: {degree: \"1\", name: \"nosuch\"}\n  values: [\"1\"]\n", "- values: [\"1\"]\n  velocity: loud\n"} {
						if climbing && ni > 0 {
							break
						}
						bad := runCrd(append(append([]byte(head), pad...), []byte(nonsense)...), slow*180*time.Second, cmd...)
						if bad.class() != "err" {
							return v([]string{"C09"}, "nonsense after a long YAML comment is accepted", desc+" followed by "+nonsense,
								fmt.Sprintf("%s %s", bad.class(), short(bad.stdout)))
						}
					}
				}
				return nil
			}})
		}
	}
	for _, n := range pads {
		addSize(n, false)
	}
	// many elements: the last one must still count
	for _, n := range []int{pick(3000, 40000)} {
		n := n
		jobs = append(jobs, job{"many-chords", func() []string {
			txt := []byte(strings.Repeat("C[1] ", n) + "G_7[1]{txt=last}")
			res := runCrd(txt, 300*time.Second, "text", "conv", "syllable")
			if res.class() != "ok" || bytes.Count(res.stdout, []byte("- chord:")) != n+1 || !bytes.Contains(res.stdout, []byte("txt: last")) {
				return v([]string{"C04", "C09"}, fmt.Sprintf("a piece of %d chords does not convert to %d instances", n+1, n+1), fmt.Sprintf("C[1] x %d + G_7[1]{txt=last}", n),
					fmt.Sprintf("%s, %d instances, last text present: %v", res.class(), bytes.Count(res.stdout, []byte("- chord:")), bytes.Contains(res.stdout, []byte("txt: last"))))
			}
			w := runCrd(res.stdout, 300*time.Second, "write", "event")
			if w.class() != "ok" || bytes.Count(w.stdout, []byte("NoteOn")) != 4*n+5 || !bytes.Contains(w.stdout, []byte("\"last\"")) {
				return v([]string{"C09", "C10"}, fmt.Sprintf("`write` does not play all %d chords `text conv` printed", n+1), fmt.Sprintf("text conv of C[1] x %d + G_7[1]{txt=last} | write event", n),
					fmt.Sprintf("%s, %d note-ons (expected %d), last text present: %v", w.class(), bytes.Count(w.stdout, []byte("NoteOn")), 4*n+5, bytes.Contains(w.stdout, []byte("\"last\""))))
			}
			return nil
		}})
	}
	// long mixed notation: must be refused promptly, however much follows the first inconsistency
	for _, mode := range []string{"syllable", "degree"} {
		for _, first := range []string{"1[1] ", "C[1] "} {
			mode, first := mode, first
			other := "C[1] "
			if first == "C[1] " {
				other = "1[1] "
			}
			jobs = append(jobs, job{"mixed-long", func() []string {
				txt := []byte(first + strings.Repeat(other, pick(1500, 20000)))
				res := runCrd(txt, 30*time.Second, "text", "conv", mode)
				if res.class() != "err" {
					return v([]string{"C09"}, "a long piece mixing letters and numbers is not refused promptly", fmt.Sprintf("crd text conv %s on %q + %q x many", mode, first, other),
						fmt.Sprintf("%s timedOut=%v %s", res.class(), res.timedOut, short(res.stdout)))
				}
				return nil
			}})
		}
	}
	results := make([][]string, len(jobs))
	// the big inputs are memory-hungry: a few at a time
	sem := make(chan struct{}, 4)
	parallel(len(jobs), func(i int) {
		sem <- struct{}{}
		results[i] = jobs[i].run()
		<-sem
	})
	for i, j := range jobs {
		s.stat("job-" + strings.SplitN(j.name, "-", 3)[0])
		for _, line := range results[i] {
			w := strings.SplitN(line, "|", 4)
			s.violate(w[0], w[1], w[2], w[3])
		}
	}
	s.stats["jobs"] = len(jobs)
	if escalate {
		slow = 10
		for _, n := range ladder {
			jobs = nil
			addSize(n, true)
			res := make([][]string, len(jobs))
			sem := make(chan struct{}, 3)
			parallel(len(jobs), func(i int) {
				sem <- struct{}{}
				res[i] = jobs[i].run()
				<-sem
			})
			found := false
			for i := range jobs {
				s.stat("climb-job")
				for _, line := range res[i] {
					w := strings.SplitN(line, "|", 4)
					s.violate(w[0], w[1], w[2], w[3])
					found = true
				}
			}
			s.stats["climbed-to"] = n
			if found {
				break
			}
		}
	}
}

// `text parse` prints the position of every token; those rightly move with the padding
func noPositions(cmd []string, out []byte) []byte {
	if cmd[len(cmd)-1] != "parse" {
		return out
	}
	var keep [][]byte
	for _, l := range bytes.Split(out, []byte("\n")) {
		t := bytes.TrimSpace(l)
		if bytes.HasPrefix(t, []byte("line:")) || bytes.HasPrefix(t, []byte("col:")) || bytes.HasPrefix(t, []byte("offset:")) ||
			bytes.HasPrefix(t, []byte("start:")) || bytes.HasPrefix(t, []byte("end:")) {
			continue
		}
		keep = append(keep, l)
	}
	return bytes.Join(keep, []byte("\n"))
}
