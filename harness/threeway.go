package main

import (
	"fmt"
	"math/rand"
	"regexp"
	"strconv"
	"strings"
	"time"
)

func init() { streams["threeway"] = streamThreeway }

var majorSizes = []int{0, 2, 4, 5, 7, 9, 11}
var naturalPitch = map[byte]int{'C': 0, 'D': 2, 'E': 4, 'F': 5, 'G': 7, 'A': 9, 'B': 11}

const letters = "CDEFGAB"

type anote struct{ n, alt int }

// written note an interval above a written reference note; ok=false if it needs a double accidental
func spellNote(refLetter byte, refAcc int, a anote) (string, byte, int, bool) {
	li := (strings.IndexByte(letters, refLetter) + a.n - 1) % 7
	l := letters[li]
	size := majorSizes[a.n-1] + a.alt
	natural := ((naturalPitch[l]-naturalPitch[refLetter])%12 + 12) % 12
	acc := size - natural + refAcc
	if acc < -1 || acc > 1 {
		return "", 0, 0, false
	}
	return string(l) + []string{"b", "", "#"}[acc+1], l, acc, true
}

func keyTonic(k string) (byte, int) {
	acc := 0
	if len(k) > 1 && k[1] == '#' {
		acc = 1
	} else if len(k) > 1 && k[1] == 'b' {
		acc = -1
	}
	return k[0], acc
}

type aitem struct {
	rest   bool
	root   anote
	sym    string
	bass   *anote
	durs   string
	keyChg string
	other  string
}

func (a anote) deg() string { return strconv.Itoa(a.n) + []string{"b", "", "#"}[a.alt+1] }

func symText(sym string) string {
	if sym != "" && sym[0] >= '0' && sym[0] <= '9' {
		return "_" + sym
	}
	return sym
}

func (it aitem) metaText() string {
	var kv []string
	if it.keyChg != "" {
		kv = append(kv, "key="+it.keyChg)
	}
	if it.other != "" {
		kv = append(kv, it.other)
	}
	if len(kv) == 0 {
		return ""
	}
	return "{" + strings.Join(kv, ",") + "}"
}

var noteOnRe = regexp.MustCompile(`@(\d+)\(\d+\)\tNoteOn channel: 0 key: (\d+) velocity: (\d+)`)

func noteOnsOf(out []byte) [][3]int {
	var res [][3]int
	for _, m := range noteOnRe.FindAllSubmatch(out, -1) {
		a, _ := strconv.Atoi(string(m[1]))
		b, _ := strconv.Atoi(string(m[2]))
		c, _ := strconv.Atoi(string(m[3]))
		res = append(res, [3]int{a, b, c})
	}
	return res
}

func streamThreeway() {
	s, done := openStream("threeway")
	defer done()
	r := rng("threeway")
	type tcase struct {
		key      string
		degText  string
		sylText  string
		spelled  bool
		k1, k2   string
	}
	var cases []tcase
	for i := 0; i < pick(500, 8000); i++ {
		key := keys28[r.Intn(28)]
		cur := key
		n := 1 + r.Intn(6)
		var deg, syl []string
		seen := []string{key}
		ok := true
		for j := 0; j < n; j++ {
			var it aitem
			it.durs = "[" + genDur2(r) + "]"
			if r.Intn(5) == 0 {
				it.rest = true
			} else {
				it.root = anote{1 + r.Intn(7), r.Intn(3) - 1}
				it.sym = symbols[r.Intn(len(symbols))]
				if r.Intn(4) == 0 {
					b := anote{1 + r.Intn(7), r.Intn(3) - 1}
					it.bass = &b
				}
			}
			if r.Intn(4) == 0 {
				it.keyChg = keys28[r.Intn(28)]
				if len(seen) > 0 && r.Intn(3) == 0 { // back to a key the piece was in before
					it.keyChg = seen[r.Intn(len(seen))]
				}
				seen = append(seen, it.keyChg)
				cur = it.keyChg
			}
			if r.Intn(5) == 0 {
				it.other = []string{"bpm=90", "vel=f", "mtr=3/4", "txt=x y"}[r.Intn(4)]
			}
			if it.rest {
				deg = append(deg, "R"+it.durs+it.metaText())
				syl = append(syl, "R"+it.durs+it.metaText())
				continue
			}
			tl, ta := keyTonic(cur)
			rs, rl, ra, ok1 := spellNote(tl, ta, it.root)
			d := it.root.deg() + symText(it.sym)
			sy := rs + symText(it.sym)
			if !ok1 {
				ok = false
			}
			if it.bass != nil {
				d += "/" + it.bass.deg()
				if ok1 {
					bs, _, _, ok2 := spellNote(rl, ra, *it.bass)
					if !ok2 {
						ok = false
					}
					sy += "/" + bs
				}
			}
			deg = append(deg, d+it.durs+it.metaText())
			syl = append(syl, sy+it.durs+it.metaText())
		}
		cases = append(cases, tcase{key: key, degText: strings.Join(deg, " "), sylText: strings.Join(syl, " "), spelled: ok,
			k1: keys28[r.Intn(28)], k2: keys28[r.Intn(28)]})
	}
	type res struct {
		deg, syl runResult
		w1, w2   runResult
	}
	out := make([]res, len(cases))
	parallel(len(cases), func(i int) {
		c := cases[i]
		out[i].deg = runCrd([]byte(c.degText), 10*time.Second, "text", "conv", "degree")
		if c.spelled {
			out[i].syl = runCrd([]byte(c.sylText), 10*time.Second, "text", "conv", "syllable", "--key", c.key)
		}
		if out[i].deg.class() == "ok" && !strings.Contains(c.degText, "key=") {
			out[i].w1 = runCrd(out[i].deg.stdout, 10*time.Second, "write", "event", "--key", c.k1)
			out[i].w2 = runCrd(out[i].deg.stdout, 10*time.Second, "write", "event", "--key", c.k2)
		}
	})
	for i, c := range cases {
		dc := convCase{"degree", "", []byte(c.degText)}
		s.add(dc.req(), convReply(out[i].deg))
		if c.spelled {
			sc := convCase{"syllable", c.key, []byte(c.sylText)}
			s.add(sc.req(), convReply(out[i].syl))
			s.stat("spelled")
			if out[i].deg.class() != out[i].syl.class() || string(out[i].deg.stdout) != string(out[i].syl.stdout) {
				s.violate("C05", "the same progression converts differently when written with degree numbers and with note names",
					fmt.Sprintf("degree text %q vs syllable text %q in key %s", c.degText, c.sylText, c.key),
					fmt.Sprintf("degree: %s %q | syllable: %s %q", out[i].deg.class(), trunc(out[i].deg.stdout), out[i].syl.class(), trunc(out[i].syl.stdout)))
			}
		} else {
			s.stat("not-spellable")
		}
		if out[i].w1.stdout != nil && out[i].w1.class() == "ok" && out[i].w2.class() == "ok" {
			a, b := noteOnsOf(out[i].w1.stdout), noteOnsOf(out[i].w2.stdout)
			l1, a1 := keyTonic(c.k1)
			l2, a2 := keyTonic(c.k2)
			delta := (naturalPitch[l2] + a2) - (naturalPitch[l1] + a1)
			same := len(a) == len(b)
			inRange := true
			for j := range a {
				if !same {
					break
				}
				if a[j][1]+delta < 0 || a[j][1]+delta > 127 || a[j][1] == 127 || b[j][1] == 127 {
					inRange = false
					break
				}
				if a[j][0] != b[j][0] || a[j][1]+delta != b[j][1] || a[j][2] != b[j][2] {
					same = false
				}
			}
			s.stat("transposed")
			if inRange && !same {
				s.violate("C05", "playing the same instances in two keys does not shift every pitch by the distance between the tonics",
					fmt.Sprintf("degree text %q written with --key %s and --key %s", c.degText, c.k1, c.k2),
					fmt.Sprintf("note-ons %v vs %v (expected shift %d)", a, b, delta))
			}
		}
	}
}

func genDur2(r *rand.Rand) string {
	n := 1 + r.Intn(3)
	var xs []string
	for i := 0; i < n; i++ {
		if r.Intn(2) == 0 {
			xs = append(xs, fmt.Sprint(1+r.Intn(4)))
		} else {
			xs = append(xs, fmt.Sprintf("%d/%d", 1+r.Intn(7), 1+r.Intn(12)))
		}
	}
	return strings.Join(xs, ",")
}
