package main

import (
	"bytes"
	"fmt"
	"math/rand"
	"regexp"
	"strings"
	"time"
)

func init() { streams["variants"] = streamVariants }

// a chord text as a token list, so that spelling variants can be rendered from the same tokens
type vtok struct {
	kind string // root acc sym under slash lbra num dslash comma rbra lcbra key eq val rcbra rest
	text string
}

func genTokens(r *rand.Rand, degreeMode bool) []vtok {
	var ts []vtok
	n := 1 + r.Intn(5)
	for i := 0; i < n; i++ {
		if r.Intn(6) == 0 {
			ts = append(ts, vtok{"rest", "R"})
		} else {
			root := func() {
				if degreeMode {
					ts = append(ts, vtok{"root", fmt.Sprint(1 + r.Intn(7))})
				} else {
					ts = append(ts, vtok{"root", string("CDEFGAB"[r.Intn(7)])})
				}
				switch r.Intn(4) {
				case 0:
					ts = append(ts, vtok{"acc", "#"})
				case 1:
					ts = append(ts, vtok{"acc", "b"})
				}
			}
			root()
			sym := symbols[r.Intn(len(symbols))]
			if sym != "" {
				if sym[0] >= '0' && sym[0] <= '9' {
					ts = append(ts, vtok{"under", "_"})
				}
				ts = append(ts, vtok{"sym", sym})
			}
			if r.Intn(4) == 0 {
				ts = append(ts, vtok{"slash", "/"})
				root()
			}
		}
		ts = append(ts, vtok{"lbra", "["})
		for j := 0; j < 1+r.Intn(3); j++ {
			if j > 0 {
				ts = append(ts, vtok{"comma", ","})
			}
			ts = append(ts, vtok{"num", fmt.Sprint(1 + r.Intn(8))})
			if r.Intn(2) == 0 {
				ts = append(ts, vtok{"dslash", "/"}, vtok{"num", fmt.Sprint(1 + r.Intn(16))})
			}
		}
		ts = append(ts, vtok{"rbra", "]"})
		if r.Intn(3) == 0 {
			ts = append(ts, vtok{"lcbra", "{"})
			for j := 0; j < 1+r.Intn(2); j++ {
				if j > 0 {
					ts = append(ts, vtok{"mcomma", ","})
				}
				kv := [][2]string{{"txt", "hello there"}, {"key", keys28[r.Intn(28)]}, {"bpm", fmt.Sprint(40 + r.Intn(200))}, {"vel", "mf"}, {"mtr", "3/4"}, {"lic", "la;la"}, {"mrk", "A [1]"}}[r.Intn(7)]
				ts = append(ts, vtok{"key", kv[0]}, vtok{"eq", "="}, vtok{"val", kv[1]})
			}
			ts = append(ts, vtok{"rcbra", "}"})
		}
	}
	return ts
}

func renderCanonical(ts []vtok) string {
	var b strings.Builder
	for i, t := range ts {
		b.WriteString(t.text)
		// one blank between chords so that a rest/root letter does not glue to the previous `]`/`}` symbol-wise
		if (t.kind == "rbra" || t.kind == "rcbra") && i+1 < len(ts) && ts[i+1].kind != "lcbra" {
			b.WriteString(" ")
		}
	}
	return b.String()
}

func randTrivia(r *rand.Rand, allowComment bool) string {
	var b strings.Builder
	for i := 0; i < 1+r.Intn(3); i++ {
		switch r.Intn(5) {
		case 0:
			b.WriteString(" ")
		case 1:
			b.WriteString("\n")
		case 2:
			b.WriteString("\t ")
		case 3:
			if allowComment {
				b.WriteString(";c" + fmt.Sprint(r.Intn(9)) + " [x]\n")
			} else {
				b.WriteString("  ")
			}
		case 4:
			b.WriteString("\r\n")
		}
	}
	return b.String()
}

// a spelling variant of the same tokens; `kinds` records which variations were applied
func renderVariant(r *rand.Rand, ts []vtok, kinds map[string]int) string {
	var b strings.Builder
	if r.Intn(3) == 0 {
		b.WriteString(randTrivia(r, true))
		kinds["trivia-start"]++
	}
	inBraces := false
	for i, t := range ts {
		text := t.text
		switch t.kind {
		case "acc":
			// any of the spellings the lexer accepts as this sign (found by probing the real lexer)
			alts := accSpellings[text]
			if len(alts) > 1 && r.Intn(2) == 0 {
				text = alts[1+r.Intn(len(alts)-1)]
				kinds["other-accidental-sign"]++
			}
		case "num":
			if r.Intn(3) == 0 {
				n := 1 + r.Intn(3)
				if r.Intn(6) == 0 { // more digits than any machine word has
					n = []int{18, 19, 20, 21, 25, 40, 100, 1000}[r.Intn(8)]
				}
				text = strings.Repeat("0", n) + text
				kinds["leading-zeros"]++
				if n > 17 {
					kinds["leading-zeros-long"]++
				}
			}
		case "sym":
			if (i == 0 || ts[i-1].kind != "under") && r.Intn(3) == 0 {
				b.WriteString("_")
				kinds["underscore"]++
				if r.Intn(3) == 0 {
					b.WriteString(" ")
				}
			}
		case "lcbra":
			inBraces = true
		}
		b.WriteString(text)
		if t.kind == "rcbra" {
			inBraces = false
		}
		needBlank := (t.kind == "rbra" || t.kind == "rcbra") && i+1 < len(ts) && ts[i+1].kind != "lcbra"
		// trivia after this token: never after a key/value run (it would belong to it); inside braces and
		// directly after `_` only white space
		switch {
		case t.kind == "key" || t.kind == "val":
		case inBraces || t.kind == "under":
			if r.Intn(3) == 0 {
				b.WriteString([]string{" ", "  ", "\t", "\n"}[r.Intn(4)])
				kinds["space-in-braces-or-after-underscore"]++
			}
		default:
			if r.Intn(3) == 0 {
				b.WriteString(randTrivia(r, true))
				kinds["trivia-between"]++
				needBlank = false
			}
		}
		if needBlank {
			b.WriteString(" ")
		}
	}
	return b.String()
}

// the spellings of `#` and `b`: every rune of a broad candidate set that the real lexer turns into the same token as
// `#` (or `b`) after a root.  On the code as it stands these are `#`, `♯` and `b`, `♭`.
var accSpellings = map[string][]string{"#": {"#"}, "b": {"b"}}

var accTypeRe = regexp.MustCompile(`(?s)accidental:\s+type: (\d+)\s+value: (\S+)`)

func discoverAccidentals(s *stream) {
	typeOf := func(txt string) (string, string) {
		res := runCrd([]byte(txt), 10*time.Second, "text", "parse")
		if res.class() != "ok" {
			return "", ""
		}
		m := accTypeRe.FindSubmatch(res.stdout)
		if m == nil {
			return "", ""
		}
		return string(m[1]), strings.Trim(string(m[2]), `"'`)
	}
	sharp, _ := typeOf("C#[1]")
	flat, _ := typeOf("Cb[1]")
	var cands []rune
	for _, rg := range [][2]rune{{0x21, 0x7e}, {0xa0, 0xff}, {0x2000, 0x206f}, {0x2600, 0x26ff}, {0xff01, 0xff5e}, {0x1d100, 0x1d1ff}, {0x300, 0x36f}, {0x2b0, 0x2ff}} {
		for c := rg[0]; c <= rg[1]; c++ {
			cands = append(cands, c)
		}
	}
	found := make([]string, len(cands))
	parallel(len(cands), func(i int) {
		t, v := typeOf("C" + string(cands[i]) + "[1]")
		if t != "" && v == string(cands[i]) {
			found[i] = t
		}
	})
	for i, t := range found {
		c := string(cands[i])
		switch {
		case t == "" || c == "#" || c == "b":
		case t == sharp:
			accSpellings["#"] = append(accSpellings["#"], c)
		case t == flat:
			accSpellings["b"] = append(accSpellings["b"], c)
		}
	}
	s.stats["accidental-candidates-probed"] = len(cands)
	s.stats["sharp-spellings"] = len(accSpellings["#"])
	s.stats["flat-spellings"] = len(accSpellings["b"])
}

func streamVariants() {
	s, done := openStream("variants")
	defer done()
	r := rng("variants")
	discoverAccidentals(s)
	type pair struct {
		mode, key string
		a, b      string
	}
	var pairs []pair
	kinds := map[string]int{}
	for i := 0; i < pick(700, 10000); i++ {
		degreeMode := r.Intn(3) == 0
		ts := genTokens(r, degreeMode)
		p := pair{mode: "syllable", a: renderCanonical(ts), b: renderVariant(r, ts, kinds)}
		if degreeMode {
			p.mode = "degree"
		} else if r.Intn(2) == 0 {
			p.key = keys28[r.Intn(28)]
		}
		pairs = append(pairs, p)
	}
	// every accepted spelling of each sign, in both notations, on a root and on a bass
	for _, base := range []string{"#", "b"} {
		for _, alt := range accSpellings[base][1:] {
			pairs = append(pairs, pair{mode: "syllable", a: "C" + base + "m[1] D/F" + base + "[1]", b: "C" + alt + "m[1] D/F" + alt + "[1]"},
				pair{mode: "syllable", key: "Eb", a: "F" + base + "[1/2]", b: "F" + alt + "[1/2]"},
				pair{mode: "degree", a: "4" + base + "[1] 1/3" + base + "[1]", b: "4" + alt + "[1] 1/3" + alt + "[1]"})
		}
	}
	// durations padded beyond the width of a machine word
	for _, n := range []int{19, 20, 21, 22, 64, 300} {
		z := strings.Repeat("0", n)
		pairs = append(pairs, pair{mode: "syllable", a: "C[1/4] G_7[3,1/2]", b: "C[" + z + "1/" + z + "4] G_7[" + z + "3," + z + "1/" + z + "2]"},
			pair{mode: "degree", a: "1[1/4]{bpm=120}", b: "1[" + z + "1/" + z + "4]{bpm=120}"})
	}
	// white space so long that a multi-byte sign, or a token, lies across a read-buffer boundary (every power of two
	// from 512 to 64 KiB, every alignment of the three bytes of the sign), also with other Unicode blanks before it
	for _, bnd := range []int{512, 1024, 2048, 4096, 8192, 16384, 32768, 65536} {
		for k := 0; k <= 4; k++ {
			pad := strings.Repeat(" ", bnd-k)
			for _, alt := range []string{accSpellings["b"][len(accSpellings["b"])-1], accSpellings["#"][len(accSpellings["#"])-1]} {
				base := "b"
				if alt == accSpellings["#"][len(accSpellings["#"])-1] {
					base = "#"
				}
				pairs = append(pairs, pair{mode: "syllable", a: "E" + base + "[1] D/F" + base + "[1]", b: pad + "E" + alt + "[1] D/F" + alt + "[1]"})
			}
		}
	}
	// blanks other than the ASCII ones, wherever white space may stand (the lexer asks unicode.IsSpace)
	for _, sp := range []string{"\u00a0", "\u3000", "\u2028", "\u2003", "\v", "\f", "\u0085", "\u1680"} {
		pairs = append(pairs, pair{mode: "syllable", key: "G", a: "Em[1] D_7/F#[1/2,1]{key=D} A[1]", b: "Em" + sp + "[1]" + sp + "D_7" + sp + "/" + sp + "F#" + sp + "[1/2" + sp + "," + sp + "1]" + sp + "{key=D}" + sp + "A" + sp + "[" + sp + "1" + sp + "]" + sp},
			pair{mode: "degree", a: "1m7b5[1] 4_sus4[2]", b: "1m7b5" + sp + "[1]" + sp + "4_sus4" + sp + "[2]"})
	}
	// the known finding D16 is exercised on purpose so that its matching is tested
	pairs = append(pairs, pair{mode: "syllable", a: "C_m[1]", b: "C_;x\nm[1]"})
	type res struct{ a, b runResult }
	out := make([]res, len(pairs))
	parallel(len(pairs), func(i int) {
		p := pairs[i]
		args := []string{"text", "conv", p.mode}
		if p.key != "" {
			args = append(args, "--key", p.key)
		}
		out[i] = res{runCrd([]byte(p.a), 10*time.Second, args...), runCrd([]byte(p.b), 10*time.Second, args...)}
	})
	for i, p := range pairs {
		ca := convCase{p.mode, p.key, []byte(p.a)}
		cb := convCase{p.mode, p.key, []byte(p.b)}
		ra, rb := out[i].a, out[i].b
		// tie: both texts through the model as well
		s.add(ca.req(), convReply(ra))
		s.add(cb.req(), convReply(rb))
		s.stat("class-" + ra.class())
		if ra.class() != rb.class() || !bytes.Equal(ra.stdout, rb.stdout) {
			s.violate("C11", "two spellings of the same chord text give different `text conv` results",
				fmt.Sprintf("crd text conv %s --key %q: A=%q B=%q", p.mode, p.key, p.a, p.b),
				fmt.Sprintf("A: %s %q | B: %s %q", ra.class(), trunc(ra.stdout), rb.class(), trunc(rb.stdout)))
		}
	}
	for k, v := range kinds {
		s.stats["variation-"+k] = v
	}
}

func trunc(b []byte) string {
	if len(b) > 300 {
		return string(b[:300]) + "…"
	}
	return string(b)
}

func convReply(res runResult) string {
	switch res.class() {
	case "crash":
		return "crash"
	case "err":
		if len(res.stdout) != 0 {
			return "err-with-stdout"
		}
		return "err"
	}
	is, err := rawFromYAML(res.stdout)
	if err != nil {
		return "bad-yaml " + err.Error()
	}
	var items []string
	for _, i := range is {
		items = append(items, i.proto())
	}
	return "ok " + pList(items)
}
