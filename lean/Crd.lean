import Crd.Model.Types
import Crd.Model.Note
import Crd.Model.Scale
import Crd.Model.Dict
import Crd.Model.F64
import Crd.Model.Midix
