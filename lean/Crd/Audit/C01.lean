import Crd.Props.C01
#print axioms Crd.Props.C01.chord_pitches
#print axioms Crd.Props.C01.tones_inherit
#print axioms Crd.Props.C01.note_ons_by_instance
#print axioms Crd.Props.C01.instance_note_ons
#print axioms Crd.Props.C01.key_in_force
#print axioms Crd.Props.C01.flag_key_first_instance_only
#print axioms Crd.Props.C01.prepared_tail_unchanged
#print axioms Crd.Props.C01.default_key_is_C
