import Crd.Props.C02
import Crd.Props.C02Float
#print axioms Crd.Props.C02.starts_gapless
#print axioms Crd.Props.C02.total_is_sum
#print axioms Crd.Props.C02.timeline_by_instance
#print axioms Crd.Props.C02.ons_offs_same_keys
#print axioms Crd.Props.C02.rest_is_silent
#print axioms Crd.Props.C02.release_before_strike
#print axioms Crd.Props.C02.share_preserves_order
#print axioms Crd.Props.C02.instance_length_is_nearest
#print axioms Crd.Props.C02.numOver_is_exact
#print axioms Crd.Props.C02.float_rounding_can_miss
