import Crd.Props.C03
#print axioms Crd.Props.C03.getDegree_spec
#print axioms Crd.Props.C03.order_irrelevant
#print axioms Crd.Props.C03.rejected_count
#print axioms Crd.Props.C03.lookup_mem_values
#print axioms Crd.Props.C03.acc_tables
#print axioms Crd.Props.C03.acc_ofString
#print axioms Crd.Props.C03.letter_ofString_cases
#print axioms Crd.Props.C03.newScaleNote_mem
#print axioms Crd.Props.C03.tonic_mem
#print axioms Crd.Props.C03.conv_sound
#print axioms Crd.Props.C03.scale_notes_accepted
