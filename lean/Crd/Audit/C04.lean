import Crd.Props.C04
import Crd.Props.IO
#print axioms Crd.Props.C04.grammar_shape
#print axioms Crd.Props.C04.parser_decides_grammar
#print axioms Crd.Props.C04.tree_faithful
#print axioms Crd.Props.C04.empty_rejected
#print axioms Crd.Props.C04.no_suffix_dropped
#print axioms Crd.Props.C04.accepted_ends_closed
#print axioms Crd.Props.C04.lexer_total
#print axioms Crd.Props.C04.no_silent_stop
#print axioms Crd.Props.C04.accepts_iff
#print axioms Crd.Props.C04.never_crashes
#print axioms Crd.Props.C04.text_is_tokens_and_trivia
#print axioms Crd.Props.IO.io_sites_accounted
