import Crd.Props.C05
#print axioms Crd.Props.C05.degree_vs_syllable
#print axioms Crd.Props.C05.key_change_applies_from_carrier
#print axioms Crd.Props.C05.spell_fails_only_on_double_accidentals
#print axioms Crd.Props.C05.chord_transposes
#print axioms Crd.Props.C05.piece_transposes
#print axioms Crd.Props.C05.shift_in_range
