import Crd.Props.C06
#print axioms Crd.Props.C06.selector_in_range
#print axioms Crd.Props.C06.prepare_independent_of_tracks
#print axioms Crd.Props.C06.pieceLog_no_close
#print axioms Crd.Props.C06.nonEOT_of
#print axioms Crd.Props.C06.share_no_close
#print axioms Crd.Props.C06.every_track_ends_at_total
#print axioms Crd.Props.C06.merged_independent_of_tracks
