import Crd.Props.C07
import Crd.Props.C07Float
#print axioms Crd.Props.C07.defaults
#print axioms Crd.Props.C07.first_instance_states_all
#print axioms Crd.Props.C07.later_instance_exactly_its_settings
#print axioms Crd.Props.C07.text_calls
#print axioms Crd.Props.C07.settings_at_instance_start
#print axioms Crd.Props.C07.flags_override_first_instance
#print axioms Crd.Props.C07.meter_payload
#print axioms Crd.Props.C07.keysig_payload
#print axioms Crd.Props.C07.text_payload
#print axioms Crd.Props.C07.tempo_payload_shape
#print axioms Crd.Props.C07.tempo_value_partial
#print axioms Crd.Props.C07.dynamics_monotone
#print axioms Crd.Props.C07.velocity_persists
#print axioms Crd.Props.C07.tempo_value
#print axioms Crd.Props.C07.tempo_fits
#print axioms Crd.Props.C07.tempo_event
