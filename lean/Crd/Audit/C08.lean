import Crd.Props.C08
import Crd.Props.C08Bytes
#print axioms Crd.Props.C08.track_count
#print axioms Crd.Props.C08.one_eot_and_last
#print axioms Crd.Props.C08.meta_routed_to_first
#print axioms Crd.Props.C08.timing_meta_only_in_first_track
#print axioms Crd.Props.C08.share_of_fixed
#print axioms Crd.Props.C08.notes_paired_per_track
#print axioms Crd.Props.C08.header_bytes
#print axioms Crd.Props.C08.ticks_per_quarter
#print axioms Crd.Props.C08.delta_times_fit
#print axioms Crd.Props.C08.too_long_refused
#print axioms Crd.Props.C08.prepare_keeps_texts
#print axioms Crd.Props.C08.written_file_parses
#print axioms Crd.Props.C08.decode_keeps_texts
#print axioms Crd.Props.C08.write_output_parses
#print axioms Crd.Props.C08.prepare_keeps_dyns
#print axioms Crd.Props.C08.written_tracks_balanced
