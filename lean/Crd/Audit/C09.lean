import Crd.Props.C09
import Crd.Props.IO
#print axioms Crd.Props.C09.text_conv_never_crashes
#print axioms Crd.Props.C09.text_parse_never_crashes
#print axioms Crd.Props.C09.write_never_crashes
#print axioms Crd.Props.C09.write_conv_never_crashes
#print axioms Crd.Props.C09.lexer_loops_guarded
#print axioms Crd.Props.C09.zero_duration_refused_yaml
#print axioms Crd.Props.C09.zero_duration_refused_text
#print axioms Crd.Props.C09.zero_meter_flag_refused
#print axioms Crd.Props.C09.bad_value_refuses_instance
#print axioms Crd.Props.C09.tempo_zero_refused
#print axioms Crd.Props.C09.unknown_dynamic_refused
#print axioms Crd.Props.C09.unknown_chord_refused
#print axioms Crd.Props.C09.unknown_modifier_refused
#print axioms Crd.Props.C09.played_piece_is_sane
#print axioms Crd.Props.C09.empty_piece_refused
#print axioms Crd.Props.C09.key_without_scale_refused
#print axioms Crd.Props.C09.mixed_notation_refused
#print axioms Crd.Props.C09.written_piece_was_valid
#print axioms Crd.Props.C09.panic_sites_accounted
#print axioms Crd.Props.C09.signature_keys_parse
#print axioms Crd.Props.IO.io_sites_accounted
