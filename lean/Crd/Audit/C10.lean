import Crd.Props.C10
import Crd.Props.C10Conv
import Crd.Props.IO
#print axioms Crd.Props.C10.degree_survives
#print axioms Crd.Props.C10.key_survives
#print axioms Crd.Props.C10.fraction_survives
#print axioms Crd.Props.C10.dynamic_survives
#print axioms Crd.Props.C10.bpm_survives
#print axioms Crd.Props.C10.text_survives
#print axioms Crd.Props.C10.instance_survives
#print axioms Crd.Props.C10.text_conv_output_readable
#print axioms Crd.Props.C10.decoded_is_valid
#print axioms Crd.Props.C10.key_pattern_modelled
#print axioms Crd.Props.C10.override_valid
#print axioms Crd.Props.C10.modifyCmt_valid
#print axioms Crd.Props.C10.prepare_valid
#print axioms Crd.Props.C10.mapM_roundtrip
#print axioms Crd.Props.C10.decoded_all_valid
#print axioms Crd.Props.C10.write_conv_output_readable
#print axioms Crd.Props.C10.override_idem
#print axioms Crd.Props.C10.prepare_idem
#print axioms Crd.Props.C10.write_conv_then_write
#print axioms Crd.Props.IO.io_sites_accounted
