import Crd.Props.C11
#print axioms Crd.Props.C11.trivia_before_token
#print axioms Crd.Props.C11.trivia_after_token
#print axioms Crd.Props.C11.trivia_at_start
#print axioms Crd.Props.C11.trivia_at_end
#print axioms Crd.Props.C11.underscore_optional
#print axioms Crd.Props.C11.underscore_optional_item
#print axioms Crd.Props.C11.leading_zero
#print axioms Crd.Props.C11.duration_leading_zeros
#print axioms Crd.Props.C11.unicode_signs_lex
#print axioms Crd.Props.C11.unicode_signs_mean
#print axioms Crd.Props.C11.every_accepted_sign_known
#print axioms Crd.Props.C11.same_accidental_same_chord
#print axioms Crd.Props.C11.accepted_accidental_honoured
