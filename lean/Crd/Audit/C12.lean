import Crd.Props.C12
import Crd.Props.IO
#print axioms Crd.Props.C12.sites_accounted
#print axioms Crd.Props.C12.adj_unique
#print axioms Crd.Props.C12.adjust_order_irrelevant
#print axioms Crd.Props.C12.semitone_order_irrelevant
#print axioms Crd.Props.C12.nacc_spellings_disjoint
#print axioms Crd.Props.C12.nacc_entry_unique
#print axioms Crd.Props.C12.accidental_order_irrelevant
#print axioms Crd.Props.C12.inverted_tables_injective
#print axioms Crd.Props.C12.inverse_maps_order_irrelevant
#print axioms Crd.Props.C12.signature_keys_distinct
#print axioms Crd.Props.C12.key_signature_map_order_irrelevant
#print axioms Crd.Props.C12.chain_order_irrelevant
#print axioms Crd.Props.C12.listings_sorted
#print axioms Crd.Props.C12.validation_order_irrelevant
#print axioms Crd.Props.C12.meta_marshal_order_irrelevant
#print axioms Crd.Props.IO.io_sites_accounted
