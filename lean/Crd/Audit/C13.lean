import Crd.Props.C13
#print axioms Crd.Props.C13.mem_allKeys
#print axioms Crd.Props.C13.lift
#print axioms Crd.Props.C13.supports_required
#print axioms Crd.Props.C13.unsupported_rejected
#print axioms Crd.Props.C13.letters_once_from_tonic
#print axioms Crd.Props.C13.step_pattern
#print axioms Crd.Props.C13.signature_conventional
#print axioms Crd.Props.C13.altered_are_first_n
#print axioms Crd.Props.C13.relative_pairs_share
