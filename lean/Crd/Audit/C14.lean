import Crd.Props.C14
import Crd.Props.IO
#print axioms Crd.Props.C14.circles_build
#print axioms Crd.Props.C14.rings_aligned
#print axioms Crd.Props.C14.step_semantics
#print axioms Crd.Props.C14.step_on_slots
#print axioms Crd.Props.C14.absStep_mem
#print axioms Crd.Props.C14.chainStep_slot
#print axioms Crd.Props.C14.chainFold_slot
#print axioms Crd.Props.C14.chain_is_composition
#print axioms Crd.Props.C14.spelling_independent
#print axioms Crd.Props.C14.move_laws
#print axioms Crd.Props.C14.chain_laws
#print axioms Crd.Props.C14.dominants_rotate
#print axioms Crd.Props.C14.subdominants_rotate
#print axioms Crd.Props.C14.positions_lt
#print axioms Crd.Props.C14.foldl_mem_positions
#print axioms Crd.Props.C14.pos_unique
#print axioms Crd.Props.C14.net_rotation
#print axioms Crd.Props.IO.io_sites_accounted
