import Crd.Props.C15
#print axioms Crd.Props.C15.size_is_textbook
#print axioms Crd.Props.C15.impossible_rejected
#print axioms Crd.Props.C15.possible_accepted
#print axioms Crd.Props.C15.print_parse_roundtrip
#print axioms Crd.Props.C15.parse_only_valid
#print axioms Crd.Props.C15.describe_pitch
