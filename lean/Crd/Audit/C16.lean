import Crd.Props.C16
#print axioms Crd.Props.C16.builtin_attrs_parse
#print axioms Crd.Props.C16.builtin_loads
#print axioms Crd.Props.C16.builtin_intervals
#print axioms Crd.Props.C16.name_display_interchangeable
#print axioms Crd.Props.C16.symbols_are_the_builtins
#print axioms Crd.Props.C16.attr_names_mean
#print axioms Crd.Props.C16.embedded_is_generated
#print axioms Crd.Props.C16.accept_iff
#print axioms Crd.Props.C16.unnamed_rejected
#print axioms Crd.Props.C16.dangling_rejected
#print axioms Crd.Props.C16.cyclic_rejected
#print axioms Crd.Props.C16.resolve_inherits
#print axioms Crd.Props.C16.accepted_is_built
#print axioms Crd.Props.C16.last_definition_wins
#print axioms Crd.Props.C16.user_takes_over
#print axioms Crd.Props.C16.builtin_name_untouched
