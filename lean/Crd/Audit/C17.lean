import Crd.Props.C17
#print axioms Crd.Props.C17.harmonisation_is_textbook
#print axioms Crd.Props.C17.all_keys_ok
#print axioms Crd.Props.C17.diatonic_chords_playable_in_key
