import Crd.Float.Rne

/-!
# Accumulated relative error of the soft-float operations: a symmetric closeness relation

`Close k x y`: both positive and each within a factor `(1 + w)^k` of the other, `w = 2⁻⁵²`.  One rounding
is `Close 1`; products, quotients and sums of positives add the exponents.
-/
namespace Crd

/-- twice the unit round-off -/
def w : ℚ := 2 ^ (-52 : Int)

theorem w_pos : 0 < w := by unfold w; positivity

theorem w_eq : w = 2 * (2 : ℚ) ^ (-53 : Int) := by
  unfold w
  rw [show (-52 : Int) = 1 + (-53) by norm_num, zpow_add₀ (by norm_num : (2 : ℚ) ≠ 0)]; norm_num

def Close (k : ℕ) (x y : ℚ) : Prop := 0 < x ∧ 0 < y ∧ x ≤ y * (1 + w) ^ k ∧ y ≤ x * (1 + w) ^ k

theorem one_le_pow_w (k : ℕ) : (1 : ℚ) ≤ (1 + w) ^ k := one_le_pow₀ (by linarith [w_pos])

theorem pow_w_pos (k : ℕ) : (0 : ℚ) < (1 + w) ^ k := lt_of_lt_of_le one_pos (one_le_pow_w k)

theorem pow_w_mono {j k : ℕ} (h : j ≤ k) : (1 + w) ^ j ≤ (1 + w) ^ k :=
  pow_le_pow_right₀ (by linarith [w_pos]) h

theorem Close.refl {x : ℚ} (hx : 0 < x) : Close 0 x x := ⟨hx, hx, by simp, by simp⟩

theorem Close.symm {k : ℕ} {x y : ℚ} (h : Close k x y) : Close k y x := ⟨h.2.1, h.1, h.2.2.2, h.2.2.1⟩

theorem Close.mono {j k : ℕ} {x y : ℚ} (h : Close j x y) (hjk : j ≤ k) : Close k x y := by
  obtain ⟨hx, hy, h1, h2⟩ := h
  refine ⟨hx, hy, h1.trans ?_, h2.trans ?_⟩
  · exact mul_le_mul_of_nonneg_left (pow_w_mono hjk) hy.le
  · exact mul_le_mul_of_nonneg_left (pow_w_mono hjk) hx.le

theorem Close.trans {j k : ℕ} {x y z : ℚ} (h1 : Close j x y) (h2 : Close k y z) : Close (j + k) x z := by
  obtain ⟨hx, hy, a1, a2⟩ := h1
  obtain ⟨_, hz, b1, b2⟩ := h2
  refine ⟨hx, hz, ?_, ?_⟩
  · calc x ≤ y * (1 + w) ^ j := a1
      _ ≤ z * (1 + w) ^ k * (1 + w) ^ j := mul_le_mul_of_nonneg_right b1 (pow_w_pos j).le
      _ = z * (1 + w) ^ (j + k) := by rw [pow_add]; ring
  · calc z ≤ y * (1 + w) ^ k := b2
      _ ≤ x * (1 + w) ^ j * (1 + w) ^ k := mul_le_mul_of_nonneg_right a2 (pow_w_pos k).le
      _ = x * (1 + w) ^ (j + k) := by rw [pow_add]; ring

theorem Close.mul {j k : ℕ} {a A b B : ℚ} (h1 : Close j a A) (h2 : Close k b B) : Close (j + k) (a * b) (A * B) := by
  obtain ⟨ha, hA, a1, a2⟩ := h1
  obtain ⟨hb, hB, b1, b2⟩ := h2
  refine ⟨mul_pos ha hb, mul_pos hA hB, ?_, ?_⟩
  · calc a * b ≤ (A * (1 + w) ^ j) * (B * (1 + w) ^ k) := mul_le_mul a1 b1 hb.le (mul_pos hA (pow_w_pos j)).le
      _ = A * B * (1 + w) ^ (j + k) := by rw [pow_add]; ring
  · calc A * B ≤ (a * (1 + w) ^ j) * (b * (1 + w) ^ k) := mul_le_mul a2 b2 hB.le (mul_pos ha (pow_w_pos j)).le
      _ = a * b * (1 + w) ^ (j + k) := by rw [pow_add]; ring

theorem Close.inv {k : ℕ} {b B : ℚ} (h : Close k b B) : Close k b⁻¹ B⁻¹ := by
  obtain ⟨hb, hB, b1, b2⟩ := h
  have hp := pow_w_pos k
  refine ⟨inv_pos.mpr hb, inv_pos.mpr hB, ?_, ?_⟩
  · rw [inv_le_iff_one_le_mul₀ hb]
    calc (1 : ℚ) = B⁻¹ * B := by field_simp
      _ ≤ B⁻¹ * (b * (1 + w) ^ k) := mul_le_mul_of_nonneg_left b2 (inv_pos.mpr hB).le
      _ = B⁻¹ * (1 + w) ^ k * b := by ring
  · rw [inv_le_iff_one_le_mul₀ hB]
    calc (1 : ℚ) = b⁻¹ * b := by field_simp
      _ ≤ b⁻¹ * (B * (1 + w) ^ k) := mul_le_mul_of_nonneg_left b1 (inv_pos.mpr hb).le
      _ = b⁻¹ * (1 + w) ^ k * B := by ring

theorem Close.div {j k : ℕ} {a A b B : ℚ} (h1 : Close j a A) (h2 : Close k b B) : Close (j + k) (a / b) (A / B) := by
  rw [div_eq_mul_inv, div_eq_mul_inv]; exact h1.mul h2.inv

theorem Close.add {k : ℕ} {a A b B : ℚ} (h1 : Close k a A) (h2 : Close k b B) : Close k (a + b) (A + B) := by
  obtain ⟨ha, hA, a1, a2⟩ := h1
  obtain ⟨hb, hB, b1, b2⟩ := h2
  refine ⟨add_pos ha hb, add_pos hA hB, ?_, ?_⟩
  · rw [add_mul]; exact add_le_add a1 b1
  · rw [add_mul]; exact add_le_add a2 b2

/-- one rounding -/
theorem rne_close (p q : ℕ) (s : Int) (hp : 0 < p) (hq : 0 < q) : Close 1 (rne p q s).val ((p : ℚ) / q * 2 ^ s) := by
  have h := rne_rel_err p q s hp hq
  have hx : (0 : ℚ) < (p : ℚ) / q * 2 ^ s := by
    have : (0 : ℚ) < p := by exact_mod_cast hp
    have : (0 : ℚ) < q := by exact_mod_cast hq
    positivity
  set x : ℚ := (p : ℚ) / q * 2 ^ s with hxdef
  set r : ℚ := (rne p q s).val with hr
  have hu : (2 : ℚ) ^ (-53 : Int) = w / 2 := by rw [w_eq]; ring
  rw [hu] at h
  have hw := w_pos
  have hw1 : w ≤ 1 := by
    unfold w
    rw [show (-52 : Int) = -(52 : ℕ) by norm_num, zpow_neg, zpow_natCast]
    apply inv_le_one_of_one_le₀; exact one_le_pow₀ (by norm_num)
  obtain ⟨hlo, hhi⟩ := abs_le.mp h
  have hrpos : 0 < r := by nlinarith
  refine ⟨hrpos, hx, ?_, ?_⟩
  · rw [pow_one]; nlinarith
  · rw [pow_one]
    -- x ≤ r (1 + w) from r ≥ x (1 - w/2)
    have : x * (1 - w / 2) ≤ r := by linarith
    have h2 : x ≤ x * (1 - w / 2) * (1 + w) := by
      have : (1 - w / 2) * (1 + w) = 1 + w / 2 * (1 - w) := by ring
      rw [mul_assoc, this]; nlinarith [mul_nonneg hw.le (sub_nonneg.mpr hw1)]
    calc x ≤ x * (1 - w / 2) * (1 + w) := h2
      _ ≤ r * (1 + w) := mul_le_mul_of_nonneg_right this (by linarith)

theorem rne_m_pos (p q : ℕ) (s : Int) (hp : 0 < p) (hq : 0 < q) : 0 < (rne p q s).m := by
  have h := (rne_close p q s hp hq).1
  unfold F.val at h
  by_contra hm
  have : (rne p q s).m = 0 := by omega
  rw [this] at h; simp at h

end Crd
