import Crd.Float.Close

/-!
# Each soft-float operation crd performs is one rounding of the exact result; duration sums and the tick product
-/
namespace Crd

theorem val_pos_of_m_pos (a : F) (h : 0 < a.m) : 0 < a.val := by
  unfold F.val
  have : (0 : ℚ) < a.m := by exact_mod_cast h
  positivity

theorem ofNat_close (n : ℕ) (hn : 0 < n) : Close 1 (F.ofNat n).val n ∧ 0 < (F.ofNat n).m := by
  have := rne_close n 1 0 hn one_pos
  simp only [Nat.cast_one, div_one, zpow_zero, mul_one] at this
  exact ⟨this, rne_m_pos n 1 0 hn one_pos⟩

theorem div_close (a b : F) (ha : 0 < a.m) (hb : 0 < b.m) : Close 1 (a.div b).val (a.val / b.val) ∧ 0 < (a.div b).m := by
  have h := rne_close a.m b.m (a.e - b.e) ha hb
  have hbq : (0 : ℚ) < b.m := by exact_mod_cast hb
  have e : (a.m : ℚ) / b.m * 2 ^ (a.e - b.e) = a.val / b.val := by
    unfold F.val
    rw [zpow_sub₀ (by norm_num : (2 : ℚ) ≠ 0)]
    field_simp
  rw [e] at h
  exact ⟨h, rne_m_pos _ _ _ ha hb⟩

theorem mul_close (a b : F) (ha : 0 < a.m) (hb : 0 < b.m) : Close 1 (a.mul b).val (a.val * b.val) ∧ 0 < (a.mul b).m := by
  have hp : 0 < a.m * b.m := Nat.mul_pos ha hb
  have h := rne_close (a.m * b.m) 1 (a.e + b.e) hp one_pos
  have e : ((a.m * b.m : ℕ) : ℚ) / (1 : ℕ) * 2 ^ (a.e + b.e) = a.val * b.val := by
    unfold F.val
    rw [zpow_add₀ (by norm_num : (2 : ℚ) ≠ 0)]
    push_cast; ring
  rw [e] at h
  exact ⟨h, rne_m_pos _ _ _ hp one_pos⟩

theorem add_close (a b : F) (ha : 0 < a.m) (hb : 0 < b.m) : Close 1 (a.add b).val (a.val + b.val) ∧ 0 < (a.add b).m := by
  have ha0 : a.m ≠ 0 := by omega
  have hb0 : b.m ≠ 0 := by omega
  have hp : 0 < a.m * 2 ^ (a.e - min a.e b.e).toNat + b.m * 2 ^ (b.e - min a.e b.e).toNat :=
    Nat.add_pos_left (Nat.mul_pos ha (Nat.pos_of_ne_zero (by positivity))) _
  have h := rne_close _ 1 (min a.e b.e) hp one_pos
  have e : ((a.m * 2 ^ (a.e - min a.e b.e).toNat + b.m * 2 ^ (b.e - min a.e b.e).toNat : ℕ) : ℚ) / (1 : ℕ) * 2 ^ (min a.e b.e)
      = a.val + b.val := by
    unfold F.val
    have e1 : (2 : ℚ) ^ a.e = 2 ^ ((a.e - min a.e b.e).toNat : ℤ) * 2 ^ (min a.e b.e) := by
      rw [← zpow_add₀ (by norm_num : (2 : ℚ) ≠ 0)]; congr 1
      have : min a.e b.e ≤ a.e := min_le_left _ _
      omega
    have e2 : (2 : ℚ) ^ b.e = 2 ^ ((b.e - min a.e b.e).toNat : ℤ) * 2 ^ (min a.e b.e) := by
      rw [← zpow_add₀ (by norm_num : (2 : ℚ) ≠ 0)]; congr 1
      have : min a.e b.e ≤ b.e := min_le_right _ _
      omega
    rw [e1, e2]
    push_cast
    simp only [zpow_natCast]
    ring
  rw [e] at h
  have hunf : a.add b = rne (a.m * 2 ^ (a.e - min a.e b.e).toNat + b.m * 2 ^ (b.e - min a.e b.e).toNat) 1 (min a.e b.e) := by
    unfold F.add; simp [ha0, hb0]
  rw [hunf]
  exact ⟨h, rne_m_pos _ _ _ hp one_pos⟩

/-- `float64(n) / float64(d)` is within three roundings of n/d -/
theorem ratFloat_close (n d : ℕ) (hn : 0 < n) (hd : 0 < d) : Close 3 (ratFloat n d).val ((n : ℚ) / d) ∧ 0 < (ratFloat n d).m := by
  have hd0 : d ≠ 0 := by omega
  unfold ratFloat
  simp only [hd0, if_false]
  obtain ⟨c1, m1⟩ := ofNat_close n hn
  obtain ⟨c2, m2⟩ := ofNat_close d hd
  obtain ⟨c3, m3⟩ := div_close _ _ m1 m2
  exact ⟨(c3.trans (c1.div c2)).mono (by norm_num), m3⟩

/-- exact sum of the written fractions -/
def sumQ (fr : List (ℕ × ℕ)) : ℚ := (fr.map fun p => (p.1 : ℚ) / p.2).sum

def ValidFr (fr : List (ℕ × ℕ)) : Prop := ∀ p ∈ fr, 0 < p.1 ∧ 0 < p.2

theorem sum_step (acc : F) (A : ℚ) (i : ℕ) (hi : 1 ≤ i) (hc : Close (2 + i) acc.val A) (hm : 0 < acc.m) :
    ∀ (l : List (ℕ × ℕ)), ValidFr l →
      Close (2 + i + l.length) (l.foldl (fun acc nd => acc.add (ratFloat nd.1 nd.2)) acc).val (A + sumQ l) ∧
      0 < (l.foldl (fun acc nd => acc.add (ratFloat nd.1 nd.2)) acc).m := by
  intro l
  induction l generalizing acc A i with
  | nil => intro _; simpa [sumQ] using ⟨hc, hm⟩
  | cons p l ih =>
    intro hv
    obtain ⟨hn, hd⟩ := hv p (by simp)
    obtain ⟨cb, mb⟩ := ratFloat_close p.1 p.2 hn hd
    obtain ⟨ca, ma⟩ := add_close acc (ratFloat p.1 p.2) hm mb
    have cs : Close (2 + i) (acc.val + (ratFloat p.1 p.2).val) (A + (p.1 : ℚ) / p.2) :=
      hc.add (cb.mono (by omega))
    have c' : Close (2 + (i + 1)) (acc.add (ratFloat p.1 p.2)).val (A + (p.1 : ℚ) / p.2) := by
      have := ca.trans cs
      exact this.mono (by omega)
    have := ih (acc.add (ratFloat p.1 p.2)) (A + (p.1 : ℚ) / p.2) (i + 1) (by omega) c' ma (fun q hq => hv q (by simp [hq]))
    simp only [List.foldl_cons, List.length_cons]
    have e : A + sumQ (p :: l) = A + (p.1 : ℚ) / p.2 + sumQ l := by simp [sumQ]; ring
    rw [e]
    refine ⟨this.1.mono (by omega), this.2⟩

/-- the float sum of n ≥ 1 valid fractions is within n + 2 roundings of the exact sum -/
theorem sumFloat_close (fr : List (ℕ × ℕ)) (hne : fr ≠ []) (hv : ValidFr fr) :
    Close (2 + fr.length) (sumFloat fr).val (sumQ fr) ∧ 0 < (sumFloat fr).m := by
  cases fr with
  | nil => exact absurd rfl hne
  | cons p l =>
    obtain ⟨hn, hd⟩ := hv p (by simp)
    obtain ⟨cb, mb⟩ := ratFloat_close p.1 p.2 hn hd
    unfold sumFloat
    simp only [List.foldl_cons]
    have h0 : (F.add ⟨0, 0⟩ (ratFloat p.1 p.2)) = ratFloat p.1 p.2 := by simp [F.add]
    rw [h0]
    have := sum_step (ratFloat p.1 p.2) ((p.1 : ℚ) / p.2) 1 le_rfl cb mb l (fun q hq => hv q (by simp [hq]))
    have e : sumQ (p :: l) = (p.1 : ℚ) / p.2 + sumQ l := by simp [sumQ]
    rw [e]
    simp only [List.length_cons]
    exact ⟨this.1.mono (by omega), this.2⟩

/-- the value rounded by `math.Round` is within n + 4 roundings of T·v -/
theorem product_close (T : ℕ) (hT : 0 < T) (fr : List (ℕ × ℕ)) (hne : fr ≠ []) (hv : ValidFr fr) :
    Close (4 + fr.length) ((F.ofNat T).mul (sumFloat fr)).val ((T : ℚ) * sumQ fr) := by
  obtain ⟨c1, m1⟩ := ofNat_close T hT
  obtain ⟨c2, m2⟩ := sumFloat_close fr hne hv
  obtain ⟨c3, _⟩ := mul_close _ _ m1 m2
  exact (c3.trans (c1.mul c2)).mono (by omega)

end Crd
