import Mathlib.Algebra.Order.Field.Power
import Mathlib.Tactic.Linarith
import Mathlib.Tactic.Ring
import Mathlib.Tactic.FieldSimp
import Mathlib.Tactic.Positivity
import Mathlib.Data.Rat.Defs
import Mathlib.Algebra.Order.Field.Basic
import Mathlib.Data.Nat.Cast.Order.Field
import Crd.Model.F64

/-!
# Error analysis of the soft-float model (`Crd/Model/F64.lean`) over ℚ  — Mathlib tactics, proof module only

`rne p q s` is within relative error 2⁻⁵³ of the exact `p/q · 2^s`.
-/
namespace Crd

theorem roundNE_err (num den : Nat) (hd : 0 < den) :
    |((roundNE num den : ℕ) : ℚ) - (num : ℚ) / den| ≤ 1 / 2 := by
  have hdq : (0 : ℚ) < den := by exact_mod_cast hd
  have hdiv : (num : ℚ) = (num / den : ℕ) * den + (num % den : ℕ) := by
    have := Nat.div_add_mod num den
    have h2 : ((den * (num / den) + num % den : ℕ) : ℚ) = num := by exact_mod_cast congrArg (Nat.cast (R := ℚ)) this
    push_cast at h2; linarith
  have hr : (num % den : ℕ) < den := Nat.mod_lt _ hd
  have hrq : ((num % den : ℕ) : ℚ) < den := by exact_mod_cast hr
  have hr0 : (0 : ℚ) ≤ ((num % den : ℕ) : ℚ) := by positivity
  have key : (num : ℚ) / den = (num / den : ℕ) + ((num % den : ℕ) : ℚ) / den := by
    rw [hdiv]; field_simp
  set m := num / den with hm
  set r := num % den with hrdef
  have hfrac : ((r : ℚ)) / den < 1 := by rw [div_lt_one hdq]; exact hrq
  have hfrac0 : 0 ≤ ((r : ℚ)) / den := by positivity
  unfold roundNE
  simp only [← hm, ← hrdef]
  rw [key]
  split
  · rename_i h
    have : (den : ℚ) < 2 * r := by exact_mod_cast h
    have h1 : (1 : ℚ) / 2 < (r : ℚ) / den := by rw [lt_div_iff₀ hdq]; linarith
    push_cast
    rw [abs_le]; constructor <;> linarith
  · split
    · rename_i _ h
      have : (2 : ℚ) * r < den := by exact_mod_cast h
      have h1 : (r : ℚ) / den < 1 / 2 := by rw [div_lt_iff₀ hdq]; linarith
      rw [abs_le]; constructor <;> linarith
    · rename_i h1 h2
      have heq : 2 * r = den := by omega
      have : (2 : ℚ) * r = den := by exact_mod_cast heq
      have h3 : (r : ℚ) / den = 1 / 2 := by rw [div_eq_iff (ne_of_gt hdq)]; linarith
      split
      · rw [abs_le]; constructor <;> linarith
      · push_cast; rw [abs_le]; constructor <;> linarith

/-- bracket: for p,q>0 with K = q.log2+1, n = p*2^K/q, L = n.log2 :  2^L ≤ (p/q)*2^K < 2^(L+1) -/
theorem bracket (p q : Nat) (hp : 0 < p) (hq : 0 < q) :
    let K := q.log2 + 1
    let n := p * 2 ^ K / q
    n ≠ 0 ∧ ((2 : ℚ) ^ n.log2 ≤ (p : ℚ) / q * 2 ^ K) ∧ ((p : ℚ) / q * 2 ^ K < 2 ^ (n.log2 + 1)) := by
  intro K n
  have hqq : (0 : ℚ) < q := by exact_mod_cast hq
  have hK : q < 2 ^ K := Nat.lt_log2_self
  have hn1 : 1 ≤ n := by
    rw [Nat.one_le_div_iff hq]
    calc q ≤ 2 ^ K := hK.le
      _ ≤ p * 2 ^ K := Nat.le_mul_of_pos_left _ hp
  have hn0 : n ≠ 0 := by omega
  have hlo : n * q ≤ p * 2 ^ K := Nat.div_mul_le_self _ _
  have hhi : p * 2 ^ K < q * (n + 1) := Nat.lt_mul_div_succ _ hq
  have hL1 : 2 ^ n.log2 ≤ n := Nat.log2_self_le hn0
  have hL2 : n + 1 ≤ 2 ^ (n.log2 + 1) := Nat.lt_log2_self
  have e : (p : ℚ) / q * 2 ^ K = ((p * 2 ^ K : ℕ) : ℚ) / q := by push_cast; ring
  refine ⟨hn0, ?_, ?_⟩
  · rw [e, le_div_iff₀ hqq]
    have : 2 ^ n.log2 * q ≤ p * 2 ^ K := le_trans (Nat.mul_le_mul_right _ hL1) hlo
    exact_mod_cast this
  · rw [e, div_lt_iff₀ hqq]
    have : p * 2 ^ K < 2 ^ (n.log2 + 1) * q := by
      calc p * 2 ^ K < q * (n + 1) := hhi
        _ ≤ q * 2 ^ (n.log2 + 1) := Nat.mul_le_mul_left _ hL2
        _ = 2 ^ (n.log2 + 1) * q := Nat.mul_comm _ _
    exact_mod_cast this

/-- the rational a soft float stands for -/
def F.val (a : F) : ℚ := a.m * (2 : ℚ) ^ a.e

theorem rne_rel_err (p q : Nat) (s : Int) (hp : 0 < p) (hq : 0 < q) :
    |(rne p q s).val - (p : ℚ) / q * 2 ^ s| ≤ (p : ℚ) / q * 2 ^ s * 2 ^ (-53 : Int) := by
  obtain ⟨hn0, hlo, hhi⟩ := bracket p q hp hq
  have hqq : (0 : ℚ) < q := by exact_mod_cast hq
  have hpq : (0 : ℚ) < p := by exact_mod_cast hp
  have hp0 : p ≠ 0 := by omega
  set K := q.log2 + 1 with hK
  set n := p * 2 ^ K / q with hn
  set x : ℚ := (p : ℚ) / q with hx
  have hxpos : 0 < x := by positivity
  set k : Int := 52 - ((n.log2 : Int) - K) with hk
  have h2 : (0 : ℚ) < 2 := by norm_num
  have hsc : x * (2 : ℚ) ^ k = x * 2 ^ K * (2 : ℚ) ^ (52 - (n.log2 : Int)) := by
    have : k = (K : Int) + (52 - (n.log2 : Int)) := by omega
    rw [this, zpow_add₀ (by norm_num : (2 : ℚ) ≠ 0), zpow_natCast]; ring
  have hlo' : (2 : ℚ) ^ (52 : ℕ) ≤ x * (2 : ℚ) ^ k := by
    rw [hsc]
    have : (2 : ℚ) ^ (52 : ℕ) = (2 : ℚ) ^ n.log2 * (2 : ℚ) ^ (52 - (n.log2 : Int)) := by
      rw [← zpow_natCast, ← zpow_natCast, ← zpow_add₀ (by norm_num : (2 : ℚ) ≠ 0)]; congr 1; omega
    rw [this]
    exact mul_le_mul_of_nonneg_right hlo (by positivity)
  have hnd : ∀ num den : ℕ, num = (if 0 ≤ k then p * 2 ^ k.toNat else p) →
      den = (if 0 ≤ k then q else q * 2 ^ (-k).toNat) → 0 < den ∧ (num : ℚ) / den = x * (2 : ℚ) ^ k := by
    intro num den h1 h2'
    by_cases hk0 : 0 ≤ k
    · simp only [hk0, if_true] at h1 h2'
      subst h1; subst h2'
      refine ⟨hq, ?_⟩
      have : (2 : ℚ) ^ k = (2 : ℚ) ^ k.toNat := by
        rw [← zpow_natCast]; congr 1; omega
      rw [this]; push_cast; rw [hx]; ring
    · simp only [hk0, if_false] at h1 h2'
      subst h1; subst h2'
      refine ⟨by positivity, ?_⟩
      have : (2 : ℚ) ^ k = ((2 : ℚ) ^ (-k).toNat)⁻¹ := by
        rw [← zpow_natCast, ← zpow_neg]; congr 1; omega
      rw [this]; push_cast; rw [hx]; field_simp
  obtain ⟨hden, hval⟩ := hnd _ _ rfl rfl
  have herr := roundNE_err (if 0 ≤ k then p * 2 ^ k.toNat else p) (if 0 ≤ k then q else q * 2 ^ (-k).toNat) hden
  rw [hval] at herr
  have hsplit : x * (2 : ℚ) ^ s = x * (2 : ℚ) ^ k * (2 : ℚ) ^ (s - k) := by
    rw [mul_assoc, ← zpow_add₀ (by norm_num : (2 : ℚ) ≠ 0)]; congr 2; omega
  have hpos : (0 : ℚ) < (2 : ℚ) ^ (s - k) := by positivity
  have hunf : (rne p q s).val = ((roundNE (if 0 ≤ k then p * 2 ^ k.toNat else p) (if 0 ≤ k then q else q * 2 ^ (-k).toNat) : ℕ) : ℚ) * (2 : ℚ) ^ (s - k) := by
    unfold rne F.val
    simp only [hp0, if_false]
    rfl
  rw [hunf, hsplit, ← sub_mul, abs_mul, abs_of_pos hpos]
  have h53 : (2 : ℚ) ^ (-53 : Int) = ((2 : ℚ) ^ (53 : ℕ))⁻¹ := by
    rw [← zpow_natCast, ← zpow_neg]; rfl
  calc _ ≤ (1 / 2 : ℚ) * (2 : ℚ) ^ (s - k) := mul_le_mul_of_nonneg_right herr hpos.le
    _ = (2 : ℚ) ^ (52 : ℕ) * (2 : ℚ) ^ (s - k) * (2 : ℚ) ^ (-53 : Int) := by
        rw [h53]; norm_num; ring
    _ ≤ x * (2 : ℚ) ^ k * (2 : ℚ) ^ (s - k) * (2 : ℚ) ^ (-53 : Int) := by
        apply mul_le_mul_of_nonneg_right _ (by positivity)
        exact mul_le_mul_of_nonneg_right hlo' hpos.le

end Crd
