import Crd.Float.Ops

/-!
# `ticksF` returns the nearest integer of T·v whenever the float error is below the distance to the next half
-/
namespace Crd

/-- (1+w)^K ≤ 1 + 2Kw as long as 2Kw ≤ 1 -/
theorem pow_w_le (K : ℕ) (h : 2 * (K : ℚ) * w ≤ 1) : (1 + w) ^ K ≤ 1 + 2 * K * w := by
  induction K with
  | zero => simp
  | succ K ih =>
    have hw := w_pos
    have hK : (0 : ℚ) ≤ K := by positivity
    have h' : 2 * (K : ℚ) * w ≤ 1 := by push_cast at h; nlinarith
    have := ih h'
    rw [pow_succ]
    push_cast
    have h1 : (1 + w) ^ K * (1 + w) ≤ (1 + 2 * K * w) * (1 + w) := mul_le_mul_of_nonneg_right this (by linarith)
    nlinarith

/-- closeness as an absolute error bound -/
theorem close_abs {K : ℕ} {t X : ℚ} (h : Close K t X) (hK : 2 * (K : ℚ) * w ≤ 1) : |t - X| ≤ X * (2 * K * w) := by
  obtain ⟨ht, hX, h1, h2⟩ := h
  have hp := pow_w_le K hK
  have hp1 := one_le_pow_w K
  have hpp := pow_w_pos K
  rw [abs_le]
  constructor
  · -- X - t ≤ X (a - 1) where a = (1+w)^K, from X ≤ t a
    have : X / (1 + w) ^ K ≤ t := by rw [div_le_iff₀ hpp]; exact h2
    have h3 : X - X * ((1 + w) ^ K - 1) ≤ X / (1 + w) ^ K := by
      rw [le_div_iff₀ hpp]
      have : (X - X * ((1 + w) ^ K - 1)) * (1 + w) ^ K = X - X * ((1 + w) ^ K - 1) ^ 2 := by ring
      rw [this]; nlinarith [sq_nonneg ((1 + w) ^ K - 1)]
    have h4 : X * ((1 + w) ^ K - 1) ≤ X * (2 * K * w) := mul_le_mul_of_nonneg_left (by linarith) hX.le
    linarith
  · have h4 : X * ((1 + w) ^ K - 1) ≤ X * (2 * K * w) := mul_le_mul_of_nonneg_left (by linarith) hX.le
    linarith

/-- `math.Round` on a non-negative soft float: the integer r with r ≤ x + 1/2 < r + 1 -/
theorem roundHalfAway_spec (a : F) : ((a.roundHalfAway : ℕ) : ℚ) ≤ a.val + 1 / 2 ∧ a.val + 1 / 2 < (a.roundHalfAway : ℚ) + 1 := by
  unfold F.roundHalfAway F.val
  split
  · rename_i h
    have : (2 : ℚ) ^ a.e = ((2 ^ a.e.toNat : ℕ) : ℚ) := by
      push_cast; rw [← zpow_natCast]; congr 1; omega
    rw [this]; push_cast
    constructor <;> linarith
  · rename_i h
    simp only
    set d := 2 ^ (-a.e).toNat with hd
    have hdpos : 0 < d := by positivity
    have hdq : (0 : ℚ) < d := by exact_mod_cast hdpos
    have e2 : (2 : ℚ) ^ a.e = (d : ℚ)⁻¹ := by
      rw [hd]; push_cast; rw [← zpow_natCast, ← zpow_neg]; congr 1; omega
    rw [e2]
    have hlo : (2 * a.m + d) / (2 * d) * (2 * d) ≤ 2 * a.m + d := Nat.div_mul_le_self _ _
    have hhi : 2 * a.m + d < (2 * d) * ((2 * a.m + d) / (2 * d) + 1) := Nat.lt_mul_div_succ _ (by omega)
    have hloq : (((2 * a.m + d) / (2 * d) : ℕ) : ℚ) * (2 * d) ≤ 2 * a.m + d := by exact_mod_cast hlo
    have hhiq : (2 * (a.m : ℚ) + d) < (2 * d) * ((((2 * a.m + d) / (2 * d) : ℕ) : ℚ) + 1) := by exact_mod_cast hhi
    have key : (a.m : ℚ) * (d : ℚ)⁻¹ + 1 / 2 = (2 * a.m + d) / (2 * d) := by field_simp
    rw [key]
    constructor
    · rw [le_div_iff₀ (by positivity)]; exact hloq
    · rw [div_lt_iff₀ (by positivity)]; linarith

/-- the rounding step: a value closer to N/D than 1/(2D) rounds to the nearest integer of N/D (either neighbour at an
exact half) -/
theorem round_near (r N D : ℕ) (t : ℚ) (hD : 0 < D) (hr : (r : ℚ) ≤ t + 1 / 2 ∧ t + 1 / 2 < (r : ℚ) + 1)
    (herr : |t - (N : ℚ) / D| < 1 / (2 * D)) :
    r = (2 * N + D) / (2 * D) ∨ ((2 * N + D) % (2 * D) = 0 ∧ r + 1 = (2 * N + D) / (2 * D)) := by
  have hDq : (0 : ℚ) < D := by exact_mod_cast hD
  set q := (2 * N + D) / (2 * D) with hq
  set m := (2 * N + D) % (2 * D) with hm
  have hdiv : 2 * N + D = 2 * D * q + m := (Nat.div_add_mod _ _).symm
  have hmlt : m < 2 * D := Nat.mod_lt _ (by omega)
  have hdivq : (2 * (N : ℚ) + D) = 2 * D * q + m := by exact_mod_cast hdiv
  have hX : (N : ℚ) / D + 1 / 2 = q + (m : ℚ) / (2 * D) := by
    field_simp; linarith
  obtain ⟨elo, ehi⟩ := abs_lt.mp herr
  have inv_eq : (1 : ℚ) / (2 * D) * (2 * D) = 1 := by field_simp
  -- t + 1/2 lies strictly between q + (m-1)/(2D) and q + (m+1)/(2D)
  have lo : (q : ℚ) + ((m : ℚ) - 1) / (2 * D) < t + 1 / 2 := by
    have : (q : ℚ) + ((m : ℚ) - 1) / (2 * D) = (N : ℚ) / D + 1 / 2 - 1 / (2 * D) := by rw [hX]; ring
    rw [this]; linarith
  have hi : t + 1 / 2 < (q : ℚ) + ((m : ℚ) + 1) / (2 * D) := by
    have : (q : ℚ) + ((m : ℚ) + 1) / (2 * D) = (N : ℚ) / D + 1 / 2 + 1 / (2 * D) := by rw [hX]; ring
    rw [this]; linarith
  have h2D : (0 : ℚ) < 2 * D := by positivity
  by_cases hm0 : m = 0
  · have hmq : (m : ℚ) = 0 := by exact_mod_cast hm0
    rw [hmq] at lo hi
    have hinv : (1 : ℚ) / (2 * D) ≤ 1 / 2 := by
      rw [div_le_div_iff₀ h2D (by norm_num)]
      have : (1 : ℚ) ≤ D := by exact_mod_cast hD
      linarith
    have a : (r : ℚ) < q + 1 := by
      have : ((0 : ℚ) + 1) / (2 * D) ≤ 1 / 2 := by simpa using hinv
      linarith [hr.1]
    have b : (q : ℚ) < r + 2 := by
      have : ((0 : ℚ) - 1) / (2 * D) ≥ -(1 / 2) := by
        have : ((0 : ℚ) - 1) / (2 * D) = -(1 / (2 * D)) := by ring
        rw [this]; linarith
      linarith [hr.2]
    have a' : r < q + 1 := by exact_mod_cast a
    have b' : q < r + 2 := by exact_mod_cast b
    by_cases hrq : r = q
    · left; exact hrq
    · right; exact ⟨hm0, by omega⟩
  · left
    have hm1 : (1 : ℚ) ≤ m := by exact_mod_cast Nat.one_le_iff_ne_zero.mpr hm0
    have hmu : (m : ℚ) + 1 ≤ 2 * D := by exact_mod_cast hmlt
    have l1 : (q : ℚ) ≤ (q : ℚ) + ((m : ℚ) - 1) / (2 * D) := by
      have : 0 ≤ ((m : ℚ) - 1) / (2 * D) := div_nonneg (by linarith) h2D.le
      linarith
    have u1 : (q : ℚ) + ((m : ℚ) + 1) / (2 * D) ≤ q + 1 := by
      have : ((m : ℚ) + 1) / (2 * D) ≤ 1 := by rw [div_le_one h2D]; exact hmu
      linarith
    have a : (r : ℚ) < q + 1 := by linarith [hr.1]
    have b : (q : ℚ) < r + 1 := by linarith [hr.2]
    have a' : r < q + 1 := by exact_mod_cast a
    have b' : q < r + 1 := by exact_mod_cast b
    omega

end Crd

namespace Crd

/-- T·Σ nᵢ/dᵢ over the common denominator D -/
def numOver (T D : ℕ) (fr : List (ℕ × ℕ)) : ℕ := T * (fr.map fun p => p.1 * (D / p.2)).sum

theorem numOver_eq (T D : ℕ) (hD : 0 < D) (fr : List (ℕ × ℕ)) (hdiv : ∀ p ∈ fr, 0 < p.2 ∧ p.2 ∣ D) :
    ((numOver T D fr : ℕ) : ℚ) / D = (T : ℚ) * sumQ fr := by
  have hDq : (D : ℚ) ≠ 0 := by exact_mod_cast (by omega : D ≠ 0)
  have key : ∀ l : List (ℕ × ℕ), (∀ p ∈ l, 0 < p.2 ∧ p.2 ∣ D) →
      (((l.map fun p => p.1 * (D / p.2)).sum : ℕ) : ℚ) = (D : ℚ) * sumQ l := by
    intro l
    induction l with
    | nil => intro _; simp [sumQ]
    | cons p l ih =>
      intro h
      obtain ⟨hp, c, hc⟩ := h p (by simp)
      have := ih (fun q hq => h q (by simp [hq]))
      simp only [List.map_cons, List.sum_cons, sumQ] at this ⊢
      push_cast
      rw [this]
      have hpq : (p.2 : ℚ) ≠ 0 := by exact_mod_cast (by omega : p.2 ≠ 0)
      have e : ((D / p.2 : ℕ) : ℚ) = (D : ℚ) / p.2 := by
        rw [hc, Nat.mul_div_cancel_left _ hp]; push_cast; field_simp
      rw [e]; field_simp
  unfold numOver
  push_cast
  rw [key fr hdiv]; field_simp

/-- **`ticks_nearest`**: for any common denominator D of the written fractions, with N/D = T·v exactly: if
4·(n+4)·N < 2^52 then Go's `uint32(math.Round(float64(T) * Σ float64(nᵢ)/float64(dᵢ)))` is the nearest integer of
T·v — ⌊T·v + ½⌋, or ⌊T·v + ½⌋ − 1 only when T·v is exactly halfway -/
theorem ticks_nearest (T : ℕ) (hT : 0 < T) (fr : List (ℕ × ℕ)) (hne : fr ≠ []) (D : ℕ) (hD : 0 < D)
    (hv : ∀ p ∈ fr, 0 < p.1 ∧ 0 < p.2 ∧ p.2 ∣ D)
    (hsafe : 4 * (4 + fr.length) * numOver T D fr < 2 ^ 52) :
    let N := numOver T D fr
    ticksF T fr = (2 * N + D) / (2 * D) ∨ ((2 * N + D) % (2 * D) = 0 ∧ ticksF T fr + 1 = (2 * N + D) / (2 * D)) := by
  intro N
  have hvf : ValidFr fr := fun p hp => ⟨(hv p hp).1, (hv p hp).2.1⟩
  have hc := product_close T hT fr hne hvf
  have hX : ((N : ℕ) : ℚ) / D = (T : ℚ) * sumQ fr := numOver_eq T D hD fr (fun p hp => (hv p hp).2)
  rw [← hX] at hc
  set K := 4 + fr.length with hK
  have hDq : (0 : ℚ) < D := by exact_mod_cast hD
  have hNpos : (0 : ℚ) < N := by
    have := hc.2.1
    by_contra h
    have : (N : ℚ) = 0 := le_antisymm (not_lt.mp h) (by positivity)
    rw [this] at hc; simp at hc; exact absurd hc.2.1 (lt_irrefl _)
  have hw52 : w = 1 / 2 ^ (52 : ℕ) := by
    unfold w; rw [show (-52 : Int) = -(52 : ℕ) by norm_num, zpow_neg, zpow_natCast]; simp
  have hsafeq : 4 * (K : ℚ) * N < 2 ^ (52 : ℕ) := by exact_mod_cast hsafe
  have h2K : 2 * (K : ℚ) * w ≤ 1 := by
    rw [hw52]
    have hN1 : (1 : ℚ) ≤ N := by exact_mod_cast (by exact_mod_cast hNpos : 0 < N)
    have : 2 * (K : ℚ) ≤ 2 ^ (52 : ℕ) := by nlinarith [show (0 : ℚ) ≤ K by positivity]
    have hp : (0 : ℚ) < 2 ^ (52 : ℕ) := by positivity
    rw [mul_one_div, div_le_one hp]; exact this
  have habs := close_abs hc h2K
  have herr : |((F.ofNat T).mul (sumFloat fr)).val - (N : ℚ) / D| < 1 / (2 * D) := by
    refine lt_of_le_of_lt habs ?_
    rw [hw52]
    have hp : (0 : ℚ) < 2 ^ (52 : ℕ) := by positivity
    rw [div_mul_eq_mul_div, div_lt_div_iff₀ hDq (by positivity)]
    have : (N : ℚ) * (2 * K * (1 / 2 ^ (52 : ℕ))) = (2 * K * N) / 2 ^ (52 : ℕ) := by ring
    rw [this, div_mul_eq_mul_div, div_lt_iff₀ hp]
    nlinarith
  exact round_near _ N D _ hD (roundHalfAway_spec _) herr

end Crd

/-! non-vacuity: the hypotheses are met by ordinary durations, and the conclusion is informative -/
example : Crd.ticksF 960 [(1, 9)] = 107 := by
  have h := Crd.ticks_nearest 960 (by norm_num) [(1, 9)] (by simp) 9 (by norm_num)
    (by intro p hp; simp at hp; subst hp; exact ⟨by norm_num, by norm_num, dvd_refl _⟩) (by decide)
  simp only [Crd.numOver] at h
  norm_num at h
  exact h

namespace Crd

/-- **`tempo_nearest`**: for EVERY tempo bpm ≥ 1, `uint32(math.Round(60000000 / float64(bpm)))` is the nearest integer
of 60,000,000 / bpm (the lower neighbour only when exactly halfway) -/
theorem tempo_nearest (bpm : ℕ) (hb : 0 < bpm) :
    tempoMicros bpm = (2 * 60000000 + bpm) / (2 * bpm) ∨
      ((2 * 60000000 + bpm) % (2 * bpm) = 0 ∧ tempoMicros bpm + 1 = (2 * 60000000 + bpm) / (2 * bpm)) := by
  have hb0 : bpm ≠ 0 := by omega
  unfold tempoMicros
  simp only [hb0, if_false]
  obtain ⟨c1, m1⟩ := ofNat_close 60000000 (by norm_num)
  obtain ⟨c2, m2⟩ := ofNat_close bpm hb
  obtain ⟨c3, _⟩ := div_close _ _ m1 m2
  have hc : Close 3 ((F.ofNat 60000000).div (F.ofNat bpm)).val (((60000000 : ℕ) : ℚ) / bpm) :=
    (c3.trans (c1.div c2)).mono (by norm_num)
  have hw52 : w = 1 / 2 ^ (52 : ℕ) := by
    unfold w; rw [show (-52 : Int) = -(52 : ℕ) by norm_num, zpow_neg, zpow_natCast]; simp
  have h2K : 2 * ((3 : ℕ) : ℚ) * w ≤ 1 := by rw [hw52]; norm_num
  have habs := close_abs hc h2K
  have hbq : (0 : ℚ) < bpm := by exact_mod_cast hb
  have herr : |((F.ofNat 60000000).div (F.ofNat bpm)).val - ((60000000 : ℕ) : ℚ) / bpm| < 1 / (2 * bpm) := by
    refine lt_of_le_of_lt habs ?_
    rw [hw52, div_mul_eq_mul_div, div_lt_div_iff₀ hbq (by positivity)]
    push_cast
    norm_num
    nlinarith
  exact round_near _ 60000000 bpm _ hb (roundHalfAway_spec _) herr

end Crd
