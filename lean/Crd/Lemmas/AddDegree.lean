import Crd.Lemmas.Degree

/-!
# `Note.AddDegree`: pitch-class/octave split and spelling preference (C15, `info attr|chord describe`)
-/
namespace Crd
open Generated Spec

theorem spec_ge (n : Nat) (q : Quality) (v : Int) (h : specSize n q = some v) : -2 ≤ v := by
  unfold specSize at h
  by_cases h0 : n = 0
  · simp [h0] at h
  · simp only [h0, if_false] at h
    have hs : (n - 1) % 7 < 7 := Nat.mod_lt _ (by decide)
    have ho : (0 : Int) ≤ ((n - 1) / 7 : Nat) := Int.natCast_nonneg _
    generalize (n - 1) % 7 = st at hs h
    generalize (((n - 1) / 7 : Nat) : Int) = o at ho h
    have : st = 0 ∨ st = 1 ∨ st = 2 ∨ st = 3 ∨ st = 4 ∨ st = 5 ∨ st = 6 := by omega
    rcases this with rfl | rfl | rfl | rfl | rfl | rfl | rfl <;> cases q <;>
      simp [perfectClass, majorScale] at h <;> omega

def roots : List Note :=
  Letter.all.flatMap fun l => [⟨l, .natural⟩, ⟨l, .sharp⟩, ⟨l, .flat⟩]

/-- is there a natural letter with this pitch class? (spec side) -/
def naturalAt (pc : Int) : Bool := Letter.all.any fun l => naturalPitch l == pc

/-- the spelling search, for every pitch class and both preferences (kernel evaluation over 12 × 2) -/
theorem spelling_ok : ∀ pc ∈ List.range 12, ∀ pref ∈ [true, false],
    ∃ r : Note, ((if pref then [NAcc.natural, .sharp, .flat] else [NAcc.natural, .flat, .sharp]).findSome?
        (fun b => (findNameBySemitone (pc : Int) b).map (fun x => Note.mk x b))) = some r ∧
      r.semitone? = some (pc : Int) ∧
      (if naturalAt pc then r.acc = .natural else r.acc = (if pref then .sharp else .flat)) := by
  decide

theorem root_semitones : ∀ r ∈ roots, ∃ v : Int, r.semitone? = some v ∧ -1 ≤ v ∧ v ≤ 12 := by decide

theorem oct12 : octaveSemitones = 12 := by decide

/-- **C15**: adding a valid interval to any root (7 letters × natural/sharp/flat): the reported note and
octave offset have exactly the pitch `root + interval`, spelled natural when a natural letter has that pitch
class and otherwise with the requested accidental — which always exists.  No bound on the interval number. -/
theorem addDegree_pitch (root : Note) (hr : root ∈ roots) (d : Degree) (hv : d.valid) (pref : Bool) :
    ∃ (r : Note) (oct pc rs ds : Int),
      root.addDegree d pref = .ok r oct ∧ root.semitone? = some rs ∧ d.semitone = some ds ∧
      r.semitone? = some pc ∧ 0 ≤ pc ∧ pc < 12 ∧ 12 * oct + pc = rs + ds ∧
      (if naturalAt pc then r.acc = .natural else r.acc = (if pref then .sharp else .flat)) := by
  obtain ⟨rs, hrs, hlo, hhi⟩ := root_semitones root hr
  obtain ⟨ds, hds⟩ : ∃ ds, d.semitone = some ds := by
    unfold Degree.valid at hv; cases h : d.semitone <;> simp_all
  have hge : -2 ≤ ds := spec_ge d.value d.name ds (by rw [← semitone_eq_spec]; exact hds)
  -- the split of s = rs + ds into octave and pitch class
  have hs : -3 ≤ rs + ds := by omega
  generalize hsd : rs + ds = s at hs
  have hpc : 0 ≤ withoutOctave s ∧ withoutOctave s < 12 ∧ 12 * octaveOf s + withoutOctave s = s := by
    unfold withoutOctave octaveOf; rw [oct12]
    by_cases h0 : s ≥ 0
    · simp only [h0, if_true]
      refine ⟨Int.tmod_nonneg _ h0, Int.tmod_lt_of_pos _ (by decide), ?_⟩
      have := Int.mul_tdiv_add_tmod s 12; omega
    · simp only [h0, if_false]
      have h1 : s = -1 ∨ s = -2 ∨ s = -3 := by omega
      rcases h1 with rfl | rfl | rfl <;> decide
  obtain ⟨hp0, hp12, hsplit⟩ := hpc
  obtain ⟨pcn, hpcn⟩ : ∃ k : Nat, withoutOctave s = (k : Int) := ⟨(withoutOctave s).toNat, by omega⟩
  have hk : pcn ∈ List.range 12 := by simp; omega
  have hprefmem : pref ∈ [true, false] := by cases pref <;> simp
  obtain ⟨r, hfind, hsem, hacc⟩ := spelling_ok pcn hk pref hprefmem
  refine ⟨r, octaveOf s, (pcn : Int), rs, ds, ?_, hrs, hds, hsem, by omega, by omega, by omega, hacc⟩
  unfold Note.addDegree
  simp only [hds, hrs, hsd, hpcn]
  cases pref <;> simp_all

end Crd
