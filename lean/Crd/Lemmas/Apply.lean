import Crd.Lemmas.PieceIndex
import Crd.Lemmas.Degree
import Crd.Lemmas.Dict

/-!
# `play.Key.Apply`: the MIDI keys of a chord (C01)
-/
namespace Crd
open Generated

theorem middleC_val : middleC = 60 := by decide
theorem oct_val : (octaveSemitones : Int) = 12 := by decide

theorem emod_eq (a b : Int) : a.emod b = a % b := rfl

theorem u8_cast (i : Int) : ((u8 i : Nat) : Int) = i.emod 256 := by
  unfold u8
  have : 0 ≤ i.emod 256 := Int.emod_nonneg _ (by decide)
  omega

/-- the pitches `Apply` computes, as integers modulo 256 (Go: `uint8` arithmetic): bass first -/
theorem apply_pitches_mod (d : Dict) (k : Key) (c : ChordIn) (keys : List Nat) (h : applyChord d k c = .ok keys) :
    ∃ (attrs : List Attr) (ks cd b : Int) (ss : List Int),
      d.chordAttrs ((d.chord c.name).map (·.name) |>.getD c.name) = some attrs ∧
      k.semitone? = some ks ∧ c.degree.semitone = some cd ∧ (c.base.getD ⟨1, .perfect⟩).semitone = some b ∧
      attrs.mapM (fun a => a.degree.semitone) = some ss ∧
      keys.map (fun (x : Nat) => (x : Int)) = ((60 + ks + cd + b - 12).emod 256) :: ss.map (fun s => (60 + ks + cd + s).emod 256) := by
  unfold applyChord at h
  cases ha : d.chordAttrs ((d.chord c.name).map (·.name) |>.getD c.name) with
  | none => simp [ha] at h
  | some attrs =>
    cases hcd : c.degree.semitone with
    | none => simp [ha, hcd] at h
    | some cd =>
      cases hks : k.semitone? with
      | none => simp [ha, hcd, hks] at h
      | some ks =>
        cases hb : (c.base.getD ⟨1, .perfect⟩).semitone with
        | none => simp [ha, hcd, hks, hb] at h
        | some b =>
          cases hss : attrs.mapM (fun a => a.degree.semitone) with
          | none => simp [ha, hcd, hks, hb, hss] at h
          | some ss =>
            simp only [ha, hcd, hks, hb, hss, Applied.ok.injEq] at h
            refine ⟨attrs, ks, cd, b, ss, rfl, rfl, rfl, rfl, hss, ?_⟩
            rw [← h]
            simp only [List.map_cons, List.map_map, middleC_val, oct_val, u8_cast, emod_eq]
            congr 1
            · omega
            · apply List.map_congr_left
              intro s _
              simp only [Function.comp, u8_cast, emod_eq]
              omega

/-- inside the MIDI range nothing wraps: bass = root − 12 + bass interval, tones = root + each interval,
with root = middle C (60) + tonic + degree -/
theorem apply_pitches (d : Dict) (k : Key) (c : ChordIn) (keys : List Nat) (h : applyChord d k c = .ok keys) :
    ∃ (attrs : List Attr) (ks cd b : Int) (ss : List Int),
      d.chordAttrs ((d.chord c.name).map (·.name) |>.getD c.name) = some attrs ∧
      k.semitone? = some ks ∧ c.degree.semitone = some cd ∧ (c.base.getD ⟨1, .perfect⟩).semitone = some b ∧
      attrs.mapM (fun a => a.degree.semitone) = some ss ∧
      ((∀ x ∈ (60 + ks + cd + b - 12) :: ss.map (fun s => 60 + ks + cd + s), 0 ≤ x ∧ x ≤ 127) →
        keys.map (fun (x : Nat) => (x : Int)) = (60 + ks + cd + b - 12) :: ss.map (fun s => 60 + ks + cd + s)) := by
  obtain ⟨attrs, ks, cd, b, ss, h1, h2, h3, h4, h5, h6⟩ := apply_pitches_mod d k c keys h
  refine ⟨attrs, ks, cd, b, ss, h1, h2, h3, h4, h5, ?_⟩
  intro hr
  rw [h6]
  congr 1
  · have := hr (60 + ks + cd + b - 12) (List.mem_cons_self ..)
    have := Int.emod_eq_of_lt this.1 (by omega : 60 + ks + cd + b - 12 < 256)
    exact this
  · apply List.map_congr_left
    intro s hs
    have := hr (60 + ks + cd + s) (List.mem_cons_of_mem _ (List.mem_map.mpr ⟨s, hs, rfl⟩))
    exact Int.emod_eq_of_lt this.1 (by omega)

/-- an absent bass is a perfect unison: 0 semitones -/
theorem default_bass : (Degree.mk 1 .perfect).semitone = some 0 := by decide

end Crd
