/-!
# Distributing a list over `N` buckets by a routing function and merging again is a permutation
-/
namespace Crd

def buckets {α} (N : Nat) (f : α → Nat) (l : List α) : List α :=
  (List.range N).flatMap fun i => l.filter (fun x => f x = i)

theorem buckets_perm_filter {α} (f : α → Nat) (l : List α) : ∀ N, (buckets N f l).Perm (l.filter (fun x => f x < N)) := by
  intro N
  induction N with
  | zero => simp [buckets]
  | succ N ih =>
    unfold buckets at ih ⊢
    rw [List.range_succ, List.flatMap_append]
    simp only [List.flatMap_cons, List.flatMap_nil, List.append_nil]
    have h1 := List.filter_append_perm (fun x => decide (f x < N)) (l.filter (fun x => decide (f x < N + 1)))
    have e1 : (l.filter (fun x => decide (f x < N + 1))).filter (fun x => decide (f x < N)) = l.filter (fun x => decide (f x < N)) := by
      rw [List.filter_filter]; congr 1; funext x
      by_cases h : f x < N <;> simp [h]; omega
    have e2 : (l.filter (fun x => decide (f x < N + 1))).filter (fun x => !decide (f x < N)) = l.filter (fun x => decide (f x = N)) := by
      rw [List.filter_filter]; congr 1; funext x
      by_cases h : f x = N
      · simp [h]
      · by_cases h2 : f x < N <;> simp [h, h2]; omega
    rw [e1, e2] at h1
    exact (List.Perm.append ih (List.Perm.refl _)).trans h1

/-- every element is routed below `N` ⇒ merging the buckets gives back the list, up to order -/
theorem buckets_perm {α} (N : Nat) (f : α → Nat) (l : List α) (h : ∀ x ∈ l, f x < N) : (buckets N f l).Perm l := by
  have := buckets_perm_filter f l N
  have e : l.filter (fun x => decide (f x < N)) = l := by
    rw [List.filter_eq_self]; intro x hx; simpa using h x hx
  rwa [e] at this

end Crd
