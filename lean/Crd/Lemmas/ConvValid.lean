import Crd.Lemmas.InstanceRT

/-!
# Everything the text converters emit is a valid instance (so it survives printing and re-reading, C10)
-/
namespace Crd
open Generated Spec

theorem newDegree_value {v : Nat} {q : Quality} {d : Degree} (h : newDegree v q = some d) : d.value = v := by
  unfold newDegree at h; split at h <;> cases h; rfl

theorem coerce_degree_value {c : Coerce} {v : Nat} {d : Degree} (h : c.degree v = some d) : d.value = v := by
  cases c <;> simp only [Coerce.degree] at h
  · cases h
  · cases h1 : newDegree v .major with
    | some x => rw [h1] at h; simp [Option.orElse] at h; subst h; exact newDegree_value h1
    | none => rw [h1] at h; simp [Option.orElse] at h; exact newDegree_value h
  · cases h1 : newDegree v .minor with
    | some x => rw [h1] at h; simp [Option.orElse] at h; subst h; exact newDegree_value h1
    | none => rw [h1] at h; simp [Option.orElse] at h; exact newDegree_value h
  all_goals exact newDegree_value h

theorem parseSyms_bound : ∀ (syms : List (String × Coerce)) (s : List Char) (c : Coerce) (n : Nat),
    parseSyms syms s = .ok c n → goUint n := by
  intro syms
  induction syms with
  | nil => intro s c n h; simp [parseSyms] at h; rw [← h.2]; show (0 : Nat) < 2 ^ 64; decide
  | cons x xs ih =>
    intro s c n h
    obtain ⟨sym, q⟩ := x
    unfold parseSyms at h
    split at h
    · cases hp : parseUint s with
      | none => simp [hp] at h
      | some m => simp [hp] at h; rw [← h.2]; exact parseUint_bound s m hp
    · split at h
      · exact ih s c n h
      · simp only at h
        split at h
        · exact ih s c n h
        · cases hp : parseUint (trimSet sym.toList s) with
          | none => simp [hp] at h
          | some m => simp [hp] at h; rw [← h.2]; exact parseUint_bound _ m hp

theorem parseDegree_bound (s : List Char) (d : Degree) (h : parseDegree s = some d) : goUint d.value := by
  unfold parseDegree at h
  cases hp : parseSyms parseDegreeSymbols s with
  | fail => simp [hp] at h
  | ok c n =>
    simp only [hp] at h
    rw [coerce_degree_value h]
    exact parseSyms_bound _ s c n hp

/-- a scale that `NewScale` built -/
def IsScale (s : Scale) : Prop := ∃ k, newScale k = some s

theorem getDegree_valid (a b : SNote) (ha : a ∈ Crd.Props.C03.notes21) (hb : b ∈ Crd.Props.C03.notes21) (o : Bool) (d : Degree)
    (h : a.getDegree b o = .ok d) : d.valid = true ∧ goUint d.value := by
  have := Crd.Props.C03.getDegree_spec a ha b hb o (by cases o <;> simp)
  unfold Crd.Props.C03.getDegreeSpec at this
  rw [h] at this
  simp only [Bool.and_eq_true, beq_iff_eq] at this
  refine ⟨?_, ?_⟩
  · unfold Degree.valid; rw [semitone_eq_spec, this.2]; rfl
  · rw [this.1]; unfold Crd.Props.C03.letterDist goUint
    have : (letterIndex b.name + 7 - letterIndex a.name) % 7 < 7 := Nat.mod_lt _ (by decide)
    omega

theorem scale_tonic_mem (s : Scale) (hs : IsScale s) : ∃ t, s.notes.head? = some t ∧ t ∈ Crd.Props.C03.notes21 := by
  obtain ⟨k, hk⟩ := hs
  have := Crd.Props.C03.tonic_mem k s hk
  cases hh : s.notes.head? with
  | none => simp [hh] at this
  | some t => exact ⟨t, rfl, by simpa [hh] using this⟩

theorem syllableDegrees_valid (s : Scale) (hs : IsScale s) (root : DegreeN) (base : Option DegreeN) (d : Degree) (b : Option Degree)
    (h : syllableDegrees s root base = .ok (d, b)) :
    (d.valid = true ∧ goUint d.value) ∧ ∀ bd, b = some bd → bd.valid = true ∧ goUint bd.value := by
  obtain ⟨t, ht, htm⟩ := scale_tonic_mem s hs
  unfold syllableDegrees at h
  cases hrn : newScaleNote root with
  | error e => simp [hrn, bind, Except.bind] at h
  | ok rn =>
    have hrm := Crd.Props.C03.newScaleNote_mem root rn hrn
    cases htt : getTendency s rn with
    | error e => simp [hrn, htt, bind, Except.bind] at h
    | ok tt =>
      simp only [hrn, htt, ht, bind, Except.bind, pure, Except.pure] at h
      cases hg : t.getDegree rn (tt == .sharp) with
      | invalid => simp [hg, liftGetDeg] at h
      | panic => simp [hg, liftGetDeg] at h
      | ok d0 =>
        simp only [hg, liftGetDeg] at h
        have hd0 := getDegree_valid t rn htm hrm _ d0 hg
        cases base with
        | none =>
          simp only [Except.ok.injEq, Prod.mk.injEq] at h
          obtain ⟨rfl, rfl⟩ := h
          exact ⟨hd0, by intro bd hbd; cases hbd⟩
        | some bt =>
          cases hbn : newScaleNote bt with
          | error e => simp [hbn] at h
          | ok bn =>
            have hbm := Crd.Props.C03.newScaleNote_mem bt bn hbn
            cases hbt : getTendency s bn with
            | error e => simp [hbn, hbt] at h
            | ok t2 =>
              cases hg2 : rn.getDegree bn (t2 == .sharp) with
              | invalid => simp [hbn, hbt, hg2] at h
              | panic => simp [hbn, hbt, hg2] at h
              | ok d2 =>
                simp only [hbn, hbt, hg2, Except.ok.injEq, Prod.mk.injEq] at h
                obtain ⟨rfl, rfl⟩ := h
                refine ⟨hd0, ?_⟩
                intro bd hbd; cases hbd
                exact getDegree_valid rn bn hrm hbm _ d2 hg2

theorem convDegreeText_valid (dn : DegreeN) (d : Degree) (h : convDegreeText dn = .ok d) : d.valid = true ∧ goUint d.value := by
  unfold convDegreeText at h
  simp only at h
  split at h
  · rename_i x hx; cases h; exact ⟨parse_valid _ _ hx, parseDegree_bound _ _ hx⟩
  · cases h

theorem convChord_valid (mode : Mode) (s : Scale) (hs : mode = .syllable → IsScale s) (root : DegreeN) (sym : Option Tok)
    (base : Option DegreeN) (c : ChordIn) (h : convChord mode s root sym base = .ok c) :
    (c.degree.valid = true ∧ goUint c.degree.value) ∧ ∀ bd, c.base = some bd → bd.valid = true ∧ goUint bd.value := by
  cases mode with
  | syllable =>
    simp only [convChord, bind, Except.bind, pure, Except.pure] at h
    cases hsd : syllableDegrees s root base with
    | error e => simp [hsd] at h
    | ok p =>
      obtain ⟨d, b⟩ := p
      simp only [hsd, Except.ok.injEq] at h
      subst h
      exact syllableDegrees_valid s (hs rfl) root base d b hsd
  | degree =>
    simp only [convChord, bind, Except.bind, pure, Except.pure] at h
    cases hd : convDegreeText root with
    | error e => simp [hd] at h
    | ok d =>
      simp only [hd] at h
      cases base with
      | none =>
        simp only [Except.ok.injEq] at h; subst h
        exact ⟨convDegreeText_valid root d hd, by intro bd hbd; cases hbd⟩
      | some bt =>
        cases hb : convDegreeText bt with
        | error e => simp [hb] at h
        | ok bd0 =>
          simp only [hb, Except.ok.injEq] at h; subst h
          refine ⟨convDegreeText_valid root d hd, ?_⟩
          intro bd hbd; cases hbd; exact convDegreeText_valid bt bd0 hb

theorem convValue_valid (v : ValueN) (r : Rat') (h : convValue v = .ok r) : r.valid = true ∧ goUint r.num ∧ goUint r.den := by
  unfold convValue at h
  cases hn : parseUint v.num.v with
  | none => simp [hn] at h
  | some n =>
    simp only [hn] at h
    have hnb := parseUint_bound _ n hn
    have key : ∀ d, goUint d → ((if (Rat'.mk n d).valid = true then Except.ok (Rat'.mk n d) else Except.error Err.invalid : Except Err Rat') = .ok r) →
        r.valid = true ∧ goUint r.num ∧ goUint r.den := by
      intro d hd h'
      split at h'
      · rename_i hv; cases h'; exact ⟨hv, hnb, hd⟩
      · cases h'
    cases hden : v.den with
    | none => simp only [hden] at h; exact key 1 (by show (1 : Nat) < 2 ^ 64; decide) h
    | some dt =>
      simp only [hden] at h
      by_cases he : dt.v.isEmpty = true
      · simp only [he, if_true] at h; exact key 1 (by show (1 : Nat) < 2 ^ 64; decide) h
      · simp only [he] at h
        cases hd : parseUint dt.v with
        | none => simp [hd] at h
        | some d => simp only [hd] at h; exact key d (parseUint_bound _ d hd) h

theorem mapM_all {α β} (f : α → Except Err β) (P : β → Prop) (hf : ∀ a b, f a = .ok b → P b) :
    ∀ (l : List α) (r : List β), l.mapM f = .ok r → ∀ b ∈ r, P b := by
  intro l
  induction l with
  | nil => intro r h b hb; simp [List.mapM_nil, pure, Except.pure] at h; subst h; cases hb
  | cons a as ih =>
    intro r h b hb
    simp only [List.mapM_cons, bind, Except.bind] at h
    cases ha : f a with
    | error e => simp [ha] at h
    | ok x =>
      simp only [ha] at h
      cases has : as.mapM f with
      | error e => simp [has] at h
      | ok xs =>
        simp only [has, pure, Except.pure, Except.ok.injEq] at h
        subst h
        simp only [List.mem_cons] at hb
        rcases hb with rfl | hb
        · exact hf a _ ha
        · exact ih xs has b hb

end Crd
