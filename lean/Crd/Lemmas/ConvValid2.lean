import Crd.Lemmas.ConvValid

/-!
# Validity of converted instances, continued: metadata settings, items, whole conversion
-/
namespace Crd
open Generated Spec

theorem dyn_mem (d : Dyn) (h : d ≠ .unknown) : d ∈ sixDyns := by cases d <;> simp_all [sixDyns]

/-- the four settings `modifyMeta` may add are meaningful values -/
structure SettingsOK (i : Instance) : Prop where
  bpm : ∀ b, i.bpm = some b → 0 < b ∧ goUint b
  velocity : ∀ v, i.velocity = some v → v ∈ sixDyns
  meter : ∀ m, i.meter = some m → m.valid = true ∧ goUint m.num ∧ goUint m.den
  key : ∀ k, i.key = some k → k ∈ properKeys

/-- fields a setting step leaves alone -/
def SameRest (i i' : Instance) : Prop := i'.chord = i.chord ∧ i'.values = i.values ∧ i'.mta = i.mta

theorem setBPM_ok (m : List (String × String)) (i i' : Instance) (hi : SettingsOK i) (h : setBPM m i = .ok i') :
    SettingsOK i' ∧ SameRest i i' := by
  unfold setBPM at h
  split at h
  · cases h; exact ⟨hi, rfl, rfl, rfl⟩
  · cases hp : parseUint (metaGet m metaBPMKey).toList with
    | none => simp [hp] at h
    | some u =>
      simp only [hp] at h
      split at h
      · cases h
      · rename_i hu
        cases h
        refine ⟨⟨?_, hi.velocity, hi.meter, hi.key⟩, rfl, rfl, rfl⟩
        intro b hb; simp only [Option.some.injEq] at hb; subst hb
        exact ⟨by omega, parseUint_bound _ u hp⟩

theorem setVelocity_ok (m : List (String × String)) (i i' : Instance) (hi : SettingsOK i) (h : setVelocity m i = .ok i') :
    SettingsOK i' ∧ SameRest i i' := by
  unfold setVelocity at h
  split at h
  · cases h; exact ⟨hi, rfl, rfl, rfl⟩
  · split at h
    · cases h
    · rename_i d hd
      cases h
      refine ⟨⟨hi.bpm, ?_, hi.meter, hi.key⟩, rfl, rfl, rfl⟩
      intro v hv; simp only [Option.some.injEq] at hv; subst hv
      exact dyn_mem _ (by intro he; exact hd he)

theorem setMeter_ok (m : List (String × String)) (i i' : Instance) (hi : SettingsOK i) (h : setMeter m i = .ok i') :
    SettingsOK i' ∧ SameRest i i' := by
  unfold setMeter at h
  split at h
  · cases h; exact ⟨hi, rfl, rfl, rfl⟩
  · cases hp : parseRat (metaGet m metaMeterKey).toList with
    | none => simp [hp] at h
    | some r =>
      simp only [hp] at h
      split at h
      · rename_i hv
        cases h
        refine ⟨⟨hi.bpm, hi.velocity, ?_, hi.key⟩, rfl, rfl, rfl⟩
        intro x hx; simp only [Option.some.injEq] at hx; subst hx
        exact ⟨hv, parseRat_bound _ r hp⟩
      · cases h

theorem setKey_ok (m : List (String × String)) (i i' : Instance) (hi : SettingsOK i) (h : setKey m i = .ok i') :
    SettingsOK i' ∧ SameRest i i' := by
  unfold setKey at h
  split at h
  · cases h; exact ⟨hi, rfl, rfl, rfl⟩
  · cases hp : parseKey (metaGet m metaKeyKey).toList with
    | none => simp [hp] at h
    | some k =>
      simp only [hp] at h
      cases h
      refine ⟨⟨hi.bpm, hi.velocity, hi.meter, ?_⟩, rfl, rfl, rfl⟩
      intro x hx; simp only [Option.some.injEq] at hx; subst hx
      exact parseKey_proper _ k hp

theorem bind_ok {α β} {x : Except Err α} {f : α → Except Err β} {b : β} (h : x.bind f = .ok b) :
    ∃ a, x = .ok a ∧ f a = .ok b := by
  cases x with
  | error e => simp [Except.bind] at h
  | ok a => exact ⟨a, rfl, h⟩

theorem modifyMeta_ok (i0 : Instance) (m : Option (List (String × String))) (i : Instance)
    (h0 : SettingsOK i0) (h : modifyMeta i0 m = .ok i) : SettingsOK i ∧ SameRest i0 i := by
  cases m with
  | none => simp only [modifyMeta, Except.ok.injEq] at h; subst h; exact ⟨h0, rfl, rfl, rfl⟩
  | some mm =>
    simp only [modifyMeta] at h
    obtain ⟨i3, h3, h4⟩ := bind_ok h
    obtain ⟨i2, h2, h3'⟩ := bind_ok h3
    obtain ⟨i1, h1, h2'⟩ := bind_ok h2
    obtain ⟨a1, r1⟩ := setBPM_ok mm i0 i1 h0 h1
    obtain ⟨a2, r2⟩ := setVelocity_ok mm i1 i2 a1 h2'
    obtain ⟨a3, r3⟩ := setMeter_ok mm i2 i3 a2 h3'
    obtain ⟨a4, r4⟩ := setKey_ok mm i3 i a3 h4
    refine ⟨a4, ?_, ?_, ?_⟩
    · rw [r4.1, r3.1, r2.1, r1.1]
    · rw [r4.2.1, r3.2.1, r2.2.1, r1.2.1]
    · rw [r4.2.2, r3.2.2, r2.2.2, r1.2.2]

theorem changeScale_ok (mode : Mode) (s : Scale) (hs : mode = .syllable → IsScale s) (i : Instance) (s2 : Scale)
    (h : changeScale mode s i = .ok s2) : mode = .syllable → IsScale s2 := by
  intro hmode
  subst hmode
  unfold changeScale at h
  cases hk : i.key with
  | none => simp [hk] at h; subst h; exact hs rfl
  | some k =>
    simp only [hk] at h
    cases hn : newScale k with
    | none => simp [hn] at h
    | some sc => simp [hn] at h; subst h; exact ⟨k, hn⟩

/-- one converted item is a valid instance (and the scale carried on is still a scale `NewScale` built) -/
theorem convItem_valid (mode : Mode) (s : Scale) (hs : mode = .syllable → IsScale s) (it : Item) (i : Instance) (s' : Scale)
    (h : convItem mode s it = .ok (i, s')) : ValidInstance i ∧ (mode = .syllable → IsScale s') := by
  unfold convItem at h
  obtain ⟨i1, hmod, h⟩ := bind_ok h
  obtain ⟨s2, hsc, h⟩ := bind_ok h
  obtain ⟨vs, hvs, h⟩ := bind_ok h
  obtain ⟨hset, hrest⟩ := modifyMeta_ok _ _ i1 ⟨by simp, by simp, by simp, by simp⟩ hmod
  have hs2 := changeScale_ok mode s hs i1 s2 hsc
  have hvals : ∀ v ∈ vs, v.valid = true ∧ goUint v.num ∧ goUint v.den :=
    mapM_all convValue _ (fun a b => convValue_valid a b) it.vals vs hvs
  cases it with
  | rest v mm =>
    simp only [Except.ok.injEq, Prod.mk.injEq] at h
    obtain ⟨rfl, rfl⟩ := h
    refine ⟨⟨?_, ?_, hvals, hset.bpm, hset.velocity, hset.meter, hset.key⟩, hs2⟩
    · intro c hc; simp only at hc; rw [hrest.1] at hc; cases hc
    · intro c b hc; simp only at hc; rw [hrest.1] at hc; cases hc
  | chord d sym b v mm =>
    simp only at h
    obtain ⟨c, hc, h⟩ := bind_ok h
    simp only [Except.ok.injEq, Prod.mk.injEq] at h
    obtain ⟨rfl, rfl⟩ := h
    obtain ⟨hd, hb⟩ := convChord_valid mode s2 hs2 d sym b c hc
    refine ⟨⟨?_, ?_, hvals, hset.bpm, hset.velocity, hset.meter, hset.key⟩, hs2⟩
    · intro c' hc'; simp only [Option.some.injEq] at hc'; subst hc'; exact hd
    · intro c' b' hc' hb'; simp only [Option.some.injEq] at hc'; subst hc'; exact hb b' hb'

theorem convItems_valid (mode : Mode) : ∀ (items : List Item) (s : Scale) (_ : mode = .syllable → IsScale s) (is : List Instance),
    convItems mode s items = .ok is → ∀ i ∈ is, ValidInstance i := by
  intro items
  induction items with
  | nil => intro s _ is h i hi; simp [convItems] at h; subst h; cases hi
  | cons it rest ih =>
    intro s hs is h i hi
    simp only [convItems, bind, Except.bind, pure, Except.pure] at h
    cases hc : convItem mode s it with
    | error e => simp [hc] at h
    | ok p =>
      obtain ⟨i0, s'⟩ := p
      simp only [hc] at h
      obtain ⟨hv0, hs'⟩ := convItem_valid mode s hs it i0 s' hc
      cases hr : convItems mode s' rest with
      | error e => simp [hr] at h
      | ok is' =>
        simp only [hr, Except.ok.injEq] at h
        subst h
        simp only [List.mem_cons] at hi
        rcases hi with rfl | hi
        · exact hv0
        · exact ih s' hs' is' hr i hi

/-- **everything `text conv` prints is read back by `write` as the same instance** -/
theorem conv_output_roundtrips (mode : Mode) (key : String) (input : List Char) (is : List Instance)
    (h : cmdTextConvChars mode key input = .ok is) : ∀ i ∈ is, decodeInstance (encodeInstance i) = .ok i := by
  intro i hi
  apply instance_roundtrip
  unfold cmdTextConvChars at h
  simp only [bind, Except.bind, pure, Except.pure] at h
  cases mode with
  | syllable =>
    simp only at h
    cases hs : scaleOfFlag key with
    | error e => simp [hs] at h
    | ok s =>
      simp only [hs] at h
      have hsc : IsScale s := by
        unfold scaleOfFlag at hs
        simp only at hs
        split at hs
        · cases hs
        · rename_i k _
          cases hn : newScale k with
          | none => simp [hn] at hs
          | some sc => simp [hn] at hs; subst hs; exact ⟨k, hn⟩
      cases hp : parseTextChars input with
      | error e => simp [hp] at h
      | ok t =>
        simp only [hp] at h
        cases hcl : classify t with
        | error e => simp [hcl] at h
        | ok ty => simp only [hcl] at h; exact convItems_valid .syllable t s (fun _ => hsc) is h i hi
  | degree =>
    simp only at h
    cases hp : parseTextChars input with
    | error e => simp [hp] at h
    | ok t =>
      simp only [hp] at h
      cases hcl : classify t with
      | error e => simp [hcl] at h
      | ok ty => simp only [hcl] at h; exact convItems_valid .degree t default (by intro he; cases he) is h i hi

end Crd
