import Crd.Model.Note
import Crd.Spec.Theory

/-!
# Lemmas about `Degree.semitone`, `Degree.str`, `parseDegree` (helper lemmas for C15, C10, C01, C03)
-/
namespace Crd
open Generated Spec

def allQ : List Quality := [.unknown, .major, .minor, .perfect, .augmented, .diminished, .daug, .ddim]

theorem mem_allQ (q : Quality) : q ∈ allQ := by cases q <;> simp [allQ]

/-- base table + adjustment loop = textbook size, for every number 0..8 and every quality
(kernel evaluation over the regenerated table) -/
theorem base_ok : ∀ v ∈ List.range 9, ∀ q ∈ allQ, v ≠ 0 →
    baseSemitone degreeSemitoneTable ⟨v, q⟩ = specSize v q := by decide

/-- facts about the generated constants the general proof relies on -/
theorem octave_facts : octaveDegree.value = 8 ∧ (lookup octaveDegree degreeSemitoneTable).getD 0 = 12 := by decide

theorem spec_step (v : Nat) (q : Quality) (h : 1 ≤ v) : specSize (v + 7) q = (specSize v q).map (· + 12) := by
  unfold specSize
  have h1 : (v + 7 - 1) % 7 = (v - 1) % 7 := by omega
  have h2 : (v + 7 - 1) / 7 = (v - 1) / 7 + 1 := by omega
  have h0 : ¬ (v + 7 = 0) := by omega
  have h0' : ¬ (v = 0) := by omega
  simp only [h0, h0', if_false, h1, h2]
  generalize perfectClass ((v - 1) % 7) = pc
  generalize majorScale ((v - 1) % 7) = m
  cases q <;> cases pc <;> simp <;> omega

theorem spec_shift (v k : Nat) (q : Quality) (h : 1 ≤ v) :
    specSize (v + 7 * k) q = (specSize v q).map (· + 12 * (k : Int)) := by
  induction k with
  | zero => cases specSize v q <;> simp
  | succ k ih =>
    have : v + 7 * (k + 1) = (v + 7 * k) + 7 := by omega
    rw [this, spec_step _ _ (by omega), ih]
    cases specSize v q <;> simp
    omega

/-- **C15 core**: crd's interval size function is the textbook one, for every number and quality -/
theorem semitone_eq_spec (d : Degree) : d.semitone = specSize d.value d.name := by
  obtain ⟨v, q⟩ := d
  obtain ⟨h8, h12⟩ := octave_facts
  unfold Degree.semitone Degree.semitoneWith
  simp only [h8, h12]
  by_cases h0 : v = 0
  · simp [h0, specSize]
  · by_cases hle : v ≤ 8
    · simp only [h0, hle, if_true, if_false]
      exact base_ok v (by simp; omega) q (mem_allQ q) h0
    · simp only [h0, hle, if_false]
      have he1 : 2 ≤ v - (8 - 1) * ((v - 2) / (8 - 1)) := by omega
      have he2 : v - (8 - 1) * ((v - 2) / (8 - 1)) ≤ 8 := by omega
      generalize hk : (v - 2) / (8 - 1) = k at he1 he2 ⊢
      generalize he : v - (8 - 1) * k = e at he1 he2 ⊢
      have hv : v = e + 7 * k := by omega
      unfold simpleSemitone
      have he0 : ¬ (e = 0) := by omega
      simp only [he0, h8, he2, if_true, if_false]
      rw [base_ok e (by simp; omega) q (mem_allQ q) he0, hv, spec_shift e k q (by omega)]
      cases specSize e q <;> simp
      omega

/-- being a `valid` interval (crd: `NewDegree` succeeds) -/
def Degree.valid (d : Degree) : Bool := d.semitone.isSome

theorem newDegree_eq (v : Nat) (q : Quality) :
    newDegree v q = if (specSize v q).isSome then some ⟨v, q⟩ else none := by
  unfold newDegree; rw [semitone_eq_spec]

/-- major and perfect (resp. minor and perfect) never both exist for a number -/
theorem spec_major_perfect_excl (v : Nat) : (specSize v .major).isSome → specSize v .perfect = none := by
  unfold specSize
  by_cases h : v = 0 <;> simp [h]
  cases perfectClass ((v - 1) % 7) <;> simp

theorem spec_minor_none_of_perfect (v : Nat) : (specSize v .perfect).isSome → specSize v .major = none := by
  unfold specSize
  by_cases h : v = 0 <;> simp [h]
  cases perfectClass ((v - 1) % 7) <;> simp

/-- facts about the generated coerce tables (kernel evaluation) -/
theorem coerce_facts :
    Quality.coerce .major = .majPerf ∧ Quality.coerce .perfect = .majPerf ∧ Quality.coerce .minor = .minDim ∧
    Quality.coerce .diminished = .dim ∧ Quality.coerce .augmented = .aug ∧ Quality.coerce .daug = .daug ∧
    Quality.coerce .ddim = .ddim ∧ Quality.coerce .unknown = .unknown ∧
    Coerce.str? .majPerf = some "" ∧ Coerce.str? .minDim = some "b" ∧ Coerce.str? .aug = some "#" ∧
    Coerce.str? .dim = some "bb" ∧ Coerce.str? .daug = some "##" ∧ Coerce.str? .ddim = some "bbb" ∧
    Coerce.str? .unknown = none := by decide

/-- `CoerceDegreeName.Degree` recovers a valid degree from its coerce name and number -/
theorem coerce_degree_of_valid (d : Degree) (h : d.valid) : d.name.coerce.degree d.value = some d := by
  obtain ⟨v, q⟩ := d
  have hs : (specSize v q).isSome := by unfold Degree.valid at h; rwa [semitone_eq_spec] at h
  obtain ⟨c1, c2, c3, c4, c5, c6, c7, c8, -⟩ := coerce_facts
  cases q
  · -- unknown is never valid
    simp [specSize] at hs
  · simp only [c1, Coerce.degree, newDegree_eq, hs, if_true]; rfl
  · simp only [c3, Coerce.degree, newDegree_eq, hs, if_true]; rfl
  · simp only [c2, Coerce.degree, newDegree_eq, hs, if_true]
    have := spec_minor_none_of_perfect v hs
    simp [this]
  · simp only [c5, Coerce.degree, newDegree_eq, hs, if_true]
  · simp only [c4, Coerce.degree, newDegree_eq, hs, if_true]
  · simp only [c6, Coerce.degree, newDegree_eq, hs, if_true]
  · simp only [c7, Coerce.degree, newDegree_eq, hs, if_true]

end Crd
