import Crd.Lemmas.Degree

/-!
# `ParseDegree` inverts `Degree.String` (with Go's `strings.Contains` / `strings.Trim` semantics and the
ordered symbol loop), for every valid interval whose number fits a Go `uint`.
-/
namespace Crd
open Generated Spec

theorem contains_none (x : Char) (rest : List Char) :
    ∀ l : List Char, (∀ c ∈ l, c ≠ x) → containsL l (x :: rest) = false := by
  intro l; induction l with
  | nil => intro _; simp [containsL]
  | cons c cs ih =>
    intro h
    have hc : c ≠ x := h c (by simp)
    have := ih (fun c hc' => h c (by simp [hc']))
    simp [containsL, List.isPrefixOf, this, Ne.symm hc]

theorem digit_ne_b (c : Char) (h : isDigit c) : c ≠ 'b' := by
  intro e; subst e; revert h; decide
theorem digit_ne_sharp (c : Char) (h : isDigit c) : c ≠ '#' := by
  intro e; subst e; revert h; decide

theorem dropWhile_head {p : Char → Bool} (d : Char) (t : List Char) (h : p d = false) :
    (d :: t).dropWhile p = d :: t := by simp [List.dropWhile, h]

theorem trimRight_keep (cut : List Char) (ds : List Char) (h : ∀ c ∈ ds, cut.contains c = false) :
    trimRightSet cut ds = ds := by
  unfold trimRightSet
  cases hr : ds.reverse with
  | nil => simp at hr; simp [hr]
  | cons d t =>
    have hmem : d ∈ ds := by
      have : d ∈ ds.reverse := by rw [hr]; simp
      simpa using this
    have hd : (fun x => cut.contains x) d = false := h d hmem
    rw [dropWhile_head d t hd, ← hr]; simp

/-- parsing the decimal print of a number -/
theorem parseUint_toDigits (n : Nat) (h : n < 2 ^ 64) : parseUint (Nat.toDigits 10 n) = some n := by
  unfold parseUint
  have hne : (Nat.toDigits 10 n).isEmpty = false := by
    cases h' : Nat.toDigits 10 n with
    | nil => exact absurd h' Nat.toDigits_ne_nil
    | cons _ _ => rfl
  have hall : (Nat.toDigits 10 n).all isDigit = true := by
    rw [List.all_eq_true]; intro c hc
    exact Nat.isDigit_of_mem_toDigits (by decide) (by decide) hc
  have hv : digitsVal (Nat.toDigits 10 n) = n := by
    have := @Nat.ofDigitChars_ten_toDigits n
    simpa [digitsVal, Nat.ofDigitChars] using this
  simp [hne, hall, hv, uintMax, h]

theorem digits_all (n : Nat) : ∀ c ∈ Nat.toDigits 10 n, isDigit c = true :=
  fun _ hc => Nat.isDigit_of_mem_toDigits (by decide) (by decide) hc

theorem symbols_fact : parseDegreeSymbols =
    [("bbb", .ddim), ("##", .daug), ("bb", .dim), ("b", .minDim), ("#", .aug), ("", .majPerf)] := by decide

theorem str_lits : "bbb".toList = ['b','b','b'] ∧ "##".toList = ['#','#'] ∧ "bb".toList = ['b','b'] ∧
    "b".toList = ['b'] ∧ "#".toList = ['#'] ∧ "".toList = [] := by decide

/-- the loop of `ParseDegree` finds exactly the prefix that `Degree.String` wrote -/
theorem parse_print (c : Coerce) (pre : String) (hpre : c.str? = some pre)
    (ds : List Char) (hne : ds ≠ []) (hd : ∀ x ∈ ds, isDigit x = true) (n : Nat) (hn : parseUint ds = some n) :
    parseSyms parseDegreeSymbols (pre.toList ++ ds) = .ok c n := by
  obtain ⟨d, t, rfl⟩ : ∃ d t, ds = d :: t := by cases ds <;> simp_all
  have hb : ∀ c ∈ d :: t, c ≠ 'b' := fun c hc => digit_ne_b c (hd c hc)
  have hs : ∀ c ∈ d :: t, c ≠ '#' := fun c hc => digit_ne_sharp c (hd c hc)
  have hdb : d ≠ 'b' := hb d (by simp)
  have hds : d ≠ '#' := hs d (by simp)
  have cb := fun rest => contains_none 'b' rest (d :: t) hb
  have cs := fun rest => contains_none '#' rest (d :: t) hs
  have cbt := fun rest => contains_none 'b' rest t (fun c hc => hb c (by simp [hc]))
  have cst := fun rest => contains_none '#' rest t (fun c hc => hs c (by simp [hc]))
  have tb1 := trimRight_keep ['b'] (d :: t) (by intro c hc; simp [hb c hc])
  have tb2 := trimRight_keep ['b','b'] (d :: t) (by intro c hc; simp [hb c hc])
  have tb3 := trimRight_keep ['b','b','b'] (d :: t) (by intro c hc; simp [hb c hc])
  have ts1 := trimRight_keep ['#'] (d :: t) (by intro c hc; simp [hs c hc])
  have ts2 := trimRight_keep ['#','#'] (d :: t) (by intro c hc; simp [hs c hc])
  obtain ⟨l1, l2, l3, l4, l5, l6⟩ := str_lits
  obtain ⟨-, -, -, -, -, -, -, -, s1, s2, s3, s4, s5, s6, s7⟩ := coerce_facts
  rw [symbols_fact]
  cases c
  · rw [s7] at hpre; cases hpre
  all_goals (first | rw [s1] at hpre | rw [s2] at hpre | rw [s3] at hpre | rw [s4] at hpre | rw [s5] at hpre | rw [s6] at hpre)
  all_goals cases hpre
  all_goals
    simp [parseSyms, l1, l2, l3, l4, l5, l6, containsL, List.isPrefixOf, trimSet, trimLeftSet,
      cb, cs, cbt, cst, tb1, tb2, tb3, ts1, ts2, hn, hdb, hds, Ne.symm hdb, Ne.symm hds, List.dropWhile]

/-- **C10/C15**: the printed notation of every valid interval reads back as the same interval -/
theorem degree_roundtrip (d : Degree) (hv : d.valid) (hb : d.value < 2 ^ 64) :
    parseDegree d.str.toList = some d := by
  have hc := coerce_degree_of_valid d hv
  obtain ⟨c1, c2, c3, c4, c5, c6, c7, c8, s1, s2, s3, s4, s5, s6, s7⟩ := coerce_facts
  have hne : d.name.coerce ≠ .unknown := by
    intro h; rw [h] at hc; simp [Coerce.degree] at hc
  obtain ⟨pre, hpre⟩ : ∃ pre, d.name.coerce.str? = some pre := by
    cases hq : d.name.coerce <;> simp_all
  unfold parseDegree Degree.str
  rw [hpre]
  simp only [Option.getD_some, String.toList_append, Nat.toString_eq_repr, Nat.toList_repr]
  rw [parse_print d.name.coerce pre hpre _ Nat.toDigits_ne_nil (digits_all d.value) d.value
    (parseUint_toDigits d.value hb)]
  exact hc

theorem newDegree_some {v : Nat} {q : Quality} {d : Degree} (h : newDegree v q = some d) : d.valid := by
  unfold newDegree at h
  split at h
  · cases h; assumption
  · cases h

theorem coerce_degree_valid {c : Coerce} {v : Nat} {d : Degree} (h : c.degree v = some d) : d.valid := by
  cases c <;> simp only [Coerce.degree] at h
  · cases h
  · cases h1 : newDegree v .major with
    | some x => rw [h1] at h; simp [Option.orElse] at h; subst h; exact newDegree_some h1
    | none => rw [h1] at h; simp [Option.orElse] at h; exact newDegree_some h
  · cases h1 : newDegree v .minor with
    | some x => rw [h1] at h; simp [Option.orElse] at h; subst h; exact newDegree_some h1
    | none => rw [h1] at h; simp [Option.orElse] at h; exact newDegree_some h
  all_goals exact newDegree_some h

/-- whatever `ParseDegree` accepts is a valid interval -/
theorem parse_valid (s : List Char) (d : Degree) (h : parseDegree s = some d) : d.valid := by
  unfold parseDegree at h
  split at h
  · exact coerce_degree_valid h
  · cases h

end Crd
