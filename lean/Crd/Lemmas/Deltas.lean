import Crd.Lemmas.Piece
import Crd.Lemmas.Vlq

/-!
# Every delta time `crd write` produces fits a four-byte variable-length quantity (after the D22 fix)
-/
namespace Crd
open Crd.Spec

def sumDeltas (ops : List (Nat × Ev)) : Nat := (ops.map (·.1)).sum

theorem absTimes_getLast (ops : List (Nat × Ev)) (c : Nat) (pre : List (Nat × Ev)) (T : Nat) (e : Ev)
    (h : absTimes c ops = pre ++ [(T, e)]) : T = c + sumDeltas ops := by
  induction ops generalizing c pre with
  | nil => simp [absTimes] at h
  | cons x r ih =>
    obtain ⟨d, ev⟩ := x
    simp only [absTimes] at h
    cases r with
    | nil =>
      simp only [absTimes] at h
      cases pre with
      | nil =>
        simp only [List.nil_append, List.cons.injEq, Prod.mk.injEq, and_true] at h
        simp [sumDeltas, ← h.1]
      | cons p ps => simp at h
    | cons y r' =>
      cases pre with
      | nil =>
        simp only [List.nil_append, List.cons.injEq] at h
        simp [absTimes] at h
      | cons p ps =>
        simp only [List.cons_append, List.cons.injEq] at h
        have := ih (c + d) ps h.2
        rw [this]; simp [sumDeltas]; omega

theorem delta_le_sum (ops : List (Nat × Ev)) : ∀ x ∈ ops, x.1 ≤ sumDeltas ops := by
  intro x hx
  induction ops with
  | nil => cases hx
  | cons y r ih =>
    simp only [sumDeltas, List.map_cons, List.sum_cons]
    rcases List.mem_cons.mp hx with rfl | h
    · omega
    · have := ih h; simp only [sumDeltas] at this; omega

/-- **every delta of every track is at most the length of the piece, hence at most 0x0FFFFFFF, hence written in at
most four bytes that the strict reader reads back exactly** -/
theorem deltas_fit (f : WriteFlags) (is : List Instance) (tracks : List Track) (h : cmdWriteTracks f is = .ok tracks) :
    ∀ t ∈ tracks, ∀ x ∈ t.ops, x.1 ≤ maxTicks ∧ ∀ rest, readVlq (vlq x.1 ++ rest) = some (x.1, rest) := by
  obtain ⟨d, N, is', hp, _, _, hlen, hall⟩ := write_refines f is tracks h
  obtain ⟨d', N', is'', hp', hfit⟩ := write_fits f is tracks h
  rw [hp] at hp'
  cases hp'
  intro t ht x hx
  obtain ⟨i, hi, hti⟩ := List.getElem_of_mem ht
  have hiN : i < N := by omega
  obtain ⟨t', ht', _, htl⟩ := hall i hiN
  have : t' = t := by
    rw [List.getElem?_eq_getElem hi] at ht'
    simpa [hti] using ht'.symm
  subst this
  have hT := absTimes_getLast t'.ops 0 _ _ _ htl
  have hle := delta_le_sum t'.ops x hx
  have hx28 : x.1 ≤ maxTicks := by omega
  exact ⟨hx28, fun rest => readVlq_vlq x.1 hx28 rest⟩

end Crd
