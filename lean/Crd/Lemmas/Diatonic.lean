import Crd.Model.Raw
import Crd.Props.C13
import Crd.Props.C16

/-!
# The composed pipeline on the diatonic chords of one key (kernel-evaluable predicate for C17)
-/
namespace Crd
open Crd.Spec Crd.Props.C13 Crd.Props.C16

/-- everything C17 says about the i-th listed chord of a key, evaluated through the COMPOSED model:
lexer → parser → classifier → syllable converter (key K) → dictionary → play.Key.Apply (key K) -/
def diatonicChordOK (k : Key) (s : Scale) (seventh : Bool) (i : Nat) (str : String) : Bool :=
  match cmdTextConvChars .syllable k.str (str.toList ++ "[1]".toList) with
  | .ok [inst] =>
    (match inst.chord, s.notes[i]? with
     | some c, some note =>
       -- written on the i-th scale note: the text starts with that note's spelling and converts to degree i+1
       (note.str.toList.isPrefixOf str.toList) && c.degree.value == i + 1 && c.base == none &&
       -- carries the quality of the harmonisation (stacked thirds on the scale), and the symbol is in the dictionary
       some c.name == diatonicSymbol k.minor seventh i && (builtin.chord c.name).isSome &&
       -- and sounds only notes of the key
       (match applyChord builtin k c, k.semitone? with
        | .ok keys, some t =>
          keys.length == (if seventh then 5 else 4) &&
          keys.all fun x => (scaleOffsets k.minor).contains ((Int.ofNat x - 60 - t).emod 12)
        | _, _ => false)
     | _, _ => false)
  | _ => false

def diatonicKeyOK (k : Key) : Bool :=
  match newScale k with
  | none => false
  | some s =>
    [false, true].all fun sev =>
      let l := diatonicChords s sev
      l.length == 7 && ((List.range 7).all fun i => match l[i]? with | some str => diatonicChordOK k s sev i str | none => false)

end Crd
