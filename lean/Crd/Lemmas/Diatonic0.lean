import Crd.Lemmas.Diatonic
namespace Crd
open Crd.Props.C13
set_option maxRecDepth 100000 in
theorem diatonic_part0 : ∀ k ∈ (requiredKeys.drop 0).take 7, diatonicKeyOK k = true := by decide
end Crd
