import Crd.Lemmas.Diatonic
namespace Crd
open Crd.Props.C13
set_option maxRecDepth 100000 in
theorem diatonic_part1 : ∀ k ∈ (requiredKeys.drop 7).take 7, diatonicKeyOK k = true := by decide
end Crd
