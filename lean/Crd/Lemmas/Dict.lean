import Crd.Model.Dict

/-!
# Lemmas about the chord dictionary: what `validate` guarantees, fuel sufficiency of `extends` resolution,
cycles are rejected.
-/
namespace Crd

theorem lookup_mem {β} (k : String) : ∀ (l : List (String × β)) (v : β), lookup k l = some v → (k, v) ∈ l := by
  intro l; induction l with
  | nil => intro v h; simp [lookup] at h
  | cons x xs ih =>
    intro v h
    obtain ⟨a, b⟩ := x
    unfold lookup at h
    by_cases hab : a = k
    · simp [hab] at h; subst h; subst hab; simp
    · simp [hab] at h; exact List.mem_cons_of_mem _ (ih v h)

theorem lookupLast_mem {β} (k : String) (l : List (String × β)) (v : β) (h : lookupLast k l = some v) : (k, v) ∈ l := by
  have := lookup_mem k l.reverse v h
  simpa using this

/-- every chord reachable by a lookup is one of the entries `validate` inspects -/
theorem chord_mem_entries (d : Dict) (n : String) (c : ChordDef) (h : d.chord n = some c) : c ∈ d.entries := by
  unfold Dict.entries
  rw [List.mem_filterMap]
  refine ⟨n, ?_, h⟩
  have := lookupLast_mem n d.chords c h
  rw [List.mem_eraseDups]
  exact List.mem_map.mpr ⟨(n, c), this, rfl⟩

def Dict.bound (d : Dict) : Nat := (d.chords.map (·.1)).eraseDups.length + 1

/-- what a validated dictionary guarantees, for every entry a lookup can return -/
structure Dict.WF (d : Dict) : Prop where
  attrs : ∀ n c, d.chord n = some c → ∀ a ∈ c.attributes, (d.attr a).isSome = true
  parent : ∀ n c, d.chord n = some c → c.parent = "" ∨ (d.chord c.parent).isSome = true
  ends : ∀ n c, d.chord n = some c → d.chainEnds d.bound c = true

theorem validate_wf (d : Dict) (h : d.validate = true) : d.WF := by
  unfold Dict.validate at h
  rw [List.all_eq_true] at h
  refine ⟨?_, ?_, ?_⟩ <;> intro n c hc <;> have := h c (chord_mem_entries d n c hc) <;>
    simp only [Bool.and_eq_true, Bool.or_eq_true, decide_eq_true_eq, List.all_eq_true] at this
  · exact this.1.1
  · exact this.1.2
  · exact this.2

/-- and conversely: `validate` is exactly these three conditions over the visible entries -/
theorem wf_validate (d : Dict)
    (h1 : ∀ c ∈ d.entries, ∀ a ∈ c.attributes, (d.attr a).isSome = true)
    (h2 : ∀ c ∈ d.entries, c.parent = "" ∨ (d.chord c.parent).isSome = true)
    (h3 : ∀ c ∈ d.entries, d.chainEnds d.bound c = true) : d.validate = true := by
  unfold Dict.validate
  rw [List.all_eq_true]
  intro c hc
  simp only [Bool.and_eq_true, Bool.or_eq_true, decide_eq_true_eq, List.all_eq_true]
  exact ⟨⟨h1 c hc, h2 c hc⟩, h3 c hc⟩

/-- own attributes of a chord, resolved -/
def Dict.own (d : Dict) (c : ChordDef) : List Attr := c.attributes.map fun a => (d.attr a).getD ⟨"", ⟨0, .unknown⟩⟩

/-- the intended meaning of `extends`: parent's notes first (transitively), then own; defined with the chain
length as fuel -/
def Dict.resolve (d : Dict) : Nat → ChordDef → List Attr
  | 0, c => d.own c
  | f+1, c =>
    if c.parent = "" then d.own c
    else match d.chord c.parent with
      | none => d.own c
      | some p => d.resolve f p ++ d.own c

/-- with enough fuel the recursion of `GetChordAttributes` computes `resolve`, for any larger fuel too -/
theorem chordAttrsF_eq (d : Dict) (hp : ∀ n c, d.chord n = some c → c.parent = "" ∨ (d.chord c.parent).isSome = true) :
    ∀ (f : Nat) (n : String) (c : ChordDef), d.chord n = some c → d.chainEnds f c = true →
      ∀ g, f + 1 ≤ g → d.chordAttrsF g n = some (d.resolve f c) := by
  intro f
  induction f with
  | zero =>
    intro n c hc he g hg
    obtain ⟨g', rfl⟩ : ∃ g', g = g' + 1 := ⟨g - 1, by omega⟩
    have hpar : c.parent = "" := by simpa [Dict.chainEnds] using he
    simp [Dict.chordAttrsF, hc, hpar, Dict.resolve, Dict.own]
  | succ f ih =>
    intro n c hc he g hg
    obtain ⟨g', rfl⟩ : ∃ g', g = g' + 1 := ⟨g - 1, by omega⟩
    by_cases hpar : c.parent = ""
    · simp [Dict.chordAttrsF, hc, hpar, Dict.resolve, Dict.own]
    · rcases hp n c hc with h | h
      · exact absurd h hpar
      · obtain ⟨p, hpc⟩ : ∃ p, d.chord c.parent = some p := by
          cases hx : d.chord c.parent <;> simp_all
        have he' : d.chainEnds f p = true := by
          simpa [Dict.chainEnds, hpar, hpc] using he
        have := ih c.parent p hpc he' g' (by omega)
        simp [Dict.chordAttrsF, hc, hpar, Dict.resolve, hpc, this, Dict.own]

theorem chordAttrsF_succ (d : Dict) (f : Nat) (n : String) (c : ChordDef) (hc : d.chord n = some c) :
    d.chordAttrsF (f + 1) n =
      some ((if c.parent = "" then [] else (d.chordAttrsF f c.parent).getD []) ++ d.own c) := by
  simp [Dict.chordAttrsF, hc, Dict.own]

theorem bound_le_fuel (d : Dict) : d.bound + 1 ≤ d.fuel := by
  unfold Dict.bound Dict.fuel; omega

/-- `extends` chains: `p` is reached from `c` by following parents at least once -/
inductive Dict.Reach (d : Dict) : ChordDef → ChordDef → Prop
  | step (c p : ChordDef) (h1 : c.parent ≠ "") (h2 : d.chord c.parent = some p) : Dict.Reach d c p
  | trans (c p q : ChordDef) (h1 : c.parent ≠ "") (h2 : d.chord c.parent = some p) (h3 : Dict.Reach d p q) : Dict.Reach d c q

theorem reach_first {d : Dict} {c q : ChordDef} (h : d.Reach c q) :
    ∃ p, c.parent ≠ "" ∧ d.chord c.parent = some p ∧ (p = q ∨ d.Reach p q) := by
  cases h with
  | step _ _ h1 h2 => exact ⟨q, h1, h2, Or.inl rfl⟩
  | trans _ p _ h1 h2 h3 => exact ⟨p, h1, h2, Or.inr h3⟩

theorem reach_append {d : Dict} {a b c : ChordDef} (h1 : d.Reach a b) (h2 : d.Reach b c) : d.Reach a c := by
  induction h1 with
  | step x p hx hp => exact .trans x p c hx hp h2
  | trans x p q hx hp _ ih => exact .trans x p c hx hp (ih h2)

/-- a chord on an `extends` cycle never passes the chain test, whatever the bound -/
theorem cycle_never_ends (d : Dict) : ∀ (f : Nat) (c : ChordDef), d.Reach c c → d.chainEnds f c = false := by
  intro f
  induction f with
  | zero =>
    intro c h
    obtain ⟨p, h1, _, _⟩ := reach_first h
    simp [Dict.chainEnds, h1]
  | succ f ih =>
    intro c h
    obtain ⟨p, h1, h2, h3⟩ := reach_first h
    have hp : d.Reach p p := by
      rcases h3 with rfl | h3
      · exact h
      · exact reach_append h3 (.step c p h1 h2)
    simp [Dict.chainEnds, h1, h2, ih p hp]

end Crd
