import Crd.Model.Dict

/-!
# Names and symbols share one space; the last definition that claims a name has it
-/
namespace Crd

theorem lookup_append {α β} [DecidableEq α] (k : α) (l1 l2 : List (α × β)) :
    lookup k (l1 ++ l2) = (lookup k l1).orElse fun _ => lookup k l2 := by
  induction l1 with
  | nil => simp [lookup]
  | cons x xs ih =>
    obtain ⟨a, b⟩ := x
    simp only [List.cons_append, lookup]
    by_cases h : a = k
    · simp [h]
    · simp [h, ih]

/-- the chord found under a name: the LAST chord of the list whose long name or display symbol is that name;
among the two, the display symbol is registered after the long name, which matters only for one chord using the
same string twice -/
theorem chord_lookup_last (chords : List ChordDef) (attrs : List Attr) (n : String) :
    (buildRaw attrs chords).chord n = chords.reverse.find? (fun c => c.display = n || c.name = n) := by
  unfold Dict.chord lookupLast buildRaw
  simp only
  induction chords with
  | nil => simp [lookup]
  | cons c cs ih =>
    simp only [List.flatMap_cons, List.reverse_append, List.reverse_cons, List.reverse_nil, List.nil_append,
      List.cons_append, List.singleton_append]
    rw [lookup_append, lookup_append, ih, List.find?_append]
    cases hf : List.find? (fun c => c.display = n || c.name = n) cs.reverse with
    | some x => simp [Option.orElse]
    | none =>
      simp only [Option.orElse, lookup, List.find?_cons, List.find?_nil]
      by_cases h1 : c.display = n
      · simp [h1]
      · by_cases h2 : c.name = n
        · simp [h1, h2]
        · simp [h1, h2]

end Crd
