import Crd.Spec.Grammar
import Crd.Generated.Grammar

/-!
# The spelled-out chord language is exactly what the grammar of chords.y (as regenerated data) derives
-/
namespace Crd
open Spec Generated

abbrev G := grammarRules

theorem derN_tok (n : Nat) (k : TK) (ts : List TK) : DerN G n (.t k) ts ↔ ts = [k] := by
  cases n <;> simp [DerN]

theorem seqD_mono {D D' : Sym → List TK → Prop} (h : ∀ s t, D s t → D' s t) :
    ∀ ss ts, SeqD D ss ts → SeqD D' ss ts := by
  intro ss
  induction ss with
  | nil => intro ts h'; exact h'
  | cons s ss ih =>
    intro ts h'
    obtain ⟨t1, t2, rfl, h1, h2⟩ := h'
    exact ⟨t1, t2, rfl, h _ _ h1, ih _ h2⟩

theorem derN_succ : ∀ n s ts, DerN G n s ts → DerN G (n + 1) s ts := by
  intro n
  induction n with
  | zero =>
    intro s ts h
    cases s with
    | t k => simpa [DerN] using h
    | n a => simp [DerN] at h
  | succ n ih =>
    intro s ts h
    cases s with
    | t k => simpa [DerN] using h
    | n a =>
      obtain ⟨r, hr, hl, hs⟩ := h
      exact ⟨r, hr, hl, seqD_mono ih _ _ hs⟩

theorem derN_le {n m : Nat} (h : n ≤ m) (s : Sym) (ts : List TK) : DerN G n s ts → DerN G m s ts := by
  induction h with
  | refl => exact id
  | step _ ih => intro h'; exact derN_succ _ _ _ (ih h')

theorem seq_common : ∀ ss ts, SeqD (Derives G) ss ts → ∃ N, SeqD (DerN G N) ss ts := by
  intro ss
  induction ss with
  | nil => intro ts h; exact ⟨0, h⟩
  | cons s ss ih =>
    intro ts h
    obtain ⟨t1, t2, rfl, ⟨n1, h1⟩, h2⟩ := h
    obtain ⟨n2, h2'⟩ := ih _ h2
    refine ⟨max n1 n2, t1, t2, rfl, derN_le (Nat.le_max_left _ _) _ _ h1, ?_⟩
    exact seqD_mono (fun s t => derN_le (Nat.le_max_right n1 n2) s t) _ _ h2'

theorem der_tok (k : TK) : Derives G (.t k) [k] := ⟨0, by simp [DerN]⟩

theorem der_rule (r : Rule) (hr : r ∈ G) (ts : List TK) (h : SeqD (Derives G) r.rhs ts) : Derives G (.n r.lhs) ts := by
  obtain ⟨N, hN⟩ := seq_common _ _ h
  exact ⟨N + 1, r, hr, rfl, hN⟩

/-! ## grammar ⇒ spelled-out language -/

theorem lang_of_derN : ∀ n a ts, DerN G n (.n a) ts → Lang a ts := by
  intro n
  induction n with
  | zero => intro a ts h; simp [DerN] at h
  | succ n ih =>
    intro a ts h
    obtain ⟨r, hr, hl, hs⟩ := h
    simp only [G, grammarRules, List.mem_cons, List.mem_nil_iff, or_false] at hr
    rcases hr with rfl | rfl | rfl | rfl | rfl | rfl | rfl | rfl | rfl | rfl | rfl | rfl | rfl | rfl |
      rfl | rfl | rfl | rfl | rfl | rfl | rfl | rfl | rfl | rfl | rfl | rfl | rfl | rfl
    all_goals subst hl
    all_goals simp only [SeqD, derN_tok] at hs
    -- 1 result: chord_list
    · obtain ⟨t1, t2, rfl, h1, rfl⟩ := hs; simpa [Lang] using ih _ _ h1
    -- 2 chord_list: chord_or_rest
    · obtain ⟨t1, t2, rfl, h1, rfl⟩ := hs; simpa [Lang] using LList.one _ (ih _ _ h1)
    -- 3 chord_list: chord_list chord_or_rest
    · obtain ⟨t1, _, rfl, h1, t2, t3, rfl, h2, rfl⟩ := hs
      simpa [Lang] using LList.more _ _ (ih _ _ h1) (ih _ _ h2)
    -- 4 chord_or_rest: rest
    · obtain ⟨t1, t2, rfl, h1, rfl⟩ := hs
      obtain ⟨vs, m, hv, hm, rfl⟩ := ih _ _ h1
      simpa [Lang] using LItem.rest vs m hv hm
    -- 5 chord_or_rest: chod
    · obtain ⟨t1, t2, rfl, h1, rfl⟩ := hs
      obtain ⟨d, s, b, vs, m, hd, hs', hb, hv, hm, rfl⟩ := ih _ _ h1
      simpa [Lang] using LItem.chord d s b vs m hd hs' hb hv hm
    -- 6 rest: REST LBRA values RBRA meta
    · obtain ⟨_, _, rfl, rfl, _, _, rfl, rfl, vs, _, rfl, hv, _, _, rfl, rfl, m, _, rfl, hm, rfl⟩ := hs
      exact ⟨vs, m, ih _ _ hv, ih _ _ hm, by simp⟩
    -- 7 chod: degree symbol base LBRA values RBRA meta
    · obtain ⟨d, _, rfl, hd, s, _, rfl, hs', b, _, rfl, hb, _, _, rfl, rfl, vs, _, rfl, hv, _, _, rfl, rfl, m, _, rfl, hm, rfl⟩ := hs
      exact ⟨d, s, b, vs, m, ih _ _ hd, ih _ _ hs', ih _ _ hb, ih _ _ hv, ih _ _ hm, by simp⟩
    -- 8 degree: degree_head
    · obtain ⟨t1, t2, rfl, h1, rfl⟩ := hs
      have := ih _ _ h1
      simp only [Lang] at this ⊢
      rcases this with rfl | rfl <;> simp <;> constructor
    -- 9 degree: degree_head accidental
    · obtain ⟨t1, _, rfl, h1, t2, _, rfl, h2, rfl⟩ := hs
      have a := ih _ _ h1
      have b := ih _ _ h2
      simp only [Lang] at a b ⊢
      rcases a with rfl | rfl <;> rcases b with rfl | rfl <;> simp <;> constructor
    -- 10, 11 degree_head
    · obtain ⟨_, _, rfl, rfl, rfl⟩ := hs; simp [Lang]
    · obtain ⟨_, _, rfl, rfl, rfl⟩ := hs; simp [Lang]
    -- 12, 13 accidental
    · obtain ⟨_, _, rfl, rfl, rfl⟩ := hs; simp [Lang]
    · obtain ⟨_, _, rfl, rfl, rfl⟩ := hs; simp [Lang]
    -- 14 symbol: ε
    · subst hs; exact LSymbol.none
    -- 15 symbol: simple_symbol
    · obtain ⟨t1, t2, rfl, h1, rfl⟩ := hs
      have := ih _ _ h1; simp only [Lang] at this ⊢; subst this; simpa using LSymbol.plain
    -- 16 symbol: UNDERSCORE simple_symbol
    · obtain ⟨_, _, rfl, rfl, t1, _, rfl, h1, rfl⟩ := hs
      have := ih _ _ h1; simp only [Lang] at this ⊢; subst this; simpa using LSymbol.under
    -- 17 simple_symbol: SYMBOL
    · obtain ⟨_, _, rfl, rfl, rfl⟩ := hs; simp [Lang]
    -- 18 base: ε
    · subst hs; exact LBase.none
    -- 19 base: SLASH degree
    · obtain ⟨_, _, rfl, rfl, d, _, rfl, hd, rfl⟩ := hs
      simpa [Lang] using LBase.slash d (ih _ _ hd)
    -- 20 values: value
    · obtain ⟨t1, t2, rfl, h1, rfl⟩ := hs; simpa [Lang] using LValues.one _ (ih _ _ h1)
    -- 21 values: values COMMA value
    · obtain ⟨vs, _, rfl, hv, _, _, rfl, rfl, v, _, rfl, h2, rfl⟩ := hs
      simpa [Lang] using LValues.more vs v (ih _ _ hv) (ih _ _ h2)
    -- 22 value: NUMBER
    · obtain ⟨_, _, rfl, rfl, rfl⟩ := hs; exact LValue.whole
    -- 23 value: NUMBER SLASH NUMBER
    · obtain ⟨_, _, rfl, rfl, _, _, rfl, rfl, _, _, rfl, rfl, rfl⟩ := hs; exact LValue.frac
    -- 24 meta: ε
    · subst hs; exact LMeta.none
    -- 25 meta: LCBRA meta_internal RCBRA
    · obtain ⟨_, _, rfl, rfl, ms, _, rfl, hm, _, _, rfl, rfl, rfl⟩ := hs
      simpa [Lang] using LMeta.some ms (ih _ _ hm)
    -- 26 meta_internal: metadata
    · obtain ⟨t1, t2, rfl, h1, rfl⟩ := hs
      have := ih _ _ h1; simp only [Lang] at this ⊢; subst this; simpa using LMetaInt.one
    -- 27 meta_internal: meta_internal COMMA metadata
    · obtain ⟨ms, _, rfl, hm, _, _, rfl, rfl, md, _, rfl, h2, rfl⟩ := hs
      have := ih _ _ h2; simp only [Lang] at this; subst this
      simpa [Lang] using LMetaInt.more ms (ih _ _ hm)
    -- 28 metadata: METADATA EQUAL METADATA
    · obtain ⟨_, _, rfl, rfl, _, _, rfl, rfl, _, _, rfl, rfl, rfl⟩ := hs; simp [Lang]

theorem lang_of_derives (a : NT) (ts : List TK) (h : Derives G (.n a) ts) : Lang a ts := by
  obtain ⟨n, hn⟩ := h; exact lang_of_derN n a ts hn

end Crd
