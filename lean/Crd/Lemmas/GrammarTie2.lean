import Crd.Lemmas.GrammarTie

/-!
# Spelled-out language ⇒ grammar: every string of `Lang a` has a derivation from the regenerated rules
-/
namespace Crd
open Spec Generated

/-- derive with an explicit rule of the generated grammar -/
theorem der_by (id : Nat) (a : NT) (rhs : List Sym) (hr : (⟨id, a, rhs⟩ : Rule) ∈ G) (ts : List TK)
    (h : SeqD (Derives G) rhs ts) : Derives G (.n a) ts := der_rule ⟨id, a, rhs⟩ hr ts h

theorem d_degree_head (ts : List TK) (h : ts = [.SYLLABLE] ∨ ts = [.NUMBER]) : Derives G (.n .degree_head) ts := by
  rcases h with rfl | rfl
  · exact der_by 10 .degree_head [.t .SYLLABLE] (by decide) _ ⟨_, [], rfl, der_tok _, rfl⟩
  · exact der_by 11 .degree_head [.t .NUMBER] (by decide) _ ⟨_, [], rfl, der_tok _, rfl⟩

theorem d_accidental (ts : List TK) (h : ts = [.SHARP] ∨ ts = [.FLAT]) : Derives G (.n .accidental) ts := by
  rcases h with rfl | rfl
  · exact der_by 12 .accidental [.t .SHARP] (by decide) _ ⟨_, [], rfl, der_tok _, rfl⟩
  · exact der_by 13 .accidental [.t .FLAT] (by decide) _ ⟨_, [], rfl, der_tok _, rfl⟩

theorem d_degree (ts : List TK) (h : LDegree ts) : Derives G (.n .degree) ts := by
  have one : ∀ hd, (hd = [TK.SYLLABLE] ∨ hd = [TK.NUMBER]) → Derives G (.n .degree) hd := fun hd hh =>
    der_by 8 .degree [.n .degree_head] (by decide) _ ⟨hd, [], by simp, d_degree_head _ hh, rfl⟩
  have two : ∀ hd ac, (hd = [TK.SYLLABLE] ∨ hd = [TK.NUMBER]) → (ac = [TK.SHARP] ∨ ac = [TK.FLAT]) → Derives G (.n .degree) (hd ++ ac) :=
    fun hd ac hh ha => der_by 9 .degree [.n .degree_head, .n .accidental] (by decide) _ ⟨hd, ac, rfl, d_degree_head _ hh, ac, [], by simp, d_accidental _ ha, rfl⟩
  cases h with
  | syl => exact one _ (Or.inl rfl)
  | num => exact one _ (Or.inr rfl)
  | sylSharp => exact two [.SYLLABLE] [.SHARP] (Or.inl rfl) (Or.inl rfl)
  | sylFlat => exact two [.SYLLABLE] [.FLAT] (Or.inl rfl) (Or.inr rfl)
  | numSharp => exact two [.NUMBER] [.SHARP] (Or.inr rfl) (Or.inl rfl)
  | numFlat => exact two [.NUMBER] [.FLAT] (Or.inr rfl) (Or.inr rfl)

theorem d_simple_symbol : Derives G (.n .simple_symbol) [.SYMBOL] :=
  der_by 17 .simple_symbol [.t .SYMBOL] (by decide) _ ⟨_, [], rfl, der_tok _, rfl⟩

theorem d_symbol (ts : List TK) (h : LSymbol ts) : Derives G (.n .symbol) ts := by
  cases h with
  | none => exact der_by 14 .symbol [] (by decide) _ rfl
  | plain => exact der_by 15 .symbol [.n .simple_symbol] (by decide) _ ⟨_, [], rfl, d_simple_symbol, rfl⟩
  | under => exact der_by 16 .symbol [.t .UNDERSCORE, .n .simple_symbol] (by decide) _ ⟨[.UNDERSCORE], [.SYMBOL], rfl, der_tok _, [.SYMBOL], [], rfl, d_simple_symbol, rfl⟩

theorem d_base (ts : List TK) (h : LBase ts) : Derives G (.n .base) ts := by
  cases h with
  | none => exact der_by 18 .base [] (by decide) _ rfl
  | slash d hd => exact der_by 19 .base [.t .SLASH, .n .degree] (by decide) _ ⟨[.SLASH], d, rfl, der_tok _, d, [], by simp, d_degree _ hd, rfl⟩

theorem d_value (ts : List TK) (h : LValue ts) : Derives G (.n .value) ts := by
  cases h with
  | whole => exact der_by 22 .value [.t .NUMBER] (by decide) _ ⟨_, [], rfl, der_tok _, rfl⟩
  | frac => exact der_by 23 .value [.t .NUMBER, .t .SLASH, .t .NUMBER] (by decide) _ ⟨[.NUMBER], [.SLASH, .NUMBER], rfl, der_tok _, [.SLASH], [.NUMBER], rfl, der_tok _, [.NUMBER], [], rfl, der_tok _, rfl⟩

theorem d_values (ts : List TK) (h : LValues ts) : Derives G (.n .values) ts := by
  induction h with
  | one v hv => exact der_by 20 .values [.n .value] (by decide) _ ⟨v, [], by simp, d_value _ hv, rfl⟩
  | more vs v _ hv ih => exact der_by 21 .values [.n .values, .t .COMMA, .n .value] (by decide) _ ⟨vs, .COMMA :: v, rfl, ih, [.COMMA], v, rfl, der_tok _, v, [], by simp, d_value _ hv, rfl⟩

theorem d_metadata : Derives G (.n .metadata) [.METADATA, .EQUAL, .METADATA] :=
  der_by 28 .metadata [.t .METADATA, .t .EQUAL, .t .METADATA] (by decide) _ ⟨[.METADATA], [.EQUAL, .METADATA], rfl, der_tok _, [.EQUAL], [.METADATA], rfl, der_tok _, [.METADATA], [], rfl, der_tok _, rfl⟩

theorem d_metaInt (ts : List TK) (h : LMetaInt ts) : Derives G (.n .meta_internal) ts := by
  induction h with
  | one => exact der_by 26 .meta_internal [.n .metadata] (by decide) _ ⟨_, [], rfl, d_metadata, rfl⟩
  | more ms _ ih => exact der_by 27 .meta_internal [.n .meta_internal, .t .COMMA, .n .metadata] (by decide) _ ⟨ms, [.COMMA, .METADATA, .EQUAL, .METADATA], rfl, ih, [.COMMA], [.METADATA, .EQUAL, .METADATA], rfl, der_tok _,
       [.METADATA, .EQUAL, .METADATA], [], rfl, d_metadata, rfl⟩

theorem d_meta (ts : List TK) (h : LMeta ts) : Derives G (.n .metaN) ts := by
  cases h with
  | none => exact der_by 24 .metaN [] (by decide) _ rfl
  | some ms hm => exact der_by 25 .metaN [.t .LCBRA, .n .meta_internal, .t .RCBRA] (by decide) _ ⟨[.LCBRA], ms ++ [.RCBRA], rfl, der_tok _, ms, [.RCBRA], rfl, d_metaInt _ hm, [.RCBRA], [], rfl, der_tok _, rfl⟩

theorem d_rest (vs m : List TK) (hv : LValues vs) (hm : LMeta m) : Derives G (.n .rest) (.REST :: .LBRA :: vs ++ .RBRA :: m) :=
  der_by 6 .rest [.t .REST, .t .LBRA, .n .values, .t .RBRA, .n .metaN] (by decide) _ ⟨[.REST], .LBRA :: vs ++ .RBRA :: m, rfl, der_tok _, [.LBRA], vs ++ .RBRA :: m, rfl, der_tok _,
     vs, .RBRA :: m, rfl, d_values _ hv, [.RBRA], m, rfl, der_tok _, m, [], by simp, d_meta _ hm, rfl⟩

theorem d_chod (d s b vs m : List TK) (hd : LDegree d) (hs : LSymbol s) (hb : LBase b) (hv : LValues vs) (hm : LMeta m) :
    Derives G (.n .chod) (d ++ s ++ b ++ .LBRA :: vs ++ .RBRA :: m) :=
  der_by 7 .chod [.n .degree, .n .symbol, .n .base, .t .LBRA, .n .values, .t .RBRA, .n .metaN] (by decide) _ ⟨d, s ++ b ++ .LBRA :: vs ++ .RBRA :: m, by simp, d_degree _ hd,
     s, b ++ .LBRA :: vs ++ .RBRA :: m, by simp, d_symbol _ hs,
     b, .LBRA :: vs ++ .RBRA :: m, by simp, d_base _ hb,
     [.LBRA], vs ++ .RBRA :: m, rfl, der_tok _, vs, .RBRA :: m, rfl, d_values _ hv, [.RBRA], m, rfl, der_tok _,
     m, [], by simp, d_meta _ hm, rfl⟩

theorem d_item (ts : List TK) (h : LItem ts) : Derives G (.n .chord_or_rest) ts := by
  cases h with
  | rest vs m hv hm => exact der_by 4 .chord_or_rest [.n .rest] (by decide) _ ⟨_, [], by simp, d_rest vs m hv hm, rfl⟩
  | chord d s b vs m hd hs hb hv hm => exact der_by 5 .chord_or_rest [.n .chod] (by decide) _ ⟨_, [], by simp, d_chod d s b vs m hd hs hb hv hm, rfl⟩

theorem d_list (ts : List TK) (h : LList ts) : Derives G (.n .chord_list) ts := by
  induction h with
  | one i hi => exact der_by 2 .chord_list [.n .chord_or_rest] (by decide) _ ⟨i, [], by simp, d_item _ hi, rfl⟩
  | more l i _ hi ih => exact der_by 3 .chord_list [.n .chord_list, .n .chord_or_rest] (by decide) _ ⟨l, i, rfl, ih, i, [], by simp, d_item _ hi, rfl⟩

theorem d_result (ts : List TK) (h : LList ts) : Derives G (.n .result) ts :=
  der_by 1 .result [.n .chord_list] (by decide) _ ⟨ts, [], by simp, d_list _ h, rfl⟩

/-- **the spelled-out language is the language of chords.y** (start symbol) -/
theorem lang_iff_derives (ts : List TK) : LList ts ↔ Derives G (.n .result) ts :=
  ⟨d_result ts, fun h => by simpa [Lang] using lang_of_derives .result ts h⟩

end Crd
