import Crd.Lemmas.RoundTrip
import Crd.Props.C03

/-!
# An instance printed by `text conv` / `write conv` is read back unchanged by `write` (C10)
-/
namespace Crd
open Generated

def sixDyns : List Dyn := [.pp, .p, .mp, .mf, .f, .ff]

def goUint (n : Nat) : Prop := n < 2 ^ 64

/-- the values the converters can produce: every field holds a meaningful value that fits Go's types -/
structure ValidInstance (i : Instance) : Prop where
  degree : ∀ c, i.chord = some c → c.degree.valid = true ∧ goUint c.degree.value
  base : ∀ c b, i.chord = some c → c.base = some b → b.valid = true ∧ goUint b.value
  values : ∀ v ∈ i.values, v.valid = true ∧ goUint v.num ∧ goUint v.den
  bpm : ∀ b, i.bpm = some b → 0 < b ∧ goUint b
  velocity : ∀ v, i.velocity = some v → v ∈ sixDyns
  meter : ∀ m, i.meter = some m → m.valid = true ∧ goUint m.num ∧ goUint m.den
  key : ∀ k, i.key = some k → k ∈ properKeys

theorem optM_rt {α β} (o : Option α) (g : α → β) (f : β → Except Err α) (h : ∀ a, o = some a → f (g a) = .ok a) :
    optM (o.map g) f = .ok o := by
  cases o with
  | none => rfl
  | some a => simp [optM, h a rfl, Except.map]

theorem mapM_rt {α β} (l : List α) (g : α → β) (f : β → Except Err α) (h : ∀ a ∈ l, f (g a) = .ok a) :
    (l.map g).mapM f = .ok l := by
  induction l with
  | nil => rfl
  | cons a as ih =>
    have h1 := h a (by simp)
    have h2 := ih (fun x hx => h x (by simp [hx]))
    simp only [List.map_cons, List.mapM_cons, h1, h2, bind, Except.bind, pure, Except.pure]

theorem decodeRat_rt (r : Rat') (hv : r.valid = true) (hn : goUint r.num) (hd : goUint r.den) : decodeRat r.str = .ok r := by
  unfold decodeRat
  rw [rat_roundtrip r.num r.den hn hd]
  simp [hv]

theorem decodeDegree_rt (d : Degree) (hv : d.valid = true) (hb : goUint d.value) : decodeDegree d.str = .ok d := by
  unfold decodeDegree; rw [degree_roundtrip d hv hb]

/-- **print then read = identity**, for every valid instance -/
theorem instance_roundtrip (i : Instance) (h : ValidInstance i) : decodeInstance (encodeInstance i) = .ok i := by
  obtain ⟨chord, values, bpm, velocity, meter, key, mta⟩ := i
  have hchord : optM (Option.map (fun (c : ChordIn) => (⟨some c.degree.str, c.name, c.base.map Degree.str⟩ : RawChord)) chord)
      decodeChord = .ok chord := by
    apply optM_rt
    intro c hc
    obtain ⟨hv, hb⟩ := h.degree c hc
    have hbase : optM (Option.map Degree.str c.base) decodeDegree = .ok c.base :=
      optM_rt c.base Degree.str decodeDegree (fun b hb' => decodeDegree_rt b (h.base c b hc hb').1 (h.base c b hc hb').2)
    simp only [decodeChord, decodeDegree_rt c.degree hv hb, hbase, Except.bind]
  have hvalues : (values.map Rat'.str).mapM decodeRat = .ok values :=
    mapM_rt values Rat'.str decodeRat (fun v hv => decodeRat_rt v (h.values v hv).1 (h.values v hv).2.1 (h.values v hv).2.2)
  have hbpm : optM (bpm.map toString) decodeBPM = .ok bpm :=
    optM_rt bpm toString decodeBPM (fun b hb => bpm_roundtrip b (h.bpm b hb).1 (h.bpm b hb).2)
  have hvel : optM (velocity.map Dyn.str) decodeDyn = .ok velocity :=
    optM_rt velocity Dyn.str decodeDyn (fun v hv => dyn_roundtrip v (h.velocity v hv))
  have hmeter : optM (meter.map Rat'.str) decodeRat = .ok meter :=
    optM_rt meter Rat'.str decodeRat (fun m hm => decodeRat_rt m (h.meter m hm).1 (h.meter m hm).2.1 (h.meter m hm).2.2)
  have hkey : optM (key.map Key.str) decodeKey = .ok key :=
    optM_rt key Key.str decodeKey (fun k hk => key_roundtrip k (h.key k hk))
  simp only [decodeInstance, encodeInstance, hchord, hvalues, hbpm, hvel, hmeter, hkey, Except.bind]

/-! ## what the converters produce is valid -/

theorem parseUint_bound (s : List Char) (n : Nat) (h : parseUint s = some n) : goUint n := by
  unfold parseUint at h
  by_cases h1 : (s.isEmpty || !s.all isDigit) = true
  · simp [h1] at h
  · simp only [h1] at h
    by_cases h2 : digitsVal s < uintMax
    · simp [h2] at h; subst h; exact h2
    · simp [h2] at h

theorem parseRat_bound (s : List Char) (r : Rat') (h : parseRat s = some r) : goUint r.num ∧ goUint r.den := by
  unfold parseRat at h
  split at h
  · rename_i a _
    cases hp : parseUint a with
    | none => simp [hp] at h
    | some n => simp [hp] at h; subst h; exact ⟨parseUint_bound a n hp, by show (1 : Nat) < 2 ^ 64; decide⟩
  · rename_i a b _
    cases hp : parseUint a with
    | none => simp [hp] at h
    | some n =>
      cases hq : parseUint b with
      | none => simp [hp, hq] at h
      | some d => simp [hp, hq] at h; subst h; exact ⟨parseUint_bound a n hp, parseUint_bound b d hq⟩

theorem letter_of_char : ∀ c ∈ "ABCDEFG".toList, Letter.ofString (String.singleton c) ∈ Letter.all := by decide

theorem dropWhile_first {α} (p : α → Bool) : ∀ (l : List α) (c : α) (r : List α), l.dropWhile p = c :: r → p c = false := by
  intro l
  induction l with
  | nil => intro c r h; simp at h
  | cons x xs ih =>
    intro c r h
    by_cases hx : p x = true
    · simp [List.dropWhile, hx] at h; exact ih c r h
    · simp [List.dropWhile, hx] at h; rw [← h.1]; simpa using hx

theorem mem_properKeys (l : Letter) (m : Bool) (a : Acc) (hl : l ∈ Letter.all) (ha : a = .natural ∨ a = .sharp ∨ a = .flat) :
    (⟨l, m, a⟩ : Key) ∈ properKeys := by
  simp only [properKeys, List.mem_flatMap, List.mem_map]
  exact ⟨l, hl, m, by cases m <;> simp, a, by rcases ha with rfl | rfl | rfl <;> simp, rfl⟩

theorem parseKey_proper (s : List Char) (k : Key) (h : parseKey s = some k) : k ∈ properKeys := by
  unfold parseKey at h
  generalize hd : s.dropWhile (fun c => !("ABCDEFG".toList.contains c)) = rest at h
  cases rest with
  | nil => simp at h
  | cons c r =>
    have hc : c ∈ "ABCDEFG".toList := by
      have := dropWhile_first _ s c r hd
      simp only [Bool.not_eq_false', List.contains_eq_mem, decide_eq_true_eq] at this
      exact this
    have hl := letter_of_char c hc
    simp only [Option.some.injEq] at h
    rw [← h]
    exact mem_properKeys _ _ _ hl (Crd.Props.C03.acc_ofString _)

end Crd
