import Crd.Lemmas.LexTrivia

/-!
# Inserting trivia after a token (other than a METADATA run) does not change that token nor what follows (C11)
-/
namespace Crd
open Generated

theorem spanW_cut (p : Char → Bool) (u r : List Char) (hu : ∀ c ∈ u, p c = true)
    (hr : ∀ c rest, r = c :: rest → p c = false) : spanW p (u ++ r) = (u, r) := by
  induction u with
  | nil =>
    cases r with
    | nil => rfl
    | cons c rest => simp [spanW, hr c rest rfl]
  | cons c cs ih =>
    have := ih (fun x hx => hu x (by simp [hx]))
    simp [spanW, hu c (by simp), this]

theorem spanW_eq (p : Char → Bool) (l : List Char) : spanW p l = ((spanW p l).1, (spanW p l).2) := rfl

/-- first rune of a non-empty trivia string: white space or the comment start -/
def StartsTrivia (w : List Char) : Prop := ∃ h t, w = h :: t ∧ (isSpace h = true ∨ h = commentStart)

theorem space_not_digit (c : Char) (h : isSpace c = true) : isDigitC c = false := by
  unfold isSpace at h; unfold isDigitC
  simp only [Bool.or_eq_true, Bool.and_eq_true, decide_eq_true_eq] at h
  cases hd : (decide (48 ≤ c.toNat) && decide (c.toNat ≤ 57)) with
  | false => rfl
  | true =>
    simp only [Bool.and_eq_true, decide_eq_true_eq] at hd
    omega

theorem space_not_symbol (c : Char) (h : isSpace c = true) : isSymbolRune c = false := by
  unfold isSymbolRune; rw [symbol_excludes_space]; simp [h]

theorem trivia_head_stops (h : Char) (hh : isSpace h = true ∨ h = commentStart) :
    isDigitC h = false ∧ isSymbolRune h = false := by
  obtain ⟨_, _, _, c4, c5, _⟩ := comment_facts
  rcases hh with hh | rfl
  · exact ⟨space_not_digit h hh, space_not_symbol h hh⟩
  · have hmem : commentStart ∈ symbolStopRunes := by simpa using c4
    exact ⟨c5, by simp [isSymbolRune, hmem]⟩

/-- **cut**: if a step emits a token `t` that is not a METADATA run and leaves `r`, then with non-empty trivia `w`
inserted right after the consumed part the same step emits the same token with the same new state and leaves
`w ++ r` -/
theorem lexStep_cut (es em : Bool) (x : List Char) (t : Tok) (es' em' : Bool) (r : List Char)
    (h : lexStep true es em x = .emit t es' em' r) (hk : t.k ≠ .METADATA) (w : List Char) (hw : StartsTrivia w) :
    ∃ consumed, x = consumed ++ r ∧ lexStep true es em (consumed ++ (w ++ r)) = .emit t es' em' (w ++ r) := by
  obtain ⟨wh, wt, rfl, hwh⟩ := hw
  obtain ⟨hdig, hsym⟩ := trivia_head_stops wh hwh
  have hx := spanW_append isSpace x
  have hsp_all := spanW_all isSpace x
  have hhead := spanW_head isSpace x
  unfold lexStep at h
  generalize hsp : (spanW isSpace x).1 = sp at hx hsp_all
  generalize hbody : (spanW isSpace x).2 = body at h hx hhead
  cases body with
  | nil => simp only at h; split at h <;> cases h
  | cons c cs =>
    have hc : isSpace c = false := hhead c cs rfl
    simp only at h
    -- a run branch, generically
    have run : ∀ (p : Char → Bool) (k : TK) (e1 e2 : Bool), p c = true → p wh = false →
        stepRun true p k e1 e2 (c :: cs) = .emit t es' em' r →
        (∀ tail, lexStep true es em (sp ++ (c :: tail)) = stepRun true p k e1 e2 (c :: tail)) →
        ∃ consumed, x = consumed ++ r ∧ lexStep true es em (consumed ++ (wh :: wt ++ r)) = .emit t es' em' (wh :: wt ++ r) := by
      intro p k e1 e2 hpc hpw hrun hbranch
      unfold stepRun at hrun
      simp only [Bool.not_true, Bool.and_false, Bool.false_eq_true, if_false, Step.emit.injEq] at hrun
      obtain ⟨ht, he1, he2, hr⟩ := hrun
      have happ := spanW_append p (c :: cs)
      have hall := spanW_all p (c :: cs)
      have hhd := spanW_head p (c :: cs)
      generalize hu : (spanW p (c :: cs)).1 = u at happ hall ht
      rw [hr] at happ hhd
      -- u starts with c
      have hu1 : ∃ u', u = c :: u' := by
        have : (spanW p (c :: cs)).1 = c :: (spanW p cs).1 := by simp [spanW, hpc]
        rw [hu] at this; exact ⟨_, this⟩
      obtain ⟨u', rfl⟩ := hu1
      refine ⟨sp ++ (c :: u'), by rw [← hx, ← happ]; simp, ?_⟩
      have e : sp ++ c :: u' ++ (wh :: wt ++ r) = sp ++ (c :: (u' ++ (wh :: wt ++ r))) := by simp
      rw [e, hbranch]
      unfold stepRun
      have hcut : spanW p (c :: (u' ++ (wh :: wt ++ r))) = (c :: u', wh :: wt ++ r) := by
        have := spanW_cut p (c :: u') (wh :: wt ++ r) hall (by
          intro a rest ha; simp only [List.cons_append, List.cons.injEq] at ha; rw [← ha.1]; exact hpw)
        simpa using this
      rw [hcut]
      simp only [List.isEmpty_cons, Bool.false_and, Bool.false_eq_true, if_false]
      rw [ht, he1, he2]
      simp
    -- how the first non-space rune selects the branch, for any tail
    have hsp_tail : ∀ tail, (spanW isSpace (sp ++ (c :: tail))).2 = c :: tail := by
      intro tail
      rw [(spanW_prefix isSpace sp hsp_all (c :: tail)).1]
      simp [spanW, hc]
    split at h
    · -- METADATA run: excluded
      rename_i hm
      exfalso
      unfold stepRun at h
      simp only [Bool.not_true, Bool.and_false, Bool.false_eq_true, if_false, Step.emit.injEq] at h
      exact hk (by rw [← h.1])
    · rename_i hm
      split at h
      · rename_i hes
        split at h
        · rename_i hs
          exact run isSymbolRune .SYMBOL false em hs hsym h (by
            intro tail; unfold lexStep; rw [hsp_tail]; simp only [hm, hes, hs, if_true, Bool.false_eq_true, if_false])
        · cases h
      · rename_i hes
        split at h
        · split at h <;> cases h
        · rename_i hcs
          split at h
          · -- single-rune token
            rename_i k setSym setMeta hst
            simp only [Step.emit.injEq] at h
            obtain ⟨ht, he1, he2, hr⟩ := h
            refine ⟨sp ++ [c], by rw [← hx, hr]; simp, ?_⟩
            have e : sp ++ [c] ++ (wh :: wt ++ r) = sp ++ (c :: (wh :: wt ++ r)) := by simp
            rw [e]
            unfold lexStep
            rw [hsp_tail]
            have hesf : es = false := by simpa using hes
            subst hesf
            simp only [hm, hcs, hst, Bool.false_eq_true, if_false]
            rw [ht, he1, he2]
          · rename_i hst
            split at h
            · rename_i hd
              exact run isDigitC .NUMBER es em hd hdig h (by
                intro tail; unfold lexStep; rw [hsp_tail]
                simp only [hm, hes, hcs, hst, hd, if_true, Bool.false_eq_true, if_false])
            · rename_i hd
              split at h
              · rename_i hs
                exact run isSymbolRune .SYMBOL es em hs hsym h (by
                  intro tail; unfold lexStep; rw [hsp_tail]
                  simp only [hm, hes, hcs, hst, hd, hs, if_true, Bool.false_eq_true, if_false])
              · cases h

/-- **trivia after a token is ignored**: after any token that is not a METADATA run, inserting trivia admitted in
the state that token leaves behind changes neither the token nor anything that follows -/
theorem trivia_after_token (es em : Bool) (x : List Char) (t : Tok) (es' em' : Bool) (r : List Char)
    (h : lexStep true es em x = .emit t es' em' r) (hk : t.k ≠ .METADATA) (w : List Char) (hw : TriviaIn es' em' w)
    (acc : List Tok) :
    ∃ consumed, x = consumed ++ r ∧ lexFrom es em (consumed ++ (w ++ r)) acc = lexFrom es em x acc := by
  cases w with
  | nil =>
    -- nothing inserted
    obtain ⟨consumed, hx, _⟩ := lexStep_cut es em x t es' em' r h hk [' '] ⟨' ', [], rfl, Or.inl (by decide)⟩
    exact ⟨consumed, hx, by rw [hx]; simp⟩
  | cons wh wt =>
    have hstart : StartsTrivia (wh :: wt) := by
      refine ⟨wh, wt, rfl, ?_⟩
      unfold TriviaIn at hw
      split at hw
      · exact Or.inl (hw wh (by simp))
      · cases hw with
        | space c w hc _ => exact Or.inl hc
        | comment body w _ _ => exact Or.inr rfl
    obtain ⟨consumed, hx, hcut⟩ := lexStep_cut es em x t es' em' r h hk (wh :: wt) hstart
    refine ⟨consumed, hx, ?_⟩
    rw [lexFrom_step, hcut, lexFrom_step es em x, h]
    simp only
    exact lexFrom_trivia es' em' (wh :: wt) hw r (acc ++ [t])

end Crd
