import Crd.Lemmas.LexTrivia

/-!
# The token stream accounts for every character of the text: tokens as written, separated by trivia only
-/
namespace Crd
open Generated

/-- what may stand between two tokens (and before the first, after the last): white space and `;` comments; the last
comment of a text may end with the text instead of a newline -/
inductive Gap : List Char → Prop
  | nil : Gap []
  | space (c : Char) (w : List Char) (hc : isSpace c = true) (h : Gap w) : Gap (c :: w)
  | comment (body w : List Char) (hb : ∀ x ∈ body, x ≠ commentStop) (h : Gap w) :
      Gap (commentStart :: (body ++ commentStop :: w))
  | lastComment (body : List Char) (hb : ∀ x ∈ body, x ≠ commentStop) : Gap (commentStart :: body)

theorem Gap.spaces (w : List Char) (h : ∀ c ∈ w, isSpace c = true) (g : List Char) (hg : Gap g) : Gap (w ++ g) := by
  induction w with
  | nil => exact hg
  | cons c w ih => exact Gap.space c _ (h c (by simp)) (ih (fun x hx => h x (by simp [hx])))

theorem Gap.tail (c : Char) (w : List Char) (hc : isSpace c = true) (h : Gap (c :: w)) : Gap w := by
  obtain ⟨hcs, _, _, _⟩ := comment_facts
  cases h with
  | space _ _ _ h' => exact h'
  | comment body w' hb h' => rw [hcs] at hc; cases hc
  | lastComment body hb => rw [hcs] at hc; cases hc

/-- a token starts with a rune that is not white space -/
def TokOK (t : Tok) : Prop := ∃ c r, t.v = c :: r ∧ isSpace c = false

/-- the text is the tokens' own characters, in order, with gaps between them -/
inductive Weave : List (List Char) → List Tok → List Char → Prop
  | done (g : List Char) (hg : Gap g) : Weave [g] [] g
  | tok (g : List Char) (t : Tok) (gs : List (List Char)) (ts : List Tok) (rest : List Char)
      (hg : Gap g) (ht : TokOK t) (h : Weave gs ts rest) : Weave (g :: gs) (t :: ts) (g ++ t.v ++ rest)

/-- a gap-preserving prefix in front of a woven text -/
theorem Weave.extend (pre : List Char) (hpre : ∀ g, Gap g → Gap (pre ++ g)) :
    ∀ gs ts inp, Weave gs ts inp → ∃ gs', Weave gs' ts (pre ++ inp)
  | _, _, _, .done g hg => ⟨[pre ++ g], Weave.done _ (hpre g hg)⟩
  | _, _, _, .tok g t gs ts rest hg ht h =>
    ⟨(pre ++ g) :: gs, by
      have := Weave.tok (pre ++ g) t gs ts rest (hpre g hg) ht h
      simpa [List.append_assoc] using this⟩

/-- a woven text that begins with white space begins with it inside its first gap -/
theorem Weave.dropSpace (c : Char) (r : List Char) (hc : isSpace c = true) :
    ∀ gs ts, Weave gs ts (c :: r) → ∃ gs', Weave gs' ts r := by
  intro gs ts h
  generalize hi : c :: r = inp at h
  cases h with
  | done g hg => subst hi; exact ⟨[r], Weave.done r (Gap.tail c r hc hg)⟩
  | tok g t gs ts rest hg ht h =>
    cases g with
    | nil =>
      exfalso
      obtain ⟨c', r', hv, hns⟩ := ht
      simp only [List.nil_append, hv, List.cons_append, List.cons.injEq] at hi
      rw [← hi.1] at hns; rw [hc] at hns; cases hns
    | cons c' g' =>
      simp only [List.cons_append, List.cons.injEq] at hi
      obtain ⟨rfl, rfl⟩ := hi
      exact ⟨g' :: gs, Weave.tok g' t gs ts rest (Gap.tail c g' hc hg) ht h⟩

theorem Weave.nil_inv : ∀ gs ts, Weave gs ts [] → ts = [] := by
  intro gs ts h
  generalize hi : ([] : List Char) = inp at h
  cases h with
  | done g hg => rfl
  | tok g t gs ts rest hg ht h =>
    exfalso
    obtain ⟨c', r', hv, _⟩ := ht
    have : (g ++ t.v ++ rest).length = 0 := by rw [← hi]; rfl
    simp [hv] at this

/-- what one scanner step does to the text, by outcome -/
def StepShape (inp : List Char) : Step → Prop
  | .eof => ∀ c ∈ inp, isSpace c = true
  | .skip rest => ∃ w body, (∀ c ∈ w, isSpace c = true) ∧ (∀ x ∈ body, x ≠ commentStop) ∧
      inp = w ++ commentStart :: (body ++ rest) ∧ (rest = [] ∨ ∃ r, rest = commentStop :: r)
  | .emit t _ _ rest => ∃ w, (∀ c ∈ w, isSpace c = true) ∧ inp = w ++ t.v ++ rest ∧ TokOK t
  | _ => True

theorem lexStep_shape (es em : Bool) (inp : List Char) : StepShape inp (lexStep true es em inp) := by
  have hsp := spanW_append isSpace inp
  have hall := spanW_all isSpace inp
  unfold lexStep
  cases hr : (spanW isSpace inp).2 with
  | nil =>
    simp only
    by_cases hes : es = true
    · simp only [hes, if_true]; trivial
    · simp only [hes, if_false, Bool.false_eq_true]
      rw [hr, List.append_nil] at hsp
      show ∀ c ∈ inp, isSpace c = true
      rw [← hsp]; exact hall
  | cons c cs =>
    have hcs : isSpace c = false := spanW_head isSpace inp c cs hr
    have hdecomp : inp = (spanW isSpace inp).1 ++ c :: cs := by rw [← hr]; exact hsp.symm
    have run : ∀ (p : Char → Bool) (k : TK) (e1 e2 : Bool), p c = true →
        StepShape inp (stepRun true p k e1 e2 (c :: cs)) := by
      intro p k e1 e2 hp
      unfold stepRun
      simp only [Bool.not_true, Bool.and_false, Bool.false_eq_true, if_false]
      refine ⟨(spanW isSpace inp).1, hall, ?_, ?_⟩
      · rw [List.append_assoc, spanW_append]; exact hdecomp
      · exact ⟨c, (spanW p cs).1, by simp only [spanW, hp, if_true], hcs⟩
    simp only
    by_cases h1 : (em && isMetaRune c) = true
    · simp only [h1, if_true]
      exact run _ _ _ _ (by simp only [Bool.and_eq_true] at h1; exact h1.2)
    · simp only [h1, if_false, Bool.false_eq_true]
      by_cases h2 : es = true
      · simp only [h2, if_true]
        by_cases h3 : isSymbolRune c = true
        · simp only [h3, if_true]; exact run _ _ _ _ h3
        · simp only [h3, if_false, Bool.false_eq_true]; trivial
      · simp only [h2, if_false, Bool.false_eq_true]
        by_cases h4 : c = commentStart
        · subst h4
          simp only [if_true, Bool.not_true, Bool.and_false, Bool.false_eq_true, if_false]
          obtain ⟨_, _, hne, _⟩ := comment_facts
          have hca := spanW_append (fun x => decide (x ≠ commentStop)) (commentStart :: cs)
          have hcall := spanW_all (fun x => decide (x ≠ commentStop)) (commentStart :: cs)
          have hfirst : ∃ body, (spanW (fun x => decide (x ≠ commentStop)) (commentStart :: cs)).1 = commentStart :: body := by
            simp only [spanW, ne_eq, hne, not_false_eq_true, decide_true, if_true]
            exact ⟨_, rfl⟩
          obtain ⟨body, hbody⟩ := hfirst
          refine ⟨(spanW isSpace inp).1, body, hall, ?_, ?_, ?_⟩
          · intro x hx
            have := hcall x (by rw [hbody]; simp [hx])
            simpa using this
          · rw [hbody] at hca
            simp only [List.cons_append] at hca
            rw [hca]; exact hdecomp
          · cases hrest : (spanW (fun x => decide (x ≠ commentStop)) (commentStart :: cs)).2 with
            | nil => exact Or.inl rfl
            | cons s r =>
              have := spanW_head _ _ s r hrest
              exact Or.inr ⟨r, by simp at this; rw [this]⟩
        · simp only [h4, if_false]
          cases hst : singleTok c with
          | some x =>
            obtain ⟨k, setSym, setMeta⟩ := x
            simp only
            exact ⟨(spanW isSpace inp).1, hall, by simpa using hdecomp, c, [], rfl, hcs⟩
          | none =>
            simp only
            by_cases h5 : isDigitC c = true
            · simp only [h5, if_true]; exact run _ _ _ _ h5
            · simp only [h5, if_false, Bool.false_eq_true]
              by_cases h6 : isSymbolRune c = true
              · simp only [h6, if_true]; exact run _ _ _ _ h6
              · exfalso
                have := unhandled_is_symbol c hcs h4 hst
                exact h6 this

/-- **every character of the text is accounted for**: if the lexer ends silently with the tokens `ts`, the text is
those tokens' own characters, in order, with only white space and comments before, between and after them -/
theorem lexFrom_weave : ∀ (n : Nat) (es em : Bool) (inp : List Char) (acc out : List Tok), inp.length ≤ n →
    lexFrom es em inp acc = .ok out → ∃ ts gs, out = acc ++ ts ∧ Weave gs ts inp := by
  intro n
  induction n with
  | zero =>
    intro es em inp acc out hn h
    have : inp = [] := by cases inp <;> simp_all
    subst this
    rw [lexFrom_step] at h
    have hst : lexStep true es em [] = (if es then .fail else .eof) := by simp [lexStep, spanW]
    rw [hst] at h
    cases es with
    | true => simp at h
    | false => simp at h; exact ⟨[], [[]], by simp [h], Weave.done [] Gap.nil⟩
  | succ n ih =>
    intro es em inp acc out hn h
    rw [lexFrom_step] at h
    obtain ⟨_, hskip, hemit⟩ := lexStep_progress es em inp
    have hshape := lexStep_shape es em inp
    cases hs : lexStep true es em inp with
    | fail => rw [hs] at h; cases h
    | hang => rw [hs] at h; cases h
    | eof =>
      rw [hs] at h hshape; cases h
      refine ⟨[], [inp], by simp, Weave.done inp ?_⟩
      have := Gap.spaces inp hshape [] Gap.nil
      simpa using this
    | skip rest =>
      rw [hs] at h hshape
      simp only at h
      have hlt := hskip rest hs
      obtain ⟨ts, gs, hout, hw⟩ := ih es em rest acc out (by omega) h
      obtain ⟨w, body, hw1, hb, hinp, hrest⟩ := hshape
      refine ⟨ts, ?_⟩
      rcases hrest with rfl | ⟨r, rfl⟩
      · -- the comment runs to the end of the text
        have hnil := Weave.nil_inv gs ts hw
        subst hnil
        refine ⟨[inp], hout, ?_⟩
        rw [hinp, List.append_nil]
        exact Weave.done _ (Gap.spaces w hw1 _ (Gap.lastComment body hb))
      · obtain ⟨_, hstop, _, _⟩ := comment_facts
        obtain ⟨gs1, hw1'⟩ := Weave.dropSpace commentStop r hstop gs ts hw
        obtain ⟨gs2, hw2⟩ := Weave.extend (w ++ commentStart :: (body ++ [commentStop]))
          (fun g hg => by
            have := Gap.spaces w hw1 _ (Gap.comment body g hb hg)
            simpa [List.append_assoc] using this) gs1 ts r hw1'
        exact ⟨gs2, hout, by rw [hinp]; simpa [List.append_assoc] using hw2⟩
    | emit t es' em' rest =>
      rw [hs] at h hshape
      simp only at h
      have hlt := hemit t es' em' rest hs
      obtain ⟨ts, gs, hout, hw⟩ := ih es' em' rest (acc ++ [t]) out (by omega) h
      obtain ⟨w, hw1, hinp, htok⟩ := hshape
      refine ⟨t :: ts, w :: gs, by simp [hout], ?_⟩
      rw [hinp]
      have hg : Gap w := by simpa using Gap.spaces w hw1 [] Gap.nil
      exact Weave.tok w t gs ts rest hg htok hw

/-- the statement for a whole text -/
theorem lex_faithful (s : List Char) (ts : List Tok) (h : lexChars s = .ok ts) : ∃ gs, Weave gs ts s := by
  rw [lexChars_eq] at h
  obtain ⟨ts', gs, hout, hw⟩ := lexFrom_weave s.length false false s [] ts (Nat.le_refl _) h
  simp at hout; subst hout
  exact ⟨gs, hw⟩

end Crd
