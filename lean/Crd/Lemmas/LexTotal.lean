import Crd.Model.Lexer

/-!
# The lexer always terminates (no hang), and stops silently only at the true end of input
-/
namespace Crd
open Generated

theorem spanW_length (p : Char → Bool) : ∀ l, (spanW p l).2.length ≤ l.length := by
  intro l
  induction l with
  | nil => simp [spanW]
  | cons c cs ih =>
    unfold spanW
    split
    · simp only; exact Nat.le_succ_of_le ih
    · simp

theorem spanW_length_lt (p : Char → Bool) (c : Char) (cs : List Char) (h : p c = true) :
    (spanW p (c :: cs)).2.length < (c :: cs).length := by
  unfold spanW
  simp only [h, if_true, List.length_cons]
  exact Nat.lt_succ_of_le (spanW_length p cs)

theorem spanW_append (p : Char → Bool) (l : List Char) : (spanW p l).1 ++ (spanW p l).2 = l := by
  induction l with
  | nil => simp [spanW]
  | cons c cs ih =>
    unfold spanW
    split
    · simp [ih]
    · simp

theorem spanW_all (p : Char → Bool) (l : List Char) : ∀ c ∈ (spanW p l).1, p c = true := by
  induction l with
  | nil => simp [spanW]
  | cons c cs ih =>
    unfold spanW
    split
    · rename_i h; intro x hx; simp at hx; rcases hx with rfl | hx; exact h; exact ih x hx
    · simp

theorem spanW_head (p : Char → Bool) (l : List Char) : ∀ c rest, (spanW p l).2 = c :: rest → p c = false := by
  induction l with
  | nil => simp [spanW]
  | cons x xs ih =>
    unfold spanW
    split
    · intro c rest h; exact ih c rest h
    · rename_i h; intro c rest h'; simp at h'; rw [← h'.1]; simpa using h

/-- the generated EOF guards are all present (false on the pinned tree: defect D2, since fixed) -/
theorem eof_safe : eofSafe = true := by decide

/-- the comment start is not the comment terminator, so skipping a comment consumes its `;` -/
theorem comment_start_ne_stop : commentStart ≠ commentStop := by decide

/-- every step that continues leaves strictly less input (and never hangs when the EOF guards are present) -/
theorem lexStep_progress (es em : Bool) (inp : List Char) :
    lexStep true es em inp ≠ .hang ∧
    (∀ rest, lexStep true es em inp = .skip rest → rest.length < inp.length) ∧
    (∀ t es' em' rest, lexStep true es em inp = .emit t es' em' rest → rest.length < inp.length) := by
  unfold lexStep
  have hsp := spanW_length isSpace inp
  generalize (spanW isSpace inp).2 = inp' at hsp
  cases inp' with
  | nil => simp only; split <;> simp
  | cons c cs =>
    simp only
    have hlen : (c :: cs).length ≤ inp.length := hsp
    have run : ∀ (p : Char → Bool) (k : TK) (e1 e2 : Bool), p c = true →
        stepRun true p k e1 e2 (c :: cs) ≠ .hang ∧
        (∀ rest, stepRun true p k e1 e2 (c :: cs) = .skip rest → rest.length < inp.length) ∧
        (∀ t es' em' rest, stepRun true p k e1 e2 (c :: cs) = .emit t es' em' rest → rest.length < inp.length) := by
      intro p k e1 e2 hp
      have := spanW_length_lt p c cs hp
      unfold stepRun
      simp only [Bool.not_true, Bool.and_false, Bool.false_eq_true, if_false]
      refine ⟨by simp, by simp, ?_⟩
      intro t es' em' rest h
      simp only [Step.emit.injEq] at h
      rw [← h.2.2.2]; omega
    split
    · rename_i h; simp only [Bool.and_eq_true] at h; exact run _ _ _ _ h.2
    · split
      · split
        · rename_i h; exact run _ _ _ _ h
        · simp
      · split
        · rename_i hc
          simp only [Bool.not_true, Bool.and_false, Bool.false_eq_true, if_false]
          have : (spanW (fun x => decide (x ≠ commentStop)) (c :: cs)).2.length < (c :: cs).length :=
            spanW_length_lt _ c cs (by rw [hc]; simpa using comment_start_ne_stop)
          refine ⟨by simp, ?_, by simp⟩
          intro rest h
          simp only [Step.skip.injEq] at h
          rw [← h]; omega
        · split
          · refine ⟨by simp, by simp, ?_⟩
            intro t es' em' rest h
            simp only [Step.emit.injEq] at h
            rw [← h.2.2.2]; simp at hlen ⊢; omega
          · split
            · rename_i h; exact run _ _ _ _ h
            · split
              · rename_i h; exact run _ _ _ _ h
              · simp

/-- with the EOF guards in place, enough fuel for the input length is never exhausted: `lexAll` returns `ok`
or `err`, never `hang` -/
theorem lexAll_no_hang : ∀ (f : Nat) (es em : Bool) (inp : List Char) (acc : List Tok), inp.length + 1 ≤ f →
    ∀ ts, lexAll true f es em inp acc ≠ .hang ts := by
  intro f
  induction f with
  | zero => intro es em inp acc h; omega
  | succ f ih =>
    intro es em inp acc hf ts
    obtain ⟨h1, h2, h3⟩ := lexStep_progress es em inp
    unfold lexAll
    cases hs : lexStep true es em inp with
    | eof => simp
    | fail => simp
    | hang => exact absurd hs h1
    | skip rest => simp only; exact ih _ _ _ _ (by have := h2 rest hs; omega) ts
    | emit t es' em' rest => simp only; exact ih _ _ _ _ (by have := h3 t es' em' rest hs; omega) ts

/-- **the lexer terminates on every input** -/
theorem lex_total (s : List Char) : ∀ ts, lexChars s ≠ .hang ts := by
  intro ts
  unfold lexChars
  rw [eof_safe]
  exact lexAll_no_hang _ _ _ _ _ (Nat.le_refl _) ts

/-- every rune that stops a symbol run is handled by the scanner's switch (comment or single-rune token);
generated tables -/
theorem stop_runes_handled : ∀ c ∈ symbolStopRunes, c = commentStart ∨ (singleTok c).isSome = true := by decide

theorem symbol_excludes_space : symbolRuneExcludesSpace = true := by decide

/-- **no silent stop inside the input**: a rune that is not white space, not the comment start, not a
single-rune token and not a digit is a symbol rune — so the scanner's silent `default: return EOF` is taken only
at the true end of input, and no suffix can be dropped -/
theorem unhandled_is_symbol (c : Char) (hs : isSpace c = false) (hc : c ≠ commentStart) (ht : singleTok c = none) :
    isSymbolRune c = true := by
  unfold isSymbolRune
  rw [symbol_excludes_space]
  simp only [hs, Bool.and_false, Bool.not_false, Bool.and_true, Bool.not_eq_true']
  cases hm : symbolStopRunes.contains c with
  | false => rfl
  | true =>
    have hmem : c ∈ symbolStopRunes := by simpa using hm
    rcases stop_runes_handled c hmem with h | h
    · exact absurd h hc
    · rw [ht] at h; cases h

end Crd
