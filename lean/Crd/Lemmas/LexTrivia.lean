import Crd.Lemmas.LexTotal

/-!
# Trivia (white space, comments) between tokens never changes the token stream (C11)
-/
namespace Crd
open Generated

/-- any two sufficient amounts of fuel give the same result -/
theorem lexAll_fuel2 : ∀ (f f' : Nat) (es em : Bool) (inp : List Char) (acc : List Tok),
    inp.length + 1 ≤ f → inp.length + 1 ≤ f' → lexAll true f es em inp acc = lexAll true f' es em inp acc := by
  intro f
  induction f with
  | zero => intro f' es em inp acc h; omega
  | succ f ih =>
    intro f' es em inp acc hf hf'
    obtain ⟨g, rfl⟩ : ∃ g, f' = g + 1 := ⟨f' - 1, by omega⟩
    obtain ⟨_, h2, h3⟩ := lexStep_progress es em inp
    rw [lexAll, lexAll]
    cases hs : lexStep true es em inp with
    | eof => rfl
    | fail => rfl
    | hang => rfl
    | skip rest => simp only; have := h2 rest hs; exact ih _ _ _ _ _ (by omega) (by omega)
    | emit t es' em' rest => simp only; have := h3 t es' em' rest hs; exact ih _ _ _ _ _ (by omega) (by omega)

/-- the lexer started in state `(es, em)` on `inp`, with all the fuel it needs -/
def lexFrom (es em : Bool) (inp : List Char) (acc : List Tok) : LexOut := lexAll true (inp.length + 1) es em inp acc

theorem lexFrom_step (es em : Bool) (inp : List Char) (acc : List Tok) :
    lexFrom es em inp acc =
      match lexStep true es em inp with
      | .eof => .ok acc
      | .fail => .err acc
      | .hang => .hang acc
      | .skip rest => lexFrom es em rest acc
      | .emit t es' em' rest => lexFrom es' em' rest (acc ++ [t]) := by
  obtain ⟨_, h2, h3⟩ := lexStep_progress es em inp
  unfold lexFrom
  rw [lexAll]
  cases hs : lexStep true es em inp with
  | eof => rfl
  | fail => rfl
  | hang => rfl
  | skip rest => simp only; have := h2 rest hs; exact lexAll_fuel2 _ _ _ _ _ _ (by omega) (by omega)
  | emit t es' em' rest => simp only; have := h3 t es' em' rest hs; exact lexAll_fuel2 _ _ _ _ _ _ (by omega) (by omega)

theorem lexChars_eq (s : List Char) : lexChars s = lexFrom false false s [] := by
  unfold lexChars lexFrom; rw [eof_safe]

/-! ## skipping -/

theorem spanW_prefix (p : Char → Bool) (w : List Char) (h : ∀ c ∈ w, p c = true) (inp : List Char) :
    (spanW p (w ++ inp)).2 = (spanW p inp).2 ∧ (spanW p (w ++ inp)).1 = w ++ (spanW p inp).1 := by
  induction w with
  | nil => simp
  | cons c cs ih =>
    have hc := h c (by simp)
    have := ih (fun x hx => h x (by simp [hx]))
    simp only [List.cons_append, spanW, hc, if_true, this]
    exact ⟨trivial, trivial⟩

/-- leading white space is skipped in every mode -/
theorem lexStep_spaces (es em : Bool) (w inp : List Char) (h : ∀ c ∈ w, isSpace c = true) :
    lexStep true es em (w ++ inp) = lexStep true es em inp := by
  unfold lexStep
  rw [(spanW_prefix isSpace w h inp).1]

theorem lexFrom_spaces (es em : Bool) (w inp : List Char) (acc : List Tok) (h : ∀ c ∈ w, isSpace c = true) :
    lexFrom es em (w ++ inp) acc = lexFrom es em inp acc := by
  rw [lexFrom_step, lexFrom_step, lexStep_spaces es em w inp h]

theorem comment_facts : isSpace commentStart = false ∧ isSpace commentStop = true ∧ commentStart ≠ commentStop ∧
    symbolStopRunes.contains commentStart = true ∧ isDigitC commentStart = false ∧ isMetaRune commentStart = true := by decide

/-- a comment `;…` up to (not including) its newline is discarded when no special mode is active -/
theorem lexStep_comment (body rest : List Char) (hb : ∀ x ∈ body, x ≠ commentStop) :
    lexStep true false false (commentStart :: (body ++ commentStop :: rest)) = .skip (commentStop :: rest) := by
  obtain ⟨h1, _, h3, _⟩ := comment_facts
  unfold lexStep
  have hsp : (spanW isSpace (commentStart :: (body ++ commentStop :: rest))).2 = commentStart :: (body ++ commentStop :: rest) := by
    simp [spanW, h1]
  rw [hsp]
  simp only [Bool.false_and, Bool.false_eq_true, if_false, if_true, Bool.not_true, Bool.and_false]
  have hall : ∀ c ∈ commentStart :: body, (fun x => decide (x ≠ commentStop)) c = true := by
    intro c hc
    simp only [List.mem_cons] at hc
    rcases hc with rfl | hc
    · simpa using h3
    · simpa using hb c hc
  have := (spanW_prefix (fun x => decide (x ≠ commentStop)) (commentStart :: body) hall (commentStop :: rest)).1
  simp only [List.cons_append] at this
  rw [this]
  simp [spanW]

/-- trivia outside `{…}` and not directly after `_`: white space and `;` comments, each comment closed by its
newline -/
inductive Trivia : List Char → Prop
  | nil : Trivia []
  | space (c : Char) (w : List Char) (hc : isSpace c = true) (h : Trivia w) : Trivia (c :: w)
  | comment (body w : List Char) (hb : ∀ x ∈ body, x ≠ commentStop) (h : Trivia w) :
      Trivia (commentStart :: (body ++ commentStop :: w))

/-- trivia admitted in a lexer state: anything of `Trivia` in the plain state; only white space after `_` and
inside `{…}` (there `;` belongs to the key or value, as documented) -/
def TriviaIn (es em : Bool) (w : List Char) : Prop := if es || em then (∀ c ∈ w, isSpace c = true) else Trivia w

/-- **trivia before a token is ignored**, in every lexer state -/
theorem lexFrom_trivia (es em : Bool) (w : List Char) (h : TriviaIn es em w) (inp : List Char) (acc : List Tok) :
    lexFrom es em (w ++ inp) acc = lexFrom es em inp acc := by
  unfold TriviaIn at h
  by_cases hm : (es || em) = true
  · simp only [hm, if_true] at h
    exact lexFrom_spaces es em w inp acc h
  · simp only [hm] at h
    have hes : es = false := by cases es <;> simp_all
    have hem : em = false := by cases em <;> simp_all
    subst hes hem
    induction h with
    | nil => rfl
    | space c w hc _ ih =>
      have := lexFrom_spaces false false [c] (w ++ inp) acc (by simpa using hc)
      simpa using this.trans ih
    | comment body w hb _ ih =>
      obtain ⟨_, h2, _⟩ := comment_facts
      have e : (commentStart :: (body ++ commentStop :: w)) ++ inp = commentStart :: (body ++ commentStop :: (w ++ inp)) := by simp
      rw [e, lexFrom_step, lexStep_comment body (w ++ inp) hb]
      simp only
      have := lexFrom_spaces false false [commentStop] (w ++ inp) acc (by simpa using h2)
      simpa using this.trans ih

/-- trivia at the very beginning of a text is ignored -/
theorem trivia_at_start (w s : List Char) (h : Trivia w) : lexChars (w ++ s) = lexChars s := by
  rw [lexChars_eq, lexChars_eq]
  exact lexFrom_trivia false false w (by simpa [TriviaIn] using h) s []

end Crd
