import Crd.Lemmas.ConvValid2
import Crd.Lemmas.Piece
import Crd.Props.C04

/-!
# No command model ever reaches a `panic` or `hang` outcome (C09, model level)
-/
namespace Crd
open Generated Spec Crd.Props.C13

def Safe {α} (x : Except Err α) : Prop := ∀ e, x = .error e → e.isCrash = false

theorem safe_ok {α} (a : α) : Safe (Except.ok a : Except Err α) := by intro e h; cases h

theorem safe_bind {α β} (x : Except Err α) (f : α → Except Err β) (hx : Safe x) (hf : ∀ a, x = .ok a → Safe (f a)) :
    Safe (x.bind f) := by
  intro e h
  cases x with
  | error e' => simp only [Except.bind] at h; cases h; exact hx _ rfl
  | ok a => exact hf a rfl e h

theorem safe_err {α} (e : Err) (he : e.isCrash = false) : Safe (Except.error e : Except Err α) := by
  intro e' h; cases h; exact he

/-! ## text conv -/

theorem setters_safe (m : List (String × String)) (i : Instance) :
    Safe (setBPM m i) ∧ Safe (setVelocity m i) ∧ Safe (setMeter m i) ∧ Safe (setKey m i) := by
  refine ⟨?_, ?_, ?_, ?_⟩ <;> intro e h
  · unfold setBPM at h; repeat' split at h
    all_goals (first | cases h | skip)
    all_goals rfl
  · unfold setVelocity at h; repeat' split at h
    all_goals (first | cases h | skip)
    all_goals rfl
  · unfold setMeter at h; repeat' split at h
    all_goals (first | cases h | skip)
    all_goals rfl
  · unfold setKey at h; repeat' split at h
    all_goals (first | cases h | skip)
    all_goals rfl

theorem modifyMeta_safe (i : Instance) (m : Option (List (String × String))) : Safe (modifyMeta i m) := by
  cases m with
  | none => exact safe_ok _
  | some mm =>
    unfold modifyMeta
    refine safe_bind _ _ (safe_bind _ _ (safe_bind _ _ (setters_safe mm i).1 ?_) ?_) ?_
    · intro a _; exact (setters_safe mm a).2.1
    · intro a _; exact (setters_safe mm a).2.2.1
    · intro a _; exact (setters_safe mm a).2.2.2

theorem convValue_safe (v : ValueN) : Safe (convValue v) := by
  intro e h
  unfold convValue at h
  repeat' split at h
  all_goals (first | cases h | skip)
  all_goals (first | rfl | skip)
  all_goals simp_all
  all_goals (repeat' split at h)
  all_goals (first | cases h | skip)
  all_goals rfl

theorem mapM_safe {α β} (f : α → Except Err β) (hf : ∀ a, Safe (f a)) : ∀ l : List α, Safe (l.mapM f) := by
  intro l
  induction l with
  | nil => exact safe_ok _
  | cons a as ih =>
    intro e h
    simp only [List.mapM_cons, bind, Except.bind] at h
    cases ha : f a with
    | error e' => simp [ha] at h; subst h; exact hf a e' ha
    | ok x =>
      simp only [ha] at h
      cases has : as.mapM f with
      | error e' => simp [has] at h; subst h; exact ih e' has
      | ok xs => simp [has, pure, Except.pure] at h

theorem getTendency_safe (s : Scale) (n : SNote) : Safe (getTendency s n) := by
  intro e h
  unfold getTendency at h
  repeat' split at h
  all_goals (first | cases h | skip)
  all_goals rfl

theorem syllableDegrees_safe (s : Scale) (hs : IsScale s) (root : DegreeN) (base : Option DegreeN) :
    Safe (syllableDegrees s root base) := by
  obtain ⟨t, ht, htm⟩ := scale_tonic_mem s hs
  intro e h
  unfold syllableDegrees at h
  cases hrn : newScaleNote root with
  | error e' =>
    simp [hrn, bind, Except.bind] at h; subst h
    unfold newScaleNote at hrn; split at hrn <;> cases hrn; rfl
  | ok rn =>
    have hrm := Crd.Props.C03.newScaleNote_mem root rn hrn
    cases htt : getTendency s rn with
    | error e' => simp [hrn, htt, bind, Except.bind] at h; subst h; exact getTendency_safe s rn e' htt
    | ok tt =>
      simp only [hrn, htt, ht, bind, Except.bind, pure, Except.pure] at h
      have nop : ∀ (a b : SNote), a ∈ Crd.Props.C03.notes21 → b ∈ Crd.Props.C03.notes21 → ∀ o, a.getDegree b o ≠ .panic := by
        intro a b ha hb o hp
        have := Crd.Props.C03.getDegree_spec a ha b hb o (by cases o <;> simp)
        unfold Crd.Props.C03.getDegreeSpec at this; rw [hp] at this; cases this
      cases hg : t.getDegree rn (tt == .sharp) with
      | panic => exact absurd hg (nop t rn htm hrm _)
      | invalid => simp [hg, liftGetDeg] at h; subst h; rfl
      | ok d0 =>
        simp only [hg, liftGetDeg] at h
        cases base with
        | none => simp at h
        | some bt =>
          cases hbn : newScaleNote bt with
          | error e' =>
            simp [hbn] at h; subst h
            unfold newScaleNote at hbn; split at hbn <;> cases hbn; rfl
          | ok bn =>
            have hbm := Crd.Props.C03.newScaleNote_mem bt bn hbn
            cases hbt : getTendency s bn with
            | error e' => simp [hbn, hbt] at h; subst h; exact getTendency_safe s bn e' hbt
            | ok t2 =>
              cases hg2 : rn.getDegree bn (t2 == .sharp) with
              | panic => exact absurd hg2 (nop rn bn hrm hbm _)
              | invalid => simp [hbn, hbt, hg2] at h; subst h; rfl
              | ok d2 => simp [hbn, hbt, hg2] at h

theorem convDegreeText_safe (d : DegreeN) : Safe (convDegreeText d) := by
  intro e h; unfold convDegreeText at h; simp only at h; split at h <;> cases h; rfl

theorem convChord_safe (mode : Mode) (s : Scale) (hs : mode = .syllable → IsScale s) (root : DegreeN) (sym : Option Tok)
    (base : Option DegreeN) : Safe (convChord mode s root sym base) := by
  cases mode with
  | syllable =>
    intro e h
    simp only [convChord, bind, Except.bind, pure, Except.pure] at h
    cases hsd : syllableDegrees s root base with
    | error e' => simp [hsd] at h; subst h; exact syllableDegrees_safe s (hs rfl) root base e' hsd
    | ok p => simp [hsd] at h
  | degree =>
    intro e h
    simp only [convChord, bind, Except.bind, pure, Except.pure] at h
    cases hd : convDegreeText root with
    | error e' => simp [hd] at h; subst h; exact convDegreeText_safe root e' hd
    | ok d =>
      simp only [hd] at h
      cases base with
      | none => simp at h
      | some bt =>
        cases hb : convDegreeText bt with
        | error e' => simp [hb] at h; subst h; exact convDegreeText_safe bt e' hb
        | ok bd => simp [hb] at h

theorem convItem_safe (mode : Mode) (s : Scale) (hs : mode = .syllable → IsScale s) (it : Item) : Safe (convItem mode s it) := by
  unfold convItem
  refine safe_bind _ _ (modifyMeta_safe _ _) ?_
  intro i1 _
  refine safe_bind _ _ ?_ ?_
  · intro e h; unfold changeScale at h; repeat' split at h
    all_goals (first | cases h | skip)
    all_goals rfl
  intro s2 hs2
  have hsc := changeScale_ok mode s hs i1 s2 hs2
  refine safe_bind _ _ (mapM_safe convValue convValue_safe _) ?_
  intro vs _
  cases it with
  | rest _ _ => exact safe_ok _
  | chord d sym b _ _ =>
    exact safe_bind _ _ (convChord_safe mode s2 hsc d sym b) (fun _ _ => safe_ok _)

theorem convItems_safe (mode : Mode) : ∀ (items : List Item) (s : Scale), (mode = .syllable → IsScale s) → Safe (convItems mode s items) := by
  intro items
  induction items with
  | nil => intro s _; exact safe_ok _
  | cons it rest ih =>
    intro s hs e h
    simp only [convItems, bind, Except.bind, pure, Except.pure] at h
    cases hc : convItem mode s it with
    | error e' => simp [hc] at h; subst h; exact convItem_safe mode s hs it e' hc
    | ok p =>
      obtain ⟨i0, s'⟩ := p
      simp only [hc] at h
      have hs' := (convItem_valid mode s hs it i0 s' hc).2
      cases hr : convItems mode s' rest with
      | error e' => simp [hr] at h; subst h; exact ih s' hs' e' hr
      | ok is' => simp [hr] at h

theorem classify_safe (t : List Item) : Safe (classify t) := by
  intro e h
  unfold classify at h
  simp only at h
  generalize t.flatMap Item.degrees = ds at h
  generalize (none : Option AstType) = cur at h
  induction ds generalizing cur with
  | nil => cases cur <;> simp [classify.go] at h; subst h; rfl
  | cons d r ih =>
    simp only [classify.go] at h
    split at h
    · cases h; rfl
    · split at h
      · exact ih _ h
      · split at h
        · exact ih _ h
        · cases h; rfl

/-- **`crd text conv` (both notations, any --key, ANY input text) never crashes and never hangs** -/
theorem textConv_safe (mode : Mode) (key : String) (input : List Char) : Safe (cmdTextConvChars mode key input) := by
  intro e h
  unfold cmdTextConvChars at h
  simp only [bind, Except.bind, pure, Except.pure] at h
  have parse_safe : ∀ e', parseTextChars input = .error e' → e'.isCrash = false := by
    intro e' he
    have := Crd.Props.C04.never_crashes input
    cases e' with
    | hang site => exact absurd he (this site).1
    | panic site => exact absurd he (this site).2
    | _ => rfl
  cases mode with
  | syllable =>
    simp only at h
    cases hs : scaleOfFlag key with
    | error e' =>
      simp [hs] at h; subst h
      unfold scaleOfFlag at hs; simp only at hs
      repeat' split at hs
      all_goals (first | cases hs | skip)
      all_goals rfl
    | ok s =>
      simp only [hs] at h
      have hsc : IsScale s := by
        unfold scaleOfFlag at hs
        simp only at hs
        split at hs
        · cases hs
        · rename_i k _
          cases hn : newScale k with
          | none => simp [hn] at hs
          | some sc => simp [hn] at hs; subst hs; exact ⟨k, hn⟩
      cases hp : parseTextChars input with
      | error e' => simp [hp] at h; subst h; exact parse_safe e' hp
      | ok t =>
        simp only [hp] at h
        cases hcl : classify t with
        | error e' => simp [hcl] at h; subst h; exact classify_safe t e' hcl
        | ok ty => simp only [hcl] at h; exact convItems_safe .syllable t s (fun _ => hsc) e h
  | degree =>
    simp only at h
    cases hp : parseTextChars input with
    | error e' => simp [hp] at h; subst h; exact parse_safe e' hp
    | ok t =>
      simp only [hp] at h
      cases hcl : classify t with
      | error e' => simp [hcl] at h; subst h; exact classify_safe t e' hcl
      | ok ty => simp only [hcl] at h; exact convItems_safe .degree t default (by intro he; cases he) e h

end Crd
