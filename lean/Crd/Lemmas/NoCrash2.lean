import Crd.Lemmas.NoCrash
import Crd.Lemmas.Play

/-!
# `crd write` and `crd write conv` never reach a `panic` or `hang` outcome (C09, model level)
-/
namespace Crd
open Generated Spec

theorem lookup_mem' {α β} [DecidableEq α] (k : α) : ∀ (l : List (α × β)) (v : β), lookup k l = some v → (k, v) ∈ l := by
  intro l; induction l with
  | nil => intro v h; simp [lookup] at h
  | cons x xs ih =>
    intro v h
    obtain ⟨a, b⟩ := x
    simp only [lookup] at h
    split at h
    · cases h; rename_i hk; subst hk; simp
    · exact List.mem_cons_of_mem _ (ih v h)

theorem supported_of_newScale (k : Key) (s : Scale) (h : newScale k = some s) : k ∈ supportedKeys := by
  unfold newScale at h
  cases hs : signatureOf k with
  | none => simp [hs] at h
  | some n =>
    have := lookup_mem' (some k) keySignatureTable n hs
    unfold supportedKeys
    exact List.mem_filterMap.mpr ⟨(some k, n), this, rfl⟩

theorem supported_facts : ∀ k ∈ supportedKeys, k.semitone?.isSome = true ∧ (keySigCall k).isSome = true := by decide

theorem defaultKey_supported : defaultKey ∈ supportedKeys := by decide

theorem applyChord_safe (d : Dict) (k : Key) (c : ChordIn) (hk : k.semitone?.isSome = true) :
    ∀ e, applyChord d k c = .err e → e.isCrash = false := by
  intro e h
  unfold applyChord at h
  cases hks : k.semitone? with
  | none => simp [hks] at hk
  | some ks =>
    simp only [hks] at h
    repeat' split at h
    all_goals (first | cases h | skip)
    all_goals rfl

theorem specLoop_safe (d : Dict) : ∀ (is : List Instance) (first : Bool) (k0 : Key) (v0 : Dyn),
    k0 ∈ supportedKeys → (first = true → k0 = defaultKey) → Safe (specLoop d first k0 v0 is) := by
  intro is
  induction is with
  | nil => intro _ _ _ _ _; exact safe_ok _
  | cons i is ih =>
    intro first k0 v0 hk0 hf e h
    simp only [specLoop] at h
    split at h
    · cases h; rfl
    split at h
    · cases h; rfl
    rename_i hv hns
    have hk : i.key.getD k0 ∈ supportedKeys := by
      cases hik : i.key with
      | none => simpa using hk0
      | some k' =>
        simp only [keyHasNoScale, hik] at hns
        cases hn : newScale k' with
        | none => simp [hn] at hns
        | some s => simpa using supported_of_newScale k' s hn
    have hset : (settingsCalls first i).isSome = true := by
      unfold settingsCalls
      simp only [Option.isSome_map]
      cases first with
      | true =>
        simp only [if_true, Option.isSome_map]
        have : i.key.getD defaultKey = i.key.getD k0 := by rw [hf rfl]
        rw [this]; exact (supported_facts _ hk).2
      | false =>
        cases hik : i.key with
        | none => simp
        | some k' =>
          simp only [Bool.false_eq_true, if_false, Option.isSome_map]
          have : k' = i.key.getD k0 := by simp [hik]
          rw [this]; exact (supported_facts _ hk).2
    cases hsc : settingsCalls first i with
    | none => simp [hsc] at hset
    | some calls =>
      simp only [hsc] at h
      have rec_safe := ih false (i.key.getD k0) (i.velocity.getD v0) hk (by intro hh; cases hh)
      cases hc : i.chord with
      | none =>
        simp only [hc] at h
        cases hr : specLoop d false (i.key.getD k0) (i.velocity.getD v0) is with
        | error e' => simp [hr, Except.map] at h; subst h; exact rec_safe e' hr
        | ok r => simp [hr, Except.map] at h
      | some c =>
        simp only [hc] at h
        cases ha : applyChord d (i.key.getD k0) c with
        | err e' => simp [ha] at h; subst h; exact applyChord_safe d _ c (supported_facts _ hk).1 e' ha
        | ok keys =>
          simp only [ha] at h
          cases hr : specLoop d false (i.key.getD k0) (i.velocity.getD v0) is with
          | error e' => simp [hr, Except.map] at h; subst h; exact rec_safe e' hr
          | ok r => simp [hr, Except.map] at h

theorem playWrite_safe (d : Dict) (is : List Instance) : Safe (playWrite d is) := by
  rw [playWrite_eq_spec]
  split
  · exact safe_err _ rfl
  · exact specLoop_safe d is true defaultKey defaultVelocity defaultKey_supported (fun _ => rfl)

theorem overrideFromFlags_safe (f : WriteFlags) (i : Instance) : Safe (overrideFromFlags f i) := by
  intro e h
  unfold overrideFromFlags at h
  simp only [bind, Except.bind, pure, Except.pure, throw, throwThe, MonadExceptOf.throw] at h
  repeat' split at h
  all_goals (first | cases h | skip)
  all_goals (first | rfl | skip)

theorem prepareWrite_safe (f : WriteFlags) (is : List Instance) : Safe (prepareWrite f is) := by
  intro e h
  unfold prepareWrite at h
  simp only [bind, Except.bind, pure, Except.pure, throw, throwThe, MonadExceptOf.throw] at h
  repeat' split at h
  all_goals (first | cases h | skip)
  all_goals (first | rfl | skip)
  all_goals (rename_i hov; exact overrideFromFlags_safe _ _ _ hov)

theorem decodeScalars_safe : (∀ s, Safe (decodeDegree s)) ∧ (∀ s, Safe (decodeRat s)) ∧ (∀ s, Safe (decodeBPM s)) ∧
    (∀ s, Safe (decodeDyn s)) ∧ (∀ s, Safe (decodeKey s)) := by
  refine ⟨?_, ?_, ?_, ?_, ?_⟩ <;> intro s e h
  · unfold decodeDegree at h; split at h <;> cases h; rfl
  · unfold decodeRat at h; repeat' split at h
    all_goals (first | cases h | skip)
    all_goals rfl
  · unfold decodeBPM at h; repeat' split at h
    all_goals (first | cases h | skip)
    all_goals rfl
  · unfold decodeDyn at h; split at h <;> cases h; rfl
  · unfold decodeKey at h; split at h <;> cases h; rfl

theorem optM_safe {α β} (o : Option α) (f : α → Except Err β) (hf : ∀ a, Safe (f a)) : Safe (optM o f) := by
  intro e h
  cases o with
  | none => cases h
  | some a =>
    simp only [optM] at h
    cases hfa : f a with
    | error e' => simp [hfa, Except.map] at h; subst h; exact hf a e' hfa
    | ok b => simp [hfa, Except.map] at h

theorem decodeChord_safe (c : RawChord) : Safe (decodeChord c) := by
  obtain ⟨hd, _⟩ := decodeScalars_safe
  unfold decodeChord
  refine safe_bind _ _ ?_ (fun _ _ => safe_bind _ _ (optM_safe _ _ hd) (fun _ _ => safe_ok _))
  cases c.degree with
  | none => exact safe_ok _
  | some s => exact hd s

theorem decodeInstance_safe (r : RawInstance) : Safe (decodeInstance r) := by
  obtain ⟨_, hr, hb, hv, hk⟩ := decodeScalars_safe
  unfold decodeInstance
  refine safe_bind _ _ (optM_safe _ _ decodeChord_safe) fun _ _ => ?_
  refine safe_bind _ _ (mapM_safe _ hr _) fun _ _ => ?_
  refine safe_bind _ _ (optM_safe _ _ hb) fun _ _ => ?_
  refine safe_bind _ _ (optM_safe _ _ hv) fun _ _ => ?_
  refine safe_bind _ _ (optM_safe _ _ hr) fun _ _ => ?_
  exact safe_bind _ _ (optM_safe _ _ hk) fun _ _ => safe_ok _

theorem loadAttrs_safe (rs : List RawAttr) : Safe (loadAttrs rs) := by
  unfold loadAttrs
  apply mapM_safe
  intro r e h
  cases hd : r.degree with
  | none => simp [hd, pure, Except.pure] at h
  | some s =>
    simp only [hd, bind, Except.bind, pure, Except.pure] at h
    cases hx : decodeDegree s with
    | error e' => simp [hx] at h; subst h; exact decodeScalars_safe.1 s e' hx
    | ok d => simp [hx] at h

theorem cmdWriteTracks_safe (f : WriteFlags) (is : List Instance) : Safe (cmdWriteTracks f is) := by
  intro e h
  unfold cmdWriteTracks at h
  simp only [bind, Except.bind, pure, Except.pure] at h
  cases hp : prepareWrite f is with
  | error e' => simp [hp] at h; subst h; exact prepareWrite_safe f is e' hp
  | ok p =>
    obtain ⟨d, n, is'⟩ := p
    simp only [hp] at h
    cases hw : playWrite d is' with
    | error e' => simp [hw] at h; subst h; exact playWrite_safe d is' e' hw
    | ok calls =>
      simp only [hw] at h
      split at h
      · simp [throw, throwThe, MonadExceptOf.throw] at h; subst h; rfl
      · simp at h

/-- **`crd write` never crashes and never hangs**, for ANY instances document, attribute file and flags -/
theorem cmdWrite_safe (f : WriteFlags) (attrs : List RawAttr) (rs : List RawInstance) : Safe (cmdWrite f attrs rs) := by
  intro e h
  unfold cmdWrite at h
  simp only [bind, Except.bind, pure, Except.pure, throw, throwThe, MonadExceptOf.throw] at h
  cases h1 : rs.mapM decodeInstance with
  | error e' => simp [h1] at h; subst h; exact mapM_safe _ decodeInstance_safe rs e' h1
  | ok is =>
    simp only [h1] at h
    cases h2 : loadAttrs attrs with
    | error e' => simp [h2] at h; subst h; exact loadAttrs_safe attrs e' h2
    | ok as =>
      simp only [h2] at h
      cases h3 : cmdWriteTracks { f with userAttrs := as } is with
      | error e' => simp [h3] at h; subst h; exact cmdWriteTracks_safe _ is e' h3
      | ok ts =>
        simp only [h3] at h
        split at h <;> cases h
        rfl

/-- **`crd write conv` never crashes and never hangs** -/
theorem cmdWriteConv_safe (f : WriteFlags) (attrs : List RawAttr) (cs : List String) (rs : List RawInstance) :
    Safe (cmdWriteConv f attrs cs rs) := by
  unfold cmdWriteConv
  split
  · exact safe_err _ rfl
  refine safe_bind _ _ (mapM_safe _ decodeInstance_safe rs) fun is _ => ?_
  split
  · exact safe_err _ rfl
  refine safe_bind _ _ (loadAttrs_safe attrs) fun as _ => ?_
  exact safe_bind _ _ (prepareWrite_safe _ _) fun _ _ => safe_ok _

end Crd
