import Crd.Model.Dict

/-!
# Iteration-order independence: the generic lemmas behind C12

Go iterates maps (and sets built on maps) in an order that changes from run to run.  Each such loop of crd is
modelled as a function of the iteration order (a list that is a permutation of the map's entries); these
lemmas say when the result cannot depend on it.
-/
namespace Crd

/-- a search loop that returns at the first hit: if all hits agree, the order is irrelevant -/
theorem findSome?_perm_of_agree {α β} (f : α → Option β) {l₁ l₂ : List α} (hp : l₁.Perm l₂)
    (agree : ∀ a ∈ l₁, ∀ b ∈ l₁, ∀ x y, f a = some x → f b = some y → x = y) :
    l₁.findSome? f = l₂.findSome? f := by
  cases h1 : l₁.findSome? f with
  | none =>
    have hn : ∀ a ∈ l₂, f a = none := fun a ha => List.findSome?_eq_none_iff.mp h1 a (hp.mem_iff.mpr ha)
    exact (List.findSome?_eq_none_iff.mpr hn).symm
  | some x =>
    obtain ⟨a, ha, hfa⟩ := List.exists_of_findSome?_eq_some h1
    cases h2 : l₂.findSome? f with
    | none => have := List.findSome?_eq_none_iff.mp h2 a (hp.mem_iff.mp ha); rw [hfa] at this; cases this
    | some y =>
      obtain ⟨b, hb, hfb⟩ := List.exists_of_findSome?_eq_some h2
      rw [agree a ha b (hp.mem_iff.mpr hb) x y hfa hfb]

/-- `find?` as a special case: at most one entry satisfies the predicate -/
theorem find?_perm_of_unique {α} (p : α → Bool) {l₁ l₂ : List α} (hp : l₁.Perm l₂)
    (uniq : ∀ a ∈ l₁, ∀ b ∈ l₁, p a = true → p b = true → a = b) :
    l₁.find? p = l₂.find? p := by
  have e : ∀ l : List α, l.find? p = l.findSome? (fun a => if p a then some a else none) := by
    intro l; induction l with
    | nil => rfl
    | cons a as ih => simp only [List.find?_cons, List.findSome?_cons]; cases p a <;> simp [ih]
  rw [e, e]
  apply findSome?_perm_of_agree _ hp
  intro a ha b hb x y hx hy
  cases hpa : p a <;> simp [hpa] at hx
  cases hpb : p b <;> simp [hpb] at hy
  rw [← hx, ← hy]; exact uniq a ha b hb hpa hpb

/-- a map look-up modelled as a search of the entry list: with distinct keys the order is irrelevant -/
theorem lookup_perm_of_nodup {α β} [DecidableEq α] (k : α) {l₁ l₂ : List (α × β)} (hp : l₁.Perm l₂)
    (nd : (l₁.map (·.1)).Nodup) : lookup k l₁ = lookup k l₂ := by
  have e : ∀ l : List (α × β), lookup k l = (l.find? (fun p => p.1 = k)).map (·.2) := by
    intro l; induction l with
    | nil => rfl
    | cons a as ih =>
      obtain ⟨x, y⟩ := a
      simp only [lookup, List.find?_cons]
      by_cases h : x = k <;> simp [h, ih]
  rw [e, e, find?_perm_of_unique _ hp]
  intro a ha b hb pa pb
  have pa' : a.1 = k := by simpa using pa
  have pb' : b.1 = k := by simpa using pb
  have : ∀ (l : List (α × β)), (l.map (·.1)).Nodup → ∀ a ∈ l, ∀ b ∈ l, a.1 = b.1 → a = b := by
    intro l
    induction l with
    | nil => intro _ a ha; cases ha
    | cons c cs ih =>
      intro nd a ha b hb hab
      simp only [List.map_cons, List.nodup_cons, List.mem_map, not_exists, not_and] at nd
      rcases List.mem_cons.mp ha with rfl | ha' <;> rcases List.mem_cons.mp hb with rfl | hb'
      · rfl
      · exact absurd hab.symm (nd.1 b hb')
      · exact absurd hab (nd.1 a ha')
      · exact ih nd.2 a ha' b hb' hab
  exact this l₁ nd a ha b hb (pa'.trans pb'.symm)

/-- a loop that only accumulates a conjunction -/
theorem all_perm {α} (p : α → Bool) {l₁ l₂ : List α} (hp : l₁.Perm l₂) : l₁.all p = l₂.all p := by
  rw [Bool.eq_iff_iff]; simp only [List.all_eq_true]
  exact ⟨fun h a ha => h a (hp.mem_iff.mpr ha), fun h a ha => h a (hp.mem_iff.mp ha)⟩

/-- collecting in map order and then sorting: the printed list does not depend on the map order -/
theorem sorted_perm {l₁ l₂ : List String} (hp : l₁.Perm l₂) :
    l₁.mergeSort (fun a b => decide (a ≤ b)) = l₂.mergeSort (fun a b => decide (a ≤ b)) := by
  have tr : ∀ a b c : String, decide (a ≤ b) = true → decide (b ≤ c) = true → decide (a ≤ c) = true := by
    intro a b c h1 h2; simp only [decide_eq_true_eq] at *; exact String.le_trans h1 h2
  have tot : ∀ a b : String, (decide (a ≤ b) || decide (b ≤ a)) = true := by
    intro a b; rcases String.le_total a b with h | h <;> simp [h]
  apply List.Perm.eq_of_pairwise (le := fun a b => decide (a ≤ b) = true)
  · intro a b _ _ h1 h2; simp only [decide_eq_true_eq] at *; exact String.le_antisymm h1 h2
  · exact List.pairwise_mergeSort tr tot l₁
  · exact List.pairwise_mergeSort tr tot l₂
  · exact (List.mergeSort_perm l₁ _).trans (hp.trans (List.mergeSort_perm l₂ _).symm)

end Crd
