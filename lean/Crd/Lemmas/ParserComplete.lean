import Crd.Lemmas.ParserSound2

/-!
# Completeness of the hand-written parser: every sentence of the spelled-out language is accepted
-/
namespace Crd
open Spec

/-- kind of the next token, if any -/
def nextK (r : List Tok) : Option TK := r.head?.map (·.k)

theorem kinds_nil {ts : List Tok} (h : kinds ts = []) : ts = [] := by simpa [kinds] using h

theorem kinds_cons {ts : List Tok} {k : TK} {ks : List TK} (h : kinds ts = k :: ks) :
    ∃ t rest, ts = t :: rest ∧ t.k = k ∧ kinds rest = ks := by
  cases ts with
  | nil => simp [kinds] at h
  | cons t rest => simp [kinds] at h; exact ⟨t, rest, rfl, h.1, h.2⟩

theorem kinds_append {ts : List Tok} {a b : List TK} (h : kinds ts = a ++ b) :
    ∃ ta tb, ts = ta ++ tb ∧ kinds ta = a ∧ kinds tb = b := by
  obtain ⟨ta, tb, h1, h2, h3⟩ := List.map_eq_append_iff.mp h
  exact ⟨ta, tb, h1, h2, h3⟩

theorem kinds_app (a b : List Tok) : kinds (a ++ b) = kinds a ++ kinds b := by simp [kinds]

theorem nextK_cons (t : Tok) (r : List Tok) : nextK (t :: r) = some t.k := rfl

theorem pDegree_complete (pre r : List Tok) (h : LDegree (kinds pre))
    (hf : nextK r ≠ some .SHARP ∧ nextK r ≠ some .FLAT) : ∃ d, pDegree (pre ++ r) = some (d, r) := by
  generalize hk : kinds pre = ks at h
  have single : ∀ (t : Tok), (t.k = .SYLLABLE ∨ t.k = .NUMBER) → ∃ d, pDegree ([t] ++ r) = some (d, r) := by
    intro t ht
    cases r with
    | nil => exact ⟨⟨t, none⟩, by simp [pDegree, ht]⟩
    | cons a r' =>
      have ha : ¬ (a.k = .SHARP ∨ a.k = .FLAT) := by
        simp only [nextK_cons] at hf
        intro h'; rcases h' with h' | h' <;> simp [h'] at hf
      exact ⟨⟨t, none⟩, by simp [pDegree, ht, ha]⟩
  have double : ∀ (t a : Tok), (t.k = .SYLLABLE ∨ t.k = .NUMBER) → (a.k = .SHARP ∨ a.k = .FLAT) →
      ∃ d, pDegree ([t, a] ++ r) = some (d, r) := by
    intro t a ht ha
    exact ⟨⟨t, some a⟩, by simp [pDegree, ht, ha]⟩
  cases h with
  | syl => obtain ⟨t, rest, rfl, h1, h2⟩ := kinds_cons hk; rw [kinds_nil h2]; exact single t (Or.inl h1)
  | num => obtain ⟨t, rest, rfl, h1, h2⟩ := kinds_cons hk; rw [kinds_nil h2]; exact single t (Or.inr h1)
  | sylSharp =>
    obtain ⟨t, rest, rfl, h1, h2⟩ := kinds_cons hk; obtain ⟨a, rest', rfl, h3, h4⟩ := kinds_cons h2
    rw [kinds_nil h4]; exact double t a (Or.inl h1) (Or.inl h3)
  | sylFlat =>
    obtain ⟨t, rest, rfl, h1, h2⟩ := kinds_cons hk; obtain ⟨a, rest', rfl, h3, h4⟩ := kinds_cons h2
    rw [kinds_nil h4]; exact double t a (Or.inl h1) (Or.inr h3)
  | numSharp =>
    obtain ⟨t, rest, rfl, h1, h2⟩ := kinds_cons hk; obtain ⟨a, rest', rfl, h3, h4⟩ := kinds_cons h2
    rw [kinds_nil h4]; exact double t a (Or.inr h1) (Or.inl h3)
  | numFlat =>
    obtain ⟨t, rest, rfl, h1, h2⟩ := kinds_cons hk; obtain ⟨a, rest', rfl, h3, h4⟩ := kinds_cons h2
    rw [kinds_nil h4]; exact double t a (Or.inr h1) (Or.inr h3)

theorem pSymbol_complete (pre r : List Tok) (h : LSymbol (kinds pre))
    (hf : kinds pre = [] → nextK r ≠ some .SYMBOL ∧ nextK r ≠ some .UNDERSCORE) : ∃ s, pSymbol (pre ++ r) = some (s, r) := by
  generalize hk : kinds pre = ks at h
  cases h with
  | none =>
    rw [kinds_nil hk]
    obtain ⟨f1, f2⟩ := hf hk
    cases r with
    | nil => exact ⟨none, rfl⟩
    | cons x r' =>
      simp only [nextK_cons, ne_eq, Option.some.injEq] at f1 f2
      exact ⟨none, by simp [pSymbol, f1, f2]⟩
  | plain =>
    obtain ⟨t, rest, rfl, h1, h2⟩ := kinds_cons hk; rw [kinds_nil h2]
    exact ⟨some t, by simp [pSymbol, h1]⟩
  | under =>
    obtain ⟨t, rest, rfl, h1, h2⟩ := kinds_cons hk; obtain ⟨a, rest', rfl, h3, h4⟩ := kinds_cons h2
    rw [kinds_nil h4]
    exact ⟨some a, by simp [pSymbol, h1, h3]⟩

theorem pBase_complete (pre r : List Tok) (h : LBase (kinds pre))
    (hf : nextK r ≠ some .SLASH ∧ nextK r ≠ some .SHARP ∧ nextK r ≠ some .FLAT) : ∃ b, pBase (pre ++ r) = some (b, r) := by
  generalize hk : kinds pre = ks at h
  cases h with
  | none =>
    rw [kinds_nil hk]
    cases r with
    | nil => exact ⟨none, rfl⟩
    | cons x r' =>
      have := hf.1; simp only [nextK_cons, ne_eq, Option.some.injEq] at this
      exact ⟨none, by simp [pBase, this]⟩
  | slash d hd =>
    obtain ⟨t, rest, rfl, h1, h2⟩ := kinds_cons hk
    obtain ⟨dg, hdg⟩ := pDegree_complete rest r (h2 ▸ hd) ⟨hf.2.1, hf.2.2⟩
    exact ⟨some dg, by simp [pBase, h1, hdg]⟩

theorem pValue_complete (pre r : List Tok) (h : LValue (kinds pre)) (hf : nextK r ≠ some .SLASH) :
    ∃ v, pValue (pre ++ r) = some (v, r) := by
  generalize hk : kinds pre = ks at h
  cases h with
  | whole =>
    obtain ⟨t, rest, rfl, h1, h2⟩ := kinds_cons hk; rw [kinds_nil h2]
    cases r with
    | nil => exact ⟨⟨t, none⟩, by simp [pValue, h1]⟩
    | cons a r' =>
      simp only [nextK_cons, ne_eq, Option.some.injEq] at hf
      cases r' with
      | nil => exact ⟨⟨t, none⟩, by simp [pValue, h1, hf]⟩
      | cons b r'' => exact ⟨⟨t, none⟩, by simp [pValue, h1, hf]⟩
  | frac =>
    obtain ⟨t, rest, rfl, h1, h2⟩ := kinds_cons hk; obtain ⟨a, rest', rfl, h3, h4⟩ := kinds_cons h2
    obtain ⟨b, rest'', rfl, h5, h6⟩ := kinds_cons h4
    rw [kinds_nil h6]
    exact ⟨⟨t, some b⟩, by simp [pValue, h1, h3, h5]⟩

theorem lvtail_next (pt r : List Tok) (ht : LVTail (kinds pt)) (hs : nextK r ≠ some .SLASH) :
    nextK (pt ++ r) ≠ some .SLASH := by
  cases pt with
  | nil => simpa using hs
  | cons y ys =>
    generalize hk : kinds (y :: ys) = ks at ht
    cases ht with
    | nil => simp [kinds] at hk
    | cons v rest _ _ =>
      simp only [kinds, List.map_cons, List.cons_append, List.cons.injEq] at hk
      simp [nextK, hk.1]

theorem pValuesTail_complete : ∀ (pre : List Tok), LVTail (kinds pre) → ∀ (r : List Tok),
    nextK r ≠ some .COMMA → nextK r ≠ some .SLASH → ∀ (f : Nat) (acc : List ValueN), pre.length + 1 ≤ f →
      ∃ more, pValuesTail f (pre ++ r) acc = some (acc ++ more, r) := by
  intro pre h
  generalize hk : kinds pre = ks at h
  induction h generalizing pre with
  | nil =>
    intro r hc _ f acc hf
    rw [kinds_nil hk]
    obtain ⟨f', rfl⟩ : ∃ f', f = f' + 1 := ⟨f - 1, by omega⟩
    cases r with
    | nil => exact ⟨[], by simp [pValuesTail]⟩
    | cons x r' =>
      simp only [nextK_cons, ne_eq, Option.some.injEq] at hc
      exact ⟨[], by simp [pValuesTail, hc]⟩
  | cons v rest hv _ ih =>
    intro r hc hs f acc hf
    obtain ⟨c, rest1, rfl, hck, h2⟩ := kinds_cons hk
    obtain ⟨pv, pt, rfl, hkv, hkt⟩ := kinds_append h2
    obtain ⟨f', rfl⟩ : ∃ f', f = f' + 1 := ⟨f - 1, by simp at hf; omega⟩
    have hnext : nextK (pt ++ r) ≠ some .SLASH := lvtail_next pt r (by rw [hkt]; assumption) hs
    obtain ⟨val, hval⟩ := pValue_complete pv (pt ++ r) (hkv ▸ hv) hnext
    obtain ⟨more, hmore⟩ := ih pt hkt r hc hs f' (acc ++ [val]) (by simp at hf ⊢; omega)
    refine ⟨val :: more, ?_⟩
    simp only [List.cons_append, List.append_assoc, pValuesTail, hck, if_true, hval, hmore]
    simp

theorem lvalues_split (ts : List TK) (h : LValues ts) : ∃ v t, ts = v ++ t ∧ LValue v ∧ LVTail t := by
  induction h with
  | one v hv => exact ⟨v, [], by simp, hv, LVTail.nil⟩
  | more vs v _ hv ih =>
    obtain ⟨v0, t, rfl, h0, ht⟩ := ih
    refine ⟨v0, t ++ .COMMA :: v, by simp, h0, ?_⟩
    have app : ∀ t, LVTail t → LVTail (t ++ .COMMA :: v) := by
      intro t ht
      induction ht with
      | nil => simpa using LVTail.cons v [] hv LVTail.nil
      | cons v' rest h1 _ ih' => simpa [List.append_assoc] using LVTail.cons v' _ h1 ih'
    exact app t ht

theorem pValues_complete (pre r : List Tok) (h : LValues (kinds pre))
    (hc : nextK r ≠ some .COMMA) (hs : nextK r ≠ some .SLASH) : ∃ vs, pValues (pre ++ r) = some (vs, r) := by
  obtain ⟨v, t, hvt, hv, ht⟩ := lvalues_split _ h
  obtain ⟨pv, pt, rfl, hkv, hkt⟩ := kinds_append hvt
  have hnext : nextK (pt ++ r) ≠ some .SLASH := lvtail_next pt r (hkt ▸ ht) hs
  obtain ⟨val, hval⟩ := pValue_complete pv (pt ++ r) (hkv ▸ hv) hnext
  obtain ⟨more, hmore⟩ := pValuesTail_complete pt (hkt ▸ ht) r hc hs ((pv ++ pt ++ r).length + 1) [val] (by simp; omega)
  exact ⟨[val] ++ more, by simp only [pValues, List.append_assoc] at hmore ⊢; simp only [hval, hmore]⟩

end Crd
