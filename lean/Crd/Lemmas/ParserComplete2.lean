import Crd.Lemmas.ParserComplete

/-!
# Completeness of the parser, continued; the main equivalence `parseToks ts ≠ none ↔ LList (kinds ts)`
-/
namespace Crd
open Spec

theorem pMetadata_complete (pre r : List Tok) (h : kinds pre = [.METADATA, .EQUAL, .METADATA]) :
    ∃ m, pMetadata (pre ++ r) = some (m, r) := by
  obtain ⟨a, r1, rfl, h1, h2⟩ := kinds_cons h
  obtain ⟨b, r2, rfl, h3, h4⟩ := kinds_cons h2
  obtain ⟨c, r3, rfl, h5, h6⟩ := kinds_cons h4
  rw [kinds_nil h6]
  exact ⟨⟨a, c⟩, by simp [pMetadata, h1, h3, h5]⟩

theorem pMetaTail_complete : ∀ (pre : List Tok), LMTail (kinds pre) → ∀ (r : List Tok),
    nextK r ≠ some .COMMA → ∀ (f : Nat) (acc : List MetaKV), pre.length + 1 ≤ f →
      ∃ more, pMetaTail f (pre ++ r) acc = some (acc ++ more, r) := by
  intro pre h
  generalize hk : kinds pre = ks at h
  induction h generalizing pre with
  | nil =>
    intro r hc f acc hf
    rw [kinds_nil hk]
    obtain ⟨f', rfl⟩ : ∃ f', f = f' + 1 := ⟨f - 1, by omega⟩
    cases r with
    | nil => exact ⟨[], by simp [pMetaTail]⟩
    | cons x r' =>
      simp only [nextK_cons, ne_eq, Option.some.injEq] at hc
      exact ⟨[], by simp [pMetaTail, hc]⟩
  | cons rest _ ih =>
    intro r hc f acc hf
    obtain ⟨c, r1, rfl, hck, h2⟩ := kinds_cons hk
    have h2' : kinds r1 = [.METADATA, .EQUAL, .METADATA] ++ rest := h2
    obtain ⟨pm, pt, rfl, hkm, hkt⟩ := kinds_append h2'
    obtain ⟨f', rfl⟩ : ∃ f', f = f' + 1 := ⟨f - 1, by simp at hf; omega⟩
    obtain ⟨m, hm⟩ := pMetadata_complete pm (pt ++ r) hkm
    obtain ⟨more, hmore⟩ := ih pt hkt r hc f' (acc ++ [m]) (by simp at hf ⊢; omega)
    refine ⟨m :: more, ?_⟩
    simp only [List.cons_append, List.append_assoc, pMetaTail, hck, if_true, hm, hmore]
    simp

theorem lmetaint_split (ts : List TK) (h : LMetaInt ts) : ∃ t, ts = [.METADATA, .EQUAL, .METADATA] ++ t ∧ LMTail t := by
  induction h with
  | one => exact ⟨[], rfl, LMTail.nil⟩
  | more ms _ ih =>
    obtain ⟨t, rfl, ht⟩ := ih
    refine ⟨t ++ [.COMMA, .METADATA, .EQUAL, .METADATA], by simp, ?_⟩
    have app : ∀ t, LMTail t → LMTail (t ++ [.COMMA, .METADATA, .EQUAL, .METADATA]) := by
      intro t ht
      induction ht with
      | nil => simpa using LMTail.cons [] LMTail.nil
      | cons rest _ ih' => simpa using LMTail.cons _ ih'
    exact app t ht

theorem pMeta_complete (pre r : List Tok) (h : LMeta (kinds pre)) (hf : kinds pre = [] → nextK r ≠ some .LCBRA) :
    ∃ m, pMeta (pre ++ r) = some (m, r) := by
  generalize hk : kinds pre = ks at h
  cases h with
  | none =>
    rw [kinds_nil hk]
    cases r with
    | nil => exact ⟨none, rfl⟩
    | cons x r' =>
      have := hf hk; simp only [nextK_cons, ne_eq, Option.some.injEq] at this
      exact ⟨none, by simp [pMeta, this]⟩
  | some ms hms =>
    obtain ⟨l, r1, rfl, hl, h2⟩ := kinds_cons hk
    obtain ⟨pmi, pc, rfl, hkmi, hkc⟩ := kinds_append h2
    obtain ⟨c, r2, rfl, hc, h3⟩ := kinds_cons hkc
    rw [kinds_nil h3]
    obtain ⟨t, hsplit, htail⟩ := lmetaint_split ms hms
    obtain ⟨pm, pt, rfl, hkm, hkt⟩ := kinds_append (hkmi.trans hsplit)
    obtain ⟨m0, hm0⟩ := pMetadata_complete pm (pt ++ c :: r) hkm
    obtain ⟨more, hmore⟩ := pMetaTail_complete pt (hkt ▸ htail) (c :: r) (by simp [nextK, hc])
      ((l :: (pm ++ pt ++ [c]) ++ r).length + 1) [m0] (by simp; omega)
    refine ⟨some ([m0] ++ more), ?_⟩
    have e1 : l :: (pm ++ pt ++ [c]) ++ r = l :: (pm ++ (pt ++ c :: r)) := by simp
    rw [e1] at hmore ⊢
    simp only [pMeta, hl, if_true, hm0, hmore, hc]

theorem pBody_complete (lb rb : Tok) (pv pm r : List Tok) (hl : lb.k = .LBRA) (hr : rb.k = .RBRA)
    (hv : LValues (kinds pv)) (hm : LMeta (kinds pm)) (hf : kinds pm = [] → nextK r ≠ some .LCBRA) :
    ∃ vs m, pBody (lb :: pv ++ rb :: pm ++ r) = some (vs, m, r) := by
  obtain ⟨vs, hvs⟩ := pValues_complete pv (rb :: (pm ++ r)) hv (by simp [nextK, hr]) (by simp [nextK, hr])
  obtain ⟨m, hmm⟩ := pMeta_complete pm r hm hf
  refine ⟨vs, m, ?_⟩
  have e : lb :: pv ++ rb :: pm ++ r = lb :: (pv ++ rb :: (pm ++ r)) := by simp
  rw [e]
  simp only [pBody, hl, if_true, hvs, hr, hmm]

theorem ldegree_first (d : List TK) (h : LDegree d) : ∃ k rest, d = k :: rest ∧ (k = .SYLLABLE ∨ k = .NUMBER) := by
  cases h <;> simp

theorem pItem_complete (pre r : List Tok) (h : LItem (kinds pre)) (hf : nextK r ≠ some .LCBRA) :
    ∃ it, pItem (pre ++ r) = some (it, r) := by
  generalize hk : kinds pre = ks at h
  cases h with
  | rest vs m hv hm =>
    obtain ⟨t, r1, rfl, ht, h2⟩ := kinds_cons hk
    obtain ⟨lb, r2, rfl, hl, h3⟩ := kinds_cons h2
    obtain ⟨pv, pr, rfl, hkv, hkr⟩ := kinds_append h3
    obtain ⟨rb, pm, rfl, hrb, hkm⟩ := kinds_cons hkr
    obtain ⟨vs', m', hb⟩ := pBody_complete lb rb pv pm r hl hrb (hkv ▸ hv) (hkm ▸ hm) (fun _ => hf)
    refine ⟨.rest vs' m', ?_⟩
    have e : t :: lb :: (pv ++ rb :: pm) ++ r = t :: (lb :: pv ++ rb :: pm ++ r) := by simp
    rw [e]
    simp only [pItem, ht, if_true, hb]
  | chord d s b vs m hd hs hb hv hm =>
    -- split the tokens along d ++ s ++ b ++ LBRA :: vs ++ RBRA :: m
    have hk' : kinds pre = d ++ (s ++ (b ++ (.LBRA :: (vs ++ .RBRA :: m)))) := by simpa [List.append_assoc] using hk
    obtain ⟨pd, p1, rfl, hkd, hk1⟩ := kinds_append hk'
    obtain ⟨ps, p2, rfl, hks, hk2⟩ := kinds_append hk1
    obtain ⟨pb, p3, rfl, hkb, hk3⟩ := kinds_append hk2
    obtain ⟨lb, p4, rfl, hl, hk4⟩ := kinds_cons hk3
    obtain ⟨pv, p5, rfl, hkv, hk5⟩ := kinds_append hk4
    obtain ⟨rb, pm, rfl, hrb, hkm⟩ := kinds_cons hk5
    -- first token is not REST
    obtain ⟨k0, rest0, hd0, hk0⟩ := ldegree_first d hd
    obtain ⟨t0, pd', rfl, ht0, _⟩ := kinds_cons (hkd.trans hd0)
    have hnotrest : ¬ (t0.k = .REST) := by rcases hk0 with h | h <;> simp [ht0, h]
    -- what follows each part
    have nb : ∀ (x : List Tok), LBase (kinds x) → ∀ tail, nextK tail = some .LBRA →
        nextK (x ++ tail) = some .SLASH ∨ nextK (x ++ tail) = some .LBRA := by
      intro x hx tail htl
      generalize hkx : kinds x = kx at hx
      cases hx with
      | none => rw [kinds_nil hkx]; exact Or.inr htl
      | slash d' _ => obtain ⟨y, ys, rfl, hy, _⟩ := kinds_cons hkx; exact Or.inl (by simp [nextK, hy])
    have ns : ∀ (x : List Tok), LSymbol (kinds x) → ∀ tail, (nextK tail = some .SLASH ∨ nextK tail = some .LBRA) →
        nextK (x ++ tail) = some .SYMBOL ∨ nextK (x ++ tail) = some .UNDERSCORE ∨ nextK (x ++ tail) = some .SLASH ∨ nextK (x ++ tail) = some .LBRA := by
      intro x hx tail htl
      generalize hkx : kinds x = kx at hx
      cases hx with
      | none => rw [kinds_nil hkx]; rcases htl with h | h <;> simp [h]
      | plain => obtain ⟨y, ys, rfl, hy, _⟩ := kinds_cons hkx; exact Or.inl (by simp [nextK, hy])
      | under => obtain ⟨y, ys, rfl, hy, _⟩ := kinds_cons hkx; exact Or.inr (Or.inl (by simp [nextK, hy]))
    have tail3 : nextK (lb :: (pv ++ rb :: pm) ++ r) = some .LBRA := by simp [nextK, hl]
    have tail2 := nb pb (hkb ▸ hb) (lb :: (pv ++ rb :: pm) ++ r) tail3
    have tail1 := ns ps (hks ▸ hs) (pb ++ (lb :: (pv ++ rb :: pm) ++ r)) tail2
    -- run the parser pieces
    obtain ⟨dg, hdg⟩ := pDegree_complete (t0 :: pd') (ps ++ (pb ++ (lb :: (pv ++ rb :: pm) ++ r))) (hkd ▸ hd)
      (by rcases tail1 with h | h | h | h <;> exact ⟨by rw [h]; simp, by rw [h]; simp⟩)
    obtain ⟨sy, hsy⟩ := pSymbol_complete ps (pb ++ (lb :: (pv ++ rb :: pm) ++ r)) (hks ▸ hs)
      (by intro _; rcases tail2 with h | h <;> exact ⟨by rw [h]; simp, by rw [h]; simp⟩)
    obtain ⟨bs, hbs⟩ := pBase_complete pb (lb :: (pv ++ rb :: pm) ++ r) (hkb ▸ hb) ⟨by rw [tail3]; simp, by rw [tail3]; simp, by rw [tail3]; simp⟩
    obtain ⟨vs', m', hbody⟩ := pBody_complete lb rb pv pm r hl hrb (hkv ▸ hv) (hkm ▸ hm) (fun _ => hf)
    refine ⟨.chord dg sy bs vs' m', ?_⟩
    have e : t0 :: pd' ++ (ps ++ (pb ++ lb :: (pv ++ rb :: pm))) ++ r =
        t0 :: (pd' ++ (ps ++ (pb ++ (lb :: (pv ++ rb :: pm) ++ r)))) := by simp
    have e2 : lb :: pv ++ rb :: pm ++ r = lb :: (pv ++ rb :: pm) ++ r := by simp
    rw [e2] at hbody
    rw [e]
    have hdg' : pDegree (t0 :: (pd' ++ (ps ++ (pb ++ (lb :: (pv ++ rb :: pm) ++ r))))) =
        some (dg, ps ++ (pb ++ (lb :: (pv ++ rb :: pm) ++ r))) := by simpa using hdg
    simp only [pItem, hnotrest, if_false, hdg', hsy, hbs, hbody]

theorem litem_first (i : List TK) (h : LItem i) : ∃ k rest, i = k :: rest ∧ k ≠ .LCBRA := by
  cases h with
  | rest vs m _ _ => exact ⟨_, _, rfl, by simp⟩
  | chord d s b vs m hd _ _ _ _ =>
    obtain ⟨k, rest, rfl, hk⟩ := ldegree_first d hd
    exact ⟨k, rest ++ (s ++ (b ++ .LBRA :: (vs ++ .RBRA :: m))), by simp, by rcases hk with rfl | rfl <;> simp⟩

theorem litail_next (pr : List Tok) (h : LITail (kinds pr)) : nextK pr ≠ some .LCBRA := by
  cases pr with
  | nil => simp [nextK]
  | cons y ys =>
    generalize hky : kinds (y :: ys) = ky at h
    cases h with
    | nil => simp [kinds] at hky
    | cons i' rest' hi' _ =>
      obtain ⟨k, rs, hfirst, hne⟩ := litem_first i' hi'
      rw [hfirst] at hky
      simp only [kinds, List.map_cons, List.cons_append, List.cons.injEq] at hky
      simp [nextK, hky.1, hne]

theorem pItems_complete : ∀ (ts : List Tok), LITail (kinds ts) → ∀ (f : Nat) (acc : List Item),
    ts.length + 1 ≤ f → (ts = [] → acc ≠ []) → ∃ more, pItems f ts acc = some (acc ++ more) := by
  intro ts h
  generalize hk : kinds ts = ks at h
  induction h generalizing ts with
  | nil =>
    intro f acc hf hne
    have hts := kinds_nil hk
    subst hts
    obtain ⟨f', rfl⟩ : ∃ f', f = f' + 1 := ⟨f - 1, by omega⟩
    have : acc.isEmpty = false := by
      cases acc with
      | nil => exact absurd rfl (hne rfl)
      | cons _ _ => rfl
    exact ⟨[], by simp [pItems, this]⟩
  | cons i rest hi hrest ih =>
    intro f acc hf _
    obtain ⟨pi, pr, rfl, hki, hkr⟩ := kinds_append hk
    obtain ⟨f', rfl⟩ : ∃ f', f = f' + 1 := ⟨f - 1, by omega⟩
    have hnext : nextK pr ≠ some .LCBRA := litail_next pr (hkr ▸ hrest)
    obtain ⟨it, hit⟩ := pItem_complete pi pr (hki ▸ hi) hnext
    obtain ⟨k0, rs0, hfirst0, _⟩ := litem_first i hi
    have hpine : pi ≠ [] := by
      intro he; subst he
      have : i = [] := by simpa [kinds] using hki.symm
      rw [this] at hfirst0; cases hfirst0
    obtain ⟨more, hmore⟩ := ih pr hkr f' (acc ++ [it]) (by
      have : 1 ≤ pi.length := by
        cases pi with
        | nil => exact absurd rfl hpine
        | cons _ _ => simp
      simp at hf ⊢; omega) (by intro _; simp)
    refine ⟨it :: more, ?_⟩
    cases hpi : pi ++ pr with
    | nil => simp at hpi; exact absurd hpi.1 hpine
    | cons t ts' =>
      rw [← hpi]
      simp only [pItems]
      rw [hpi]
      simp only [← hpi, hit, hmore]
      simp

theorem llist_split (ts : List TK) (h : LList ts) : ∃ i t, ts = i ++ t ∧ LItem i ∧ LITail t := by
  induction h with
  | one i hi => exact ⟨i, [], by simp, hi, LITail.nil⟩
  | more l i _ hi ih =>
    obtain ⟨i0, t, rfl, h0, ht⟩ := ih
    refine ⟨i0, t ++ i, by simp, h0, ?_⟩
    have app : ∀ t, LITail t → LITail (t ++ i) := by
      intro t ht
      induction ht with
      | nil => simpa using LITail.cons i [] hi LITail.nil
      | cons i' rest h1 _ ih' => simpa [List.append_assoc] using LITail.cons i' _ h1 ih'
    exact app t ht

/-- **completeness**: every token list whose kinds form a sentence of the chord language is accepted -/
theorem parseToks_complete (ts : List Tok) (h : LList (kinds ts)) : ∃ items, parseToks ts = some items := by
  obtain ⟨i, t, hsplit, hi, ht⟩ := llist_split _ h
  have hl : LITail (kinds ts) := by rw [hsplit]; exact LITail.cons i t hi ht
  have hne : ts ≠ [] := by
    intro he; subst he
    obtain ⟨k, rs, hfirst, _⟩ := litem_first i hi
    simp [kinds, hfirst] at hsplit
  obtain ⟨more, hmore⟩ := pItems_complete ts hl (ts.length + 1) [] (by omega) (fun he => absurd he hne)
  exact ⟨more, by simpa [parseToks] using hmore⟩

/-- **the parser decides the chord language** -/
theorem parseToks_iff (ts : List Tok) : (parseToks ts).isSome = true ↔ LList (kinds ts) := by
  constructor
  · intro h
    cases hp : parseToks ts with
    | none => simp [hp] at h
    | some items => exact (parseToks_sound ts items hp).1
  · intro h
    obtain ⟨items, hi⟩ := parseToks_complete ts h
    simp [hi]

end Crd
