import Crd.Model.Parser
import Crd.Spec.Grammar

/-!
# Soundness of the hand-written parser: whatever it accepts is a sentence of the spelled-out language, and the
AST it builds lists exactly the tokens read (tree faithfulness)
-/
namespace Crd
open Spec

def kinds (ts : List Tok) : List TK := ts.map (·.k)

/-- what the AST records of a token: its kind, and its text when the kind carries one -/
def Tok.sig (t : Tok) : TK × List Char :=
  (t.k, if t.k = .SYLLABLE ∨ t.k = .NUMBER ∨ t.k = .SHARP ∨ t.k = .FLAT ∨ t.k = .SYMBOL ∨ t.k = .METADATA then t.v else [])

/-- tokens other than the optional underscore -/
def stripU (ts : List Tok) : List Tok := ts.filter (fun t => t.k != .UNDERSCORE)

def sigs (ts : List Tok) : List (TK × List Char) := (stripU ts).map Tok.sig

/-! ### rendering the AST back to token signatures -/

def rDegree (d : DegreeN) : List (TK × List Char) := d.head.sig :: (d.acc.map Tok.sig).toList
def rValue (v : ValueN) : List (TK × List Char) :=
  v.num.sig :: (match v.den with | none => [] | some d => [(.SLASH, []), d.sig])
def rValues : List ValueN → List (TK × List Char)
  | [] => []
  | [v] => rValue v
  | v :: vs => rValue v ++ (.COMMA, []) :: rValues vs
def rKV (m : MetaKV) : List (TK × List Char) := [m.key.sig, (.EQUAL, []), m.value.sig]
def rKVs : List MetaKV → List (TK × List Char)
  | [] => []
  | [m] => rKV m
  | m :: ms => rKV m ++ (.COMMA, []) :: rKVs ms
def rMeta : Option (List MetaKV) → List (TK × List Char)
  | none => []
  | some ms => (.LCBRA, []) :: rKVs ms ++ [(.RCBRA, [])]
def rBase : Option DegreeN → List (TK × List Char)
  | none => []
  | some bd => (.SLASH, []) :: rDegree bd
def rItem : Item → List (TK × List Char)
  | .chord d s b vs m =>
    rDegree d ++ (s.map Tok.sig).toList ++ rBase b ++
      (.LBRA, []) :: rValues vs ++ (.RBRA, []) :: rMeta m
  | .rest vs m => (.REST, []) :: (.LBRA, []) :: rValues vs ++ (.RBRA, []) :: rMeta m

/-! ### right-recursive views of the list nonterminals -/

inductive LVTail : List TK → Prop
  | nil : LVTail []
  | cons (v rest) (h1 : LValue v) (h2 : LVTail rest) : LVTail (.COMMA :: v ++ rest)

inductive LMTail : List TK → Prop
  | nil : LMTail []
  | cons (rest) (h : LMTail rest) : LMTail (.COMMA :: .METADATA :: .EQUAL :: .METADATA :: rest)

theorem lvalues_tail (vs : List TK) (h : LValues vs) : ∀ t, LVTail t → LValues (vs ++ t) := by
  intro t ht
  induction ht generalizing vs with
  | nil => simpa using h
  | cons v rest h1 _ ih =>
    have := ih (vs ++ .COMMA :: v) (LValues.more vs v h h1)
    simpa [List.append_assoc] using this

theorem lmeta_tail (ms : List TK) (h : LMetaInt ms) : ∀ t, LMTail t → LMetaInt (ms ++ t) := by
  intro t ht
  induction ht generalizing ms with
  | nil => simpa using h
  | cons rest _ ih =>
    have := ih (ms ++ [.COMMA, .METADATA, .EQUAL, .METADATA]) (LMetaInt.more ms h)
    simpa [List.append_assoc] using this

/-! ### per-function soundness -/

theorem sigs_append (a b : List Tok) : sigs (a ++ b) = sigs a ++ sigs b := by simp [sigs, stripU]

theorem sig_of_kind (t : Tok) (k : TK) (h : t.k = k) (hk : ¬ (k = .SYLLABLE ∨ k = .NUMBER ∨ k = .SHARP ∨ k = .FLAT ∨ k = .SYMBOL ∨ k = .METADATA)) :
    t.sig = (k, []) := by
  unfold Tok.sig; rw [h]; simp [hk]

theorem pDegree_sound (ts : List Tok) (d : DegreeN) (r : List Tok) (h : pDegree ts = some (d, r)) :
    ∃ pre, ts = pre ++ r ∧ LDegree (kinds pre) ∧ sigs pre = rDegree d := by
  unfold pDegree at h
  match ts, h with
  | hd :: rest, h =>
    simp only at h
    split at h
    · rename_i hk
      match rest, h with
      | a :: r', h =>
        simp only at h
        split at h
        · rename_i ha
          cases h
          refine ⟨[hd, a], rfl, ?_, ?_⟩
          · rcases hk with hk | hk <;> rcases ha with ha | ha <;> simp [kinds, hk, ha] <;> constructor
          · rcases hk with hk | hk <;> rcases ha with ha | ha <;> simp [sigs, stripU, rDegree, hk, ha]
        · cases h
          refine ⟨[hd], rfl, ?_, ?_⟩
          · rcases hk with hk | hk <;> simp [kinds, hk] <;> constructor
          · rcases hk with hk | hk <;> simp [sigs, stripU, rDegree, hk]
      | [], h =>
        cases h
        refine ⟨[hd], rfl, ?_, ?_⟩
        · rcases hk with hk | hk <;> simp [kinds, hk] <;> constructor
        · rcases hk with hk | hk <;> simp [sigs, stripU, rDegree, hk]
    · cases h

theorem pValue_sound (ts : List Tok) (v : ValueN) (r : List Tok) (h : pValue ts = some (v, r)) :
    ∃ pre, ts = pre ++ r ∧ LValue (kinds pre) ∧ sigs pre = rValue v := by
  unfold pValue at h
  match ts, h with
  | n :: rest, h =>
    simp only at h
    split at h
    · rename_i hn
      match rest, h with
      | s :: dd :: r', h =>
        simp only at h
        split at h
        · rename_i hs
          split at h
          · rename_i hd
            cases h
            refine ⟨[n, s, dd], rfl, by simp [kinds, hn, hs, hd]; exact LValue.frac, ?_⟩
            simp [sigs, stripU, rValue, hn, hs, hd, sig_of_kind s .SLASH hs]
          · cases h
        · cases h
          exact ⟨[n], rfl, by simp [kinds, hn]; exact LValue.whole, by simp [sigs, stripU, rValue, hn]⟩
      | [s], h =>
        simp only at h
        split at h
        · cases h
        · cases h
          exact ⟨[n], rfl, by simp [kinds, hn]; exact LValue.whole, by simp [sigs, stripU, rValue, hn]⟩
      | [], h =>
        cases h
        exact ⟨[n], rfl, by simp [kinds, hn]; exact LValue.whole, by simp [sigs, stripU, rValue, hn]⟩
    · cases h

theorem rValues_snoc (acc : List ValueN) (v : ValueN) (hne : acc ≠ []) :
    rValues (acc ++ [v]) = rValues acc ++ (.COMMA, []) :: rValue v := by
  induction acc with
  | nil => exact absurd rfl hne
  | cons a as ih =>
    cases as with
    | nil => simp [rValues]
    | cons b bs =>
      have := ih (by simp)
      simp only [List.cons_append, rValues] at this ⊢
      rw [this]; simp

theorem pValuesTail_sound : ∀ (f : Nat) (ts : List Tok) (acc vs : List ValueN) (r : List Tok),
    acc ≠ [] → pValuesTail f ts acc = some (vs, r) →
      ∃ pre, ts = pre ++ r ∧ LVTail (kinds pre) ∧ ∃ more, vs = acc ++ more ∧
        rValues vs = rValues acc ++ sigs pre := by
  intro f
  induction f with
  | zero => intro ts acc vs r _ h; simp [pValuesTail] at h
  | succ f ih =>
    intro ts acc vs r hne h
    unfold pValuesTail at h
    match ts, h with
    | c :: rest, h =>
      simp only at h
      split at h
      · rename_i hc
        cases hv : pValue rest with
        | none => simp [hv] at h
        | some p =>
          obtain ⟨v, r'⟩ := p
          simp only [hv] at h
          obtain ⟨pv, rfl, hlv, hsv⟩ := pValue_sound rest v r' hv
          obtain ⟨pre, rfl, htail, more, rfl, hr⟩ := ih r' (acc ++ [v]) vs r (by simp) h
          refine ⟨c :: pv ++ pre, by simp, ?_, [v] ++ more, by simp, ?_⟩
          · have : kinds (c :: pv ++ pre) = .COMMA :: kinds pv ++ kinds pre := by simp [kinds, hc]
            rw [this]; exact LVTail.cons _ _ hlv htail
          · rw [hr, rValues_snoc acc v hne]
            have hcs : sigs [c] = [(TK.COMMA, [])] := by simp [sigs, stripU, hc, sig_of_kind c .COMMA hc]
            have : sigs (c :: pv ++ pre) = sigs [c] ++ sigs pv ++ sigs pre := by
              rw [← sigs_append, ← sigs_append]; simp
            rw [this, hcs, hsv]; simp
      · cases h
        exact ⟨[], by simp, LVTail.nil, [], by simp, by simp [sigs, stripU]⟩
    | [], h =>
      cases h
      exact ⟨[], by simp, LVTail.nil, [], by simp, by simp [sigs, stripU]⟩

theorem pValues_sound (ts : List Tok) (vs : List ValueN) (r : List Tok) (h : pValues ts = some (vs, r)) :
    ∃ pre, ts = pre ++ r ∧ LValues (kinds pre) ∧ sigs pre = rValues vs := by
  unfold pValues at h
  cases hv : pValue ts with
  | none => simp [hv] at h
  | some p =>
    obtain ⟨v, r'⟩ := p
    simp only [hv] at h
    obtain ⟨pv, rfl, hlv, hsv⟩ := pValue_sound ts v r' hv
    obtain ⟨pre, rfl, htail, more, rfl, hr⟩ := pValuesTail_sound _ r' [v] vs r (by simp) h
    refine ⟨pv ++ pre, by simp, ?_, ?_⟩
    · have : kinds (pv ++ pre) = kinds pv ++ kinds pre := by simp [kinds]
      rw [this]; exact lvalues_tail _ (LValues.one _ hlv) _ htail
    · rw [sigs_append, hr, hsv]; simp [rValues]

end Crd
