import Crd.Lemmas.ParserSound

/-!
# Soundness of the parser, continued: metadata, body, symbol, base, items
-/
namespace Crd
open Spec

theorem pMetadata_sound (ts : List Tok) (m : MetaKV) (r : List Tok) (h : pMetadata ts = some (m, r)) :
    ∃ pre, ts = pre ++ r ∧ kinds pre = [.METADATA, .EQUAL, .METADATA] ∧ sigs pre = rKV m := by
  unfold pMetadata at h
  match ts, h with
  | k :: e :: v :: r', h =>
    simp only at h
    split at h
    · rename_i hk
      cases h
      obtain ⟨h1, h2, h3⟩ := hk
      exact ⟨[k, e, v], rfl, by simp [kinds, h1, h2, h3], by simp [sigs, stripU, rKV, h1, h2, h3, sig_of_kind e .EQUAL h2]⟩
    · cases h

theorem rKVs_snoc (acc : List MetaKV) (m : MetaKV) (hne : acc ≠ []) :
    rKVs (acc ++ [m]) = rKVs acc ++ (.COMMA, []) :: rKV m := by
  induction acc with
  | nil => exact absurd rfl hne
  | cons a as ih =>
    cases as with
    | nil => simp [rKVs]
    | cons b bs =>
      have := ih (by simp)
      simp only [List.cons_append, rKVs] at this ⊢
      rw [this]; simp

theorem pMetaTail_sound : ∀ (f : Nat) (ts : List Tok) (acc ms : List MetaKV) (r : List Tok),
    acc ≠ [] → pMetaTail f ts acc = some (ms, r) →
      ∃ pre, ts = pre ++ r ∧ LMTail (kinds pre) ∧ rKVs ms = rKVs acc ++ sigs pre ∧ (r.head?.map (·.k) ≠ some .COMMA) := by
  intro f
  induction f with
  | zero => intro ts acc ms r _ h; simp [pMetaTail] at h
  | succ f ih =>
    intro ts acc ms r hne h
    unfold pMetaTail at h
    match ts, h with
    | c :: rest, h =>
      simp only at h
      split at h
      · rename_i hc
        cases hv : pMetadata rest with
        | none => simp [hv] at h
        | some p =>
          obtain ⟨m, r'⟩ := p
          simp only [hv] at h
          obtain ⟨pm, rfl, hk, hs⟩ := pMetadata_sound rest m r' hv
          obtain ⟨pre, rfl, htail, hr, hnc⟩ := ih r' (acc ++ [m]) ms r (by simp) h
          refine ⟨c :: pm ++ pre, by simp, ?_, ?_, hnc⟩
          · have : kinds (c :: pm ++ pre) = .COMMA :: .METADATA :: .EQUAL :: .METADATA :: kinds pre := by
              have : kinds (c :: pm ++ pre) = c.k :: (kinds pm ++ kinds pre) := by simp [kinds]
              rw [this, hc, hk]; rfl
            rw [this]; exact LMTail.cons _ htail
          · rw [hr, rKVs_snoc acc m hne]
            have hcs : sigs [c] = [(TK.COMMA, [])] := by simp [sigs, stripU, hc, sig_of_kind c .COMMA hc]
            have : sigs (c :: pm ++ pre) = sigs [c] ++ sigs pm ++ sigs pre := by
              rw [← sigs_append, ← sigs_append]; simp
            rw [this, hcs, hs]; simp
      · rename_i hc
        cases h
        exact ⟨[], by simp, LMTail.nil, by simp [sigs, stripU], by simpa using hc⟩
    | [], h =>
      cases h
      exact ⟨[], by simp, LMTail.nil, by simp [sigs, stripU], by simp⟩

theorem pMeta_sound (ts : List Tok) (m : Option (List MetaKV)) (r : List Tok) (h : pMeta ts = some (m, r)) :
    ∃ pre, ts = pre ++ r ∧ LMeta (kinds pre) ∧ sigs pre = rMeta m := by
  unfold pMeta at h
  cases ts with
  | nil =>
    cases h
    exact ⟨[], by simp, LMeta.none, by simp [sigs, stripU, rMeta]⟩
  | cons l rest =>
    simp only at h
    generalize (l :: rest).length + 1 = fuel at h
    split at h
    · rename_i hl
      cases hm : pMetadata rest with
      | none => simp [hm] at h
      | some p =>
        obtain ⟨m0, r1⟩ := p
        simp only [hm] at h
        obtain ⟨pm, hrest, hk, hs⟩ := pMetadata_sound rest m0 r1 hm
        cases ht : pMetaTail fuel r1 [m0] with
        | none => simp [ht] at h
        | some q =>
          obtain ⟨ms, r2⟩ := q
          simp only [ht] at h
          cases r2 with
          | nil => simp at h
          | cons c r3 =>
            simp only at h
            split at h
            · rename_i hc
              simp only [Option.some.injEq, Prod.mk.injEq] at h
              obtain ⟨h1, h2⟩ := h
              subst h1 h2
              obtain ⟨pre, hr1, htail, hr, _⟩ := pMetaTail_sound _ r1 [m0] ms (c :: r3) (by simp) ht
              refine ⟨l :: pm ++ pre ++ [c], by rw [hrest, hr1]; simp, ?_, ?_⟩
              · have : kinds (l :: pm ++ pre ++ [c]) = .LCBRA :: (kinds pm ++ kinds pre) ++ [.RCBRA] := by
                  simp [kinds, hl, hc]
                rw [this]
                exact LMeta.some _ (lmeta_tail _ (by rw [hk]; exact LMetaInt.one) _ htail)
              · have hls : sigs [l] = [(TK.LCBRA, [])] := by simp [sigs, stripU, hl, sig_of_kind l .LCBRA hl]
                have hcs : sigs [c] = [(TK.RCBRA, [])] := by simp [sigs, stripU, hc, sig_of_kind c .RCBRA hc]
                have : sigs (l :: pm ++ pre ++ [c]) = sigs [l] ++ sigs pm ++ sigs pre ++ sigs [c] := by
                  rw [← sigs_append, ← sigs_append, ← sigs_append]; simp
                rw [this, hls, hcs, rMeta, hr, hs]; simp [rKVs]
            · cases h
    · cases h
      exact ⟨[], by simp, LMeta.none, by simp [sigs, stripU, rMeta]⟩

theorem pBody_sound (ts : List Tok) (vs : List ValueN) (m : Option (List MetaKV)) (r : List Tok)
    (h : pBody ts = some (vs, m, r)) :
    ∃ pv pm lb rb, ts = lb :: pv ++ rb :: pm ++ r ∧ lb.k = .LBRA ∧ rb.k = .RBRA ∧ LValues (kinds pv) ∧ LMeta (kinds pm) ∧
      sigs pv = rValues vs ∧ sigs pm = rMeta m := by
  unfold pBody at h
  cases ts with
  | nil => cases h
  | cons l rest =>
    simp only at h
    split at h
    · rename_i hl
      cases hv : pValues rest with
      | none => simp [hv] at h
      | some p =>
        obtain ⟨vs0, r1⟩ := p
        simp only [hv] at h
        cases r1 with
        | nil => simp at h
        | cons c r2 =>
          simp only at h
          split at h
          · rename_i hc
            cases hm : pMeta r2 with
            | none => simp [hm] at h
            | some q =>
              obtain ⟨m0, r3⟩ := q
              simp only [hm, Option.some.injEq, Prod.mk.injEq] at h
              obtain ⟨h1, h2, h3⟩ := h
              subst h1 h2 h3
              obtain ⟨pv, hpv, hlv, hsv⟩ := pValues_sound rest vs0 (c :: r2) hv
              obtain ⟨pm, hpm, hlm, hsm⟩ := pMeta_sound r2 m0 r3 hm
              exact ⟨pv, pm, l, c, by rw [hpv, hpm]; simp, hl, hc, hlv, hlm, hsv, hsm⟩
          · cases h
    · cases h

theorem pSymbol_sound (ts : List Tok) (s : Option Tok) (r : List Tok) (h : pSymbol ts = some (s, r)) :
    ∃ pre, ts = pre ++ r ∧ LSymbol (kinds pre) ∧ sigs pre = (s.map Tok.sig).toList := by
  unfold pSymbol at h
  match ts, h with
  | x :: rest, h =>
    simp only at h
    split at h
    · rename_i hx
      cases h
      exact ⟨[x], rfl, by simp [kinds, hx]; exact LSymbol.plain, by simp [sigs, stripU, hx]⟩
    · split at h
      · rename_i hx hu
        match rest, h with
        | y :: r', h =>
          simp only at h
          split at h
          · rename_i hy
            cases h
            exact ⟨[x, y], rfl, by simp [kinds, hu, hy]; exact LSymbol.under, by simp [sigs, stripU, hu, hy]⟩
          · cases h
      · cases h
        exact ⟨[], by simp, LSymbol.none, by simp [sigs, stripU]⟩
  | [], h =>
    cases h
    exact ⟨[], by simp, LSymbol.none, by simp [sigs, stripU]⟩

theorem pBase_sound (ts : List Tok) (b : Option DegreeN) (r : List Tok) (h : pBase ts = some (b, r)) :
    ∃ pre, ts = pre ++ r ∧ LBase (kinds pre) ∧ sigs pre = rBase b := by
  unfold pBase at h
  match ts, h with
  | x :: rest, h =>
    simp only at h
    split at h
    · rename_i hx
      cases hd : pDegree rest with
      | none => simp [hd] at h
      | some p =>
        obtain ⟨d, r'⟩ := p
        simp only [hd] at h
        cases h
        obtain ⟨pd, rfl, hld, hsd⟩ := pDegree_sound rest d r hd
        refine ⟨x :: pd, by simp, ?_, ?_⟩
        · have : kinds (x :: pd) = .SLASH :: kinds pd := by simp [kinds, hx]
          rw [this]; exact LBase.slash _ hld
        · have hxs : sigs [x] = [(TK.SLASH, [])] := by simp [sigs, stripU, hx, sig_of_kind x .SLASH hx]
          have : sigs (x :: pd) = sigs [x] ++ sigs pd := by rw [← sigs_append]; simp
          rw [this, hxs, hsd]; simp [rBase]
    · cases h
      exact ⟨[], by simp, LBase.none, by simp [sigs, stripU, rBase]⟩
  | [], h =>
    cases h
    exact ⟨[], by simp, LBase.none, by simp [sigs, stripU, rBase]⟩

theorem pItem_sound (ts : List Tok) (it : Item) (r : List Tok) (h : pItem ts = some (it, r)) :
    ∃ pre, ts = pre ++ r ∧ pre ≠ [] ∧ LItem (kinds pre) ∧ sigs pre = rItem it := by
  unfold pItem at h
  cases ts with
  | nil => cases h
  | cons hd rest =>
    simp only at h
    split at h
    · rename_i hr
      cases hb : pBody rest with
      | none => simp [hb] at h
      | some p =>
        obtain ⟨vs, m, r'⟩ := p
        simp only [hb, Option.some.injEq, Prod.mk.injEq] at h
        obtain ⟨h1, h2⟩ := h
        subst h1 h2
        obtain ⟨pv, pm, lb, rb, hrest, hl, hrb, hlv, hlm, hsv, hsm⟩ := pBody_sound rest vs m r' hb
        refine ⟨hd :: lb :: pv ++ rb :: pm, by rw [hrest]; simp, by simp, ?_, ?_⟩
        · have : kinds (hd :: lb :: pv ++ rb :: pm) = .REST :: .LBRA :: kinds pv ++ .RBRA :: kinds pm := by
            simp [kinds, hr, hl, hrb]
          rw [this]; exact LItem.rest _ _ hlv hlm
        · have h1 : sigs [hd] = [(TK.REST, [])] := by simp [sigs, stripU, hr, sig_of_kind hd .REST hr]
          have h2 : sigs [lb] = [(TK.LBRA, [])] := by simp [sigs, stripU, hl, sig_of_kind lb .LBRA hl]
          have h3 : sigs [rb] = [(TK.RBRA, [])] := by simp [sigs, stripU, hrb, sig_of_kind rb .RBRA hrb]
          have : sigs (hd :: lb :: pv ++ rb :: pm) = sigs [hd] ++ sigs [lb] ++ sigs pv ++ sigs [rb] ++ sigs pm := by
            rw [← sigs_append, ← sigs_append, ← sigs_append, ← sigs_append]; simp
          rw [this, h1, h2, h3, hsv, hsm]; simp [rItem]
    · cases hd' : pDegree (hd :: rest) with
      | none => simp [hd'] at h
      | some p1 =>
        obtain ⟨d, r1⟩ := p1
        simp only [hd'] at h
        cases hs : pSymbol r1 with
        | none => simp [hs] at h
        | some p2 =>
          obtain ⟨s, r2⟩ := p2
          simp only [hs] at h
          cases hb : pBase r2 with
          | none => simp [hb] at h
          | some p3 =>
            obtain ⟨b, r3⟩ := p3
            simp only [hb] at h
            cases hbody : pBody r3 with
            | none => simp [hbody] at h
            | some p4 =>
              obtain ⟨vs, m, r4⟩ := p4
              simp only [hbody, Option.some.injEq, Prod.mk.injEq] at h
              obtain ⟨h1, h2⟩ := h
              subst h1 h2
              obtain ⟨pd, hpd, hld, hsd⟩ := pDegree_sound _ d r1 hd'
              obtain ⟨ps, hps, hls, hss⟩ := pSymbol_sound r1 s r2 hs
              obtain ⟨pb, hpb, hlb, hsb⟩ := pBase_sound r2 b r3 hb
              obtain ⟨pv, pm, lb, rb, hr3, hl, hrb, hlv, hlm, hsv, hsm⟩ := pBody_sound r3 vs m r4 hbody
              have hne : pd ≠ [] := by
                intro he; subst he; cases hld
              refine ⟨pd ++ ps ++ pb ++ lb :: pv ++ rb :: pm, by rw [hpd, hps, hpb, hr3]; simp, by simp [hne], ?_, ?_⟩
              · have : kinds (pd ++ ps ++ pb ++ lb :: pv ++ rb :: pm) =
                    kinds pd ++ kinds ps ++ kinds pb ++ .LBRA :: kinds pv ++ .RBRA :: kinds pm := by
                  simp [kinds, hl, hrb]
                rw [this]; exact LItem.chord _ _ _ _ _ hld hls hlb hlv hlm
              · have h2 : sigs [lb] = [(TK.LBRA, [])] := by simp [sigs, stripU, hl, sig_of_kind lb .LBRA hl]
                have h3 : sigs [rb] = [(TK.RBRA, [])] := by simp [sigs, stripU, hrb, sig_of_kind rb .RBRA hrb]
                have : sigs (pd ++ ps ++ pb ++ lb :: pv ++ rb :: pm) =
                    sigs pd ++ sigs ps ++ sigs pb ++ sigs [lb] ++ sigs pv ++ sigs [rb] ++ sigs pm := by
                  simp only [← sigs_append]; simp
                rw [this, h2, h3, hsd, hss, hsb, hsv, hsm]; simp [rItem]

/-- zero or more items (right-recursive view of `chord_list`) -/
inductive LITail : List TK → Prop
  | nil : LITail []
  | cons (i rest) (h1 : LItem i) (h2 : LITail rest) : LITail (i ++ rest)

theorem llist_tail (l : List TK) (h : LList l) : ∀ t, LITail t → LList (l ++ t) := by
  intro t ht
  induction ht generalizing l with
  | nil => simpa using h
  | cons i rest h1 _ ih =>
    have := ih (l ++ i) (LList.more l i h h1)
    simpa [List.append_assoc] using this

theorem pItems_sound : ∀ (f : Nat) (ts : List Tok) (acc items : List Item), pItems f ts acc = some items →
    ∃ more, items = acc ++ more ∧ items ≠ [] ∧ LITail (kinds ts) ∧ sigs ts = more.flatMap rItem := by
  intro f
  induction f with
  | zero => intro ts acc items h; simp [pItems] at h
  | succ f ih =>
    intro ts acc items h
    unfold pItems at h
    match ts, h with
    | [], h =>
      simp only at h
      split at h
      · cases h
      · rename_i hne
        cases h
        exact ⟨[], by simp, by simpa using hne, LITail.nil, by simp [sigs, stripU]⟩
    | t :: rest, h =>
      simp only at h
      cases hi : pItem (t :: rest) with
      | none => simp [hi] at h
      | some p =>
        obtain ⟨it, r⟩ := p
        simp only [hi] at h
        obtain ⟨pre, hpre, _, hli, hsi⟩ := pItem_sound _ it r hi
        obtain ⟨more, rfl, hne, hl, hs⟩ := ih r (acc ++ [it]) items h
        refine ⟨it :: more, by simp, hne, ?_, ?_⟩
        · rw [hpre]
          have : kinds (pre ++ r) = kinds pre ++ kinds r := by simp [kinds]
          rw [this]; exact LITail.cons _ _ hli hl
        · rw [hpre, sigs_append, hs, hsi]; simp

/-- **soundness and tree faithfulness of the parser**: an accepted token list is a sentence of the chord
language, and the tree lists, in order, exactly the tokens read — kind and text of every root, accidental,
symbol, bass, numerator, denominator, metadata key and value; only the optional `_` is not recorded -/
theorem parseToks_sound (ts : List Tok) (items : List Item) (h : parseToks ts = some items) :
    LList (kinds ts) ∧ items ≠ [] ∧ sigs ts = items.flatMap rItem := by
  unfold parseToks at h
  obtain ⟨more, hm, hne, hl, hs⟩ := pItems_sound _ ts [] items h
  simp only [List.nil_append] at hm
  subst hm
  refine ⟨?_, hne, hs⟩
  generalize hk : kinds ts = ks at hl
  cases hl with
  | nil =>
    -- no tokens: then `more` would be empty
    exfalso
    have hts : ts = [] := by simpa [kinds] using hk
    have : sigs ts = [] := by simp [hts, sigs, stripU]
    rw [this] at hs
    cases items with
    | nil => exact hne rfl
    | cons it rest =>
      simp only [List.flatMap_cons] at hs
      cases it <;> simp [rItem, rDegree] at hs
  | cons i rest h1 h2 => exact llist_tail i (LList.one i h1) rest h2

end Crd
