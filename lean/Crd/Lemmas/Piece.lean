import Crd.Lemmas.Play

/-!
# The timeline of a whole piece (specification `pieceLog`) and the end-to-end refinement theorem
-/
namespace Crd
open Generated

/-- **specification of `crd write` at timeline level**: instance after instance, starting at tick `T`:
its setting events at its start, its note-ons at its start, its note-offs at its end; the next instance starts
where this one ends.  `τ` is the tick length of a duration list. -/
def pieceLog (τ : List Rat' → Nat) (d : Dict) : Nat → Bool → Key → Dyn → List Instance → List LogE
  | _, _, _, _, [] => []
  | T, first, k0, v0, i :: is =>
    let k := i.key.getD k0
    let v := i.velocity.getD v0
    let settings := ((settingsCalls first i).getD []).filterMap fun c => c.metaEv.map fun e => (T, OpT.metaT, e)
    let sound := match i.chord with
      | none => []
      | some c => match applyChord d k c with
        | .ok keys => fixedEvs (fun x => .noteOn 0 x (v.velocity % 256)) T 0 keys ++
                      fixedEvs (fun x => .noteOff 0 x) (T + τ i.values) 0 keys
        | .err _ => []
    settings ++ sound ++ pieceLog τ d (T + τ i.values) false k v is

def totalTicks (τ : List Rat' → Nat) (is : List Instance) : Nat := (is.map fun i => τ i.values).sum

/-- setting calls are meta calls -/
def allMeta (cs : List WCall) : Prop := ∀ c ∈ cs, c.metaEv.isSome = true

theorem keySigCall_meta (k : Key) (c : WCall) (h : keySigCall k = some c) : c.metaEv.isSome = true := by
  unfold keySigCall at h
  cases hs : newScale k with
  | none => simp [hs] at h
  | some s => simp [hs] at h; subst h; rfl

theorem textCalls_meta (m : List (String × String)) : allMeta (textCalls m) := by
  intro c hc
  simp only [textCalls, List.mem_append] at hc
  rcases hc with (hc | hc) | hc <;> (split at hc <;> simp at hc <;> subst hc <;> rfl)

theorem settings_meta (first : Bool) (i : Instance) (cs : List WCall) (h : settingsCalls first i = some cs) : allMeta cs := by
  unfold settingsCalls at h
  simp only [Option.map_eq_some_iff] at h
  obtain ⟨kc, hk, rfl⟩ := h
  intro c hc
  simp only [List.mem_append] at hc
  rcases hc with ((hc | hc) | hc) | hc
  · split at hc
    · simp at hc; subst hc; rfl
    · cases hb : i.bpm <;> simp [hb, Option.toList] at hc; subst hc; rfl
  · split at hc
    · simp at hc; subst hc; rfl
    · cases hb : i.meter <;> simp [hb, Option.toList] at hc; subst hc; rfl
  · split at hk
    · simp only [Option.map_eq_some_iff] at hk
      obtain ⟨x, hx, rfl⟩ := hk
      simp at hc; subst hc; exact keySigCall_meta _ _ hx
    · cases hkey : i.key with
      | none => simp [hkey] at hk; subst hk; simp at hc
      | some k =>
        simp only [hkey, Option.map_eq_some_iff] at hk
        obtain ⟨x, hx, rfl⟩ := hk
        simp at hc; subst hc; exact keySigCall_meta _ _ hx
  · split at hc
    · exact textCalls_meta _ c hc
    · cases hm : i.mta with
      | none => simp [hm] at hc
      | some m => simp [hm] at hc; exact textCalls_meta _ c hc

theorem refLog_meta (τ : List Rat' → Nat) (cs : List WCall) (h : allMeta cs) (T : Nat) (r : List WCall) :
    refLog τ T (cs ++ r) = (cs.filterMap fun c => c.metaEv.map fun e => (T, OpT.metaT, e)) ++ refLog τ T r ∧
    refEnd τ T (cs ++ r) = refEnd τ T r ∧ (noClose (cs ++ r) = noClose r) ∧ (CallsWF (cs ++ r) ↔ CallsWF r) := by
  induction cs with
  | nil => simp
  | cons c cs ih =>
    have hc : c.metaEv.isSome = true := h c (by simp)
    obtain ⟨a, b, c3, d4⟩ := ih (fun x hx => h x (by simp [hx]))
    cases c <;> simp [WCall.metaEv] at hc <;>
      simp [refLog, refEnd, noClose, CallsWF, WCall.metaEv, a, b, c3, d4]

theorem applyChord_ne_nil (d : Dict) (k : Key) (c : ChordIn) (keys : List Nat) (h : applyChord d k c = .ok keys) : keys ≠ [] := by
  unfold applyChord at h
  repeat' split at h
  all_goals (first | cases h | skip)
  all_goals simp_all

/-- **shape and meaning of what `play` sends to the writer** -/
theorem specLoop_log (τ : List Rat' → Nat) (d : Dict) (is : List Instance) :
    ∀ (first : Bool) (k0 : Key) (v0 : Dyn) (calls : List WCall), specLoop d first k0 v0 is = .ok calls →
      ∃ body, calls = body ++ [.close] ∧ noClose body = true ∧ CallsWF body ∧
        ∀ T, refLog τ T body = pieceLog τ d T first k0 v0 is ∧ refEnd τ T body = T + totalTicks τ is := by
  induction is with
  | nil =>
    intro first k0 v0 calls h
    simp only [specLoop, Except.ok.injEq] at h
    subst h
    exact ⟨[], rfl, rfl, trivial, fun T => ⟨rfl, by simp [refEnd, totalTicks]⟩⟩
  | cons i is ih =>
    intro first k0 v0 calls h
    unfold specLoop at h
    by_cases hv : i.values.isEmpty = true
    · simp [hv] at h
    · simp only [hv, if_false] at h
      by_cases hk : keyHasNoScale i = true
      · simp [hk] at h
      · simp only [hk, if_false] at h
        cases hs : settingsCalls first i with
        | none => simp [hs] at h
        | some cs =>
          have hm := settings_meta first i cs hs
          simp only [hs] at h
          cases hc : i.chord with
          | none =>
            simp only [hc] at h
            cases hrec : specLoop d false (i.key.getD k0) (i.velocity.getD v0) is with
            | error e => simp [hrec, Except.map] at h
            | ok r =>
              simp only [hrec, Except.map, Except.ok.injEq] at h
              obtain ⟨body, rfl, hnc, hwf, hlog⟩ := ih _ _ _ r hrec
              refine ⟨cs ++ [.rest i.values] ++ body, by simp at h; rw [← h]; simp [List.append_assoc], ?_, ?_, ?_⟩
              · rw [List.append_assoc, (refLog_meta τ cs hm 0 _).2.2.1]; simpa [noClose] using hnc
              · rw [List.append_assoc, (refLog_meta τ cs hm 0 _).2.2.2]; simpa [CallsWF] using hwf
              · intro T
                obtain ⟨a, b, _, _⟩ := refLog_meta τ cs hm T ([.rest i.values] ++ body)
                rw [List.append_assoc, a, b]
                obtain ⟨l1, l2⟩ := hlog (T + τ i.values)
                simp only [List.singleton_append, refLog, refEnd, pieceLog, hs, hc, Option.getD_some, l1, l2,
                  List.append_nil, totalTicks, List.map_cons, List.sum_cons]
                constructor <;> (first | trivial | rfl | omega)
          | some c =>
            simp only [hc] at h
            cases ha : applyChord d (i.key.getD k0) c with
            | err e => simp [ha] at h
            | ok keys =>
              simp only [ha] at h
              cases hrec : specLoop d false (i.key.getD k0) (i.velocity.getD v0) is with
              | error e => simp [hrec, Except.map] at h
              | ok r =>
                simp only [hrec, Except.map, Except.ok.injEq] at h
                obtain ⟨body, rfl, hnc, hwf, hlog⟩ := ih _ _ _ r hrec
                have hkn := applyChord_ne_nil d _ c keys ha
                refine ⟨cs ++ [.note i.values ((i.velocity.getD v0).velocity % 256) keys] ++ body,
                  by simp at h; rw [← h]; simp [List.append_assoc], ?_, ?_, ?_⟩
                · rw [List.append_assoc, (refLog_meta τ cs hm 0 _).2.2.1]; simpa [noClose] using hnc
                · rw [List.append_assoc, (refLog_meta τ cs hm 0 _).2.2.2]; simpa [CallsWF] using ⟨hkn, hwf⟩
                · intro T
                  obtain ⟨a, b, _, _⟩ := refLog_meta τ cs hm T ([.note i.values ((i.velocity.getD v0).velocity % 256) keys] ++ body)
                  rw [List.append_assoc, a, b]
                  obtain ⟨l1, l2⟩ := hlog (T + τ i.values)
                  simp only [List.singleton_append, refLog, refEnd, pieceLog, hs, hc, ha, Option.getD_some, l1, l2,
                    totalTicks, List.map_cons, List.sum_cons, List.append_assoc]
                  constructor <;> (first | trivial | rfl | omega)

/-- **end-to-end refinement of `crd write` (model)**: whenever the command succeeds, with `N` tracks, track `i`
holds exactly the events of the piece's reference timeline that the selector routes to it, at their reference
ticks and in order, followed by its end-of-track at the total duration of the piece -/
theorem write_refines (f : WriteFlags) (is : List Instance) (tracks : List Track) (h : cmdWriteTracks f is = .ok tracks) :
    ∃ (d : Dict) (N : Nat) (is' : List Instance), prepareWrite f is = .ok (d, N, is') ∧ 1 ≤ N ∧ N ≤ maxTracks ∧
      tracks.length = N ∧
      ∀ i, i < N → ∃ t, tracks[i]? = some t ∧ t.pending = 0 ∧
        t.timeline =
          ((initLog f.instrument f.program defaultSequenceName ++
              pieceLog goTicks d 0 true defaultKey defaultVelocity is').filter (fun e => route N e = i)).map stripT ++
          [(totalTicks goTicks is', .close)] := by
  unfold cmdWriteTracks at h
  cases hp : prepareWrite f is with
  | error e => simp [hp, bind, Except.bind] at h
  | ok r =>
    obtain ⟨d, N, is'⟩ := r
    simp only [hp, bind, Except.bind] at h
    cases hw : playWrite d is' with
    | error e => simp [hw] at h
    | ok calls =>
      simp only [hw] at h
      by_cases hlong : pieceTicks goTicks is' > maxTicks
      · simp [hlong, throw, throwThe, MonadExceptOf.throw] at h
      simp only [hlong, if_false, pure, Except.pure, Except.ok.injEq] at h
      have hN : 1 ≤ N ∧ N ≤ maxTracks := by
        unfold prepareWrite at hp
        simp only [bind, Except.bind, pure, Except.pure] at hp
        repeat' split at hp
        all_goals (first | cases hp | skip)
        all_goals simp_all
        all_goals omega
      rw [playWrite_eq_spec] at hw
      have hne : is'.isEmpty = false := by
        cases h' : is'.isEmpty
        · rfl
        · simp [h'] at hw
      simp only [hne, Bool.false_eq_true, if_false] at hw
      obtain ⟨body, rfl, hnc, hwf, hlog⟩ := specLoop_log goTicks d is' true defaultKey defaultVelocity calls hw
      have hr := tracks_refine goTicks N f.instrument f.program defaultSequenceName body hwf hnc
      simp only at hr
      rw [h] at hr
      obtain ⟨l1, l2⟩ := hlog 0
      refine ⟨d, N, is', rfl, hN.1, hN.2, hr.1, ?_⟩
      intro i hi
      obtain ⟨t, ht, hp0, htl⟩ := hr.2 i hi
      refine ⟨t, ht, hp0, ?_⟩
      rw [htl, l1, l2]; simp

/-- a piece that `crd write` accepts is no longer than the largest delta time a midi file can hold (D22 fix) -/
theorem write_fits (f : WriteFlags) (is : List Instance) (tracks : List Track) (h : cmdWriteTracks f is = .ok tracks) :
    ∃ (d : Dict) (N : Nat) (is' : List Instance), prepareWrite f is = .ok (d, N, is') ∧ totalTicks goTicks is' ≤ maxTicks := by
  unfold cmdWriteTracks at h
  cases hp : prepareWrite f is with
  | error e => simp [hp, bind, Except.bind] at h
  | ok r =>
    obtain ⟨d, N, is'⟩ := r
    simp only [hp, bind, Except.bind] at h
    cases hw : playWrite d is' with
    | error e => simp [hw] at h
    | ok calls =>
      simp only [hw] at h
      by_cases hlong : pieceTicks goTicks is' > maxTicks
      · simp [hlong, throw, throwThe, MonadExceptOf.throw] at h
      · exact ⟨d, N, is', rfl, by unfold totalTicks; unfold pieceTicks at hlong; omega⟩

end Crd
