import Crd.Lemmas.Piece

/-!
# The piece timeline instance by instance: start ticks, key and dynamic in force (index-based view)
-/
namespace Crd
open Generated

/-- setting events of an instance, at tick `T` -/
def instSettings (first : Bool) (T : Nat) (i : Instance) : List LogE :=
  ((settingsCalls first i).getD []).filterMap fun c => c.metaEv.map fun e => (T, OpT.metaT, e)

/-- note-ons of an instance (key `k`, dynamic `v` in force), at tick `T` -/
def instOns (d : Dict) (k : Key) (v : Dyn) (T : Nat) (i : Instance) : List LogE :=
  match i.chord with
  | none => []
  | some c => match applyChord d k c with
    | .ok keys => fixedEvs (fun x => .noteOn 0 x (v.velocity % 256)) T 0 keys
    | .err _ => []

/-- note-offs of an instance, at tick `T` (its end) -/
def instOffs (d : Dict) (k : Key) (T : Nat) (i : Instance) : List LogE :=
  match i.chord with
  | none => []
  | some c => match applyChord d k c with
    | .ok keys => fixedEvs (fun x => .noteOff 0 x) T 0 keys
    | .err _ => []

theorem pieceLog_cons (τ : List Rat' → Nat) (d : Dict) (T : Nat) (first : Bool) (k0 : Key) (v0 : Dyn) (i : Instance) (is : List Instance) :
    pieceLog τ d T first k0 v0 (i :: is) =
      instSettings first T i ++ (instOns d (i.key.getD k0) (i.velocity.getD v0) T i ++ instOffs d (i.key.getD k0) (T + τ i.values) i) ++
        pieceLog τ d (T + τ i.values) false (i.key.getD k0) (i.velocity.getD v0) is := by
  simp only [pieceLog, instSettings, instOns, instOffs]
  cases i.chord with
  | none => simp
  | some c => cases h : applyChord d (i.key.getD k0) c <;> simp [h]

/-- key in force at instance `j`: the most recent `key` at or before it, else `k0` -/
def keyAt (k0 : Key) (is : List Instance) (j : Nat) : Key := ((is.take (j + 1)).filterMap (·.key)).getLast?.getD k0
/-- dynamic in force at instance `j` -/
def dynAt (v0 : Dyn) (is : List Instance) (j : Nat) : Dyn := ((is.take (j + 1)).filterMap (·.velocity)).getLast?.getD v0
/-- start tick of instance `j`: the sum of the lengths of all earlier instances -/
def startAt (τ : List Rat' → Nat) (is : List Instance) (j : Nat) : Nat := totalTicks τ (is.take j)

theorem getLast_toList_append {α} (o : Option α) (l : List α) (k0 : α) :
    (o.toList ++ l).getLast?.getD k0 = l.getLast?.getD (o.getD k0) := by
  cases o with
  | none => simp
  | some a =>
    cases l with
    | nil => simp
    | cons b bs =>
      simp only [Option.toList, List.cons_append, List.nil_append, List.getLast?_cons_cons, Option.getD_some]
      cases h : (b :: bs).getLast? with
      | none => simp [List.getLast?_eq_none_iff] at h
      | some x => rfl

theorem filterMap_cons_toList {α β} (f : α → Option β) (a : α) (l : List α) :
    (a :: l).filterMap f = (f a).toList ++ l.filterMap f := by
  cases h : f a <;> simp [List.filterMap_cons, h]

theorem keyAt_succ (k0 : Key) (i : Instance) (is : List Instance) (j : Nat) :
    keyAt k0 (i :: is) (j + 1) = keyAt (i.key.getD k0) is j := by
  simp only [keyAt, List.take_succ_cons, filterMap_cons_toList, getLast_toList_append]

theorem dynAt_succ (v0 : Dyn) (i : Instance) (is : List Instance) (j : Nat) :
    dynAt v0 (i :: is) (j + 1) = dynAt (i.velocity.getD v0) is j := by
  simp only [dynAt, List.take_succ_cons, filterMap_cons_toList, getLast_toList_append]

theorem keyAt_zero (k0 : Key) (i : Instance) (is : List Instance) : keyAt k0 (i :: is) 0 = i.key.getD k0 := by
  simp only [keyAt, Nat.zero_add, List.take_succ_cons, List.take_zero, filterMap_cons_toList, List.filterMap_nil,
    List.append_nil]
  cases i.key <;> simp

theorem dynAt_zero (v0 : Dyn) (i : Instance) (is : List Instance) : dynAt v0 (i :: is) 0 = i.velocity.getD v0 := by
  simp only [dynAt, Nat.zero_add, List.take_succ_cons, List.take_zero, filterMap_cons_toList, List.filterMap_nil,
    List.append_nil]
  cases i.velocity <;> simp

/-- the events of instance `j` of a piece -/
def instLogAt (τ : List Rat' → Nat) (d : Dict) (T : Nat) (first : Bool) (k0 : Key) (v0 : Dyn) (is : List Instance) (j : Nat) : List LogE :=
  match is[j]? with
  | none => []
  | some i =>
    let s := T + startAt τ is j
    instSettings (first && j == 0) s i ++
      (instOns d (keyAt k0 is j) (dynAt v0 is j) s i ++ instOffs d (keyAt k0 is j) (s + τ i.values) i)

/-- **the piece timeline is the concatenation, instance by instance, of: settings at the instance's start,
note-ons at its start, note-offs at its end — with the start of instance j the sum of the lengths before it and
the key / dynamic in force the most recent one at or before it** -/
theorem pieceLog_by_instance (τ : List Rat' → Nat) (d : Dict) (is : List Instance) :
    ∀ (T : Nat) (first : Bool) (k0 : Key) (v0 : Dyn),
      pieceLog τ d T first k0 v0 is = (List.range is.length).flatMap (instLogAt τ d T first k0 v0 is) := by
  induction is with
  | nil => intro T first k0 v0; simp [pieceLog]
  | cons i is ih =>
    intro T first k0 v0
    rw [pieceLog_cons, ih, List.length_cons, List.range_succ_eq_map, List.flatMap_cons, List.flatMap_map]
    congr 1
    · simp [instLogAt, startAt, totalTicks, keyAt_zero, dynAt_zero]
    · simp only [List.flatMap_def]
      congr 1
      apply List.map_congr_left
      intro j _
      simp only [instLogAt, List.getElem?_cons_succ, Function.comp]
      cases is[j]? with
      | none => rfl
      | some x =>
        simp only [keyAt_succ, dynAt_succ, startAt, List.take_succ_cons, totalTicks, List.map_cons, List.sum_cons,
          Bool.and_false, Nat.succ_ne_zero, beq_iff_eq]
        simp [Nat.add_assoc]

end Crd
