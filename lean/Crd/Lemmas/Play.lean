import Crd.Spec.PlaySpec
import Crd.Lemmas.Tracks2

/-!
# `play.MIDIWriter.Write` = the specification loop; shape of its output
-/
namespace Crd
open Generated

/-- all five `updated` flags have the same value; when they are set, the cells hold the defaults -/
def Args.Rel (a : Args) (first : Bool) (k0 : Key) (v0 : Dyn) : Prop :=
  a.bpm.2 = first ∧ a.meter.2 = first ∧ a.key.2 = first ∧ a.mta.2 = first ∧ a.key.1 = k0 ∧ a.velocity = v0 ∧
  (first = true → a.bpm.1 = defaultBPM ∧ a.meter.1 = ⟨defaultMeter.1, defaultMeter.2⟩ ∧ a.key.1 = defaultKey ∧ a.mta.1 = [])

theorem init_rel : Args.init.Rel true defaultKey defaultVelocity := by
  simp [Args.Rel, Args.init]

theorem flush_spec (a : Args) (first : Bool) (k0 : Key) (v0 : Dyn) (h : a.Rel first k0 v0) (i : Instance) :
    ((a.update i).flush).1 = settingsCalls first i ∧
    ((a.update i).flush).2.Rel false (i.key.getD k0) (i.velocity.getD v0) := by
  obtain ⟨h1, h2, h3, h4, h5, h6, h7⟩ := h
  obtain ⟨⟨bv, bf⟩, ⟨mv, mf⟩, vel, ⟨kv, kf⟩, ⟨xv, xf⟩⟩ := a
  obtain ⟨chord, values, bpm, velocity, meter, key, mta⟩ := i
  simp only at h1 h2 h3 h4 h5 h6 h7
  subst h1 h2 h3 h4 h5 h6
  cases xf
  · -- later instance: an event exactly for each setting present
    refine ⟨?_, ?_⟩
    · simp only [Args.flush, Args.update, settingsCalls]
      cases bpm <;> cases meter <;> cases key <;> cases mta <;>
        simp [Option.map, Option.toList] <;> (try (cases keySigCall _ <;> simp))
    · simp only [Args.flush, Args.update, Args.Rel]
      cases bpm <;> cases meter <;> cases key <;> cases mta <;> cases velocity <;> simp
  · obtain ⟨d1, d2, d3, d4⟩ := h7 rfl
    subst d1 d2 d3 d4
    refine ⟨?_, ?_⟩
    · simp only [Args.flush, Args.update, settingsCalls]
      cases bpm <;> cases meter <;> cases key <;> cases mta <;>
        simp [Option.map, Option.toList] <;> (try (cases keySigCall _ <;> simp))
    · simp only [Args.flush, Args.update, Args.Rel]
      cases bpm <;> cases meter <;> cases key <;> cases mta <;> cases velocity <;> simp

/-- **the writer's loop with its `Opt` cells computes the specification loop** -/
theorem writeLoop_eq_spec (d : Dict) (is : List Instance) :
    ∀ (a : Args) (first : Bool) (k0 : Key) (v0 : Dyn), a.Rel first k0 v0 → writeLoop d a is = specLoop d first k0 v0 is := by
  induction is with
  | nil => intro a first k0 v0 _; rfl
  | cons i is ih =>
    intro a first k0 v0 h
    obtain ⟨f1, f2⟩ := flush_spec a first k0 v0 h i
    unfold writeLoop specLoop
    by_cases hv : i.values.isEmpty = true
    · simp only [hv, if_true]
    · simp only [hv, if_false]
      by_cases hk : keyHasNoScale i = true
      · simp only [hk, if_true]
      · simp only [hk, if_false]
        have hkey : ((a.update i).flush).2.key.1 = i.key.getD k0 := f2.2.2.2.2.1
        have hvel : ((a.update i).flush).2.velocity = i.velocity.getD v0 := f2.2.2.2.2.2.1
        cases hfl : (a.update i).flush with
        | mk c1 a2 =>
          rw [hfl] at f1 f2 hkey hvel
          simp only at f1 f2 hkey hvel
          rw [← f1]
          cases c1 with
          | none => simp
          | some calls =>
            simp only [Bool.false_eq_true, if_false]
            cases hc : i.chord with
            | none => simp only [ih a2 false _ _ f2]
            | some c =>
              simp only [hkey, hvel]
              cases applyChord d (i.key.getD k0) c with
              | err e => rfl
              | ok keys => simp only [ih a2 false _ _ f2]

theorem playWrite_eq_spec (d : Dict) (is : List Instance) :
    playWrite d is = if is.isEmpty then .error .invalid else specLoop d true defaultKey defaultVelocity is := by
  unfold playWrite
  split
  · rfl
  · exact writeLoop_eq_spec d is _ _ _ _ init_rel

end Crd
