import Crd.Spec.Progression
import Crd.Lemmas.ConvValid2

/-!
# One progression, one meaning: note names in any key vs degree numbers (C05)
-/
namespace Crd
open Generated Spec Crd.Props.C03 Crd.Props.C13

def aNotes : List ANote := [1, 2, 3, 4, 5, 6, 7].flatMap fun n => [(-1 : Int), 0, 1].map fun a => ⟨n, a⟩

def ANote.ok (a : ANote) : Prop := a ∈ aNotes

/-- the degree spelling reads as the interval it denotes -/
theorem degNode_conv : ∀ a ∈ aNotes, convDegreeText (degNode a) = (match degOf a with | some d => .ok d | none => .error .invalid) := by
  decide

/-- **core**: from ANY of the 21 written reference notes, the written note that lies an interval above it converts
back to exactly that interval (both search orders) -/
theorem spell_getDegree : ∀ ref ∈ notes21, ∀ a ∈ aNotes, ∀ o ∈ [true, false],
    (match spell ref a with
     | some x => decide (x ∈ notes21) && (ref.getDegree x o == (match degOf a with | some d => GetDeg.ok d | none => .invalid))
     | none => true) = true := by decide

theorem noteNode_scaleNote : ∀ x ∈ notes21, newScaleNote (noteNode x) = .ok x := by decide

/-- in every scale every one of the 21 written notes has a tendency (its letter is in the scale) -/
theorem tendency_ok : ∀ (k : Key) (s : Scale), newScale k = some s →
    (notes21.all fun x => match getTendency s x with | .ok _ => true | .error _ => false) = true :=
  lift _ (by decide)

theorem getTendency_some (s : Scale) (hs : IsScale s) (x : SNote) (hx : x ∈ notes21) : ∃ t, getTendency s x = .ok t := by
  obtain ⟨k, hk⟩ := hs
  have := tendency_ok k s hk
  rw [List.all_eq_true] at this
  have h := this x hx
  cases hg : getTendency s x with
  | ok t => exact ⟨t, rfl⟩
  | error e => simp [hg] at h

/-- converting the note-name spelling of a chord (in the key whose scale is `s`) gives the same degrees as
converting its degree spelling -/
theorem chord_same (s : Scale) (hs : IsScale s) (tonic : SNote) (ht : s.notes.head? = some tonic)
    (r : ANote) (hr : r ∈ aNotes) (b : Option ANote) (hb : ∀ x, b = some x → x ∈ aNotes) (sym : Option Tok)
    (vals : List ValueN) (mta : Option (List MetaKV)) (it : Item)
    (h : sylItem tonic (.chord r sym b vals mta) = some it) (sd : Scale) :
    ∃ rd bd, it = .chord rd sym bd vals mta ∧
      convChord .syllable s rd sym bd = convChord .degree sd (degNode r) sym (b.map degNode) := by
  obtain ⟨t0, ht0, htm⟩ := scale_tonic_mem s hs
  rw [ht] at ht0; cases ht0
  unfold sylItem at h
  cases hsp : spell tonic r with
  | none => simp [hsp] at h
  | some rn =>
    simp only [hsp] at h
    have c1 := spell_getDegree tonic htm r hr
    have hrn : rn ∈ notes21 ∧ ∀ o, tonic.getDegree rn o = (match degOf r with | some d => GetDeg.ok d | none => .invalid) := by
      have a := c1 true (by simp); have b' := c1 false (by simp)
      simp only [hsp, Bool.and_eq_true, decide_eq_true_eq, beq_iff_eq] at a b'
      exact ⟨a.1, fun o => by cases o; exact b'.2; exact a.2⟩
    obtain ⟨tt, htt⟩ := getTendency_some s hs rn hrn.1
    have hdeg := degNode_conv r hr
    cases b with
    | none =>
      simp only [Option.some.injEq] at h
      refine ⟨noteNode rn, none, h.symm, ?_⟩
      simp only [convChord, syllableDegrees, noteNode_scaleNote rn hrn.1, htt, ht, hrn.2, bind, Except.bind, pure, Except.pure,
        Option.map_none, hdeg]
      cases degOf r <;> simp [liftGetDeg]
    | some ba =>
      have hba := hb ba rfl
      cases hsb : spell rn ba with
      | none => simp [hsb] at h
      | some bn =>
        simp only [hsb, Option.map_some, Option.some.injEq] at h
        have c2 := spell_getDegree rn hrn.1 ba hba
        have hbn : bn ∈ notes21 ∧ ∀ o, rn.getDegree bn o = (match degOf ba with | some d => GetDeg.ok d | none => .invalid) := by
          have a := c2 true (by simp); have b' := c2 false (by simp)
          simp only [hsb, Bool.and_eq_true, decide_eq_true_eq, beq_iff_eq] at a b'
          exact ⟨a.1, fun o => by cases o; exact b'.2; exact a.2⟩
        obtain ⟨tb, htb⟩ := getTendency_some s hs bn hbn.1
        have hdegb := degNode_conv ba hba
        refine ⟨noteNode rn, some (noteNode bn), h.symm, ?_⟩
        simp only [convChord, syllableDegrees, noteNode_scaleNote rn hrn.1, noteNode_scaleNote bn hbn.1, htt, htb, ht, hrn.2, hbn.2,
          bind, Except.bind, pure, Except.pure, Option.map_some, hdeg, hdegb]
        cases degOf r <;> cases degOf ba <;> simp [liftGetDeg]

def Spec.AItem.WF : AItem → Prop
  | .chord r _ b _ _ => r ∈ aNotes ∧ ∀ x, b = some x → x ∈ aNotes
  | .rest _ _ => True

/-- one item: same instance from both spellings (the scale carried on differs, and is irrelevant on the degree
side) -/
theorem item_same (s : Scale) (hs : IsScale s) (a : AItem) (ha : a.WF) (s' : Scale) (hk : keyAfter s a = some s')
    (tonic : SNote) (ht : s'.notes.head? = some tonic) (it : Item) (hit : sylItem tonic a = some it) (sd : Scale) :
    IsScale s' ∧ (convItem .syllable s it).map (·.1) = (convItem .degree sd (degItem a)).map (·.1) ∧
    (∀ i sc, convItem .syllable s it = .ok (i, sc) → sc = s') := by
  unfold keyAfter at hk
  cases hm : modifyMeta { mta := convMeta a.mta } (convMeta a.mta) with
  | error e => simp [hm] at hk
  | ok i1 =>
    simp only [hm] at hk
    have hs' : IsScale s' := by
      cases hkk : i1.key with
      | none => simp [hkk] at hk; subst hk; exact hs
      | some k => simp [hkk] at hk; exact ⟨k, hk⟩
    have hcs : changeScale .syllable s i1 = .ok s' := by
      unfold changeScale
      cases hkk : i1.key with
      | none => simp [hkk] at hk; subst hk; rfl
      | some k => simp [hkk] at hk; simp [hk]
    have hcd : changeScale .degree sd i1 = .ok sd := by
      unfold changeScale; cases i1.key <;> rfl
    refine ⟨hs', ?_, ?_⟩
    · cases a with
      | rest v m =>
        simp only [sylItem, Option.some.injEq] at hit
        subst hit
        simp only [convItem, degItem, Item.mta, Item.vals, AItem.mta] at hm ⊢
        simp only [hm, hcs, hcd, Except.bind]
        cases convValues v <;> rfl
      | chord r sym b v m =>
        obtain ⟨hr, hb⟩ := ha
        obtain ⟨rd, bd, rfl, hch⟩ := chord_same s' hs' tonic ht r hr b hb sym v m it hit sd
        simp only [convItem, degItem, Item.mta, Item.vals, AItem.mta] at hm ⊢
        simp only [hm, hcs, hcd, Except.bind]
        cases convValues v with
        | error e => rfl
        | ok vs =>
          simp only [hch]
          cases convChord .degree sd (degNode r) sym (b.map degNode) <;> rfl
    · intro i sc hci
      unfold convItem at hci
      have hm' : modifyMeta { mta := convMeta it.mta } (convMeta it.mta) = .ok i1 := by
        cases a with
        | rest v m => simp only [sylItem, Option.some.injEq] at hit; subst hit; exact hm
        | chord r sym b v m =>
          obtain ⟨hr, hb⟩ := ha
          obtain ⟨rd, bd, rfl, _⟩ := chord_same s' hs' tonic ht r hr b hb sym v m it hit sd
          exact hm
      rw [hm'] at hci
      simp only [Except.bind, hcs] at hci
      cases hv : convValues it.vals with
      | error e => simp [hv] at hci
      | ok vs =>
        simp only [hv] at hci
        cases it with
        | rest _ _ => simp at hci; exact hci.2.symm
        | chord d sy bb _ _ =>
          simp only at hci
          cases hc : convChord .syllable s' d sy bb with
          | error e => simp [hc] at hci
          | ok c => simp [hc] at hci; exact hci.2.symm

/-- **one progression, one meaning**: for every abstract progression (roots on degrees 1..7 with ♭/♮/♯, any symbol,
optional bass, rests, any metadata including key changes at arbitrary positions) and every start key: if it can be
spelled with note names at all, converting that spelling with `text conv syllable` gives exactly the instances that
converting its degree spelling with `text conv degree` gives -/
theorem degree_vs_syllable : ∀ (p : List AItem), (∀ a ∈ p, a.WF) → ∀ (s : Scale), IsScale s → ∀ (items : List Item),
    sylItems s p = some items → ∀ sd, convItems .syllable s items = convItems .degree sd (p.map degItem) := by
  intro p
  induction p with
  | nil => intro _ s _ items h sd; simp [sylItems] at h; subst h; rfl
  | cons a rest ih =>
    intro hwf s hs items h sd
    unfold sylItems at h
    cases hk : keyAfter s a with
    | none => simp [hk] at h
    | some s' =>
      simp only [hk] at h
      cases ht : s'.notes.head? with
      | none => simp [ht] at h
      | some tonic =>
        simp only [ht] at h
        cases hit : sylItem tonic a with
        | none => simp [hit] at h
        | some it =>
          cases hrest : sylItems s' rest with
          | none => simp [hit, hrest] at h
          | some its =>
            simp only [hit, hrest, Option.some.injEq] at h
            subst h
            obtain ⟨hs', hsame, hsc⟩ := item_same s hs a (hwf a (by simp)) s' hk tonic ht it hit sd
            have hrec := ih (fun x hx => hwf x (by simp [hx])) s' hs' its hrest
            simp only [List.map_cons, convItems, bind, Except.bind, pure, Except.pure]
            cases h1 : convItem .syllable s it with
            | error e =>
              simp only [h1, Except.map] at hsame
              cases h2 : convItem .degree sd (degItem a) with
              | error e2 => simp only [h2, Except.map, Except.error.injEq] at hsame; subst hsame; rfl
              | ok p2 => simp [h2, Except.map] at hsame
            | ok p1 =>
              obtain ⟨i, sc⟩ := p1
              have := hsc i sc h1
              subst this
              simp only [h1, Except.map] at hsame
              cases h2 : convItem .degree sd (degItem a) with
              | error e2 => simp [h2, Except.map] at hsame
              | ok p2 =>
                obtain ⟨i2, sd2⟩ := p2
                simp only [h2, Except.map, Except.ok.injEq] at hsame
                subst hsame
                simp only
                rw [hrec sd2]

end Crd
