import Crd.Lemmas.DegreeParse
import Crd.Model.Raw

/-!
# Print/parse round trips of the scalar fields of the instances format (C10)
-/
namespace Crd
open Generated

theorem digits_no_slash (n : Nat) : ∀ c ∈ Nat.toDigits 10 n, c ≠ '/' := by
  intro c hc he
  have := digits_all n c hc
  subst he
  revert this; decide

theorem split_digits (ds rest : List Char) (h : ∀ c ∈ ds, c ≠ '/') :
    splitSlash (ds ++ '/' :: rest) = (ds, some rest) := by
  induction ds with
  | nil => simp [splitSlash]
  | cons d t ih =>
    have hd : d ≠ '/' := h d (by simp)
    have := ih (fun c hc => h c (by simp [hc]))
    simp [splitSlash, hd, this]

theorem split_digits_only (ds : List Char) (h : ∀ c ∈ ds, c ≠ '/') : splitSlash ds = (ds, none) := by
  induction ds with
  | nil => rfl
  | cons d t ih =>
    have hd : d ≠ '/' := h d (by simp)
    have := ih (fun c hc => h c (by simp [hc]))
    simp [splitSlash, hd, this]

/-- fractions: `n/d` (bare `n` when d = 1) reads back as the same fraction, for all n, d that fit Go's uint -/
theorem rat_roundtrip (n d : Nat) (hn : n < 2 ^ 64) (hd : d < 2 ^ 64) : parseRat (Rat'.str ⟨n, d⟩).toList = some ⟨n, d⟩ := by
  unfold Rat'.str
  by_cases h1 : d = 1
  · subst h1
    simp only [if_true, Nat.toString_eq_repr, Nat.toList_repr]
    unfold parseRat
    rw [split_digits_only _ (digits_no_slash n)]
    simp [parseUint_toDigits n hn]
  · simp only [h1, if_false, Nat.toString_eq_repr, String.toList_append, Nat.toList_repr]
    have : ("/" : String).toList = ['/'] := by decide
    rw [this]
    unfold parseRat
    have e : Nat.toDigits 10 n ++ ['/'] ++ Nat.toDigits 10 d = Nat.toDigits 10 n ++ '/' :: Nat.toDigits 10 d := by simp
    rw [e, split_digits _ _ (digits_no_slash n)]
    simp [parseUint_toDigits n hn, parseUint_toDigits d hd]

/-- tempo: the decimal print reads back (and stays positive) -/
theorem bpm_roundtrip (n : Nat) (h0 : 0 < n) (hn : n < 2 ^ 64) : decodeBPM (toString n) = .ok n := by
  unfold decodeBPM
  simp only [Nat.toString_eq_repr, Nat.toList_repr, parseUint_toDigits n hn]
  cases n with
  | zero => omega
  | succ m => rfl

/-- the six dynamics print and read back -/
theorem dyn_roundtrip : ∀ d ∈ [Dyn.pp, .p, .mp, .mf, .f, .ff], decodeDyn d.str = .ok d := by decide

def properKeys : List Key :=
  Letter.all.flatMap fun l => [false, true].flatMap fun m => [Acc.natural, .sharp, .flat].map fun a => ⟨l, m, a⟩

/-- all 42 key spellings `[A-G][#b]?m?` print and read back -/
theorem key_roundtrip : ∀ k ∈ properKeys, decodeKey k.str = .ok k := by decide

end Crd
