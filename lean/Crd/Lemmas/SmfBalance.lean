import Crd.Lemmas.SmfCrd
import Crd.Props.C08
import Crd.Lemmas.InstanceRT

/-!
# Every note-on of a written track is closed by a note-off of the same key and channel, as the strict reader sees it
-/
namespace Crd
open Crd.Spec Crd.Generated Crd.Props.C06 Crd.Props.C08

/-- the walk of `notesBalanced` depends on the multiset of open notes only -/
theorem go_perm : ∀ (evs : List SEvent) (o₁ o₂ : List (Nat × Nat)), o₁.Perm o₂ →
    notesBalanced.go o₁ evs = notesBalanced.go o₂ evs := by
  intro evs
  induction evs with
  | nil =>
    intro o₁ o₂ hp
    simp only [notesBalanced.go]
    cases o₁ with
    | nil => rw [List.nil_perm] at hp; subst hp; rfl
    | cons a as =>
      cases o₂ with
      | nil => exact absurd hp.symm (by simp)
      | cons b bs => rfl
  | cons e r ih =>
    intro o₁ o₂ hp
    simp only [notesBalanced.go]
    cases hon : isNoteOn e with
    | some x => obtain ⟨c, k, v⟩ := x; exact ih _ _ (hp.cons _)
    | none =>
      simp only
      cases hoff : isNoteOff e with
      | none => exact ih _ _ hp
      | some ck =>
        simp only
        have hc : o₁.contains ck = o₂.contains ck := by
          rw [Bool.eq_iff_iff]; simp only [List.contains_iff_mem]; exact hp.mem_iff
        rw [hc]
        split
        · exact ih _ _ (hp.erase ck)
        · rfl

/-- what the reader calls an event of a track, by kind -/
def sOn (k vel : Nat) (d : Nat) : SEvent := .midi d 0x90 (min k 127) (some (min vel 127))
def sOff (k : Nat) (d : Nat) : SEvent := .midi d 0x80 (min k 127) (some 0)

theorem on_is (k vel d : Nat) (hv : 0 < min vel 127) : isNoteOn (sOn k vel d) = some (0, min k 127, min vel 127) := by
  simp [sOn, isNoteOn]; omega
theorem off_is (k d : Nat) : isNoteOn (sOff k d) = none ∧ isNoteOff (sOff k d) = some (0, min k 127) := by
  simp [sOff, isNoteOn, isNoteOff]

/-- note-ons for the keys K push them -/
theorem go_ons (vel : Nat) (hv : 0 < min vel 127) : ∀ (K : List (Nat × Nat)) (o : List (Nat × Nat)) (rest : List SEvent),
    notesBalanced.go o (K.map (fun p => sOn p.2 vel 0) ++ rest) =
      notesBalanced.go ((K.map fun p => (0, min p.2 127)).reverse ++ o) rest := by
  intro K
  induction K with
  | nil => intro o rest; rfl
  | cons p K ih =>
    intro o rest
    simp only [List.map_cons, List.cons_append, notesBalanced.go, on_is p.2 vel 0 hv]
    rw [ih]
    simp [List.reverse_cons, List.append_assoc]

/-- note-offs for the same keys pop them again -/
theorem go_offs : ∀ (K : List (Nat × Nat)) (o : List (Nat × Nat)) (rest : List SEvent),
    notesBalanced.go ((K.map fun p => (0, min p.2 127)).reverse ++ o) (K.map (fun p => sOff p.2 0) ++ rest) =
      notesBalanced.go o rest := by
  intro K
  induction K with
  | nil => intro o rest; rfl
  | cons p K ih =>
    intro o rest
    have hperm : (((p :: K).map fun (q : Nat × Nat) => ((0 : Nat), min q.2 127)).reverse ++ o).Perm
        (((0 : Nat), min p.2 127) :: ((K.map fun (q : Nat × Nat) => ((0 : Nat), min q.2 127)).reverse ++ o)) := by
      simp only [List.map_cons, List.reverse_cons, List.append_assoc, List.singleton_append]
      exact List.perm_middle
    rw [go_perm _ _ _ hperm]
    simp only [List.map_cons, List.cons_append, notesBalanced.go, (off_is p.2 0).1, (off_is p.2 0).2]
    simp only [List.contains_cons, beq_self_eq_true, Bool.true_or, if_true, List.erase_cons_head]
    exact ih o rest

/-- events the walk ignores -/
theorem go_skip (e : SEvent) (h1 : isNoteOn e = none) (h2 : isNoteOff e = none) (o : List (Nat × Nat)) (rest : List SEvent) :
    notesBalanced.go o (e :: rest) = notesBalanced.go o rest := by
  simp only [notesBalanced.go, h1, h2]

theorem go_skip_all : ∀ (es : List SEvent), (∀ e ∈ es, isNoteOn e = none ∧ isNoteOff e = none) →
    ∀ (o : List (Nat × Nat)) (rest : List SEvent), notesBalanced.go o (es ++ rest) = notesBalanced.go o rest := by
  intro es
  induction es with
  | nil => intro _ o rest; rfl
  | cons e es ih =>
    intro h o rest
    rw [List.cons_append, go_skip e (h e (by simp)).1 (h e (by simp)).2]
    exact ih (fun x hx => h x (by simp [hx])) o rest

/-- the walk sees an event only through `isNoteOn` / `isNoteOff` -/
theorem go_congr : ∀ (l₁ l₂ : List SEvent) (o : List (Nat × Nat)), l₁.map isNoteOn = l₂.map isNoteOn →
    l₁.map isNoteOff = l₂.map isNoteOff → notesBalanced.go o l₁ = notesBalanced.go o l₂ := by
  intro l₁
  induction l₁ with
  | nil => intro l₂ o h _; cases l₂ <;> simp_all
  | cons a r ih =>
    intro l₂ o h1 h2
    cases l₂ with
    | nil => simp at h1
    | cons b r' =>
      simp only [List.map_cons, List.cons.injEq] at h1 h2
      simp only [notesBalanced.go, h1.1, h2.1]
      cases isNoteOn b with
      | some x => obtain ⟨c, k, v⟩ := x; exact ih r' _ h1.2 h2.2
      | none =>
        simp only
        cases isNoteOff b with
        | none => exact ih r' _ h1.2 h2.2
        | some ck => simp only; split
                     · exact ih r' _ h1.2 h2.2
                     · rfl

/-- the reader's view of an event, whatever its delta -/
def evS (e : Ev) : SEvent := toS (0, e)

theorem toS_on (x : Nat × Ev) : isNoteOn (toS x) = isNoteOn (evS x.2) ∧ isNoteOff (toS x) = isNoteOff (evS x.2) := by
  obtain ⟨d, e⟩ := x
  cases e <;> simp [toS, evS, Ev.metaParts, Ev.chanParts, isNoteOn, isNoteOff]

theorem evS_noteOn (k vel : Nat) : evS (.noteOn 0 k vel) = sOn k vel 0 := by simp [evS, toS, Ev.metaParts, Ev.chanParts, sOn]
theorem evS_noteOff (k : Nat) : evS (.noteOff 0 k) = sOff k 0 := by simp [evS, toS, Ev.metaParts, Ev.chanParts, sOff]

theorem evS_meta (e : Ev) (h : isMetaEv e = true ∨ e = .close ∨ ∃ c p, e = .program c p) :
    isNoteOn (evS e) = none ∧ isNoteOff (evS e) = none := by
  rcases h with h | rfl | ⟨c, p, rfl⟩
  · cases e <;> simp [isMetaEv] at h <;> simp [evS, toS, Ev.metaParts, isNoteOn, isNoteOff]
  · simp [evS, toS, Ev.metaParts, isNoteOn, isNoteOff]
  · simp [evS, toS, Ev.metaParts, Ev.chanParts, isNoteOn, isNoteOff]

/-- dynamics that can be in force strike with a positive velocity -/
theorem vel_pos : ∀ v ∈ defaultVelocity :: sixDyns, 0 < min (v.velocity % 256) 127 := by decide

def KnownDyns (is : List Instance) : Prop := ∀ i ∈ is, ∀ v, i.velocity = some v → v ∈ sixDyns

/-- **the share of any track of the piece's timeline is balanced**: walking it returns to the open notes it started with -/
theorem pieceLog_balanced (τ : List Rat' → Nat) (d : Dict) (N t : Nat) (is : List Instance) (hk : KnownDyns is) :
    ∀ T first k0 v0, v0 ∈ defaultVelocity :: sixDyns → ∀ (o : List (Nat × Nat)) (rest : List SEvent),
      notesBalanced.go o ((((pieceLog τ d T first k0 v0 is).filter (fun e => route N e = t)).map fun e => evS e.2.2) ++ rest) =
        notesBalanced.go o rest := by
  induction is with
  | nil => intro T first k0 v0 _ o rest; simp [pieceLog]
  | cons i is ih =>
    intro T first k0 v0 hv0 o rest
    have hv : i.velocity.getD v0 ∈ defaultVelocity :: sixDyns := by
      cases hiv : i.velocity with
      | none => simpa using hv0
      | some v => simp only [Option.getD_some]; exact List.mem_cons_of_mem _ (hk i (by simp) v hiv)
    rw [pieceLog_cons]
    simp only [List.filter_append, List.map_append, List.append_assoc]
    -- settings: ignored by the walk
    rw [go_skip_all]
    · obtain ⟨picked, hon, hoff⟩ := notes_paired_per_track d (i.key.getD k0) (i.velocity.getD v0) T (T + τ i.values) i N t
      rw [hon, hoff]
      simp only [List.map_map, Function.comp_def, evS_noteOn, evS_noteOff]
      rw [go_ons _ (vel_pos _ hv), go_offs]
      exact ih (fun j hj => hk j (by simp [hj])) _ _ _ _ hv o rest
    · intro e he
      obtain ⟨x, hx, rfl⟩ := List.mem_map.mp he
      have hx' := (List.mem_filter.mp hx).1
      simp only [instSettings, List.mem_filterMap] at hx'
      obtain ⟨c, _, hc⟩ := hx'
      cases hce : c.metaEv with
      | none => simp [hce] at hc
      | some ev =>
        simp [hce] at hc; subst hc
        apply evS_meta; left
        cases c <;> simp [WCall.metaEv] at hce <;> subst hce <;> rfl

end Crd
