import Crd.Lemmas.SmfFile
import Crd.Lemmas.NoCrash2
import Crd.Props.C06
import Crd.Lemmas.Dict
import Crd.Lemmas.PieceIndex

/-!
# Every event `crd write` produces is one the strict reader accepts; every track is closed
-/
namespace Crd
open Crd.Spec Crd.Generated Crd.Props.C06

theorem char_lt (c : Char) : c.toNat < 0x110000 := by
  have := c.valid
  unfold UInt32.isValidChar Nat.isValidChar at this
  show c.val.toNat < 0x110000
  omega

theorem utf8Char_bytes (c : Char) : ∀ b ∈ utf8Char c, b < 256 := by
  intro b hb
  have hc := char_lt c
  unfold utf8Char at hb
  simp only at hb
  split at hb
  · simp at hb; omega
  · split at hb
    · simp at hb; omega
    · split at hb
      · simp at hb; omega
      · simp at hb; omega

theorem strBytes_bytes (s : String) : ∀ b ∈ strBytes s, b < 256 := by
  intro b hb
  simp only [strBytes, List.mem_flatMap] at hb
  obtain ⟨c, _, hc⟩ := hb
  exact utf8Char_bytes c b hc

theorem vlq_bytes' (n : Nat) : ∀ b ∈ vlq n, b < 256 := vlq_bytes n

theorem metaMsg_bytes (typ : Nat) (data : Bytes) (ht : typ < 256) (hd : ∀ b ∈ data, b < 256) :
    ∀ b ∈ metaMsg typ data, b < 256 := by
  intro b hb
  simp only [metaMsg, List.mem_append, List.mem_cons, List.mem_nil_iff, or_false] at hb
  rcases hb with ((rfl | rfl) | hb) | hb
  · decide
  · exact ht
  · exact vlq_bytes _ b hb
  · exact hd b hb

/-- an event the strict reader accepts and whose bytes are bytes -/
def GoodEv (e : Ev) : Prop := EvOK e ∧ ∀ b ∈ e.bytes, b < 256

theorem good_string (mk : String → Ev) (typ : Nat) (s : String) (hl : (strBytes s).length ≤ 0x0FFFFFFF)
    (hp : (mk s).metaParts = some (typ, strBytes s)) (hb : (mk s).bytes = metaMsg typ (strBytes s))
    (ht : typ < 128) (hok : ∀ n, metaLenOK typ n = true) (hne : typ ≠ 0x59) : GoodEv (mk s) := by
  refine ⟨?_, ?_⟩
  · simp only [EvOK, hp]
    exact ⟨hl, hok _, fun h => absurd h hne⟩
  · rw [hb]; exact metaMsg_bytes typ _ (by omega) (strBytes_bytes s)

theorem good_seqName (s : String) (hl : (strBytes s).length ≤ 0x0FFFFFFF) : GoodEv (.seqName s) :=
  good_string .seqName 0x03 s hl rfl rfl (by decide) (fun n => by simp [metaLenOK]) (by decide)
theorem good_instrument (s : String) (hl : (strBytes s).length ≤ 0x0FFFFFFF) : GoodEv (.instrument s) :=
  good_string .instrument 0x04 s hl rfl rfl (by decide) (fun n => by simp [metaLenOK]) (by decide)
theorem good_text (s : String) (hl : (strBytes s).length ≤ 0x0FFFFFFF) : GoodEv (.text s) :=
  good_string .text 0x01 s hl rfl rfl (by decide) (fun n => by simp [metaLenOK]) (by decide)
theorem good_lyric (s : String) (hl : (strBytes s).length ≤ 0x0FFFFFFF) : GoodEv (.lyric s) :=
  good_string .lyric 0x05 s hl rfl rfl (by decide) (fun n => by simp [metaLenOK]) (by decide)
theorem good_marker (s : String) (hl : (strBytes s).length ≤ 0x0FFFFFFF) : GoodEv (.marker s) :=
  good_string .marker 0x06 s hl rfl rfl (by decide) (fun n => by simp [metaLenOK]) (by decide)

theorem tempoPayload_len (bpm : Nat) : (tempoPayload bpm).length = 3 ∧ ∀ b ∈ tempoPayload bpm, b < 256 := by
  unfold tempoPayload
  simp only
  split
  · exact ⟨by simp [Crd.be], be_bytes _ _⟩
  · exact ⟨rfl, by decide⟩

theorem good_tempo (bpm : Nat) : GoodEv (.tempo bpm) := by
  obtain ⟨hl, hb⟩ := tempoPayload_len bpm
  refine ⟨?_, ?_⟩
  · simp only [EvOK, Ev.metaParts, hl]
    exact ⟨by decide, by decide, fun h => by cases h⟩
  · show ∀ b ∈ metaMsg 0x51 (tempoPayload bpm), b < 256
    exact metaMsg_bytes _ _ (by decide) hb

set_option maxRecDepth 100000 in
theorem dec2bin_small : ∀ d ∈ List.range 256, dec2binDenom (if d = 0 then 1 else d) < 256 := by decide

theorem good_meter (n d : Nat) (hn : n < 256) (hd : d < 256) : GoodEv (.meter n d) := by
  refine ⟨?_, ?_⟩
  · simp only [EvOK, Ev.metaParts]
    exact ⟨by simp, by simp [metaLenOK], fun h => by cases h⟩
  · show ∀ b ∈ metaMsg 0x58 [n, dec2binDenom (if d = 0 then 1 else d), 8, 8], b < 256
    apply metaMsg_bytes _ _ (by decide)
    intro b hb
    simp only [List.mem_cons, List.mem_nil_iff, or_false] at hb
    rcases hb with rfl | rfl | rfl | rfl
    · exact hn
    · exact dec2bin_small d (List.mem_range.mpr hd)
    · decide
    · decide

theorem keySigData_ok : ∀ num, num ≤ 7 → ∀ isMajor isFlat,
    ((keySigData isMajor num isFlat)[0]! ≤ 7 ∨ 249 ≤ (keySigData isMajor num isFlat)[0]!) ∧
    (keySigData isMajor num isFlat)[1]! ≤ 1 ∧ ∀ b ∈ keySigData isMajor num isFlat, b < 256 := by decide

theorem good_keySig (k : Nat) (isMajor : Bool) (num : Nat) (isFlat : Bool) (hn : num ≤ 7) : GoodEv (.keySig k isMajor num isFlat) := by
  obtain ⟨h1, h2, h3⟩ := keySigData_ok num hn isMajor isFlat
  refine ⟨?_, ?_⟩
  · simp only [EvOK, Ev.metaParts]
    exact ⟨by simp [keySigData], by simp [keySigData, metaLenOK], fun _ => ⟨h1, h2⟩⟩
  · have : (Ev.keySig k isMajor num isFlat).bytes = metaMsg 0x59 (keySigData isMajor num isFlat) := by
      simp [Ev.bytes, keySigData]
    rw [this]
    exact metaMsg_bytes _ _ (by decide) h3

theorem good_chan (e : Ev) (h : e.metaParts = none) (hb : ∀ b ∈ e.bytes, b < 256) : GoodEv e :=
  ⟨by simp [EvOK, h], hb⟩

theorem good_program (ch p : Nat) : GoodEv (.program ch p) :=
  good_chan _ rfl (by intro b hb; simp [Ev.bytes] at hb; omega)
theorem good_noteOn (ch k v : Nat) : GoodEv (.noteOn ch k v) :=
  good_chan _ rfl (by intro b hb; simp [Ev.bytes] at hb; omega)
theorem good_noteOff (ch k : Nat) : GoodEv (.noteOff ch k) :=
  good_chan _ rfl (by intro b hb; simp [Ev.bytes] at hb; omega)
theorem good_close : GoodEv .close :=
  ⟨by simp [EvOK, Ev.metaParts, metaLenOK], by decide⟩

/-- key-signature calls of supported keys carry at most seven accidentals -/
def callGood : WCall → Bool
  | .keySig _ _ num _ => decide (num ≤ 7)
  | _ => true

theorem keySigCall_good : ∀ k ∈ supportedKeys, ∀ c, keySigCall k = some c → callGood c = true := by decide

/-- every text of the piece fits a meta event (shorter than 2^28 bytes in UTF-8) -/
def TextsFit (is : List Instance) : Prop :=
  ∀ i ∈ is, ∀ m, i.mta = some m → ∀ kv ∈ m, (strBytes kv.2).length ≤ 0x0FFFFFFF

theorem metaGet_fits (m : List (String × String)) (k : String) (h : ∀ kv ∈ m, (strBytes kv.2).length ≤ 0x0FFFFFFF) :
    (strBytes (metaGet m k)).length ≤ 0x0FFFFFFF := by
  unfold metaGet
  cases hl : lookupLast k m with
  | none => simp [strBytes]
  | some v => simpa using h (k, v) (lookupLast_mem k m v hl)

theorem textCalls_good (m : List (String × String)) (h : ∀ kv ∈ m, (strBytes kv.2).length ≤ 0x0FFFFFFF) :
    ∀ c ∈ textCalls m, ∀ e, c.metaEv = some e → GoodEv e := by
  intro c hc e he
  simp only [textCalls, List.mem_append] at hc
  rcases hc with (hc | hc) | hc <;> (split at hc <;> simp at hc <;> subst hc <;> simp [WCall.metaEv] at he <;> subst he)
  · exact good_text _ (metaGet_fits m _ h)
  · exact good_lyric _ (metaGet_fits m _ h)
  · exact good_marker _ (metaGet_fits m _ h)

theorem keySig_good (k : Key) (c : WCall) (h : keySigCall k = some c) : ∀ e, c.metaEv = some e → GoodEv e := by
  intro e he
  have hs : ∃ s, newScale k = some s := by
    unfold keySigCall at h
    cases hn : newScale k with
    | none => simp [hn] at h
    | some s => exact ⟨s, rfl⟩
  obtain ⟨s, hs⟩ := hs
  have hg := keySigCall_good k (supported_of_newScale k s hs) c h
  cases c <;> simp [WCall.metaEv] at he <;> subst he
  case keySig kk ma n fl =>
    have : n ≤ 7 := by simpa [callGood] using hg
    exact good_keySig _ _ _ _ this
  all_goals first | exact good_tempo _ | (exfalso; unfold keySigCall at h; rw [hs] at h; simp at h)

theorem settings_good (first : Bool) (i : Instance) (cs : List WCall) (h : settingsCalls first i = some cs)
    (ht : ∀ m, i.mta = some m → ∀ kv ∈ m, (strBytes kv.2).length ≤ 0x0FFFFFFF) :
    ∀ c ∈ cs, ∀ e, c.metaEv = some e → GoodEv e := by
  unfold settingsCalls at h
  simp only [Option.map_eq_some_iff] at h
  obtain ⟨kc, hk, rfl⟩ := h
  intro c hc e he
  simp only [List.mem_append] at hc
  rcases hc with ((hc | hc) | hc) | hc
  · have : ∃ b, c = .tempo b := by
      split at hc
      · simp at hc; exact ⟨_, hc⟩
      · cases hb : i.bpm <;> simp [hb, Option.toList] at hc; exact ⟨_, hc⟩
    obtain ⟨b, rfl⟩ := this
    simp [WCall.metaEv] at he; subst he; exact good_tempo b
  · have : ∃ r : Rat', c = meterCall r := by
      split at hc
      · simp at hc; exact ⟨_, hc⟩
      · cases hb : i.meter <;> simp [hb, Option.toList] at hc; exact ⟨_, hc⟩
    obtain ⟨r, rfl⟩ := this
    simp [meterCall, WCall.metaEv] at he; subst he
    exact good_meter _ _ (Nat.mod_lt _ (by decide)) (Nat.mod_lt _ (by decide))
  · split at hk
    · simp only [Option.map_eq_some_iff] at hk
      obtain ⟨x, hx, rfl⟩ := hk
      simp at hc; subst hc; exact keySig_good _ _ hx e he
    · cases hkey : i.key with
      | none => simp [hkey] at hk; subst hk; simp at hc
      | some k =>
        simp only [hkey, Option.map_eq_some_iff] at hk
        obtain ⟨x, hx, rfl⟩ := hk
        simp at hc; subst hc; exact keySig_good _ _ hx e he
  · split at hc
    · cases hm : i.mta with
      | none => simp only [hm, Option.getD_none] at hc; exact textCalls_good [] (by simp) c hc e he
      | some m => simp only [hm, Option.getD_some] at hc; exact textCalls_good m (ht m hm) c hc e he
    · cases hm : i.mta with
      | none => simp [hm] at hc
      | some m => simp [hm] at hc; exact textCalls_good m (ht m hm) c hc e he

theorem fixedEvs_good (mk : Nat → Ev) (hmk : ∀ k, GoodEv (mk k)) (T : Nat) : ∀ (i0 : Nat) (ks : List Nat),
    ∀ e ∈ fixedEvs mk T i0 ks, GoodEv e.2.2 := by
  intro i0 ks
  induction ks generalizing i0 with
  | nil => intro e he; simp [fixedEvs] at he
  | cons x xs ih =>
    intro e he
    simp only [fixedEvs, List.mem_cons] at he
    rcases he with rfl | he
    · exact hmk x
    · exact ih _ e he

/-- every event of the piece's timeline is good -/
theorem pieceLog_good (τ : List Rat' → Nat) (d : Dict) (is : List Instance) (ht : TextsFit is) :
    ∀ T first k0 v0, ∀ e ∈ pieceLog τ d T first k0 v0 is, GoodEv e.2.2 := by
  induction is with
  | nil => intro T first k0 v0 e he; simp [pieceLog] at he
  | cons i is ih =>
    intro T first k0 v0 e he
    rw [pieceLog_cons] at he
    simp only [List.mem_append] at he
    rcases he with (he | he | he) | he
    · simp only [instSettings, List.mem_filterMap] at he
      obtain ⟨c, hc, hce⟩ := he
      cases hs : settingsCalls first i with
      | none => simp [hs] at hc
      | some cs =>
        simp only [hs, Option.getD_some] at hc
        cases hme : c.metaEv with
        | none => simp [hme] at hce
        | some ev =>
          simp [hme] at hce; subst hce
          exact settings_good first i cs hs (fun m hm => ht i (by simp) m hm) c hc ev hme
    · unfold instOns at he
      split at he
      · simp at he
      · split at he
        · exact fixedEvs_good _ (fun k => good_noteOn _ _ _) _ _ _ e he
        · simp at he
    · unfold instOffs at he
      split at he
      · simp at he
      · split at he
        · exact fixedEvs_good _ (fun k => good_noteOff _ _) _ _ _ e he
        · simp at he
    · exact ih (fun j hj => ht j (by simp [hj])) _ _ _ _ e he

/-! ## closedness of the written tracks -/

theorem absTimes_events (c : Nat) (ops : List (Nat × Ev)) : (absTimes c ops).map (·.2) = ops.map (·.2) := by
  induction ops generalizing c with
  | nil => rfl
  | cons x r ih => obtain ⟨d, e⟩ := x; simp [absTimes, ih]

def ClosedEvs : List Ev → Prop
  | [] => False
  | [x] => x = .close
  | x :: r => x ≠ .close ∧ ClosedEvs r

theorem closed_iff (ops : List (Nat × Ev)) : Closed ops ↔ ClosedEvs (ops.map (·.2)) := by
  induction ops with
  | nil => simp [Closed, ClosedEvs]
  | cons x r ih =>
    cases r with
    | nil => simp [Closed, ClosedEvs]
    | cons y r' => simp only [Closed, List.map_cons, ClosedEvs]; rw [← List.map_cons, ← ih]

theorem closedEvs_append (pre : List Ev) (h : ∀ e ∈ pre, e ≠ .close) : ClosedEvs (pre ++ [.close]) := by
  induction pre with
  | nil => simp [ClosedEvs]
  | cons x r ih =>
    have := ih (fun e he => h e (by simp [he]))
    cases r with
    | nil => simp only [List.cons_append, List.nil_append, ClosedEvs]; exact ⟨h x (by simp), trivial⟩
    | cons y r' =>
      simp only [List.cons_append, ClosedEvs]
      exact ⟨h x (by simp), by simpa [ClosedEvs] using this⟩

theorem smfTrack_closed : ∀ (t : List (Nat × Ev)), Closed t → smfTrack t = t ∧ isClosed t = true := by
  intro t
  induction t with
  | nil => intro h; simp [Closed] at h
  | cons x r ih =>
    intro h
    obtain ⟨d, e⟩ := x
    cases r with
    | nil =>
      have : e = .close := by simpa [Closed] using h
      subst this; simp [smfTrack, isClosed]
    | cons y r' =>
      have hc : e ≠ .close ∧ Closed (y :: r') := by simpa [Closed] using h
      obtain ⟨h1, h2⟩ := ih hc.2
      constructor
      · cases e <;> simp_all [smfTrack]
      · simp only [isClosed, List.getLast?_cons_cons] at h2 ⊢; exact h2

end Crd
