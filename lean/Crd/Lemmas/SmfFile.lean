import Crd.Lemmas.SmfTrack

/-!
# The strict reader on a whole written file: header, chunks, every track
-/
namespace Crd
open Crd.Spec

theorem be4_val (n : Nat) (h : n < 2 ^ 32) :
    Crd.be 4 n = [n / 16777216 % 256, n / 65536 % 256, n / 256 % 256, n % 256] ∧
    Spec.be [n / 16777216 % 256, n / 65536 % 256, n / 256 % 256, n % 256] = n := by
  constructor
  · simp [Crd.be, List.range, List.range.loop]
  · simp only [Spec.be, List.foldl]
    omega

theorem be2_val (n : Nat) (h : n < 2 ^ 16) :
    Crd.be 2 n = [n / 256 % 256, n % 256] ∧ Spec.be [n / 256 % 256, n % 256] = n := by
  constructor
  · simp [Crd.be, List.range, List.range.loop]
  · simp only [Spec.be, List.foldl]
    omega

theorem mtrk_bytes : strBytes "MTrk" = [0x4D, 0x54, 0x72, 0x6B] := by decide
theorem mthd_bytes : strBytes "MThd" = [0x4D, 0x54, 0x68, 0x64] := by decide

theorem chunk_mtrk (data : Bytes) : chunk "MTrk" data = 0x4D :: 0x54 :: 0x72 :: 0x6B :: (Crd.be 4 data.length ++ data) := by
  simp [chunk, mtrk_bytes]

theorem trackData_length_ge (st : Nat) (evs : List (Nat × Ev)) : evs.length ≤ (trackData st evs).length := by
  induction evs generalizing st with
  | nil => simp [trackData]
  | cons x r ih =>
    obtain ⟨d, e⟩ := x
    have hv : 1 ≤ (vlq d).length := by
      cases h : vlq d with
      | nil => exact absurd h (vlq_ne_nil d)
      | cons _ _ => simp
    simp only [trackData]
    split
    · split
      · have := ih st; simp only [List.length_append, List.length_cons] at *; omega
      · have := ih ((e.bytes).headD 0); simp only [List.length_append, List.length_cons] at *; omega
    · have := ih 0; simp only [List.length_append, List.length_cons] at *; omega

/-- a track the reader can take: closed, deltas and meta lengths fit, chunk shorter than 4 GiB -/
def TrackOK (t : List (Nat × Ev)) : Prop :=
  Closed t ∧ (∀ x ∈ t, x.1 ≤ 0x0FFFFFFF ∧ EvOK x.2) ∧ (trackData 0 t).length < 2 ^ 32

theorem readChunks_tracks : ∀ (ts : List (List (Nat × Ev))) (f : Nat), (∀ t ∈ ts, TrackOK t) → ts.length ≤ f →
    readChunks f ts.length (ts.flatMap fun t => chunk "MTrk" (trackData 0 t)) = .ok (ts.map (·.map toS)) := by
  intro ts
  induction ts with
  | nil => intro f _ _; cases f <;> simp [readChunks]
  | cons t ts ih =>
    intro f hok hf
    obtain ⟨f', rfl⟩ : ∃ f', f = f' + 1 := ⟨f - 1, by simp at hf; omega⟩
    obtain ⟨hcl, hev, hsz⟩ := hok t (by simp)
    obtain ⟨e1, e2⟩ := be4_val (trackData 0 t).length hsz
    rw [List.flatMap_cons, chunk_mtrk, e1]
    simp only [List.length_cons, List.cons_append, List.nil_append, List.append_assoc]
    rw [readChunks]
    simp only [e2, take_len_append, drop_len_append, Nat.lt_irrefl, if_false]
    rw [readEvents_track t _ 0 hcl hev (by have := trackData_length_ge 0 t; omega)]
    rw [ih f' (fun t' ht' => hok t' (by simp [ht'])) (by simp at hf; omega)]
    rfl

/-- every byte of a track's data is a byte, if every event's bytes are -/
theorem trackData_bytes (evs : List (Nat × Ev)) (h : ∀ x ∈ evs, ∀ b ∈ x.2.bytes, b < 256) :
    ∀ st, ∀ b ∈ trackData st evs, b < 256 := by
  induction evs with
  | nil => intro st b hb; simp [trackData] at hb
  | cons x r ih =>
    intro st b hb
    obtain ⟨d, e⟩ := x
    have he : ∀ b ∈ e.bytes, b < 256 := h (d, e) (by simp)
    have hr := ih (fun y hy => h y (by simp [hy]))
    simp only [trackData] at hb
    split at hb
    · split at hb
      · simp only [List.mem_append] at hb
        rcases hb with (hb | hb) | hb
        · exact vlq_bytes d b hb
        · exact he b (List.mem_of_mem_drop hb)
        · exact hr _ b hb
      · simp only [List.mem_append] at hb
        rcases hb with (hb | hb) | hb
        · exact vlq_bytes d b hb
        · exact he b hb
        · exact hr _ b hb
    · simp only [List.mem_append] at hb
      rcases hb with (hb | hb) | hb
      · exact vlq_bytes d b hb
      · exact he b hb
      · exact hr _ b hb

theorem be_bytes (w n : Nat) : ∀ b ∈ Crd.be w n, b < 256 := by
  intro b hb
  simp only [Crd.be, List.mem_map] at hb
  obtain ⟨i, _, rfl⟩ := hb
  exact Nat.mod_lt _ (by decide)

theorem chunk_bytes (typ : String) (data : Bytes) (ht : ∀ b ∈ strBytes typ, b < 256) (hd : ∀ b ∈ data, b < 256) :
    ∀ b ∈ chunk typ data, b < 256 := by
  intro b hb
  unfold chunk at hb
  rcases List.mem_append.mp hb with hb | hb
  · rcases List.mem_append.mp hb with hb | hb
    · exact ht b hb
    · exact be_bytes _ _ b hb
  · exact hd b hb

/-- **the strict reader accepts the encoder's file and recovers format, division and every event of every track** -/
theorem parse_encode (tpq : Nat) (ts : List (List (Nat × Ev))) (hN : 1 ≤ ts.length ∧ ts.length ≤ 65535)
    (htpq : 1 ≤ tpq ∧ tpq < 32768) (hok : ∀ t ∈ ts, TrackOK t)
    (hb : ∀ t ∈ ts, ∀ x ∈ t, ∀ b ∈ x.2.bytes, b < 256) :
    parseSMF (chunk "MThd" (Crd.be 2 (if ts.length > 1 then 1 else 0) ++ Crd.be 2 (ts.length % 65536) ++ Crd.be 2 (min tpq 32767))
        ++ ts.flatMap fun t => chunk "MTrk" (trackData 0 t)) =
      .ok ⟨if ts.length > 1 then 1 else 0, tpq, ts.map (·.map toS)⟩ := by
  have hmin : min tpq 32767 = tpq := by omega
  have hmod : ts.length % 65536 = ts.length := by omega
  generalize hfmt : (if ts.length > 1 then 1 else 0 : Nat) = fmt
  have hfmt1 : fmt < 2 ^ 16 := by rw [← hfmt]; split <;> decide
  obtain ⟨f1, f2⟩ := be2_val fmt hfmt1
  obtain ⟨n1, n2⟩ := be2_val ts.length (by omega)
  obtain ⟨d1, d2⟩ := be2_val tpq (by omega)
  have hall : (chunk "MThd" (Crd.be 2 fmt ++ Crd.be 2 (ts.length % 65536) ++ Crd.be 2 (min tpq 32767))
        ++ ts.flatMap fun t => chunk "MTrk" (trackData 0 t)).all (· < 256) = true := by
    rw [List.all_eq_true]
    intro b hbm
    simp only [decide_eq_true_eq]
    rcases List.mem_append.mp hbm with hbm | hbm
    · refine chunk_bytes "MThd" _ (by rw [mthd_bytes]; decide) ?_ b hbm
      intro c hc
      rcases List.mem_append.mp hc with hc | hc
      · rcases List.mem_append.mp hc with hc | hc <;> exact be_bytes _ _ c hc
      · exact be_bytes _ _ c hc
    · obtain ⟨t, ht, hbt⟩ := List.mem_flatMap.mp hbm
      exact chunk_bytes "MTrk" _ (by rw [mtrk_bytes]; decide) (trackData_bytes t (hb t ht) 0) b hbt
  unfold parseSMF
  rw [hmod, hmin] at hall ⊢
  have hhead : chunk "MThd" (Crd.be 2 fmt ++ Crd.be 2 ts.length ++ Crd.be 2 tpq) =
      [0x4D, 0x54, 0x68, 0x64, 0, 0, 0, 6, fmt / 256 % 256, fmt % 256, ts.length / 256 % 256, ts.length % 256,
        tpq / 256 % 256, tpq % 256] := by
    simp [chunk, mthd_bytes, f1, n1, d1, Crd.be, List.range, List.range.loop]
  rw [hhead] at hall ⊢
  simp only [List.cons_append, List.nil_append]
  simp only [List.cons_append, List.nil_append] at hall
  simp only [hall, not_true_eq_false, if_false, f2, n2, d2]
  have c1 : ¬ ts.length = 0 := by omega
  have c2 : ¬ (fmt = 0 ∧ ts.length ≠ 1) := by rw [← hfmt]; split <;> omega
  have c3 : ¬ (fmt ≠ 0 ∧ (fmt ≠ 1 ∨ ts.length = 1)) := by rw [← hfmt]; split <;> omega
  have c4 : ¬ (tpq = 0 ∨ tpq ≥ 32768) := by omega
  simp only [c1, c2, c3, c4, if_false]
  rw [readChunks_tracks ts (ts.length + 1) hok (by omega)]
  rfl

end Crd
