import Crd.Lemmas.Vlq

/-!
# The strict reader on one written event: meta events, end of track, channel messages with and without
running status
-/
namespace Crd
open Crd.Spec

theorem take_len_append {α} (a b : List α) : (a ++ b).take a.length = a := by simp
theorem drop_len_append {α} (a b : List α) : (a ++ b).drop a.length = b := by simp

/-- a meta event that is not the end of track, followed by more bytes -/
theorem readEvents_meta (f rs d typ : Nat) (data rest : List Nat) (hd : d ≤ 0x0FFFFFFF) (htyp : typ < 128)
    (hlen : data.length ≤ 0x0FFFFFFF) (hok : metaLenOK typ data.length = true) (hne : typ ≠ 0x2F)
    (hks : typ = 0x59 → ((data[0]! ≤ 7 ∨ 249 ≤ data[0]!) ∧ data[1]! ≤ 1)) (hrest : rest ≠ []) :
    readEvents (f + 1) rs (vlq d ++ (metaMsg typ data ++ rest)) =
      (readEvents f 0 rest).map (SEvent.mta d typ data :: ·) := by
  rw [readEvents, readVlq_vlq d hd]
  simp only [metaMsg, List.append_assoc, List.cons_append, List.nil_append]
  have hisd : isData typ = true := by simp [isData, htyp]
  simp only [hisd, Bool.not_true, Bool.false_eq_true, if_false]
  rw [readVlq_vlq data.length hlen]
  simp only [take_len_append, drop_len_append, Nat.lt_irrefl, if_false, hok, Bool.not_true, Bool.false_eq_true, hne]
  have hre : rest.isEmpty = false := by cases rest <;> simp_all
  have hk : ¬ (typ = 0x59 ∧ (!decide ((data[0]! ≤ 7 ∨ 249 ≤ data[0]!) ∧ data[1]! ≤ 1)) = true) := by
    intro ⟨h1, h2⟩
    have := hks h1
    rw [Bool.not_eq_true', decide_eq_false_iff_not] at h2
    exact h2 this
  simp only [hk, if_false, hre, Bool.false_eq_true]

/-- the end of track closes the chunk -/
theorem readEvents_close (f rs d : Nat) (hd : d ≤ 0x0FFFFFFF) :
    readEvents (f + 1) rs (vlq d ++ metaMsg 0x2F []) = .ok [SEvent.mta d 0x2F []] := by
  rw [readEvents]
  have : vlq d ++ metaMsg 0x2F [] = vlq d ++ (metaMsg 0x2F [] ++ []) := by simp
  rw [this, readVlq_vlq d hd]
  simp [metaMsg, isData, readVlq, vlq, vlqHi, vlqAux, metaLenOK]

/-- the reader's treatment of the data bytes of a channel message with status `st` -/
def chanRead (f d st : Nat) (dataBytes : List Nat) : Except String (List SEvent) :=
  match dataBytes with
  | d1 :: rest1 =>
    if !isData d1 then .error "data byte >= 128" else
    if 0xC0 ≤ st ∧ st ≤ 0xDF then
      if rest1.isEmpty then .error "missing end of track"
      else (readEvents f st rest1).map (SEvent.midi d st d1 none :: ·)
    else match rest1 with
      | d2 :: rest2 =>
        if !isData d2 then .error "data byte >= 128"
        else if rest2.isEmpty then .error "missing end of track"
        else (readEvents f st rest2).map (SEvent.midi d st d1 (some d2) :: ·)
      | [] => .error "truncated event"
  | [] => .error "truncated event"

/-- a channel message whose first byte after the delta is `b` (a status byte, or a data byte under running status) -/
theorem readEvents_channel (f rs d b : Nat) (r1 : List Nat) (hd : d ≤ 0x0FFFFFFF) (hb' : b < 0xF0)
    (hst0 : (if b ≥ 0x80 then b else rs) ≠ 0) :
    readEvents (f + 1) rs (vlq d ++ (b :: r1)) =
      chanRead f d (if b ≥ 0x80 then b else rs) (if b ≥ 0x80 then r1 else b :: r1) := by
  rw [readEvents, readVlq_vlq d hd]
  simp only
  split
  · rename_i heq; cases heq
  · rename_i typ r1' heq
    injection heq with h1 h2
    omega
  · rename_i b' r1' hne heq
    injection heq with h1 h2
    subst h1; subst h2
    have n1 : ¬ (b = 0xF0 ∨ b = 0xF7) := by omega
    have n2 : ¬ b ≥ 0xF0 := by omega
    simp only [n1, n2, if_false]
    by_cases hge : b ≥ 0x80
    · simp only [hge, if_true] at hst0 ⊢
      simp only [hst0, if_false, chanRead]
      cases r1 with
      | nil => rfl
      | cons d1 rest1 => cases rest1 <;> rfl
    · simp only [hge, if_false] at hst0 ⊢
      simp only [hst0, if_false, chanRead]
      cases r1 <;> rfl

end Crd
