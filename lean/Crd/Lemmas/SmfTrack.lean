import Crd.Lemmas.SmfRead

/-!
# The strict reader on a whole written track: `readEvents (trackData …) = the events`
-/
namespace Crd
open Crd.Spec

/-- key-signature payload -/
def keySigData (isMajor : Bool) (num : Nat) (isFlat : Bool) : Bytes :=
  let sf8 : Int := (((num : Int) + 128).emod 256) - 128
  [(((if isFlat then -sf8 else sf8)).emod 256).toNat, if isMajor then 0 else 1]

/-- type and data of a meta event -/
def Ev.metaParts : Ev → Option (Nat × Bytes)
  | .seqName s => some (0x03, strBytes s)
  | .instrument s => some (0x04, strBytes s)
  | .tempo bpm => some (0x51, tempoPayload bpm)
  | .meter n d => some (0x58, [n, dec2binDenom (if d = 0 then 1 else d), 8, 8])
  | .keySig _ isMajor num isFlat => some (0x59, keySigData isMajor num isFlat)
  | .text s => some (0x01, strBytes s)
  | .lyric s => some (0x05, strBytes s)
  | .marker s => some (0x06, strBytes s)
  | .close => some (0x2F, [])
  | _ => none

/-- status and data bytes of a channel message -/
def Ev.chanParts : Ev → Option (Nat × Nat × Option Nat)
  | .program ch p => some (0xC0 + min ch 15, min p 127, none)
  | .noteOn ch k v => some (0x90 + min ch 15, min k 127, some (min v 127))
  | .noteOff ch k => some (0x80 + min ch 15, min k 127, some 0)
  | _ => none

/-- the strict reader's view of a written event -/
def toS (x : Nat × Ev) : SEvent :=
  match x.2.metaParts, x.2.chanParts with
  | some (typ, data), _ => .mta x.1 typ data
  | none, some (st, d1, d2) => .midi x.1 st d1 d2
  | none, none => .mta x.1 0 []

theorem bytes_meta (e : Ev) (typ : Nat) (data : Bytes) (h : e.metaParts = some (typ, data)) :
    e.bytes = metaMsg typ data ∧ typ < 128 := by
  cases e <;> simp [Ev.metaParts] at h <;> obtain ⟨rfl, rfl⟩ := h <;> simp [Ev.bytes, keySigData]

/-- one data byte for program change (status C0..CF), two below -/
def chan2OK (s1 : Nat) : Option Nat → Prop
  | none => 0xC0 ≤ s1
  | some x => s1 < 0xC0 ∧ x < 128

theorem bytes_chan (e : Ev) (st d1 : Nat) (d2 : Option Nat) (h : e.chanParts = some (st, d1, d2)) :
    e.metaParts = none ∧ 0x80 ≤ st ∧ st ≤ 0xCF ∧ d1 < 128 ∧ chan2OK st d2 := by
  cases e <;> simp [Ev.chanParts] at h <;> obtain ⟨rfl, rfl, rfl⟩ := h <;> simp [Ev.metaParts, chan2OK] <;> omega

theorem parts_total (e : Ev) : e.metaParts.isSome = true ∨ e.chanParts.isSome = true := by
  cases e <;> simp [Ev.metaParts, Ev.chanParts]

/-- what the reader needs of one event besides a delta that fits -/
def EvOK (e : Ev) : Prop :=
  match e.metaParts with
  | some (typ, data) => data.length ≤ 0x0FFFFFFF ∧ metaLenOK typ data.length = true ∧
      (typ = 0x59 → ((data[0]! ≤ 7 ∨ 249 ≤ data[0]!) ∧ data[1]! ≤ 1))
  | none => True

/-- a closed track: no end of track before the last event, which is one -/
def Closed : List (Nat × Ev) → Prop
  | [] => False
  | [x] => x.2 = .close
  | x :: r => x.2 ≠ .close ∧ Closed r

theorem vlq_ne_nil (n : Nat) : vlq n ≠ [] := by unfold vlq; simp

theorem trackData_ne_nil (st : Nat) (evs : List (Nat × Ev)) (h : evs ≠ []) : trackData st evs ≠ [] := by
  cases evs with
  | nil => exact absurd rfl h
  | cons x r =>
    obtain ⟨d, e⟩ := x
    simp only [trackData]
    split
    · split <;> simp [vlq_ne_nil]
    · simp [vlq_ne_nil]

theorem close_meta (e : Ev) (data : Bytes) (h : e.metaParts = some (0x2F, data)) : e = .close := by
  cases e <;> simp [Ev.metaParts] at h <;> rfl

theorem trackData_meta (st d : Nat) (e : Ev) (r : List (Nat × Ev))
    (h : ¬ (0x80 ≤ (e.bytes).headD 0 ∧ (e.bytes).headD 0 ≤ 0xEF)) :
    trackData st ((d, e) :: r) = vlq d ++ (e.bytes ++ trackData 0 r) := by
  simp only [trackData, h, if_false, List.append_assoc]

theorem trackData_same (st d : Nat) (e : Ev) (r : List (Nat × Ev))
    (h : 0x80 ≤ (e.bytes).headD 0 ∧ (e.bytes).headD 0 ≤ 0xEF) (hs : (e.bytes).headD 0 = st) :
    trackData st ((d, e) :: r) = vlq d ++ ((e.bytes).drop 1 ++ trackData st r) := by
  subst hs
  simp only [trackData, h, and_self, if_true, List.append_assoc]

theorem trackData_diff (st d : Nat) (e : Ev) (r : List (Nat × Ev))
    (h : 0x80 ≤ (e.bytes).headD 0 ∧ (e.bytes).headD 0 ≤ 0xEF) (hs : (e.bytes).headD 0 ≠ st) :
    trackData st ((d, e) :: r) = vlq d ++ (e.bytes ++ trackData ((e.bytes).headD 0) r) := by
  simp only [trackData, h, hs, and_self, if_true, if_false, List.append_assoc]

/-- one channel message followed by the rest of the track -/
theorem read_chan_step (f st d s1 d1 : Nat) (d2 : Option Nat) (tail : List Nat) (evsS : List SEvent)
    (hd : d ≤ 0x0FFFFFFF) (hs1 : 0x80 ≤ s1 ∧ s1 ≤ 0xCF) (hd1 : d1 < 128)
    (hd2 : chan2OK s1 d2)
    (htail : tail ≠ []) (hrec : readEvents f s1 tail = .ok evsS) :
    -- status written
    readEvents (f + 1) st (vlq d ++ (s1 :: d1 :: (d2.toList ++ tail))) = .ok (SEvent.midi d s1 d1 d2 :: evsS) ∧
    -- running status
    readEvents (f + 1) s1 (vlq d ++ (d1 :: (d2.toList ++ tail))) = .ok (SEvent.midi d s1 d1 d2 :: evsS) := by
  have hisd : isData d1 = true := by simp [isData, hd1]
  have hge : s1 ≥ 0x80 := hs1.1
  have hnge : ¬ d1 ≥ 0x80 := by omega
  obtain ⟨z, zs, hz⟩ : ∃ z zs, tail = z :: zs := by
    cases tail with
    | nil => exact absurd rfl htail
    | cons z zs => exact ⟨z, zs, rfl⟩
  constructor
  · rw [readEvents_channel f st d s1 _ hd (by omega) (by simp only [hge, if_true]; omega)]
    simp only [hge, if_true]
    cases d2 with
    | none =>
      have hd2' : 0xC0 ≤ s1 := hd2
      have hone : 0xC0 ≤ s1 ∧ s1 ≤ 0xDF := ⟨hd2', by omega⟩
      simp only [Option.toList, List.nil_append, chanRead, hisd, Bool.not_true, Bool.false_eq_true, if_false, hone, and_self, if_true]
      rw [hz] at hrec ⊢
      simp only [List.isEmpty_cons, Bool.false_eq_true, if_false, hrec, Except.map]
    | some x =>
      have hd2' : s1 < 0xC0 ∧ x < 128 := hd2
      have hone : ¬ (0xC0 ≤ s1 ∧ s1 ≤ 0xDF) := by omega
      have hisd2 : isData x = true := by simp [isData, hd2'.2]
      simp only [Option.toList, List.singleton_append, chanRead, hisd, hisd2, Bool.not_true, Bool.false_eq_true, if_false, hone]
      rw [hz] at hrec ⊢
      simp only [List.isEmpty_cons, Bool.false_eq_true, if_false, hrec, Except.map]
  · rw [readEvents_channel f s1 d d1 _ hd (by omega) (by simp only [hnge, if_false]; omega)]
    simp only [hnge, if_false]
    cases d2 with
    | none =>
      have hd2' : 0xC0 ≤ s1 := hd2
      have hone : 0xC0 ≤ s1 ∧ s1 ≤ 0xDF := ⟨hd2', by omega⟩
      simp only [Option.toList, List.nil_append, chanRead, hisd, Bool.not_true, Bool.false_eq_true, if_false, hone, and_self, if_true]
      rw [hz] at hrec ⊢
      simp only [List.isEmpty_cons, Bool.false_eq_true, if_false, hrec, Except.map]
    | some x =>
      have hd2' : s1 < 0xC0 ∧ x < 128 := hd2
      have hone : ¬ (0xC0 ≤ s1 ∧ s1 ≤ 0xDF) := by omega
      have hisd2 : isData x = true := by simp [isData, hd2'.2]
      simp only [Option.toList, List.singleton_append, chanRead, hisd, hisd2, Bool.not_true, Bool.false_eq_true, if_false, hone]
      rw [hz] at hrec ⊢
      simp only [List.isEmpty_cons, Bool.false_eq_true, if_false, hrec, Except.map]

/-- bytes of a channel message in terms of its parts -/
theorem chan_bytes (e : Ev) (s1 d1 : Nat) (d2 : Option Nat) (h : e.chanParts = some (s1, d1, d2)) :
    e.bytes = s1 :: d1 :: d2.toList := by
  cases e <;> simp [Ev.chanParts] at h <;> obtain ⟨rfl, rfl, rfl⟩ := h <;> simp [Ev.bytes, Option.toList]

/-- **the strict reader recovers exactly the events of a written track** -/
theorem readEvents_track : ∀ (evs : List (Nat × Ev)) (f st : Nat), Closed evs → (∀ x ∈ evs, x.1 ≤ 0x0FFFFFFF ∧ EvOK x.2) →
    evs.length ≤ f → readEvents f st (trackData st evs) = .ok (evs.map toS) := by
  intro evs
  induction evs with
  | nil => intro f st hc; exact absurd hc (by simp [Closed])
  | cons x r ih =>
    intro f st hc hok hf
    obtain ⟨d, e⟩ := x
    obtain ⟨f', rfl⟩ : ∃ f', f = f' + 1 := ⟨f - 1, by simp at hf; omega⟩
    obtain ⟨hd, he⟩ := hok (d, e) (by simp)
    simp only at hd he
    cases hm : e.metaParts with
    | some p =>
      obtain ⟨typ, data⟩ := p
      obtain ⟨hb, htyp⟩ := bytes_meta e typ data hm
      have hnot : ¬ (0x80 ≤ (e.bytes).headD 0 ∧ (e.bytes).headD 0 ≤ 0xEF) := by rw [hb]; simp [metaMsg]
      simp only [EvOK, hm] at he
      obtain ⟨hlen, hlok, hks⟩ := he
      rw [trackData_meta st d e r hnot, hb]
      cases r with
      | nil =>
        have : e = .close := by simpa [Closed] using hc
        subst this
        simp only [Ev.metaParts, Option.some.injEq, Prod.mk.injEq] at hm
        obtain ⟨rfl, rfl⟩ := hm
        simp only [trackData, List.append_nil]
        rw [readEvents_close f' st d hd]
        simp [toS, Ev.metaParts]
      | cons y r' =>
        have hcl : e ≠ .close ∧ Closed (y :: r') := by simpa [Closed] using hc
        have hne : typ ≠ 0x2F := by
          intro h; subst h; exact hcl.1 (close_meta e data hm)
        have hrest := trackData_ne_nil 0 (y :: r') (by simp)
        rw [readEvents_meta f' st d typ data _ hd htyp hlen hlok hne hks hrest]
        rw [ih f' 0 hcl.2 (fun z hz => hok z (by simp [hz])) (by simp at hf ⊢; omega)]
        simp [Except.map, toS, hm]
    | none =>
      have hcs : e.chanParts.isSome = true := by
        rcases parts_total e with h | h
        · rw [hm] at h; cases h
        · exact h
      cases hch : e.chanParts with
      | none => rw [hch] at hcs; cases hcs
      | some p =>
        obtain ⟨s1, d1, d2⟩ := p
        obtain ⟨_, hs1, hs2, hd1, hbytes⟩ := bytes_chan e s1 d1 d2 hch
        have hb := chan_bytes e s1 d1 d2 hch
        have hnc : e ≠ .close := by intro h; subst h; simp [Ev.metaParts] at hm
        cases r with
        | nil => exact absurd (by simpa [Closed] using hc) hnc
        | cons y r' =>
          have hcl : Closed (y :: r') := by
            have : e ≠ .close ∧ Closed (y :: r') := by simpa [Closed] using hc
            exact this.2
          have hrest : trackData s1 (y :: r') ≠ [] := trackData_ne_nil s1 (y :: r') (by simp)
          have hrec : readEvents f' s1 (trackData s1 (y :: r')) = .ok ((y :: r').map toS) :=
            ih f' s1 hcl (fun z hz => hok z (by simp [hz])) (by simp at hf ⊢; omega)
          obtain ⟨w1, w2⟩ := read_chan_step f' st d s1 d1 d2 _ _ hd ⟨hs1, hs2⟩ hd1 hbytes hrest hrec
          have hin : 0x80 ≤ (e.bytes).headD 0 ∧ (e.bytes).headD 0 ≤ 0xEF := by rw [hb]; simp; omega
          have hhead : (e.bytes).headD 0 = s1 := by rw [hb]; rfl
          by_cases hsame : s1 = st
          · subst hsame
            rw [trackData_same s1 d e _ hin hhead, hb]
            simp only [List.drop_succ_cons, List.drop_zero, List.cons_append]
            rw [w2]
            simp [toS, hm, hch]
          · rw [trackData_diff st d e _ hin (by rw [hhead]; exact hsame), hb]
            simp only [List.cons_append, List.headD_cons]
            rw [w1]
            simp [toS, hm, hch]

end Crd
