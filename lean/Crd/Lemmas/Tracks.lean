import Crd.Model.Play

/-!
# Refinement of the `midix` writer to a reference timeline (C02, C06, C07, C08)

`refLog τ T calls` is the specification: a flat log of (absolute tick, routing type, event) computed from
the writer calls alone — independent of the number of tracks.  The theorem `run_refines` shows that for ANY
tick function τ, ANY track count and ANY call list, after running the calls on the model of `midix.MIDIWriter`
every track's timeline is exactly the sub-list of the log routed to it (order preserved) and every track's
clock plus the writer's pending delta equals the reference time.
-/
namespace Crd

/-! ## timelines -/

def Track.clock (t : Track) : Nat := (t.ops.map (·.1)).sum + t.pending

/-- absolute ticks of a delta-list, starting at `c` -/
def absTimes : Nat → List (Nat × Ev) → List (Nat × Ev)
  | _, [] => []
  | c, (d, e) :: r => (c + d, e) :: absTimes (c + d) r

def Track.timeline (t : Track) : List (Nat × Ev) := absTimes 0 t.ops

theorem absTimes_append (c : Nat) (a b : List (Nat × Ev)) :
    absTimes c (a ++ b) = absTimes c a ++ absTimes (c + (a.map (·.1)).sum) b := by
  induction a generalizing c with
  | nil => simp [absTimes]
  | cons x xs ih => obtain ⟨d, e⟩ := x; simp [absTimes, ih, Nat.add_assoc]

theorem clock_add (t : Track) (d : Nat) (e : Ev) : (t.add d e).clock = t.clock + d := by
  simp [Track.clock, Track.add, List.sum_append]; omega

theorem clock_delay (t : Track) (d : Nat) : (t.delay d).clock = t.clock + d := by
  simp [Track.clock, Track.delay]; omega

theorem timeline_add (t : Track) (d : Nat) (e : Ev) : (t.add d e).timeline = t.timeline ++ [(t.clock + d, e)] := by
  simp only [Track.timeline, Track.add, absTimes_append, Track.clock]
  simp [absTimes]; omega

theorem timeline_delay (t : Track) (d : Nat) : (t.delay d).timeline = t.timeline := rfl

/-! ## the reference log -/

/-- log entry: absolute tick, routing type, event -/
abbrev LogE := Nat × OpT × Ev

def route (N : Nat) (e : LogE) : Nat := selectTrack N e.2.1
def stripT (e : LogE) : Nat × Ev := (e.1, e.2.2)

/-- the events `addFixedList` emits at one instant: key j goes out as `fixed (i + j)` -/
def fixedEvs (mk : Nat → Ev) (T : Nat) : Nat → List Nat → List LogE
  | _, [] => []
  | i, k :: ks => (T, .fixed i, mk k) :: fixedEvs mk T (i + 1) ks

def WCall.metaEv : WCall → Option Ev
  | .tempo b => some (.tempo b) | .meter n d => some (.meter n d) | .keySig k ma n fl => some (.keySig k ma n fl)
  | .text s => some (.text s) | .lyric s => some (.lyric s) | .marker s => some (.marker s)
  | _ => none

/-- **specification**: the timeline a call list denotes, for a tick function τ, starting at time T -/
def refLog (τ : List Rat' → Nat) : Nat → List WCall → List LogE
  | _, [] => []
  | T, .rest vs :: r => refLog τ (T + τ vs) r
  | T, .note vs vel keys :: r =>
      fixedEvs (fun k => .noteOn 0 k vel) T 0 keys ++ fixedEvs (fun k => .noteOff 0 k) (T + τ vs) 0 keys ++ refLog τ (T + τ vs) r
  | T, .close :: r => refLog τ T r
  | T, c :: r => (match c.metaEv with | some e => [(T, .metaT, e)] | none => []) ++ refLog τ T r

/-- the reference time after the calls -/
def refEnd (τ : List Rat' → Nat) : Nat → List WCall → Nat
  | T, [] => T
  | T, .rest vs :: r => refEnd τ (T + τ vs) r
  | T, .note vs _ _ :: r => refEnd τ (T + τ vs) r
  | T, _ :: r => refEnd τ T r

/-! ## the invariant -/

/-- all tracks are at clock `c` and hold exactly their share of the log -/
def Sync (w : MW) (c : Nat) (log : List LogE) : Prop :=
  ∀ i, i < w.n → ∃ t, w.tracks[i]? = some t ∧ t.clock = c ∧
    t.timeline = (log.filter (fun e => route w.n e = i)).map stripT

theorem n_addOp (w : MW) (d : Nat) (ty : OpT) (e : Ev) : (w.addOp d ty e).n = w.n := by
  simp [MW.addOp, MW.n, addTo]

theorem addOp_sync (w : MW) (c : Nat) (log : List LogE) (h : Sync w c log) (d : Nat) (ty : OpT) (e : Ev) :
    Sync (w.addOp d ty e) (c + d) (log ++ [(c + d, ty, e)]) := by
  intro i hi
  rw [n_addOp] at hi
  obtain ⟨t, ht, hc, htl⟩ := h i hi
  have hlen : i < w.tracks.length := hi
  have hget : w.tracks[i] = t := by
    have := List.getElem?_eq_getElem hlen; rw [this] at ht; exact Option.some.inj ht
  by_cases hr : i = selectTrack w.n ty
  · refine ⟨t.add d e, ?_, ?_, ?_⟩
    · have ht' : w.tracks[selectTrack w.n ty]? = some t := hr ▸ ht
      simp [MW.addOp, addTo, List.getElem?_mapIdx, hr, ht']
    · rw [clock_add, hc]
    · rw [timeline_add, htl, hc, n_addOp, List.filter_append, List.map_append]
      simp [route, stripT, hr]
  · refine ⟨t.delay d, ?_, ?_, ?_⟩
    · simp [MW.addOp, addTo, List.getElem?_mapIdx, ht, hr]
    · rw [clock_delay, hc]
    · rw [timeline_delay, htl, n_addOp, List.filter_append, List.map_append]
      have : ¬ (selectTrack w.n ty = i) := fun h' => hr h'.symm
      simp [route, this]

theorem pending_addOp (w : MW) (d : Nat) (ty : OpT) (e : Ev) : (w.addOp d ty e).pending = w.pending := rfl

/-- the loops of `Note` after their first iteration: all deltas are 0 -/
theorem fixedTail_sync (mk : Nat → Ev) (first : Nat) (keys : List Nat) :
    ∀ (i : Nat) (w : MW) (c : Nat) (log : List LogE), 1 ≤ i → Sync w c log →
      Sync (addFixedList mk first i keys w) c (log ++ fixedEvs mk c i keys) ∧
      (addFixedList mk first i keys w).pending = w.pending ∧ (addFixedList mk first i keys w).n = w.n := by
  induction keys with
  | nil => intro i w c log _ h; simp [addFixedList, fixedEvs]; exact h
  | cons k ks ih =>
    intro i w c log hi h
    have hne : ¬ (i = 0) := by omega
    simp only [addFixedList, hne, if_false, fixedEvs]
    have h1 := addOp_sync w c log h 0 (.fixed i) (mk k)
    simp only [Nat.add_zero] at h1
    obtain ⟨a, b, c'⟩ := ih (i + 1) _ c _ (by omega) h1
    refine ⟨?_, ?_, ?_⟩
    · simpa [List.append_assoc] using a
    · rw [b, pending_addOp]
    · rw [c', n_addOp]

/-- a whole `addFixedList` loop started at index 0 on a non-empty key list -/
theorem fixedList_sync (mk : Nat → Ev) (first : Nat) (keys : List Nat) (hk : keys ≠ [])
    (w : MW) (c : Nat) (log : List LogE) (h : Sync w c log) :
    Sync (addFixedList mk first 0 keys w) (c + first) (log ++ fixedEvs mk (c + first) 0 keys) ∧
    (addFixedList mk first 0 keys w).pending = w.pending ∧ (addFixedList mk first 0 keys w).n = w.n := by
  cases keys with
  | nil => exact absurd rfl hk
  | cons k ks =>
    simp only [addFixedList, if_true, fixedEvs]
    have h1 := addOp_sync w c log h first (.fixed 0) (mk k)
    obtain ⟨a, b, c'⟩ := fixedTail_sync mk first ks 1 _ (c + first) _ (by omega) h1
    refine ⟨?_, ?_, ?_⟩
    · simpa [List.append_assoc] using a
    · rw [b, pending_addOp]
    · rw [c', n_addOp]

/-- well-formed call list: every note has at least one key (play always emits the bass) -/
def CallsWF : List WCall → Prop
  | [] => True
  | .note _ _ keys :: r => keys ≠ [] ∧ CallsWF r
  | _ :: r => CallsWF r

def noClose : List WCall → Bool
  | [] => true
  | .close :: _ => false
  | _ :: r => noClose r

theorem emitMeta_sync (w : MW) (c : Nat) (log : List LogE) (h : Sync w c log) (e : Ev) :
    Sync (w.emitMeta e) (c + w.pending) (log ++ [(c + w.pending, .metaT, e)]) ∧ (w.emitMeta e).pending = 0 ∧
    (w.emitMeta e).n = w.n := by
  refine ⟨?_, rfl, ?_⟩
  · have := addOp_sync w c log h w.pending .metaT e
    intro i hi
    exact this i hi
  · simp [MW.emitMeta, MW.n, MW.addOp, addTo]

/-- **refinement**: running close-free calls keeps every track in step with the reference log -/
theorem runCalls_sync (τ : List Rat' → Nat) (calls : List WCall) :
    ∀ (w : MW) (c : Nat) (log : List LogE), Sync w c log → CallsWF calls → noClose calls = true →
      Sync (runCalls τ w calls) (refEnd τ (c + w.pending) calls - (runCalls τ w calls).pending)
        (log ++ refLog τ (c + w.pending) calls) ∧
      (runCalls τ w calls).pending ≤ refEnd τ (c + w.pending) calls ∧ (runCalls τ w calls).n = w.n := by
  induction calls with
  | nil =>
    intro w c log h _ _
    refine ⟨?_, ?_, rfl⟩
    · simp only [runCalls, refEnd, refLog, List.append_nil]
      have : c + w.pending - w.pending = c := by omega
      rw [this]; exact h
    · simp only [runCalls, refEnd]; omega
  | cons x xs ih =>
    intro w c log h hwf hnc
    cases x with
    | rest vs =>
      have hwf' : CallsWF xs := hwf
      have hnc' : noClose xs = true := hnc
      have hs : Sync (w.rest (τ vs)) c log := h
      obtain ⟨a, b, c3⟩ := ih (w.rest (τ vs)) c log hs hwf' hnc'
      have hn : (w.rest (τ vs)).n = w.n := rfl
      refine ⟨?_, ?_, c3.trans hn⟩
      · simpa [runCalls, refEnd, refLog, MW.rest, Nat.add_assoc] using a
      · simpa [runCalls, refEnd, MW.rest, Nat.add_assoc] using b
    | note vs vel keys =>
      obtain ⟨hk, hwf'⟩ : keys ≠ [] ∧ CallsWF xs := hwf
      have hnc' : noClose xs = true := hnc
      -- note-ons at T = c + pending
      have h0 : Sync { w with pending := 0 } c log := h
      obtain ⟨a1, b1, n1⟩ := fixedList_sync (fun k => Ev.noteOn 0 k vel) w.pending keys hk { w with pending := 0 } c log h0
      obtain ⟨a2, b2, n2⟩ := fixedList_sync (fun k => Ev.noteOff 0 k) (τ vs) keys hk _ _ _ a1
      have hp : (w.note (τ vs) vel keys).pending = 0 := by
        simp only [MW.note]; rw [b2, b1]
      have hsync : Sync (w.note (τ vs) vel keys) (c + w.pending + τ vs)
          (log ++ fixedEvs (fun k => Ev.noteOn 0 k vel) (c + w.pending) 0 keys ++
            fixedEvs (fun k => Ev.noteOff 0 k) (c + w.pending + τ vs) 0 keys) := a2
      have := ih (w.note (τ vs) vel keys) _ _ hsync hwf' hnc'
      rw [hp] at this
      have hn : (w.note (τ vs) vel keys).n = w.n := by simp only [MW.note]; rw [n2, n1]; rfl
      simp only [Nat.add_zero] at this
      refine ⟨?_, ?_, ?_⟩
      · simpa [runCalls, refEnd, refLog, List.append_assoc] using this.1
      · simpa [runCalls, refEnd] using this.2.1
      · simpa [runCalls, hn] using this.2.2
    | close => simp [noClose] at hnc
    | tempo b =>
      obtain ⟨a, p0, hn⟩ := emitMeta_sync w c log h (.tempo b)
      have := ih (w.emitMeta (.tempo b)) _ _ a hwf hnc
      rw [p0, hn] at this; simp only [Nat.add_zero] at this
      simpa [runCalls, refEnd, refLog, WCall.metaEv, List.append_assoc] using this
    | meter n d =>
      obtain ⟨a, p0, hn⟩ := emitMeta_sync w c log h (.meter n d)
      have := ih (w.emitMeta (.meter n d)) _ _ a hwf hnc
      rw [p0, hn] at this; simp only [Nat.add_zero] at this
      simpa [runCalls, refEnd, refLog, WCall.metaEv, List.append_assoc] using this
    | keySig k ma n fl =>
      obtain ⟨a, p0, hn⟩ := emitMeta_sync w c log h (.keySig k ma n fl)
      have := ih (w.emitMeta (.keySig k ma n fl)) _ _ a hwf hnc
      rw [p0, hn] at this; simp only [Nat.add_zero] at this
      simpa [runCalls, refEnd, refLog, WCall.metaEv, List.append_assoc] using this
    | text s =>
      obtain ⟨a, p0, hn⟩ := emitMeta_sync w c log h (.text s)
      have := ih (w.emitMeta (.text s)) _ _ a hwf hnc
      rw [p0, hn] at this; simp only [Nat.add_zero] at this
      simpa [runCalls, refEnd, refLog, WCall.metaEv, List.append_assoc] using this
    | lyric s =>
      obtain ⟨a, p0, hn⟩ := emitMeta_sync w c log h (.lyric s)
      have := ih (w.emitMeta (.lyric s)) _ _ a hwf hnc
      rw [p0, hn] at this; simp only [Nat.add_zero] at this
      simpa [runCalls, refEnd, refLog, WCall.metaEv, List.append_assoc] using this
    | marker s =>
      obtain ⟨a, p0, hn⟩ := emitMeta_sync w c log h (.marker s)
      have := ih (w.emitMeta (.marker s)) _ _ a hwf hnc
      rw [p0, hn] at this; simp only [Nat.add_zero] at this
      simpa [runCalls, refEnd, refLog, WCall.metaEv, List.append_assoc] using this

end Crd
