import Crd.Lemmas.Tracks

/-!
# Initial state, end of track, and the whole run (`NewWriter` … `Close`)
-/
namespace Crd

theorem runCalls_append (τ : List Rat' → Nat) (a b : List WCall) : ∀ w, runCalls τ w (a ++ b) = runCalls τ (runCalls τ w a) b := by
  induction a with
  | nil => intro w; rfl
  | cons x xs ih => intro w; simp only [List.cons_append, runCalls]; exact ih _

theorem sync_empty (N : Nat) : Sync ⟨0, List.replicate N {}⟩ 0 [] := by
  intro i hi
  have hi' : i < N := by simpa [MW.n] using hi
  refine ⟨{}, ?_, rfl, rfl⟩
  simp [List.getElem?_replicate, hi']

/-- the three events `NewWriter` puts on the meta track -/
def initLog (instrument : String) (program : Nat) (seq : String) : List LogE :=
  [(0, .metaT, .seqName seq), (0, .metaT, .instrument instrument), (0, .metaT, .program 0 program)]

theorem new_sync (N : Nat) (instrument : String) (program : Nat) (seq : String) :
    Sync (MW.new N instrument program seq) 0 (initLog instrument program seq) ∧
    (MW.new N instrument program seq).pending = 0 ∧ (MW.new N instrument program seq).n = N := by
  have h0 := sync_empty N
  have h1 := addOp_sync _ _ _ h0 0 .metaT (.seqName seq)
  have h2 := addOp_sync _ _ _ h1 0 .metaT (.instrument instrument)
  have h3 := addOp_sync _ _ _ h2 0 .metaT (.program 0 program)
  refine ⟨?_, rfl, ?_⟩
  · simpa [MW.new, initLog] using h3
  · show (MW.new N instrument program seq).n = N
    unfold MW.new
    rw [n_addOp, n_addOp, n_addOp]; simp [MW.n]

/-- `Close`: every track gets its end of track at clock + pending -/
theorem close_tracks (w : MW) (c : Nat) (log : List LogE) (h : Sync w c log) :
    ∀ i, i < w.n → ∃ t, w.close.tracks[i]? = some t ∧ t.pending = 0 ∧
      t.timeline = (log.filter (fun e => route w.n e = i)).map stripT ++ [(c + w.pending, .close)] := by
  intro i hi
  obtain ⟨t, ht, hc, htl⟩ := h i hi
  refine ⟨t.add w.pending .close, ?_, rfl, ?_⟩
  · simp [MW.close, distribute, List.getElem?_map, ht]
  · rw [timeline_add, htl, hc]

/-- **the whole run**: for any tick function, any track count, any instrument/program and any well-formed
call list `body` followed by `Close`, track `i` holds exactly the sub-list of the reference log routed to it
(order preserved) and ends with its end-of-track at the reference end time -/
theorem tracks_refine (τ : List Rat' → Nat) (N : Nat) (instrument : String) (program : Nat) (seq : String)
    (body : List WCall) (hwf : CallsWF body) (hnc : noClose body = true) :
    let w := runCalls τ (MW.new N instrument program seq) (body ++ [.close])
    w.tracks.length = N ∧
    ∀ i, i < N → ∃ t, w.tracks[i]? = some t ∧ t.pending = 0 ∧
      t.timeline = ((initLog instrument program seq ++ refLog τ 0 body).filter (fun e => route N e = i)).map stripT ++
        [(refEnd τ 0 body, .close)] := by
  intro w
  obtain ⟨hs, hp, hn⟩ := new_sync N instrument program seq
  obtain ⟨a, b, c⟩ := runCalls_sync τ body _ 0 _ hs hwf hnc
  rw [hp] at a b
  simp only [Nat.add_zero] at a b
  have hw : w = (runCalls τ (MW.new N instrument program seq) body).close := by
    show runCalls τ _ (body ++ [.close]) = _
    rw [runCalls_append]; rfl
  have hnn : (runCalls τ (MW.new N instrument program seq) body).n = N := by rw [c, hn]
  refine ⟨?_, ?_⟩
  · rw [hw]; simp only [MW.close, distribute, List.length_map]; exact hnn
  · intro i hi
    have := close_tracks _ _ _ a i (by rw [hnn]; exact hi)
    rw [hnn] at this
    obtain ⟨t, ht, htp, htl⟩ := this
    refine ⟨t, by rw [hw]; exact ht, htp, ?_⟩
    rw [htl]
    have : refEnd τ 0 body - (runCalls τ (MW.new N instrument program seq) body).pending +
        (runCalls τ (MW.new N instrument program seq) body).pending = refEnd τ 0 body := by omega
    rw [this]

/-- `TrackNoSelector.Select` stays inside the track list -/
theorem select_in_range (N : Nat) (h : 1 ≤ N) (t : OpT) : selectTrack N t < N := by
  cases t with
  | metaT => simp only [selectTrack]; omega
  | fixed n =>
    unfold selectTrack
    by_cases h1 : N = 1
    · simp [h1]
    · simp only [h1, if_false]
      have : n % (N - 1) < N - 1 := Nat.mod_lt _ (by omega)
      omega

end Crd
