import Crd.Lemmas.Apply

/-!
# Playing the same instances in another key shifts every pitch by the distance between the tonics (C05)
-/
namespace Crd
open Generated

theorem u8_congr (a b : Int) (h : a % 256 = b % 256) : u8 a = u8 b := by
  unfold u8; rw [emod_eq, emod_eq, h]

/-- the keys of a chord in key `k2` are those in key `k1`, each shifted by `tonic k2 − tonic k1` (in the byte
arithmetic the code uses; inside the MIDI range: plain addition) -/
theorem applyChord_shift (d : Dict) (k1 k2 : Key) (c : ChordIn) (ks1 : List Nat) (t1 t2 : Int)
    (h1 : applyChord d k1 c = .ok ks1) (hk1 : k1.semitone? = some t1) (hk2 : k2.semitone? = some t2) :
    applyChord d k2 c = .ok (ks1.map fun (x : Nat) => u8 ((x : Int) + (t2 - t1))) := by
  unfold applyChord at h1 ⊢
  cases ha : d.chordAttrs ((d.chord c.name).map (·.name) |>.getD c.name) with
  | none => simp [ha] at h1
  | some attrs =>
    cases hcd : c.degree.semitone with
    | none => simp [ha, hcd] at h1
    | some cd =>
      cases hb : (c.base.getD ⟨1, .perfect⟩).semitone with
      | none => simp [ha, hcd, hk1, hb] at h1
      | some b =>
        cases hss : attrs.mapM (fun a => a.degree.semitone) with
        | none => simp [ha, hcd, hk1, hb, hss] at h1
        | some ss =>
          simp only [ha, hcd, hk1, hk2, hb, hss, Applied.ok.injEq] at h1 ⊢
          rw [← h1]
          simp only [List.map_cons, List.map_map, List.cons.injEq]
          refine ⟨?_, ?_⟩
          · apply u8_congr; simp only [u8_cast, emod_eq, middleC_val, oct_val]; omega
          · apply List.map_congr_left
            intro s _
            simp only [Function.comp]
            apply u8_congr; simp only [u8_cast, emod_eq, middleC_val, oct_val]; omega

/-- shift the key of note events -/
def shiftEv (δ : Int) : Ev → Ev
  | .noteOn ch k v => .noteOn ch (u8 ((k : Int) + δ)) v
  | .noteOff ch k => .noteOff ch (u8 ((k : Int) + δ))
  | e => e

def shiftLog (δ : Int) (e : LogE) : LogE := (e.1, e.2.1, shiftEv δ e.2.2)

theorem fixedEvs_shift (δ : Int) (mk : Nat → Ev) (mk' : Nat → Ev) (hmk : ∀ k, shiftEv δ (mk k) = mk' (u8 ((k : Int) + δ)))
    (T : Nat) : ∀ (i0 : Nat) (ks : List Nat),
    (fixedEvs mk T i0 ks).map (shiftLog δ) = fixedEvs mk' T i0 (ks.map fun (x : Nat) => u8 ((x : Int) + δ)) := by
  intro i0 ks
  induction ks generalizing i0 with
  | nil => rfl
  | cons k ks ih => simp [fixedEvs, shiftLog, hmk, ih]

def KeyFree (is : List Instance) : Prop := ∀ i ∈ is, i.key = none

theorem settings_shift (δ : Int) (T : Nat) (i : Instance) (hk : i.key = none) :
    (instSettings false T i).map (shiftLog δ) = instSettings false T i := by
  unfold instSettings
  rw [List.map_filterMap]
  congr 1
  funext c
  cases hc : c.metaEv with
  | none => simp [hc]
  | some e =>
    simp only [hc, Option.map_some, Option.bind_some, shiftLog, Option.some.injEq, Prod.mk.injEq, true_and]
    cases c <;> simp [WCall.metaEv] at hc <;> subst hc <;> rfl

/-- **transposition**: the timeline of key-change-free instances played from key `k2` is the timeline played from
`k1` with every note key shifted by the distance between the tonics — same ticks, same order, same routing, same
velocities, same setting events; nothing else changes -/
theorem pieceLog_transpose (τ : List Rat' → Nat) (d : Dict) (k1 k2 : Key) (t1 t2 : Int)
    (hk1 : k1.semitone? = some t1) (hk2 : k2.semitone? = some t2) :
    ∀ (is : List Instance), KeyFree is → ∀ (T : Nat) (v0 : Dyn),
      (∀ i ∈ is, ∀ c, i.chord = some c → ∃ ks, applyChord d k1 c = .ok ks) →
      pieceLog τ d T false k2 v0 is = (pieceLog τ d T false k1 v0 is).map (shiftLog (t2 - t1)) := by
  intro is
  induction is with
  | nil => intro _ T v0 _; simp [pieceLog]
  | cons i is ih =>
    intro hkf T v0 hok
    have hik : i.key = none := hkf i (by simp)
    rw [pieceLog_cons, pieceLog_cons]
    simp only [hik, Option.getD_none, List.map_append]
    rw [settings_shift _ T i hik,
      ih (fun x hx => hkf x (by simp [hx])) _ _ (fun x hx => hok x (by simp [hx]))]
    congr 2
    -- the sounding part
    unfold instOns instOffs
    cases hc : i.chord with
    | none => simp
    | some c =>
      obtain ⟨ks, hks⟩ := hok i (by simp) c hc
      have h2 := applyChord_shift d k1 k2 c ks t1 t2 hks hk1 hk2
      simp only [hks, h2]
      rw [fixedEvs_shift (t2 - t1) _ (fun x => Ev.noteOn 0 x ((i.velocity.getD v0).velocity % 256)) (fun _ => rfl),
        fixedEvs_shift (t2 - t1) _ (fun x => Ev.noteOff 0 x) (fun _ => rfl)]

end Crd
