import Crd.Model.Smf
import Crd.Spec.SmfStrict

/-!
# gomidi's variable-length quantity, read back by the strict reader: every delta up to 0x0FFFFFFF
-/
namespace Crd
open Crd.Spec

theorem vlqHi_succ (g q : Nat) : vlqHi (g + 1) q = if q = 0 then [] else vlqHi g (q / 128) ++ [q % 128 + 128] := rfl

theorem vlqAux_cont (F acc b : Nat) (bs : List Nat) (h1 : 128 ≤ b) (h2 : b < 256) :
    vlqAux (F + 1) acc (b :: bs) = vlqAux F (acc * 128 + (b - 128)) bs := by
  have : ¬ b < 128 := by omega
  rw [vlqAux]; simp only [this, h2, if_false, if_true]

theorem vlqAux_last (F acc b : Nat) (bs : List Nat) (h : b < 128) :
    vlqAux (F + 1) acc (b :: bs) = some (acc * 128 + b, bs) := by
  rw [vlqAux]; simp only [h, if_true]

/-- reading the continuation bytes `vlqHi g q` accumulates q -/
theorem vlqAux_hi : ∀ (g q acc F : Nat) (tail : List Nat), q < 128 ^ g → (vlqHi g q).length ≤ F →
    vlqAux F acc (vlqHi g q ++ tail) = vlqAux (F - (vlqHi g q).length) (acc * 128 ^ (vlqHi g q).length + q) tail := by
  intro g
  induction g with
  | zero =>
    intro q acc F tail hq _
    have : q = 0 := by simpa using hq
    subst this; simp [vlqHi]
  | succ g ih =>
    intro q acc F tail hq hF
    rw [vlqHi_succ] at hF ⊢
    by_cases h0 : q = 0
    · subst h0; simp
    · simp only [h0, if_false] at hF ⊢
      have hq' : q / 128 < 128 ^ g := by
        rw [Nat.div_lt_iff_lt_mul (by decide)]; rw [Nat.pow_succ] at hq; omega
      simp only [List.length_append, List.length_cons, List.length_nil] at hF
      rw [List.append_assoc, ih (q / 128) acc F _ hq' (by omega)]
      simp only [List.singleton_append, List.length_append, List.length_cons, List.length_nil]
      obtain ⟨F', hF'⟩ : ∃ F', F - (vlqHi g (q / 128)).length = F' + 1 := ⟨F - (vlqHi g (q / 128)).length - 1, by omega⟩
      rw [hF']
      rw [vlqAux_cont _ _ _ _ (by omega) (by omega)]
      have e1 : F' = F - ((vlqHi g (q / 128)).length + 1) := by omega
      have e2 : (acc * 128 ^ (vlqHi g (q / 128)).length + q / 128) * 128 + (q % 128 + 128 - 128) =
          acc * 128 ^ ((vlqHi g (q / 128)).length + 1) + q := by
        rw [Nat.pow_succ, ← Nat.mul_assoc]
        have := Nat.div_add_mod q 128
        generalize acc * 128 ^ (vlqHi g (q / 128)).length = X
        omega
      rw [e1, e2]

theorem vlqHi_length_le : ∀ (g q : Nat), (vlqHi g q).length ≤ g := by
  intro g
  induction g with
  | zero => intro q; simp [vlqHi]
  | succ g ih =>
    intro q; rw [vlqHi_succ]
    split
    · simp
    · simp only [List.length_append, List.length_cons, List.length_nil]; have := ih (q / 128); omega

/-- with more fuel than digits the fuel does not matter -/
theorem vlqHi_fuel : ∀ (g h q : Nat), q < 128 ^ g → g ≤ h → vlqHi h q = vlqHi g q := by
  intro g
  induction g with
  | zero =>
    intro h q hq _
    have : q = 0 := by simpa using hq
    subst this
    cases h <;> simp [vlqHi]
  | succ g ih =>
    intro h q hq hgh
    obtain ⟨h', rfl⟩ : ∃ h', h = h' + 1 := ⟨h - 1, by omega⟩
    rw [vlqHi_succ, vlqHi_succ]
    split
    · rfl
    · have hq' : q / 128 < 128 ^ g := by
        rw [Nat.div_lt_iff_lt_mul (by decide)]; rw [Nat.pow_succ] at hq; omega
      rw [ih h' (q / 128) hq' (by omega)]

/-- the first continuation byte is never the redundant 0x80 -/
theorem vlqHi_head : ∀ (g q : Nat), q < 128 ^ g → q ≠ 0 → ∃ b r, vlqHi g q = b :: r ∧ b ≠ 0x80 := by
  intro g
  induction g with
  | zero => intro q hq h0; exact absurd (by simpa using hq) h0
  | succ g ih =>
    intro q hq h0
    rw [vlqHi_succ]
    simp only [h0, if_false]
    by_cases hh : q / 128 = 0
    · rw [hh]
      have : vlqHi g 0 = [] := by cases g <;> simp [vlqHi]
      rw [this]
      refine ⟨q % 128 + 128, [], rfl, ?_⟩
      have : q < 128 := by omega
      omega
    · have hq' : q / 128 < 128 ^ g := by
        rw [Nat.div_lt_iff_lt_mul (by decide)]; rw [Nat.pow_succ] at hq; omega
      obtain ⟨b, r, hbr, hb⟩ := ih (q / 128) hq' hh
      exact ⟨b, r ++ [q % 128 + 128], by rw [hbr]; rfl, hb⟩

/-- **every delta time up to 0x0FFFFFFF that gomidi writes is read back by the strict reader** (at most four bytes,
canonical, value and rest exact) -/
theorem readVlq_vlq (n : Nat) (hn : n ≤ 0x0FFFFFFF) (rest : List Nat) : readVlq (vlq n ++ rest) = some (n, rest) := by
  unfold vlq
  have hq : n / 128 < 128 ^ 3 := by
    rw [Nat.div_lt_iff_lt_mul (by decide)]; omega
  have hfuel : vlqHi n (n / 128) = vlqHi 3 (n / 128) := by
    by_cases h3 : 3 ≤ n
    · exact vlqHi_fuel 3 n _ hq h3
    · have : n / 128 = 0 := by omega
      rw [this]; cases n <;> simp [vlqHi]
  rw [hfuel]
  have hlen := vlqHi_length_le 3 (n / 128)
  have hlast : n % 128 < 128 := Nat.mod_lt _ (by decide)
  have main : vlqAux 4 0 (vlqHi 3 (n / 128) ++ [n % 128] ++ rest) = some (n, rest) := by
    rw [List.append_assoc, vlqAux_hi 3 (n / 128) 0 4 _ hq (by omega)]
    obtain ⟨F', hF'⟩ : ∃ F', 4 - (vlqHi 3 (n / 128)).length = F' + 1 := ⟨4 - (vlqHi 3 (n / 128)).length - 1, by omega⟩
    rw [hF', List.singleton_append, vlqAux_last _ _ _ _ hlast]
    have := Nat.div_add_mod n 128
    simp only [Nat.zero_mul, Nat.zero_add]
    congr 2; omega
  unfold readVlq
  by_cases h0 : n / 128 = 0
  · rw [h0] at main ⊢
    have : vlqHi 3 0 = [] := by simp [vlqHi]
    rw [this] at main ⊢
    simp only [List.nil_append, List.singleton_append] at main ⊢
    split
    · rename_i heq
      have : n % 128 = 0x80 := by injection heq
      omega
    · exact main
  · obtain ⟨b, r, hbr, hb⟩ := vlqHi_head 3 (n / 128) hq h0
    rw [hbr] at main ⊢
    simp only [List.cons_append] at main ⊢
    split
    · rename_i heq
      have : b = 0x80 := by injection heq
      exact absurd this hb
    · exact main

/-- every byte of a written delta is a byte -/
theorem vlq_bytes (n : Nat) : ∀ b ∈ vlq n, b < 256 := by
  have hi : ∀ g q, ∀ b ∈ vlqHi g q, b < 256 := by
    intro g
    induction g with
    | zero => intro q b hb; simp [vlqHi] at hb
    | succ g ih =>
      intro q b hb
      rw [vlqHi_succ] at hb
      split at hb
      · simp at hb
      · rcases List.mem_append.mp hb with h | h
        · exact ih _ b h
        · simp at h; omega
  intro b hb
  unfold vlq at hb
  rcases List.mem_append.mp hb with h | h
  · exact hi _ _ b h
  · simp at h; omega

end Crd
