import Crd.Model.Parser
import Crd.Model.Play

/-!
# Model of `astconv` (validate.go, conv.go) and `cmd/text.go`: AST → instances
-/
namespace Crd
open Generated

def Tok.str (t : Tok) : String := String.ofList t.v

/-! ## classifier -/

inductive AstType | syllable | degree
deriving DecidableEq, Repr

/-- `ASTTypeClassifier.degreeType` -/
def degreeType (d : DegreeN) : Option AstType :=
  if Letter.ofString d.head.str ≠ .unknown then some .syllable
  else if (parseUint d.head.v).isSome then some .degree
  else none

/-- all `ChordDegree` nodes in document order (root, then bass) -/
def Item.degrees : Item → List DegreeN
  | .chord d _ b _ _ => d :: b.toList
  | .rest _ _ => []

/-- `ASTTypeClassifier.Classify` -/
def classify (t : List Item) : Except Err AstType :=
  let ds := t.flatMap Item.degrees
  let rec go : Option AstType → List DegreeN → Except Err AstType
    | none, [] => .error .invalid
    | some ty, [] => .ok ty
    | cur, d :: r =>
      match degreeType d with
      | none => .error .invalid
      | some ty =>
        match cur with
        | none => go (some ty) r
        | some c => if c = ty then go cur r else .error .invalid
  go none ds

/-! ## metadata -/

/-- `MetaConverterImpl.Convert`: later pairs overwrite earlier ones (Go map) -/
def convMeta (m : Option (List MetaKV)) : Option (List (String × String)) :=
  match m with
  | none => none
  | some [] => none
  | some kvs => some (kvs.map fun kv => (kv.key.str, kv.value.str))

/-- `convertBPM` + assignment -/
def setBPM (m : List (String × String)) (i : Instance) : Except Err Instance :=
  if metaGet m metaBPMKey = "" then .ok i else
  match parseUint (metaGet m metaBPMKey).toList with
  | none => .error .syntax
  | some u => if u = 0 then .error .invalid else .ok { i with bpm := some u }

/-- `convertVelocity` + assignment -/
def setVelocity (m : List (String × String)) (i : Instance) : Except Err Instance :=
  if metaGet m metaVelocityKey = "" then .ok i else
  match Dyn.ofString (metaGet m metaVelocityKey) with
  | .unknown => .error .invalid
  | d => .ok { i with velocity := some d }

/-- `convertMeter` + assignment -/
def setMeter (m : List (String × String)) (i : Instance) : Except Err Instance :=
  if metaGet m metaMeterKey = "" then .ok i else
  match parseRat (metaGet m metaMeterKey).toList with
  | none => .error .syntax
  | some r => if r.valid then .ok { i with meter := some r } else .error .invalid

/-- `convertKey` + assignment -/
def setKey (m : List (String × String)) (i : Instance) : Except Err Instance :=
  if metaGet m metaKeyKey = "" then .ok i else
  match parseKey (metaGet m metaKeyKey).toList with
  | none => .error .invalid
  | some k => .ok { i with key := some k }

/-- `MetaInstanceModifierImpl.Modify`: bpm, velocity, meter, key in this order; the first failure is returned -/
def modifyMeta (i : Instance) (m : Option (List (String × String))) : Except Err Instance :=
  match m with
  | none => .ok i
  | some m => (((setBPM m i).bind (setVelocity m)).bind (setMeter m)).bind (setKey m)

/-! ## values -/

/-- `ValuesConverterImpl.convertValue` -/
def convValue (v : ValueN) : Except Err Rat' :=
  match parseUint v.num.v with
  | none => .error .syntax
  | some n =>
    let den? : Except Err Nat :=
      match v.den with
      | none => .ok 1
      | some d => if d.v.isEmpty then .ok 1 else
        match parseUint d.v with
        | none => .error .syntax
        | some x => .ok x
    match den? with
    | .error e => .error e
    | .ok d => if (Rat'.mk n d).valid then .ok ⟨n, d⟩ else .error .invalid

def convValues (vs : List ValueN) : Except Err (List Rat') := vs.mapM convValue

/-! ## chord converters -/

inductive Mode | syllable | degree
deriving DecidableEq, Repr

/-- `SyllableChordConverter.newScaleNote` -/
def newScaleNote (d : DegreeN) : Except Err SNote :=
  match Letter.ofString d.head.str with
  | .unknown => .error .invalid
  | n => .ok ⟨n, match d.acc with | none => .natural | some a => Acc.ofString a.str⟩

/-- `SyllableChordConverter.getTendency` -/
def getTendency (s : Scale) (n : SNote) : Except Err Acc :=
  match s.notes.find? (·.name = n.name) with
  | none => .error .invalid
  | some sn => match sn.acc.tendency n.acc with
    | .unknown => .error .invalid
    | t => .ok t

def liftGetDeg : GetDeg → Except Err Degree
  | .ok d => .ok d
  | .invalid => .error .invalid
  | .panic => .error (.panic "Name.Semitone")

/-- `SyllableChordConverter.convertChordDegree` -/
def syllableDegrees (s : Scale) (root : DegreeN) (base : Option DegreeN) : Except Err (Degree × Option Degree) := do
  let rn ← newScaleNote root
  let t ← getTendency s rn
  let tonic ← match s.notes.head? with | some x => pure x | none => throw (.panic "Tonic")
  let deg ← liftGetDeg (tonic.getDegree rn (t == .sharp))
  match base with
  | none => pure (deg, none)
  | some b =>
    let bn ← newScaleNote b
    let bt ← getTendency s bn
    let bd ← liftGetDeg (rn.getDegree bn (bt == .sharp))
    pure (deg, some bd)

/-- `DegreeChordConverter.convertDegree` (after the D7 fix the accidental is normalised) -/
def convDegreeText (d : DegreeN) : Except Err Degree :=
  let s := d.head.v ++ (match d.acc with | none => [] | some a => (Acc.ofString a.str).str.toList)
  match parseDegree s with
  | some x => .ok x
  | none => .error .invalid

def convChord (mode : Mode) (s : Scale) (root : DegreeN) (sym : Option Tok) (base : Option DegreeN) : Except Err ChordIn :=
  match mode with
  | .syllable => do
    let (d, b) ← syllableDegrees s root base
    pure ⟨d, (sym.map Tok.str).getD "", b⟩
  | .degree => do
    let d ← convDegreeText root
    let b ← match base with
      | none => pure none
      | some b => do let x ← convDegreeText b; pure (some x)
    pure ⟨d, (sym.map Tok.str).getD "", b⟩

def Item.mta : Item → Option (List MetaKV) | .chord _ _ _ _ m => m | .rest _ m => m
def Item.vals : Item → List ValueN | .chord _ _ _ v _ => v | .rest v _ => v

/-- `ASTConverter.changeScale`: only the syllable converter is `ScaleChangeable` -/
def changeScale (mode : Mode) (s : Scale) (i : Instance) : Except Err Scale :=
  match i.key, mode with
  | some k, .syllable => (match newScale k with | some sc => .ok sc | none => .error .notFound)
  | _, _ => .ok s

/-- `ASTConverter.Convert` for one item; returns the instance and the scale in force afterwards -/
def convItem (mode : Mode) (s : Scale) (it : Item) : Except Err (Instance × Scale) :=
  (modifyMeta { mta := convMeta it.mta } (convMeta it.mta)).bind fun i =>
  (changeScale mode s i).bind fun s' =>
  (convValues it.vals).bind fun vs =>
  match it with
  | .chord d sym b _ _ => (convChord mode s' d sym b).bind fun c => .ok ({ i with values := vs, chord := some c }, s')
  | .rest _ _ => .ok ({ i with values := vs }, s')

def convItems (mode : Mode) : Scale → List Item → Except Err (List Instance)
  | _, [] => .ok []
  | s, it :: r => do
    let (i, s') ← convItem mode s it
    let rest ← convItems mode s' r
    pure (i :: rest)

/-- `getScale`: `--key` (default "C") must parse and have a scale -/
def scaleOfFlag (key : String) : Except Err Scale :=
  let k? := if key = "" then parseKey defaultKeyString.toList else parseKey key.toList
  match k? with
  | none => .error .invalid
  | some k => match newScale k with
    | some s => .ok s
    | none => .error .notFound

/-- `crd text conv syllable|degree` on decoded runes -/
def cmdTextConvChars (mode : Mode) (key : String) (input : List Char) : Except Err (List Instance) := do
  let s ← match mode with
    | .syllable => scaleOfFlag key
    | .degree => pure default
  let t ← parseTextChars input
  let _ ← classify t
  convItems mode s t

/-- `crd text conv syllable|degree` -/
def cmdTextConv (mode : Mode) (key : String) (input : List Nat) : Except Err (List Instance) :=
  cmdTextConvChars mode key (decodeUtf8 input)

end Crd
