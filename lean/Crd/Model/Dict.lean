import Crd.Model.Scale
import Crd.Generated.Dict

/-!
# Model of package `chord` (chord.go, attribute.go, construct.go, map.go) and `cmd/io.go:newChordBuilder`
-/
namespace Crd
open Generated

structure Attr where
  name : String
  degree : Degree
deriving DecidableEq, Repr, Inhabited

structure ChordDef where
  name : String
  display : String
  attributes : List String
  parent : String
deriving DecidableEq, Repr, Inhabited

/-- `Chord.validate` (ParseChords) -/
def ChordDef.valid (c : ChordDef) : Bool :=
  c.name ≠ "" && (c.display ≠ "" || c.name = "MajorTriad") && (!c.attributes.isEmpty || c.parent ≠ "")

/-- `Attribute.validate` (ParseAttributes) -/
def Attr.valid (a : Attr) : Bool := a.name ≠ ""

/-- Go map built by successive assignment: the LAST binding of a key wins -/
def lookupLast {β} (k : String) (l : List (String × β)) : Option β :=
  lookup k l.reverse

/-- `chord.Map` -/
structure Dict where
  attrs : List (String × Attr)        -- in insertion order (later wins)
  chords : List (String × ChordDef)   -- name and display both indexed
deriving Repr

def Dict.attr (d : Dict) (n : String) : Option Attr := lookupLast n d.attrs
def Dict.chord (d : Dict) (n : String) : Option ChordDef := lookupLast n d.chords

/-- `Builder.Build` before validation -/
def buildRaw (attrs : List Attr) (chords : List ChordDef) : Dict :=
  ⟨attrs.map (fun a => (a.name, a)), chords.flatMap (fun c => [(c.name, c), (c.display, c)])⟩

/-- following `extends` from `c` for at most `fuel` steps reaches a chord without parent (or a dangling
name, reported separately) -/
def Dict.chainEnds (d : Dict) : Nat → ChordDef → Bool
  | 0, c => c.parent = ""
  | f+1, c =>
    if c.parent = "" then true
    else match d.chord c.parent with
      | none => true
      | some p => d.chainEnds f p

/-- distinct values of the chords map -/
def Dict.entries (d : Dict) : List ChordDef := (d.chords.map (·.1)).eraseDups.filterMap d.chord

/-- `Map.validate` (attribute references, parent references, and — after the D10 fix — cycles) -/
def Dict.validate (d : Dict) : Bool :=
  d.entries.all fun c =>
    c.attributes.all (fun a => (d.attr a).isSome) &&
    (c.parent = "" || (d.chord c.parent).isSome) &&
    d.chainEnds ((d.chords.map (·.1)).eraseDups.length + 1) c

/-- `Builder.Build` -/
def build (attrs : List Attr) (chords : List ChordDef) : Option Dict :=
  let d := buildRaw attrs chords
  if d.validate then some d else none

/-- `Map.GetChordAttributes`, recursion bounded by fuel (unbounded in Go; see `Props/C16`) -/
def Dict.chordAttrsF (d : Dict) : Nat → String → Option (List Attr)
  | 0, _ => none   -- fuel exhausted = Go stack overflow
  | f+1, n =>
    match d.chord n with
    | none => none
    | some c =>
      let parent : List Attr :=
        if c.parent = "" then [] else (d.chordAttrsF f c.parent).getD []
      some (parent ++ c.attributes.map fun a => (d.attr a).getD ⟨"", ⟨0, .unknown⟩⟩)

def Dict.fuel (d : Dict) : Nat := (d.chords.map (·.1)).eraseDups.length + 2

def Dict.chordAttrs (d : Dict) (n : String) : Option (List Attr) := d.chordAttrsF d.fuel n

/-! ## the built-in dictionary (embedded YAML re-read by the extractor) -/

def builtinAttrs : List Attr :=
  rawAttributes.map fun (n, ds) => ⟨n, (parseDegree ds.toList).getD ⟨0, .unknown⟩⟩

def builtinChords : List ChordDef :=
  rawChords.map fun (n, disp, as, ext) => ⟨n, disp, as, ext⟩

/-- `newChordMap` with user lists appended after the built-ins -/
def newDict (userAttrs : List Attr) (userChords : List ChordDef) : Option Dict :=
  -- `ParseAttributes` / `ParseChords` validate every user entry while loading the files
  if userAttrs.all Attr.valid && userChords.all ChordDef.valid then
    build (builtinAttrs ++ userAttrs) (builtinChords ++ userChords)
  else none

/-- `chord.GenerateAttributes` -/
def generateAttributes (maxDegree : Nat) : List Attr :=
  (generateDegrees maxDegree).filterMap fun d =>
    (lookup d.name genAttrPrefix).map fun p => ⟨p ++ toString d.value, d⟩

end Crd
