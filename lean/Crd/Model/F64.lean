/-!
# Exact model of the IEEE-754 binary64 operations crd performs on durations and tempi

Positive doubles are `m * 2^e` with `m : Nat`, `e : Int`; every operation computes the exact
rational result and rounds it to 53 significant bits, ties to even (`rne`).  Subnormals, overflow to
infinity and NaN cannot occur for the operands crd produces (quotients and sums of `uint64` values);
see DESIGN.md (trusted base).  Core Lean only; executable; bit-compared with Go by the
correspondence check (`tie:ticks`).
-/
namespace Crd

structure F where
  m : Nat
  e : Int
deriving Repr, DecidableEq, Inhabited

/-- nearest integer to num/den, ties to even -/
def roundNE (num den : Nat) : Nat :=
  let m := num / den
  let r := num % den
  if 2 * r > den then m + 1 else if 2 * r < den then m else (if m % 2 = 0 then m else m + 1)

/-- round `p/q * 2^s` (q > 0) to 53 significant bits, ties to even -/
def rne (p q : Nat) (s : Int) : F :=
  if p = 0 then ⟨0, 0⟩ else
  let K := q.log2 + 1
  let n := p * 2 ^ K / q
  let fl : Int := (n.log2 : Int) - K
  let k : Int := 52 - fl
  let num := if 0 ≤ k then p * 2 ^ k.toNat else p
  let den := if 0 ≤ k then q else q * 2 ^ (-k).toNat
  ⟨roundNE num den, s - k⟩

def F.ofNat (n : Nat) : F := rne n 1 0
def F.div (a b : F) : F := rne a.m b.m (a.e - b.e)
def F.mul (a b : F) : F := rne (a.m * b.m) 1 (a.e + b.e)
def F.add (a b : F) : F :=
  if a.m = 0 then b else if b.m = 0 then a else
  let em := min a.e b.e
  rne (a.m * 2 ^ (a.e - em).toNat + b.m * 2 ^ (b.e - em).toNat) 1 em

/-- `math.Round` for x ≥ 0 (half away from zero), as a natural number -/
def F.roundHalfAway (a : F) : Nat :=
  if a.e ≥ 0 then a.m * 2 ^ a.e.toNat
  else let d := 2 ^ (-a.e).toNat; (2 * a.m + d) / (2 * d)

/-- `Rat.Float`: `float64(num) / float64(den)`; `den = 0` gives +Inf or NaN in Go and is rejected by
validation before any tick is computed, so the model returns 0 there (never used). -/
def ratFloat (num den : Nat) : F := if den = 0 then ⟨0, 0⟩ else (F.ofNat num).div (F.ofNat den)

/-- `var value float64; for v in values { value += v.Float() }` -/
def sumFloat (fr : List (Nat × Nat)) : F :=
  fr.foldl (fun acc nd => acc.add (ratFloat nd.1 nd.2)) ⟨0, 0⟩

/-- `uint32(math.Round(float64(tpq) * value))`, without the uint32 wrap (totals are below 2^28 in the
property; the driver reports values ≥ 2^32 as outside the modelled domain) -/
def ticksF (tpq : Nat) (fr : List (Nat × Nat)) : Nat :=
  ((F.ofNat tpq).mul (sumFloat fr)).roundHalfAway

/-- `uint32(math.Round(60000000 / bpm))` for bpm > 0 -/
def tempoMicros (bpm : Nat) : Nat :=
  if bpm = 0 then 0 else ((F.ofNat 60000000).div (F.ofNat bpm)).roundHalfAway

end Crd
