import Crd.Model.Types
import Crd.Generated.Lex

/-!
# Model of the chord-text lexer: `ybase` Reader/DoLex + `input/ast/lexer.go`

Input is a byte string; it is decoded rune by rune as Go's `bufio.Reader.ReadRune` does (an invalid
byte is U+FFFD of width 1).  The lexer is a left-to-right machine with two mode flags.  Rune classes
and EOF guards are *generated* facts (`Crd.Generated.Lex`).
-/
namespace Crd
open Generated

/-! ## UTF-8 decoding as Go's `utf8.DecodeRune` -/

def runeError : Char := Char.ofNat 0xFFFD

def isCont (b : Nat) : Bool := 0x80 ≤ b && b ≤ 0xBF

/-- decode one rune: (rune, bytes consumed) -/
def decodeRune : List Nat → Option (Char × List Nat)
  | [] => none
  | b0 :: r =>
    if b0 < 0x80 then some (Char.ofNat b0, r)
    else if b0 < 0xC2 then some (runeError, r)
    else if b0 < 0xE0 then
      match r with
      | b1 :: r' => if isCont b1 then some (Char.ofNat ((b0 - 0xC0) * 64 + (b1 - 0x80)), r') else some (runeError, r)
      | [] => some (runeError, r)
    else if b0 < 0xF0 then
      match r with
      | b1 :: b2 :: r' =>
        let lo := if b0 = 0xE0 then 0xA0 else 0x80
        let hi := if b0 = 0xED then 0x9F else 0xBF
        if lo ≤ b1 && b1 ≤ hi && isCont b2 then
          some (Char.ofNat ((b0 - 0xE0) * 4096 + (b1 - 0x80) * 64 + (b2 - 0x80)), r')
        else some (runeError, r)
      | _ => some (runeError, r)
    else if b0 < 0xF5 then
      match r with
      | b1 :: b2 :: b3 :: r' =>
        let lo := if b0 = 0xF0 then 0x90 else 0x80
        let hi := if b0 = 0xF4 then 0x8F else 0xBF
        if lo ≤ b1 && b1 ≤ hi && isCont b2 && isCont b3 then
          some (Char.ofNat ((b0 - 0xF0) * 262144 + (b1 - 0x80) * 4096 + (b2 - 0x80) * 64 + (b3 - 0x80)), r')
        else some (runeError, r)
      | _ => some (runeError, r)
    else some (runeError, r)

def decodeAll : Nat → List Nat → List Char
  | 0, _ => []
  | f+1, bs => match decodeRune bs with
    | none => []
    | some (c, r) => c :: decodeAll f r

def decodeUtf8 (bs : List Nat) : List Char := decodeAll (bs.length + 1) bs

/-! ## rune classes -/

/-- `unicode.IsSpace` -/
def isSpace (c : Char) : Bool :=
  let n := c.toNat
  n = 0x20 || (0x09 ≤ n && n ≤ 0x0D) || n = 0x85 || n = 0xA0 || n = 0x1680 ||
  (0x2000 ≤ n && n ≤ 0x200A) || n = 0x2028 || n = 0x2029 || n = 0x202F || n = 0x205F || n = 0x3000

def isDigitC (c : Char) : Bool := 48 ≤ c.toNat && c.toNat ≤ 57     -- '0' <= r && r <= '9'

def isSymbolRune (c : Char) : Bool :=
  !symbolStopRunes.contains c && !(symbolRuneExcludesSpace && isSpace c)

def isMetaRune (c : Char) : Bool := !metadataStopRunes.contains c

def singleTok (c : Char) : Option (TK × Option Bool × Option Bool) :=
  (singleRuneTokens.find? (·.1 = c)).map (·.2)

/-- every loop predicate is false at end of input (generated fact; false on the pinned tree = D2) -/
def eofSafe : Bool :=
  commentGuardsEOF && symbolRuneGuardsEOF && metadataRuneGuardsEOF && scanSymbolChecksEOF && scanMetadataChecksEOF

structure Tok where
  k : TK
  v : List Char
deriving DecidableEq, Repr, Inhabited

inductive LexOut
  | ok (ts : List Tok)                -- silent EOF: the parser sees `$end` after `ts`
  | err (ts : List Tok)               -- scanner published an error after `ts`
  | hang (ts : List Tok)
deriving DecidableEq, Repr

/-- `NextWhile`/`DiscardWhile`: longest prefix satisfying `p` and the rest -/
def spanW (p : Char → Bool) : List Char → List Char × List Char
  | [] => ([], [])
  | c :: cs => if p c then let (a, b) := spanW p cs; (c :: a, b) else ([], c :: cs)

/-- outcome of one call of `ScanFunc` (without its recursive re-entry after a comment) -/
inductive Step
  | eof                                           -- silent EOF: the parser sees `$end`
  | fail                                          -- "expect symbol failure" published, then EOF
  | hang                                          -- a loop predicate that stays true at end of input
  | skip (rest : List Char)                       -- a comment was discarded; scan again
  | emit (t : Tok) (es em : Bool) (rest : List Char)
deriving DecidableEq, Repr

/-- one `NextWhile p` token: the longest run satisfying `p`; at end of input an unguarded predicate
(`safe = false`) loops forever -/
def stepRun (safe : Bool) (p : Char → Bool) (k : TK) (es em : Bool) (inp : List Char) : Step :=
  if (spanW p inp).2.isEmpty && !safe then .hang else .emit ⟨k, (spanW p inp).1⟩ es em (spanW p inp).2

/-- `LexScanner.ScanFunc`: skip white space, then one token according to the mode flags -/
def lexStep (safe es em : Bool) (inp0 : List Char) : Step :=
  match (spanW isSpace inp0).2 with
  | [] => if es then .fail else .eof
  | c :: cs =>
    if em && isMetaRune c then stepRun safe isMetaRune .METADATA es em (c :: cs)
    else if es then
      if isSymbolRune c then stepRun safe isSymbolRune .SYMBOL false em (c :: cs) else .fail
    else if c = commentStart then
      if (spanW (· ≠ commentStop) (c :: cs)).2.isEmpty && !safe then .hang
      else .skip (spanW (· ≠ commentStop) (c :: cs)).2
    else match singleTok c with
      | some (k, setSym, setMeta) => .emit ⟨k, [c]⟩ (setSym.getD es) (setMeta.getD em) cs
      | none =>
        if isDigitC c then stepRun safe isDigitC .NUMBER es em (c :: cs)
        else if isSymbolRune c then stepRun safe isSymbolRune .SYMBOL es em (c :: cs)
        else .eof       -- silent stop on a rune nobody handles (unreachable: `unhandled_is_symbol`)

/-- the whole token stream: iterate `lexStep`; `es`/`em` = expectSymbol/expectMetadata; fuel bounds the
iteration (each step consumes at least one rune or ends) -/
def lexAll (safe : Bool) : Nat → Bool → Bool → List Char → List Tok → LexOut
  | 0, _, _, _, acc => .hang acc
  | f+1, es, em, inp, acc =>
    match lexStep safe es em inp with
    | .eof => .ok acc
    | .fail => .err acc
    | .hang => .hang acc
    | .skip rest => lexAll safe f es em rest acc
    | .emit t es' em' rest => lexAll safe f es' em' rest (acc ++ [t])

def lexChars (s : List Char) : LexOut := lexAll eofSafe (s.length + 1) false false s []

def lexBytes (bs : List Nat) : LexOut := lexChars (decodeUtf8 bs)

end Crd
