import Crd.Model.Types

/-!
# Model of package `midix` (write.go, track.go, op.go): writer pending delta, selector, per-track
pending delay, Distribute/Close.  Tick arithmetic is on `Nat` (Go: `uint32`; the properties bound
totals below 2^28, so no wrap is reachable in the proved domain).
-/
namespace Crd

/-- `midix.OpFunc` implementations -/
inductive Ev
  | seqName (s : String) | instrument (s : String) | program (ch p : Nat)
  | noteOn (ch key vel : Nat) | noteOff (ch key : Nat)
  | tempo (bpm : Nat) | meter (num den : Nat)
  | keySig (key : Nat) (isMajor : Bool) (num : Nat) (isFlat : Bool)
  | text (s : String) | lyric (s : String) | marker (s : String) | close
deriving DecidableEq, Repr, Inhabited

/-- `midix.OpType` -/
inductive OpT | metaT | fixed (n : Nat)
deriving DecidableEq, Repr

structure Track where
  pending : Nat := 0
  ops : List (Nat × Ev) := []       -- (delta, event), oldest first
deriving DecidableEq, Repr, Inhabited

/-- `Track.Add` -/
def Track.add (t : Track) (d : Nat) (e : Ev) : Track := ⟨0, t.ops ++ [(d + t.pending, e)]⟩
/-- `Track.AddTickDelta` -/
def Track.delay (t : Track) (d : Nat) : Track := { t with pending := t.pending + d }

/-- `TrackNoSelectorImpl.Select` for `N` tracks -/
def selectTrack (N : Nat) : OpT → Nat
  | .metaT => 0
  | .fixed n => if N = 1 then 0 else n % (N - 1) + 1

/-- `TrackSet.Add`: deliver to track `n`, delay all the others by the op's own delta -/
def addTo (ts : List Track) (n d : Nat) (e : Ev) : List Track :=
  ts.mapIdx fun i t => if i = n then t.add d e else t.delay d

/-- `TrackSetController.Distribute` (after the D8b fix): every track gets its own copy, nobody is delayed -/
def distribute (ts : List Track) (d : Nat) (e : Ev) : List Track := ts.map (·.add d e)

/-- `midix.MIDIWriter` -/
structure MW where
  pending : Nat           -- tickDelta
  tracks : List Track
deriving DecidableEq, Repr

def MW.n (w : MW) : Nat := w.tracks.length

def MW.addOp (w : MW) (d : Nat) (t : OpT) (e : Ev) : MW :=
  { w with tracks := addTo w.tracks (selectTrack w.n t) d e }

/-- `addMeta(getTickDeltaAndClear(), e)` -/
def MW.emitMeta (w : MW) (e : Ev) : MW := { (w.addOp w.pending .metaT e) with pending := 0 }

/-- `NewWriter` + `init` -/
def MW.new (N : Nat) (instrument : String) (program : Nat) (seqName : String) : MW :=
  let w : MW := ⟨0, List.replicate N {}⟩
  let w := w.addOp 0 .metaT (.seqName seqName)
  let w := w.addOp 0 .metaT (.instrument instrument)
  w.addOp 0 .metaT (.program 0 program)

def addFixedList (mk : Nat → Ev) (first : Nat) : Nat → List Nat → MW → MW
  | _, [], w => w
  | i, k :: ks, w =>
    addFixedList mk first (i + 1) ks (w.addOp (if i = 0 then first else 0) (.fixed i) (mk k))

/-- `MIDIWriter.Note` for a non-empty key list -/
def MW.note (w : MW) (ticks : Nat) (vel : Nat) (keys : List Nat) : MW :=
  let w1 := addFixedList (fun k => .noteOn 0 k vel) w.pending 0 keys { w with pending := 0 }
  addFixedList (fun k => .noteOff 0 k) ticks 0 keys w1

/-- `MIDIWriter.Rest` -/
def MW.rest (w : MW) (ticks : Nat) : MW := { w with pending := w.pending + ticks }

/-- `MIDIWriter.Close` (after the D8a fix: the pending delta is flushed into the end of track) -/
def MW.close (w : MW) : MW := { pending := 0, tracks := distribute w.tracks w.pending .close }

end Crd
