import Crd.Model.Types
import Crd.Generated.Tables

/-!
# Model of package `note` (degree.go, name.go, accidental.go, tone.go, note.go, value.go) and
`util.ParseUint` / `util.Rat`.

Every function is structurally recursive (fuel where Go recurses on a decreasing number) so that the
kernel can evaluate it inside `decide`.  Tables come from `Crd.Generated` (re-extracted from the Go
source on every run).
-/
namespace Crd
open Generated

/-! ## table lookups (Go: map index) -/

def lookup {α β} [DecidableEq α] (k : α) : List (α × β) → Option β
  | [] => none
  | (a, b) :: r => if a = k then some b else lookup k r

/-- Go builds maps from literals: a later duplicate key would be a compile error, so first = last. -/
def Letter.semitone? (n : Letter) : Option Int := lookup n nameSemitoneTable
def NAcc.semitone? (a : NAcc) : Option Int := lookup a naccSemitoneTable
def Letter.str (n : Letter) : String := (lookup n nameStringTable).getD ""

/-- `note.NewName`: inverse of `nameStringMap`, `UnknownName` otherwise -/
def Letter.ofString (s : String) : Letter :=
  match nameStringTable.find? (fun p => p.2 = s) with
  | some p => p.1
  | none => .unknown

/-! ## Degree.Semitone -/

/-- quality-adjustment loop over the entries with the same number (`for k, v := range degreeSemitoneMap`);
`order` is the (map) iteration order -/
def adjustSemitone (order : List (Degree × Int)) (d : Degree) : Option Int :=
  order.findSome? fun (k, v) =>
    if k.value ≠ d.value then none else
    match d.name, k.name with
    | .augmented, .major | .augmented, .perfect => some (v + 1)
    | .diminished, .minor | .diminished, .perfect => some (v - 1)
    | .daug, .major | .daug, .perfect => some (v + 2)
    | .ddim, .minor | .ddim, .perfect => some (v - 2)
    | _, _ => none

def baseSemitone (order : List (Degree × Int)) (d : Degree) : Option Int :=
  match lookup d degreeSemitoneTable with
  | some v => some v
  | none => adjustSemitone order d

/-- the inner call `e.Semitone()` on the reduced interval (it takes the table branch: `e.Value ≤ 8`) -/
def simpleSemitone (order : List (Degree × Int)) (d : Degree) : Option Int :=
  if d.value = 0 then none
  else if d.value ≤ octaveDegree.value then baseSemitone order d
  else none

/-- `Degree.Semitone` (after the D19 fix: compound intervals are reduced by all whole octaves at once).
Go multiplies in `int`; the model is exact (no wrap below 2^59 octaves). -/
def Degree.semitoneWith (order : List (Degree × Int)) (d : Degree) : Option Int :=
  if d.value = 0 then none
  else if d.value ≤ octaveDegree.value then baseSemitone order d
  else
    let span := octaveDegree.value - 1
    let octaves := (d.value - 2) / span
    match simpleSemitone order ⟨d.value - span * octaves, d.name⟩ with
    | some v => some (v + (octaves : Int) * (lookup octaveDegree degreeSemitoneTable).getD 0)
    | none => none

/-- `Degree.Semitone` (iteration order = source order; shown irrelevant in `Props/C12`). -/
def Degree.semitone (d : Degree) : Option Int := d.semitoneWith degreeSemitoneTable

/-- `note.NewDegree` -/
def newDegree (v : Nat) (q : Quality) : Option Degree :=
  if (Degree.semitone ⟨v, q⟩).isSome then some ⟨v, q⟩ else none

/-! ## coerce names, printing -/

def Quality.coerce (q : Quality) : Coerce := (lookup q degreeCoerceTable).getD .unknown

/-- `coerceDegreeNameStringMap` = inverse of `stringCoerceDegreeNameMap` -/
def Coerce.str? (c : Coerce) : Option String :=
  (stringCoerceTable.find? (fun p => p.2 = c)).map (·.1)

/-- what `fmt` prints when `CoerceDegreeName.String` panics inside `Sprintf("%s%d")` -/
def coercePanicText : String := "%!s(PANIC=String method: InvalidDegree)"

/-- `Degree.String` : `fmt.Sprintf("%s%d", d.Name.Coerce(), d.Value)` -/
def Degree.str (d : Degree) : String :=
  (d.name.coerce.str?.getD coercePanicText) ++ toString d.value

/-- `CoerceDegreeName.Degree` -/
def Coerce.degree (c : Coerce) (v : Nat) : Option Degree :=
  match c with
  | .majPerf => (newDegree v .major).orElse fun _ => newDegree v .perfect
  | .minDim => (newDegree v .minor).orElse fun _ => newDegree v .diminished
  | .aug => newDegree v .augmented
  | .dim => newDegree v .diminished
  | .daug => newDegree v .daug
  | .ddim => newDegree v .ddim
  | .unknown => none

/-! ## strconv.ParseUint(s, 10, 64), strings.Contains, strings.Trim -/

def isDigit (c : Char) : Bool := c.isDigit

def digitsVal (s : List Char) : Nat := s.foldl (fun a c => 10 * a + (c.toNat - 48)) 0

def uintMax : Nat := 2 ^ 64

/-- `util.ParseUint`: non-empty, ASCII digits only, value below 2^64 -/
def parseUint (s : List Char) : Option Nat :=
  if s.isEmpty || !s.all isDigit then none
  else let v := digitsVal s; if v < uintMax then some v else none

/-- `strings.Contains` -/
def containsL : List Char → List Char → Bool
  | [], sym => sym.isEmpty
  | c :: cs, sym => sym.isPrefixOf (c :: cs) || containsL cs sym

def trimLeftSet (cut : List Char) (s : List Char) : List Char := s.dropWhile (cut.contains ·)
def trimRightSet (cut : List Char) (s : List Char) : List Char := (s.reverse.dropWhile (cut.contains ·)).reverse
/-- `strings.Trim(s, cutset)` -/
def trimSet (cut : List Char) (s : List Char) : List Char := trimRightSet cut (trimLeftSet cut s)

inductive ParseDeg | ok (c : Coerce) (n : Nat) | fail
deriving DecidableEq, Repr

/-- the loop of `ParseDegree`: continue / break / abort -/
def parseSyms : List (String × Coerce) → List Char → ParseDeg
  | [], _ => .ok .unknown 0        -- loop ends without a match: zero values
  | (sym, q) :: rest, s =>
    if sym.isEmpty then
      match parseUint s with | some n => .ok q n | none => .fail
    else if !containsL s sym.toList then parseSyms rest s
    else
      let v := trimSet sym.toList s
      if v = s then parseSyms rest s
      else match parseUint v with | some n => .ok q n | none => .fail

/-- `note.ParseDegree` -/
def parseDegree (s : List Char) : Option Degree :=
  match parseSyms parseDegreeSymbols s with
  | .ok c n => c.degree n
  | .fail => none

/-- `note.GenerateDegrees` -/
def generateDegrees (maxDegree : Nat) : List Degree :=
  (List.range maxDegree).flatMap fun v =>
    generateDegreeNames.filterMap fun q => newDegree v q

/-! ## tone.go -/

/-- `Semitone.Octave` (floor division by 12) -/
def octaveOf (s : Int) : Int :=
  if s ≥ 0 then s.tdiv octaveSemitones else s.tdiv octaveSemitones - 1

/-- `Semitone.WithoutOctave` -/
def withoutOctave (s : Int) : Int :=
  if s ≥ 0 then s.tmod octaveSemitones else s.tmod octaveSemitones + octaveSemitones

/-! ## note.go -/

structure Note where
  name : Letter
  acc : NAcc
deriving DecidableEq, Repr, Inhabited

/-- `Note.Semitone`; `none` models the `logx.Panic` of an unknown name/accidental -/
def Note.semitone? (n : Note) : Option Int :=
  match n.name.semitone?, n.acc.semitone? with
  | some a, some b => some (a + b)
  | _, _ => none

def findNameBySemitone (want : Int) (a : NAcc) : Option Letter :=
  findNameOrder.find? fun v =>
    match v.semitone?, a.semitone? with
    | some x, some y => x + y == want
    | _, _ => false

inductive AddDeg | ok (n : Note) (oct : Int) | invalid | panic
deriving DecidableEq, Repr

/-- `Note.AddDegree` -/
def Note.addDegree (n : Note) (d : Degree) (precedeSharp : Bool) : AddDeg :=
  match d.semitone with
  | none => .invalid
  | some ds =>
    match n.semitone? with
    | none => .panic
    | some ns =>
      let s := ns + ds
      let so := withoutOctave s
      let oct := octaveOf s
      let order : List NAcc := if precedeSharp then [.natural, .sharp, .flat] else [.natural, .flat, .sharp]
      match order.findSome? (fun b => (findNameBySemitone so b).map (fun x => Note.mk x b)) with
      | some r => .ok r oct
      | none => .invalid

/-- `NAcc.String(simple)` -/
def NAcc.str (a : NAcc) (simple : Bool) : String :=
  match lookup a naccStringTable with
  | some (o, s) => if simple then s else o
  | none => "UnknownAccidental"

/-- `note.NewAccidental`: first map entry whose origin or simple spelling equals `s` -/
def NAcc.ofString (s : String) : NAcc :=
  match naccStringTable.find? (fun p => p.2.1 = s || p.2.2 = s) with
  | some p => p.1
  | none => .unknown

/-- `Note.String` -/
def Note.str (n : Note) : String :=
  if n.acc = .natural then n.name.str else n.name.str ++ n.acc.str true

/-- `note.ParseNote`: first match of `([A-G])([#b♯♭]?)` anywhere in the string (the Unicode signs since the D25 fix) -/
def parseNote (s : List Char) : Option Note :=
  match s.dropWhile (fun c => !("ABCDEFG".toList.contains c)) with
  | [] => none
  | c :: rest =>
    let name := Letter.ofString (String.singleton c)
    match rest with
    | '#' :: _ => some ⟨name, NAcc.ofString "#"⟩
    | 'b' :: _ => some ⟨name, NAcc.ofString "b"⟩
    | '♯' :: _ => some ⟨name, NAcc.ofString "♯"⟩
    | '♭' :: _ => some ⟨name, NAcc.ofString "♭"⟩
    | _ => some ⟨name, .natural⟩

/-! ## name.go: `Name.GetDegree` (letter distance through the ring) -/

def ringIndexOf (ring : List Letter) (x : Letter) (start fuel : Nat) : Option Nat :=
  match fuel with
  | 0 => none
  | f+1 => if ring[start % ring.length]? = some x then some start else ringIndexOf ring x (start + 1) f

/-- `Name.GetDegree`; Go's two loops never terminate for a letter missing from the ring: `none` there
is reported as hang by callers (unreachable: the ring holds all seven letters, `Props/C09`). -/
def Letter.getDegree (x y : Letter) : Option Nat :=
  if x = .unknown || y = .unknown then none
  else if x = y then some 1
  else
    match ringIndexOf nameRing x 0 (nameRing.length) with
    | none => none
    | some xi =>
      match ringIndexOf nameRing y xi (nameRing.length + 1) with
      | none => none
      | some yi => some (yi - xi + 1)

/-! ## util.Rat / note.Value -/

structure Rat' where
  num : Nat
  den : Nat
deriving DecidableEq, Repr, Inhabited

/-- `Rat.String` -/
def Rat'.str (r : Rat') : String :=
  if r.den = 1 then toString r.num else toString r.num ++ "/" ++ toString r.den

/-- `strings.SplitN(s, "/", 2)`: text before the first `/`, and the text after it if there is one -/
def splitSlash : List Char → List Char × Option (List Char)
  | [] => ([], none)
  | c :: r => if c = '/' then ([], some r) else let p := splitSlash r; (c :: p.1, p.2)

/-- `util.ParseRat`: `SplitN(s, "/", 2)` then `ParseUint` of each part -/
def parseRat (s : List Char) : Option Rat' :=
  match splitSlash s with
  | (a, none) => (parseUint a).map (⟨·, 1⟩)
  | (a, some b) =>
    match parseUint a, parseUint b with
    | some n, some d => some ⟨n, d⟩
    | _, _ => none

/-- `Value.validate` / `Meter.validate` -/
def Rat'.valid (r : Rat') : Bool := 1 ≤ r.den && 1 ≤ r.num

end Crd
