import Crd.Model.Lexer

/-!
# Hand-written deterministic parser for the grammar of `input/ast/chords.y`, building the AST of its
semantic actions.  Proved equivalent to the (generated) grammar in `Crd/Lemmas/Grammar*.lean`; the goyacc
automaton itself is tied by regeneration + differential comparison.
-/
namespace Crd

structure DegreeN where
  head : Tok
  acc : Option Tok
deriving DecidableEq, Repr, Inhabited

structure ValueN where
  num : Tok
  den : Option Tok
deriving DecidableEq, Repr, Inhabited

structure MetaKV where
  key : Tok
  value : Tok
deriving DecidableEq, Repr, Inhabited

inductive Item
  | chord (deg : DegreeN) (sym : Option Tok) (base : Option DegreeN) (vals : List ValueN) (mta : Option (List MetaKV))
  | rest (vals : List ValueN) (mta : Option (List MetaKV))
deriving DecidableEq, Repr, Inhabited

/-- degree: degree_head [accidental] -/
def pDegree : List Tok → Option (DegreeN × List Tok)
  | h :: r =>
    if h.k = .SYLLABLE ∨ h.k = .NUMBER then
      match r with
      | a :: r' => if a.k = .SHARP ∨ a.k = .FLAT then some (⟨h, some a⟩, r') else some (⟨h, none⟩, r)
      | [] => some (⟨h, none⟩, [])
    else none
  | [] => none

/-- value: NUMBER [SLASH NUMBER] -/
def pValue : List Tok → Option (ValueN × List Tok)
  | n :: r =>
    if n.k = .NUMBER then
      match r with
      | s :: d :: r' => if s.k = .SLASH then (if d.k = .NUMBER then some (⟨n, some d⟩, r') else none) else some (⟨n, none⟩, r)
      | [s] => if s.k = .SLASH then none else some (⟨n, none⟩, r)
      | [] => some (⟨n, none⟩, [])
    else none
  | [] => none

/-- (COMMA value)* -/
def pValuesTail : Nat → List Tok → List ValueN → Option (List ValueN × List Tok)
  | 0, _, _ => none
  | f+1, ts, acc =>
    match ts with
    | c :: r => if c.k = .COMMA then
        match pValue r with
        | some (v, r') => pValuesTail f r' (acc ++ [v])
        | none => none
      else some (acc, ts)
    | [] => some (acc, [])

def pValues (ts : List Tok) : Option (List ValueN × List Tok) :=
  match pValue ts with
  | some (v, r) => pValuesTail (ts.length + 1) r [v]
  | none => none

/-- metadata: METADATA EQUAL METADATA -/
def pMetadata : List Tok → Option (MetaKV × List Tok)
  | k :: e :: v :: r => if k.k = .METADATA ∧ e.k = .EQUAL ∧ v.k = .METADATA then some (⟨k, v⟩, r) else none
  | _ => none

def pMetaTail : Nat → List Tok → List MetaKV → Option (List MetaKV × List Tok)
  | 0, _, _ => none
  | f+1, ts, acc =>
    match ts with
    | c :: r => if c.k = .COMMA then
        match pMetadata r with
        | some (m, r') => pMetaTail f r' (acc ++ [m])
        | none => none
      else some (acc, ts)
    | [] => some (acc, [])

/-- mta: ε | LCBRA meta_internal RCBRA -/
def pMeta (ts : List Tok) : Option (Option (List MetaKV) × List Tok) :=
  match ts with
  | l :: r =>
    if l.k = .LCBRA then
      match pMetadata r with
      | some (m, r1) =>
        match pMetaTail (ts.length + 1) r1 [m] with
        | some (ms, c :: r2) => if c.k = .RCBRA then some (some ms, r2) else none
        | _ => none
      | none => none
    else some (none, ts)
  | [] => some (none, [])

/-- LBRA values RBRA mta -/
def pBody (ts : List Tok) : Option (List ValueN × Option (List MetaKV) × List Tok) :=
  match ts with
  | l :: r =>
    if l.k = .LBRA then
      match pValues r with
      | some (vs, c :: r1) =>
        if c.k = .RBRA then
          match pMeta r1 with
          | some (m, r2) => some (vs, m, r2)
          | none => none
        else none
      | _ => none
    else none
  | [] => none

/-- symbol: ε | SYMBOL | UNDERSCORE SYMBOL -/
def pSymbol : List Tok → Option (Option Tok × List Tok)
  | s :: r =>
    if s.k = .SYMBOL then some (some s, r)
    else if s.k = .UNDERSCORE then
      match r with
      | s' :: r' => if s'.k = .SYMBOL then some (some s', r') else none
      | [] => none
    else some (none, s :: r)
  | [] => some (none, [])

/-- base: ε | SLASH degree -/
def pBase : List Tok → Option (Option DegreeN × List Tok)
  | s :: r =>
    if s.k = .SLASH then
      match pDegree r with
      | some (d, r') => some (some d, r')
      | none => none
    else some (none, s :: r)
  | [] => some (none, [])

/-- chord_or_rest -/
def pItem (ts : List Tok) : Option (Item × List Tok) :=
  match ts with
  | h :: r =>
    if h.k = .REST then
      match pBody r with
      | some (vs, m, r') => some (.rest vs m, r')
      | none => none
    else
      match pDegree ts with
      | some (d, r1) =>
        match pSymbol r1 with
        | some (s, r2) =>
          match pBase r2 with
          | some (b, r3) =>
            match pBody r3 with
            | some (vs, m, r4) => some (.chord d s b vs m, r4)
            | none => none
          | none => none
        | none => none
      | none => none
  | [] => none

def pItems : Nat → List Tok → List Item → Option (List Item)
  | 0, _, _ => none
  | f+1, ts, acc =>
    match ts with
    | [] => if acc.isEmpty then none else some acc
    | _ => match pItem ts with
      | some (i, r) => pItems f r (acc ++ [i])
      | none => none

/-- `result: chord_list` over the complete token list -/
def parseToks (ts : List Tok) : Option (List Item) := pItems (ts.length + 1) ts []

/-- `cmd/io.go:parseText` on decoded runes: the tree, or an error when the scanner or the parser reported one -/
def parseTextChars (cs : List Char) : Except Err (List Item) :=
  match lexChars cs with
  | .hang _ => .error (.hang "lexer")
  | .err _ => .error .syntax
  | .ok ts => match parseToks ts with
    | some t => .ok t
    | none => .error .syntax

/-- `cmd/io.go:parseText` on the bytes read from stdin or the file -/
def parseText (bs : List Nat) : Except Err (List Item) := parseTextChars (decodeUtf8 bs)

end Crd
