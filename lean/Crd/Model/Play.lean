import Crd.Model.Dict
import Crd.Model.Midix
import Crd.Model.F64
import Crd.Generated.Defaults

/-!
# Model of package `play` (key.go, args.go, write.go, spn.go), `cmd/write.go` and `cmd/override.go`
(after cobra has typed the flags).
-/
namespace Crd
open Generated

/-- `input.Chord` -/
structure ChordIn where
  degree : Degree
  name : String
  base : Option Degree
deriving DecidableEq, Repr, Inhabited

/-- `input.Instance` (= `op.Instance` with the chord still a symbol) -/
structure Instance where
  chord : Option ChordIn := none
  values : List Rat' := []
  bpm : Option Nat := none
  velocity : Option Dyn := none
  meter : Option Rat' := none
  key : Option Key := none
  mta : Option (List (String × String)) := none    -- Go map: unique keys
deriving DecidableEq, Repr, Inhabited

/-- `op.Meta.Get` -/
def metaGet (m : List (String × String)) (k : String) : String := (lookupLast k m).getD ""

/-! ## play.Key.Apply -/

def u8 (i : Int) : Nat := (i.emod 256).toNat

/-- `MiddleC.MIDINoteNumber()` -/
def middleC : Int := (middleCOctave + 1) * octaveSemitones + (middleCName.semitone?.getD 0)

inductive Applied | ok (keys : List Nat) | err (e : Err)
deriving DecidableEq, Repr

/-- `play.Key.Apply`: all arithmetic in `uint8` (`MIDINoteNumber`), bass first -/
def applyChord (d : Dict) (k : Key) (c : ChordIn) : Applied :=
  match d.chordAttrs ((d.chord c.name).map (·.name) |>.getD c.name) with
  | none => .err .notFound
  | some attrs =>
    match c.degree.semitone with
    | none => .err .conversion
    | some cd =>
      match k.semitone? with
      | none => .err (.panic "Name.Semitone")
      | some ks =>
        let keyNumber := u8 (u8 middleC + u8 ks)
        let root := u8 (keyNumber + u8 cd)
        match (c.base.getD ⟨1, .perfect⟩).semitone with
        | none => .err .conversion
        | some b =>
          let bass := u8 (root + u8 b - u8 octaveSemitones)
          match attrs.mapM (fun a => a.degree.semitone) with
          | none => .err .conversion
          | some ss => .ok (bass :: ss.map fun s => u8 (root + u8 s))

/-! ## midix.Writer calls made by play.MIDIWriter.Write -/

inductive WCall
  | tempo (bpm : Nat) | meter (num den : Nat)
  | keySig (key : Nat) (isMajor : Bool) (num : Nat) (isFlat : Bool)
  | text (s : String) | lyric (s : String) | marker (s : String)
  | rest (values : List Rat') | note (values : List Rat') (vel : Nat) (keys : List Nat)
  | close
deriving DecidableEq, Repr

/-- `midiArgs`: five `util.Opt` cells -/
structure Args where
  bpm : Nat × Bool
  meter : Rat' × Bool
  velocity : Dyn
  key : Key × Bool
  mta : List (String × String) × Bool
deriving DecidableEq, Repr

def defaultKey : Key := (parseKey defaultKeyString.toList).getD ⟨.unknown, false, .natural⟩

def Args.init : Args :=
  ⟨(defaultBPM, true), (⟨defaultMeter.1, defaultMeter.2⟩, true), defaultVelocity, (defaultKey, true), ([], true)⟩

/-- `midiArgs.update` -/
def Args.update (a : Args) (i : Instance) : Args :=
  { bpm := match i.bpm with | some x => (x, true) | none => a.bpm
    meter := match i.meter with | some x => (x, true) | none => a.meter
    velocity := i.velocity.getD a.velocity
    key := match i.key with | some x => (x, true) | none => a.key
    mta := match i.mta with | some x => (x, true) | none => a.mta }

/-- the key-signature call; `none` = `MustNewScale` panic -/
def keySigCall (k : Key) : Option WCall :=
  (newScale k).map fun s =>
    .keySig (u8 ((s.notes.head?.bind SNote.semitone?).getD 0)) (!s.key.minor) ((s.flat + s.sharp) % 256) (s.flat > 0)

/-- the text/lyric/marker calls of `writeWhenUpdated` for a metadata map (empty value = absent) -/
def textCalls (m : List (String × String)) : List WCall :=
  (if metaGet m metaTextKey ≠ "" then [WCall.text (metaGet m metaTextKey)] else []) ++
  (if metaGet m metaLyricKey ≠ "" then [WCall.lyric (metaGet m metaLyricKey)] else []) ++
  (if metaGet m metaMarkerKey ≠ "" then [WCall.marker (metaGet m metaMarkerKey)] else [])

/-- `w.Meter(uint8(v.Num), uint8(v.Denom))` -/
def meterCall (r : Rat') : WCall := .meter (r.num % 256) (r.den % 256)

/-- `midiArgs.writeWhenUpdated`: the calls it makes and the cleared flags -/
def Args.flush (a : Args) : Option (List WCall) × Args :=
  let c1 := if a.bpm.2 then [WCall.tempo a.bpm.1] else []
  let c2 := if a.meter.2 then [meterCall a.meter.1] else []
  let c3? : Option (List WCall) := if a.key.2 then (keySigCall a.key.1).map ([·]) else some []
  let c4 := if a.mta.2 then textCalls a.mta.1 else []
  (c3?.map fun c3 => c1 ++ c2 ++ c3 ++ c4,
   { a with bpm := (a.bpm.1, false), meter := (a.meter.1, false), key := (a.key.1, false), mta := (a.mta.1, false) })

/-- the guard added by the D3 fix: the instance names a key for which there is no scale -/
def keyHasNoScale (i : Instance) : Bool := match i.key with | some k => (newScale k).isNone | none => false

/-- the loop of `MIDIWriter.Write` -/
def writeLoop (d : Dict) : Args → List Instance → Except Err (List WCall)
  | _, [] => .ok [.close]
  | a, i :: is =>
    if i.values.isEmpty then .error .invalid
    else if keyHasNoScale i then .error .notFound
    else
      let a1 := a.update i
      match a1.flush with
      | (none, _) => .error (.panic "MustNewScale")
      | (some calls, a2) =>
        match i.chord with
        | none => (writeLoop d a2 is).map fun r => calls ++ [.rest i.values] ++ r
        | some c =>
          match applyChord d a2.key.1 c with
          | .err e => .error e
          | .ok keys =>
            (writeLoop d a2 is).map fun r => calls ++ [.note i.values (a2.velocity.velocity % 256) keys] ++ r

/-- `play.MIDIWriter.Write` -/
def playWrite (d : Dict) (is : List Instance) : Except Err (List WCall) :=
  if is.isEmpty then .error .invalid else writeLoop d Args.init is

/-! ## `cmd/write.go`: flags, override of instance 0, chord lookup -/

structure WriteFlags where
  bpm : Nat := 0
  velocity : String := ""
  meter : String := ""
  key : String := ""
  track : Int := 1
  instrument : String := defaultInstrument
  program : Nat := 0
  userAttrs : List Attr := []
  userChords : List ChordDef := []
deriving Repr

/-- `overrideInstanceFromFlags` -/
def overrideFromFlags (f : WriteFlags) (i : Instance) : Except Err Instance := do
  let i := if f.bpm = 0 then i else { i with bpm := some f.bpm }
  let i ← if f.velocity = "" then pure i else
    match Dyn.ofString f.velocity with
    | .unknown => throw .invalid
    | d => pure { i with velocity := some d }
  let i ← if f.meter = "" then pure i else
    match parseRat f.meter.toList with
    | none => throw .syntax
    | some r => if r.valid then pure { i with meter := some r } else throw .invalid
  let i ← if f.key = "" then pure i else
    match parseKey f.key.toList with
    | none => throw .invalid
    | some k => pure { i with key := some k }
  pure i

def maxTracks : Nat := 65535

/-- `newWriteCmdArgsFromInputInstances`: returns the dictionary, track count and resolved instances -/
def prepareWrite (f : WriteFlags) (is : List Instance) : Except Err (Dict × Nat × List Instance) := do
  if f.track < 1 then throw .invalid
  if f.track > maxTracks then throw .invalid
  let d ← match newDict f.userAttrs f.userChords with
    | none => throw .invalid
    | some d => pure d
  let is ← match is with
    | [] => pure []
    | i :: rest => do let i' ← overrideFromFlags f i; pure (i' :: rest)
  if is.any (fun i => match i.chord with | some c => (d.chord c.name).isNone | none => false) then throw .notFound
  pure (d, f.track.toNat, is)

/-- fold the writer calls into the `midix` writer; `τ` is the tick function of a value list -/
def runCalls (τ : List Rat' → Nat) : MW → List WCall → MW
  | w, [] => w
  | w, c :: cs =>
    let w' := match c with
      | .tempo b => w.emitMeta (.tempo b)
      | .meter n d => w.emitMeta (.meter n d)
      | .keySig k ma n fl => w.emitMeta (.keySig k ma n fl)
      | .text s => w.emitMeta (.text s)
      | .lyric s => w.emitMeta (.lyric s)
      | .marker s => w.emitMeta (.marker s)
      | .rest vs => w.rest (τ vs)
      | .note vs vel keys => w.note (τ vs) vel keys
      | .close => w.close
    runCalls τ w' cs

/-- Go's tick function -/
def goTicks (vs : List Rat') : Nat := ticksF ticksPerQuarter (vs.map fun r => (r.num, r.den))

/-- `midix.MaxTicks`: the largest delta time a midi file can hold -/
def maxTicks : Nat := 0x0FFFFFFF

/-- length of the piece in ticks (the writer's `totalTicks`) -/
def pieceTicks (τ : List Rat' → Nat) (is : List Instance) : Nat := (is.map fun i => τ i.values).sum

/-- `crd write` up to the abstract tracks; after the D22 fix `WriteTo` refuses a piece longer than `maxTicks` -/
def cmdWriteTracks (f : WriteFlags) (is : List Instance) : Except Err (List Track) := do
  let (d, n, is') ← prepareWrite f is
  let calls ← playWrite d is'
  if pieceTicks goTicks is' > maxTicks then throw .invalid
  pure (runCalls goTicks (MW.new n f.instrument f.program defaultSequenceName) calls).tracks

end Crd
