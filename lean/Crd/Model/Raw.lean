import Crd.Model.Conv
import Crd.Model.Smf

/-!
# Model of the YAML (un)marshalling layer of the instances format, at the level of scalar strings

`yaml.v3` itself is assumed (string scalars and structure round-trip); what crd adds — the custom
`UnmarshalYAML`/`MarshalYAML` methods of Degree, Value, BPM, DynamicSign, Meter, Key — is modelled here.
A `RawInstance` is an instance whose scalars are still the strings found in the YAML document.
-/
namespace Crd

structure RawChord where
  degree : Option String
  name : String
  base : Option String
deriving DecidableEq, Repr, Inhabited

structure RawInstance where
  chord : Option RawChord := none
  values : List String := []
  bpm : Option String := none
  velocity : Option String := none
  meter : Option String := none
  key : Option String := none
  mta : Option (List (String × String)) := none
deriving DecidableEq, Repr, Inhabited

def optM {α β} (o : Option α) (f : α → Except Err β) : Except Err (Option β) :=
  match o with
  | none => .ok none
  | some a => (f a).map some

def decodeDegree (s : String) : Except Err Degree :=
  match parseDegree s.toList with | some d => .ok d | none => .error .invalid

/-- `Value.UnmarshalYAML` / `Meter.UnmarshalYAML` -/
def decodeRat (s : String) : Except Err Rat' :=
  match parseRat s.toList with
  | none => .error .syntax
  | some r => if r.valid then .ok r else .error .invalid

/-- `BPM.UnmarshalYAML` (after the D5 fix it validates) -/
def decodeBPM (s : String) : Except Err Nat :=
  match parseUint s.toList with
  | none => .error .syntax
  | some 0 => .error .invalid
  | some n => .ok n

def decodeDyn (s : String) : Except Err Dyn :=
  match Dyn.ofString s with | .unknown => .error .invalid | d => .ok d

def decodeKey (s : String) : Except Err Key :=
  match parseKey s.toList with | some k => .ok k | none => .error .invalid

/-- yaml.Unmarshal into `input.Chord`: an absent `degree:` leaves the zero Degree -/
def decodeChord (c : RawChord) : Except Err ChordIn :=
  (match c.degree with | none => (Except.ok ⟨0, .unknown⟩ : Except Err Degree) | some s => decodeDegree s).bind fun d =>
  (optM c.base decodeDegree).bind fun b => .ok ⟨d, c.name, b⟩

/-- yaml.Unmarshal into `input.Instance` -/
def decodeInstance (r : RawInstance) : Except Err Instance :=
  (optM r.chord decodeChord).bind fun chord =>
  (r.values.mapM decodeRat).bind fun values =>
  (optM r.bpm decodeBPM).bind fun bpm =>
  (optM r.velocity decodeDyn).bind fun vel =>
  (optM r.meter decodeRat).bind fun meter =>
  (optM r.key decodeKey).bind fun key =>
  .ok { chord, values, bpm, velocity := vel, meter, key, mta := r.mta }

/-- yaml.Marshal of `input.Instance`: every scalar through its `MarshalYAML`/`String` -/
def encodeInstance (i : Instance) : RawInstance :=
  { chord := i.chord.map fun c => ⟨some c.degree.str, c.name, c.base.map Degree.str⟩
    values := i.values.map Rat'.str
    bpm := i.bpm.map toString
    velocity := i.velocity.map Dyn.str
    meter := i.meter.map Rat'.str
    key := i.key.map Key.str
    mta := i.mta }

/-- an entry of a user attribute file: `degree:` is still a string (absent = zero Degree) -/
structure RawAttr where
  name : String
  degree : Option String
deriving DecidableEq, Repr, Inhabited

/-- yaml.Unmarshal of an attribute file (`Degree.UnmarshalYAML` = ParseDegree; an error fails the load) -/
def loadAttrs (rs : List RawAttr) : Except Err (List Attr) :=
  rs.mapM fun r => match r.degree with
    | none => pure ⟨r.name, ⟨0, .unknown⟩⟩
    | some s => do let d ← decodeDegree s; pure ⟨r.name, d⟩

/-- `crd write` from raw instances to bytes.  Order of failures as in cmd/write.go: the instances document
is parsed first, then the track count is checked, then the dictionaries are loaded. -/
def cmdWrite (f : WriteFlags) (rawAttrs : List RawAttr) (rs : List RawInstance) : Except Err Bytes := do
  let is ← rs.mapM decodeInstance
  let attrs ← loadAttrs rawAttrs
  let f := { f with userAttrs := attrs }
  let ts ← cmdWriteTracks f is
  match smfEncode Generated.ticksPerQuarter ts with
  | some b => pure b
  | none => throw .unexpected

/-- `crd text conv` up to the raw (printed) instances -/
def cmdTextConvRaw (mode : Mode) (key : String) (input : List Nat) : Except Err (List RawInstance) :=
  (cmdTextConv mode key input).map (·.map encodeInstance)

end Crd

namespace Crd
open Generated

/-- `ChordMetaTextMotifier.generateText` with separators "." and " on ":
`fmt.Sprintf("%d%s%s%s", Degree.Value, Degree.Name.Coerce(), ".", Chord)` (+ `" on " + base.String()`) -/
def cmtText (c : ChordIn) : String :=
  toString c.degree.value ++ (c.degree.name.coerce.str?.getD coercePanicText) ++ "." ++ c.name ++
    (match c.base with | none => "" | some b => " on " ++ b.str)

/-- `ChordMetaTextMotifier.Modify`: chords get `meta.txt`; rests are left alone -/
def modifyCmt (i : Instance) : Instance :=
  match i.chord with
  | none => i
  | some c => { i with mta := some ((i.mta.getD []) ++ [(metaTextKey, cmtText c)]) }

/-- `crd write conv -c …` (after the D4 and D11 fixes): decode, apply the modifiers, validate exactly as `write`
does (track count, dictionaries, flag overrides, chord symbols), keep the flag overrides of the first instance,
print the instances in the format `write` reads -/
def cmdWriteConv (f : WriteFlags) (rawAttrs : List RawAttr) (commands : List String) (rs : List RawInstance) :
    Except Err (List RawInstance) :=
  if commands.isEmpty then .error .invalid else
  (rs.mapM decodeInstance).bind fun is =>
  if commands.any (· ≠ "cmt") then .error .notFound else
  let is1 := is.map modifyCmt        -- every "cmt" has the same effect; applying it again changes nothing
  (loadAttrs rawAttrs).bind fun attrs =>
  (prepareWrite { f with userAttrs := attrs } is1).bind fun (_, _, is2) =>
  .ok (is2.map encodeInstance)

end Crd
