import Crd.Model.Note
import Crd.Generated.Keys

/-!
# Model of `op/key.go`, `op/scale.go`, `op/circle.go`, `op/diatonic.go`, `op/velocity.go`, `util/ring.go`
-/
namespace Crd
open Generated

/-! ## op.Accidental -/

/-- `op.NewAccidental` (extra Unicode spellings first, then the inverse string map, default Natural) -/
def Acc.ofString (s : String) : Acc :=
  match lookup s accExtraSpellings with
  | some a => a
  | none =>
    match accStringTable.find? (fun p => p.2 = s) with
    | some p => p.1
    | none => .natural

def Acc.str (a : Acc) : String := (lookup a accStringTable).getD ""

def Acc.semitone : Acc → Int
  | .sharp => 1 | .flat => -1 | _ => 0

def Acc.asNote : Acc → NAcc
  | .sharp => .sharp | .flat => .flat | _ => .natural

/-- `Accidental.Tendency` -/
def Acc.tendency (a x : Acc) : Acc :=
  if a = .unknown || x = .unknown then .unknown
  else if a = x then .natural
  else if a = .natural then x
  else if a = .sharp then .sharp
  else if a = .flat then .flat
  else .unknown

/-! ## op.Key -/

def Key.str (k : Key) : String :=
  k.name.str ++ k.acc.str ++ (if k.minor then minorKeyMark else "")

/-- `Key.Semitone`; `none` = `logx.Panic(ErrUnknownName)` -/
def Key.semitone? (k : Key) : Option Int :=
  match k.name.semitone?, k.acc.asNote.semitone? with
  | some a, some b => some (a + b)
  | _, _ => none

/-- `op.ParseKey`: first (leftmost) match of `([A-G])([#b♯♭]?)(m?)` anywhere in the string (the Unicode signs since
the D23 fix; `op.NewAccidental` maps them to sharp and flat) -/
def parseKey (s : List Char) : Option Key :=
  match s.dropWhile (fun c => !("ABCDEFG".toList.contains c)) with
  | [] => none
  | c :: rest =>
    let name := Letter.ofString (String.singleton c)
    let (accS, rest') : String × List Char :=
      match rest with
      | '#' :: r => ("#", r)
      | 'b' :: r => ("b", r)
      | '♯' :: r => ("♯", r)
      | '♭' :: r => ("♭", r)
      | r => ("", r)
    let minor := match rest' with | 'm' :: _ => true | _ => false
    some ⟨name, minor, Acc.ofString accS⟩

/-! ## scales -/

structure ScaleAcc where
  isSharp : Bool
  names : List Letter
deriving DecidableEq, Repr

/-- `newScaleAccidentals` -/
def newScaleAccidentals (n : Int) : ScaleAcc :=
  if n < 0 then ⟨false, flatSequence.take n.natAbs⟩
  else if n > 0 then ⟨true, flatSequence.drop (flatSequence.length - n.toNat)⟩
  else ⟨false, []⟩

/-- the `keySignatures` map: `MustParseKey` of every string; `none` for a string `MustParseKey` would panic on -/
def keySignatureTable : List (Option Key × Int) :=
  keyStringSignatures.map fun (s, n) => (parseKey s.toList, n)

def signatureOf (k : Key) : Option Int := lookup (some k) keySignatureTable

/-- `util.Ring.At` -/
def ringAt {α} [Inhabited α] (r : List α) (i : Int) : α :=
  if r.length = 1 then r[0]! else r[(i.emod r.length).toNat]!

/-- index chosen by the `switch tonic` of `newRawScaleNotes` -/
def rawIndex : Letter → Nat
  | .D => 1 | .E => 2 | .F => 3 | .G => 4 | .A => 5 | .B => 6 | _ => 0

structure Scale where
  key : Key
  notes : List SNote
  flat : Nat
  sharp : Nat
deriving DecidableEq, Repr, Inhabited

/-- `op.NewScale` -/
def newScale (k : Key) : Option Scale :=
  match signatureOf k with
  | none => none
  | some n =>
    let sig := newScaleAccidentals n
    let notes := (List.range 7).map fun i =>
      let nm := ringAt scaleRing (rawIndex k.name + i : Nat)
      let a : Acc := if sig.names.contains nm then (if sig.isSharp then .sharp else .flat) else .natural
      SNote.mk nm a
    some ⟨k, notes, if sig.isSharp then 0 else sig.names.length, if sig.isSharp then sig.names.length else 0⟩

def SNote.semitone? (n : SNote) : Option Int :=
  n.name.semitone?.map (· + n.acc.semitone)

def SNote.str (n : SNote) : String := n.name.str ++ n.acc.str

/-- all supported keys, in table order -/
def supportedKeys : List Key := keySignatureTable.filterMap (·.1)

/-- `op.AllScales` after sorting by `Key.String` (the `fix:` for D9); order only matters for printing -/
def allScales : List Scale := supportedKeys.filterMap newScale

inductive GetDeg | ok (d : Degree) | invalid | panic
deriving DecidableEq, Repr

/-- `ScaleNote.GetDegree` (after the D14 fix: letter distance first, then accidentals) -/
def SNote.getDegree (n x : SNote) (isSharp : Bool) : GetDeg :=
  match x.name.semitone?, n.name.semitone? with
  | some xs, some ns =>
    let s0 := xs - ns
    let s1 := if s0 < 0 then s0 + octaveSemitones else s0
    let s := s1 + (x.acc.semitone - n.acc.semitone)
    match n.name.getDegree x.name with
    | none => .invalid
    | some value =>
      let order : List Coerce :=
        if isSharp then [.majPerf, .aug, .minDim, .daug, .ddim] else [.majPerf, .minDim, .aug, .ddim, .daug]
      match order.findSome? (fun cd =>
          match cd.degree value with
          | some d => if d.semitone.getD 0 == s then some d else none
          | none => none) with
      | some d => .ok d
      | none => .invalid
  | _, _ => .panic

/-! ## circle of fifths -/

abbrev Member := List Key

def memberOfSeed (seed : List String) : Option Member :=
  seed.mapM fun s => (parseKey s.toList).bind fun k => (newScale k).map (·.key)

def circleOfSeeds (seeds : List (List String)) : Option (List Member) := seeds.mapM memberOfSeed

/-- both rings; `none` = a `Must*` panic while building them -/
structure Circles where
  majors : List Member
  minors : List Member
deriving Repr

def circles? : Option Circles :=
  match circleOfSeeds majorSeeds, circleOfSeeds minorSeeds with
  | some a, some b => some ⟨a, b⟩
  | _, _ => none

def ringIndex (ring : List Member) (k : Key) : Option Nat :=
  ring.findIdx? (·.contains k)

def Circles.ring (c : Circles) (minor : Bool) : List Member := if minor then c.minors else c.majors

/-- `CircleOfFifth.find` -/
def Circles.find (c : Circles) (k : Key) (toMinor : Bool) (delta : Int) : Option Member :=
  match ringIndex (c.ring k.minor) k with
  | none => none
  | some i => some (ringAt (c.ring toMinor) ((i : Int) + delta))

def KConv.apply (c : Circles) (k : Key) : KConv → Option Member
  | .parallel => c.find k (!k.minor) (if k.minor then parallelDeltaFromMinor else parallelDeltaFromMajor)
  | .relative => c.find k (if relativeFlipsMode then !k.minor else k.minor) relativeDelta
  | .dominant => c.find k (if dominantFlipsMode then !k.minor else k.minor) dominantDelta
  | .subdominant => c.find k (if subdominantFlipsMode then !k.minor else k.minor) subdominantDelta
  | .unknown => none

/-- one step of `KeyConversionChain.Convert`: try the member's keys in iteration order `ord m`,
first success wins, error if none succeeds (an empty member keeps `m`: `rErr` stays nil) -/
def chainStep (c : Circles) (ord : Member → Member) (m : Member) (x : KConv) : Option Member :=
  match ord m with
  | [] => some m
  | ks => ks.findSome? (fun k => x.apply c k)

def chainFold (c : Circles) (ord : Member → Member) : Member → List KConv → Option Member
  | m, [] => some m
  | m, x :: xs => match chainStep c ord m x with
    | none => none
    | some m' => chainFold c ord m' xs

/-- `KeyConversionChain.Convert` -/
def chainConvert (c : Circles) (ord : Member → Member) (k : Key) (chain : List KConv) : Option Member :=
  match newScale k with
  | none => none
  | some s => chainFold c ord [s.key] chain

def KConv.ofChar : Char → KConv
  | 'p' => .parallel | 'r' => .relative | 'd' => .dominant | 's' => .subdominant | _ => .unknown

/-! ## dynamics -/

def Dyn.ofString (s : String) : Dyn := (lookup s dynamicStrings).getD .unknown
def Dyn.str (d : Dyn) : String := ((dynamicStrings.find? (·.2 = d)).map (·.1)).getD ""
def Dyn.velocity (d : Dyn) : Nat := (lookup d dynamicVelocities).getD 0

/-! ## diatonic chords -/

def diatonicNames (minor seventh : Bool) : List String :=
  match minor, seventh with
  | true, true => seventhNamesMinor | false, true => seventhNamesMajor
  | true, false => triadNamesMinor | false, false => triadNamesMajor

/-- `DiatonicChord.String` for the i-th scale note -/
def diatonicChords (s : Scale) (seventh : Bool) : List String :=
  (s.notes.zip (diatonicNames s.key.minor seventh)).map fun (n, nm) => n.str ++ nm

end Crd
