import Crd.Model.Midix
import Crd.Model.F64

/-!
# Model of gomidi's SMF writer as crd uses it (`smf.SMF.WriteTo`, `smf.Track.Add/Close`, message
constructors, running status, VLQ).  Modelled from gomidi v2.2.19 and tied to the real library by byte
comparison of whole files (`tie:write-bytes`); gomidi itself is not verified.
-/
namespace Crd

abbrev Bytes := List Nat    -- each < 256

/-- gomidi `VlqEncode`: low 7 bits last, continuation bit on all but the last byte -/
def vlqHi : Nat → Nat → Bytes          -- fuel, quotient → high bytes, most significant first
  | 0, _ => []
  | f+1, q => if q = 0 then [] else vlqHi f (q / 128) ++ [q % 128 + 128]

def vlq (n : Nat) : Bytes := vlqHi n (n / 128) ++ [n % 128]

def be (width : Nat) (n : Nat) : Bytes :=
  (List.range width).reverse.map fun i => (n / 256 ^ i) % 256

/-- UTF-8 encoding of one code point (kernel-reducible; agrees with `String.toUTF8`, checked by the tie) -/
def utf8Char (c : Char) : Bytes :=
  let n := c.toNat
  if n < 0x80 then [n]
  else if n < 0x800 then [0xC0 + n / 64, 0x80 + n % 64]
  else if n < 0x10000 then [0xE0 + n / 4096, 0x80 + n / 64 % 64, 0x80 + n % 64]
  else [0xF0 + n / 262144, 0x80 + n / 4096 % 64, 0x80 + n / 64 % 64, 0x80 + n % 64]

/-- the bytes of a Go string holding this text -/
def strBytes (s : String) : Bytes := s.toList.flatMap utf8Char

def metaMsg (typ : Nat) (data : Bytes) : Bytes := [0xFF, typ] ++ vlq data.length ++ data

/-- `dec2binDenom` -/
def dec2binLoop : Nat → Nat → Nat → Nat     -- fuel dec bin
  | 0, _, bin => bin
  | f+1, dec, bin => if dec > 2 then dec2binLoop f (dec / 2) (bin + 1) else bin

def dec2binDenom (dec : Nat) : Nat := if dec ≤ 1 then 0 else dec2binLoop dec dec 0 + 1

/-- `smf.MetaTempo` payload: 24-bit big endian of `round(6e7/bpm)` clipped to 0x0FFFFFFF; a value that
needs four bytes yields 00 00 00 (gomidi's `switch len(b4)` has no case 4) -/
def tempoPayload (bpm : Nat) : Bytes :=
  let r := min (tempoMicros bpm) 0x0FFFFFFF
  if r < 2 ^ 24 then be 3 r else [0, 0, 0]

/-- message bytes of one event (before running status) -/
def Ev.bytes : Ev → Bytes
  | .seqName s => metaMsg 0x03 (strBytes s)
  | .instrument s => metaMsg 0x04 (strBytes s)
  | .program ch p => [0xC0 + min ch 15, min p 127]
  | .noteOn ch k v => [0x90 + min ch 15, min k 127, min v 127]
  | .noteOff ch k => [0x80 + min ch 15, min k 127, 0]
  | .tempo bpm => metaMsg 0x51 (tempoPayload bpm)
  | .meter n d => metaMsg 0x58 [n, dec2binDenom (if d = 0 then 1 else d), 8, 8]
  | .keySig _ isMajor num isFlat =>
      -- sf := int8(num); if isFlat { sf = -sf }; byte(sf)
      let sf8 : Int := (((num : Int) + 128).emod 256) - 128
      metaMsg 0x59 [(((if isFlat then -sf8 else sf8)).emod 256).toNat, if isMajor then 0 else 1]
  | .text s => metaMsg 0x01 (strBytes s)
  | .lyric s => metaMsg 0x05 (strBytes s)
  | .marker s => metaMsg 0x06 (strBytes s)
  | .close => metaMsg 0x2F []

/-- `smf.Track`: events appended after an end-of-track are dropped (`Track.Add`/`Close` test `IsClosed`) -/
def smfTrack : List (Nat × Ev) → List (Nat × Ev)
  | [] => []
  | (d, .close) :: _ => [(d, .close)]
  | x :: r => x :: smfTrack r

/-- track data with running status (`runningstatus.smfwriter`) -/
def trackData : Nat → List (Nat × Ev) → Bytes      -- running status byte (0 = none)
  | _, [] => []
  | st, (d, e) :: r =>
    let raw := e.bytes
    let b0 := raw.headD 0
    if 0x80 ≤ b0 ∧ b0 ≤ 0xEF then
      if b0 = st then vlq d ++ raw.drop 1 ++ trackData st r
      else vlq d ++ raw ++ trackData b0 r
    else vlq d ++ raw ++ trackData 0 r

def chunk (typ : String) (data : Bytes) : Bytes := strBytes typ ++ be 4 data.length ++ data

/-- does the track end with an end-of-track event (`Track.IsClosed`)? -/
def isClosed (t : List (Nat × Ev)) : Bool := match t.getLast? with | some (_, .close) => true | _ => false

/-- `MIDIWriter.WriteTo` + `smf.SMF.WriteTo`; `none` = the "track was not closed" / "no track added" errors -/
def smfEncode (tpq : Nat) (tracks : List Track) : Option Bytes :=
  let ts := tracks.map fun t => smfTrack t.ops
  if ts.isEmpty || ts.any (fun t => !isClosed t) then none
  else
    let fmt := if ts.length > 1 then 1 else 0
    some (chunk "MThd" (be 2 fmt ++ be 2 (ts.length % 65536) ++ be 2 (min tpq 32767))
      ++ ts.flatMap fun t => chunk "MTrk" (trackData 0 t))

end Crd
