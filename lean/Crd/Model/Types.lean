/-!
# Basic types shared by the generated tables and the hand-written model

Mirrors the Go enums of `note`, `op`, `input/ast` of berquerant/crd.  Core Lean only.
-/
namespace Crd

/-- Error classes (canonicalised: `errorx` kinds + outcomes that must be proved unreachable). -/
inductive Err
  | invalid | notFound | conversion | syntax | unexpected | unmarshal
  | panic (site : String) | hang (site : String)
deriving DecidableEq, Repr

deriving instance DecidableEq for Except

def Err.tag : Err → String
  | .invalid => "invalid" | .notFound => "notfound" | .conversion => "conversion"
  | .syntax => "syntax" | .unexpected => "unexpected" | .unmarshal => "unmarshal"
  | .panic s => "panic:" ++ s | .hang s => "hang:" ++ s

def Err.isCrash : Err → Bool
  | .panic _ => true | .hang _ => true | _ => false

/-- `note.Name` (C..B); `unknown` is Go's zero value `UnknownName`. -/
inductive Letter | unknown | C | D | E | F | G | A | B
deriving DecidableEq, Repr, Inhabited

def Letter.all : List Letter := [.C, .D, .E, .F, .G, .A, .B]

/-- `note.DegreeName`. -/
inductive Quality
  | unknown | major | minor | perfect | augmented | diminished | daug | ddim
deriving DecidableEq, Repr, Inhabited

def Quality.all : List Quality := [.major, .minor, .perfect, .augmented, .diminished, .daug, .ddim]

/-- `note.CoerceDegreeName`. -/
inductive Coerce
  | unknown | majPerf | minDim | aug | dim | daug | ddim
deriving DecidableEq, Repr, Inhabited

/-- `note.Degree`. -/
structure Degree where
  value : Nat
  name : Quality
deriving DecidableEq, Repr, Inhabited

/-- `note.Accidental` (five values + unknown). -/
inductive NAcc | unknown | natural | sharp | flat | dsharp | dflat
deriving DecidableEq, Repr, Inhabited

/-- `op.Accidental`. -/
inductive Acc | unknown | natural | sharp | flat
deriving DecidableEq, Repr, Inhabited

/-- `op.Key`. -/
structure Key where
  name : Letter
  minor : Bool
  acc : Acc
deriving DecidableEq, Repr, Inhabited

/-- `op.ScaleNote`. -/
structure SNote where
  name : Letter
  acc : Acc
deriving DecidableEq, Repr, Inhabited

/-- `op.DynamicSign`. -/
inductive Dyn | unknown | pp | p | mp | mf | f | ff
deriving DecidableEq, Repr, Inhabited

/-- `op.KeyConversion`. -/
inductive KConv | unknown | parallel | relative | dominant | subdominant
deriving DecidableEq, Repr, Inhabited

/-- goyacc token kinds of chords.y (`%token` order). -/
inductive TK
  | SYLLABLE | SLASH | LBRA | RBRA | COMMA | SEMICOLON | SHARP | FLAT | NUMBER | SYMBOL | REST
  | UNDERSCORE | LCBRA | RCBRA | EQUAL | METADATA
deriving DecidableEq, Repr, Inhabited

/-- non-terminals of chords.y -/
inductive NT
  | result | chord_list | chord_or_rest | rest | chod | degree | degree_head | accidental
  | symbol | simple_symbol | base | values | value | metaN | meta_internal | metadata
deriving DecidableEq, Repr, Inhabited

inductive Sym | t (k : TK) | n (a : NT)
deriving DecidableEq, Repr, Inhabited

structure Rule where
  id : Nat
  lhs : NT
  rhs : List Sym
deriving DecidableEq, Repr, Inhabited

end Crd
