import Crd.Lemmas.Apply
import Crd.Props.C06
import Crd.Props.C16

/-!
# C01 — write: every chord sounds exactly the pitches its degree, symbol and bass denote

"For every instances document whose chords stay inside the MIDI range, `crd write` emits for each chord exactly
one note-on per chord tone and one for the bass, and nothing else: the root is middle C plus the current key's
tonic plus the interval named by the chord's degree, the tones are the root plus each interval of the chord
symbol's definition (inherited ones included), and the bass is root plus the `base` interval (unison if absent)
one octave down.  The key in force is the most recent `key` at or before the chord (C, or the --key flag, at the
start)."

Any list length, any interval number, any dictionary accepted by `newDict` (built-in or user supplied), any of
the supported keys, any track count.
-/
namespace Crd.Props.C01
open Crd Crd.Generated Crd.Props.C06

def isNoteOn (e : LogE) : Bool := match e.2.2 with | .noteOn _ _ _ => true | _ => false

/-- the pitches of one chord (integers, bass first): root = 60 + tonic + degree; bass one octave below
root + bass interval; each tone = root + its interval.  In `uint8` arithmetic always; without wrap inside the
MIDI range -/
theorem chord_pitches (d : Dict) (k : Key) (c : ChordIn) (keys : List Nat) (h : applyChord d k c = .ok keys) :
    ∃ (attrs : List Attr) (tonic deg bass : Int) (tones : List Int),
      d.chordAttrs ((d.chord c.name).map (·.name) |>.getD c.name) = some attrs ∧
      k.semitone? = some tonic ∧ Spec.specSize c.degree.value c.degree.name = some deg ∧
      (match c.base with | none => bass = 0 | some b => Spec.specSize b.value b.name = some bass) ∧
      attrs.mapM (fun a => a.degree.semitone) = some tones ∧
      ((∀ x ∈ (60 + tonic + deg + bass - 12) :: tones.map (fun s => 60 + tonic + deg + s), 0 ≤ x ∧ x ≤ 127) →
        keys.map (fun (x : Nat) => (x : Int)) = (60 + tonic + deg + bass - 12) :: tones.map (fun s => 60 + tonic + deg + s)) := by
  obtain ⟨attrs, ks, cd, b, ss, h1, h2, h3, h4, h5, h6⟩ := apply_pitches d k c keys h
  refine ⟨attrs, ks, cd, b, ss, h1, h2, by rw [← semitone_eq_spec]; exact h3, ?_, h5, h6⟩
  cases hb : c.base with
  | none => simp only [hb, Option.getD_none, default_bass] at h4; simpa using h4.symm
  | some bd =>
    simp only [hb, Option.getD_some] at h4
    show Spec.specSize bd.value bd.name = some b
    rw [← semitone_eq_spec]; exact h4

/-- the tones of a symbol are its parent's tones (transitively) followed by its own: in every accepted
dictionary (C16) -/
theorem tones_inherit (ua : List Attr) (uc : List ChordDef) (d : Dict) (hd : newDict ua uc = some d)
    (n : String) (c : ChordDef) (hc : d.chord n = some c) (hp : c.parent ≠ "") :
    d.chordAttrs n = some ((d.chordAttrs c.parent).getD [] ++ d.own c) :=
  ((Crd.Props.C16.resolve_inherits ua uc d hd n c hc).2 hp).choose_spec.2.1

/-- every note-on of the reference timeline belongs to exactly the chord instance that strikes it: the
timeline is, instance by instance, [settings, note-ons, note-offs]; settings and note-offs and the writer's
initial events are never note-ons, and a rest contributes none -/
theorem note_ons_by_instance (f : WriteFlags) (d : Dict) (is' : List Instance) :
    (refTimeline f d is').filter isNoteOn =
      (List.range is'.length).flatMap fun j => match is'[j]? with
        | none => []
        | some i => instOns d (keyAt defaultKey is' j) (dynAt defaultVelocity is' j) (startAt goTicks is' j) i := by
  unfold refTimeline
  rw [pieceLog_by_instance, List.filter_append, List.filter_flatMap]
  have h0 : (initLog f.instrument f.program defaultSequenceName).filter isNoteOn = [] := by simp [initLog, isNoteOn]
  rw [h0, List.nil_append]
  simp only [List.flatMap_def]
  congr 1
  apply List.map_congr_left
  intro j _
  unfold instLogAt
  cases is'[j]? with
  | none => rfl
  | some i =>
    simp only [Nat.zero_add, List.filter_append]
    have hs : (instSettings (true && j == 0) (startAt goTicks is' j) i).filter isNoteOn = [] := by
      rw [List.filter_eq_nil_iff]
      intro e he
      simp only [instSettings, List.mem_filterMap] at he
      obtain ⟨c, _, hc⟩ := he
      cases c <;> simp [WCall.metaEv] at hc <;> subst hc <;> simp [isNoteOn]
    have honF : ∀ (v T i0 : Nat) (ks : List Nat), (fixedEvs (fun x => Ev.noteOn 0 x v) T i0 ks).filter isNoteOn = fixedEvs (fun x => Ev.noteOn 0 x v) T i0 ks := by
      intro v T i0 ks
      induction ks generalizing i0 with
      | nil => rfl
      | cons k ks ih => rw [fixedEvs, List.filter_cons_of_pos (by rfl), ih]
    have hoffF : ∀ (T i0 : Nat) (ks : List Nat), (fixedEvs (fun x => Ev.noteOff 0 x) T i0 ks).filter isNoteOn = [] := by
      intro T i0 ks
      induction ks generalizing i0 with
      | nil => rfl
      | cons k ks ih => rw [fixedEvs, List.filter_cons_of_neg (by simp [isNoteOn]), ih]
    have hon : (instOns d (keyAt defaultKey is' j) (dynAt defaultVelocity is' j) (startAt goTicks is' j) i).filter isNoteOn =
        instOns d (keyAt defaultKey is' j) (dynAt defaultVelocity is' j) (startAt goTicks is' j) i := by
      unfold instOns
      split
      · rfl
      · split
        · exact honF _ _ _ _
        · rfl
    have hoff : (instOffs d (keyAt defaultKey is' j) (startAt goTicks is' j + goTicks i.values) i).filter isNoteOn = [] := by
      unfold instOffs
      split
      · rfl
      · split
        · exact hoffF _ _ _
        · rfl
    rw [hs, hon, hoff]; simp

/-- the note-ons of the chord at instance `j`: one per key of `Key.Apply` in the key in force, all at the
instance's start, with the dynamic in force; `fixedEvs` lists them in order with their routing index -/
theorem instance_note_ons (d : Dict) (k : Key) (v : Dyn) (T : Nat) (i : Instance) (c : ChordIn) (keys : List Nat)
    (hc : i.chord = some c) (ha : applyChord d k c = .ok keys) :
    (instOns d k v T i).map (fun e => (e.1, e.2.2)) = keys.map fun x => (T, Ev.noteOn 0 x (v.velocity % 256)) := by
  simp only [instOns, hc, ha]
  have gen : ∀ (mk : Nat → Ev) (i0 : Nat) (ks : List Nat),
      (fixedEvs mk T i0 ks).map (fun e => (e.1, e.2.2)) = ks.map fun x => (T, mk x) := by
    intro mk i0 ks
    induction ks generalizing i0 with
    | nil => rfl
    | cons x xs ih => simp [fixedEvs, ih]
  exact gen _ 0 keys

/-- the key in force at instance `j` is the most recent `key` at or before it, else the start key -/
theorem key_in_force (k0 : Key) (is : List Instance) (j : Nat) :
    keyAt k0 is j = (((is.take (j + 1)).filterMap (·.key)).getLast?).getD k0 := rfl

/-- `--key` replaces the key of the first instance only; without the flag the document is unchanged and the
start key is C (the generated default) -/
theorem flag_key_first_instance_only (f : WriteFlags) (i i' : Instance) (h : overrideFromFlags f i = .ok i') :
    (f.key = "" → i'.key = i.key) ∧ (f.key ≠ "" → i'.key = parseKey f.key.toList ∧ i'.key.isSome) ∧ i'.chord = i.chord ∧ i'.values = i.values := by
  unfold overrideFromFlags at h
  simp only [bind, Except.bind, pure, Except.pure] at h
  repeat' split at h
  all_goals (first | cases h | skip)
  all_goals simp_all

theorem prepared_tail_unchanged (f : WriteFlags) (i : Instance) (rest : List Instance) (d : Dict) (N : Nat) (is' : List Instance)
    (h : prepareWrite f (i :: rest) = .ok (d, N, is')) : ∃ i', overrideFromFlags f i = .ok i' ∧ is' = i' :: rest := by
  unfold prepareWrite at h
  simp only [bind, Except.bind, pure, Except.pure] at h
  repeat' split at h
  all_goals (first | cases h | skip)
  all_goals simp_all

theorem default_key_is_C : defaultKey = ⟨.C, false, .natural⟩ := by decide

/-! non-vacuity: key change at instance 2 and `--key Ebm`; the model plays Ebm: 6th degree minor-seventh over its
fifth, then in A minor -/
def exDoc : List Instance :=
  [{ chord := some ⟨⟨6, .minor⟩, "m7", some ⟨5, .perfect⟩⟩, values := [⟨1, 1⟩] },
   { values := [⟨1, 2⟩] },
   { chord := some ⟨⟨1, .perfect⟩, "", none⟩, values := [⟨1, 1⟩], key := some ⟨.A, true, .natural⟩ }]
example : ((cmdWriteTracks { key := "Ebm" } exDoc).toOption.map fun ts =>
      ts.flatMap fun t => t.timeline.filterMap fun e => match e.2 with | .noteOn _ k _ => some (e.1, k) | _ => none) =
    some [(0, 66), (0, 71), (0, 74), (0, 78), (0, 81), (1440, 57), (1440, 69), (1440, 73), (1440, 76)] := by decide

end Crd.Props.C01
