import Crd.Lemmas.PieceIndex
import Crd.Props.C06

/-!
# C02 — write: onsets, lengths and rests follow the written durations, gapless

"Every instance occupies round(T × v) ticks, where T is the ticks-per-quarter declared in the file header and v
the exact sum of its duration fractions (either neighbour when exactly halfway): a chord's note-ons all fall at
the instance start and all its note-offs at its end, a rest emits no notes, and each instance starts exactly
where the previous one ended, the first at tick 0.  Where two events of one track share a tick, a chord's
release of a pitch precedes the next chord's strike of the same pitch."

The structural clauses are proved for an ARBITRARY tick function τ (so they do not depend on rounding) and any
track count; the rounding clause is in `Crd/Props/C02Float.lean`.
-/
namespace Crd.Props.C02
open Crd Crd.Generated Crd.Props.C06

/-- the first instance starts at tick 0 and each instance starts exactly where the previous one ended -/
theorem starts_gapless (τ : List Rat' → Nat) (is : List Instance) :
    startAt τ is 0 = 0 ∧ ∀ j (i : Instance), is[j]? = some i → startAt τ is (j + 1) = startAt τ is j + τ i.values := by
  refine ⟨by simp [startAt, totalTicks], ?_⟩
  intro j i hj
  have hlt : j < is.length := by
    cases h : is[j]? with
    | none => simp [h] at hj
    | some _ => exact (List.getElem?_eq_some_iff.mp h).1
  have : is.take (j + 1) = is.take j ++ [i] := by
    rw [List.take_succ, hj]; rfl
  simp [startAt, totalTicks, this, List.sum_append]

/-- the piece ends at the sum of all instance lengths (rests included, wherever they stand) -/
theorem total_is_sum (τ : List Rat' → Nat) (is : List Instance) : startAt τ is is.length = totalTicks τ is := by
  simp [startAt]

/-- **onsets and releases**: the whole timeline is, instance by instance: the instance's setting events at its
start, ALL its note-ons at its start, ALL its note-offs at its start + its length — for the keys `Key.Apply`
gives (C01) — and nothing else -/
theorem timeline_by_instance (τ : List Rat' → Nat) (d : Dict) (is : List Instance) :
    pieceLog τ d 0 true defaultKey defaultVelocity is =
      (List.range is.length).flatMap fun j => match is[j]? with
        | none => []
        | some i =>
          instSettings (j == 0) (startAt τ is j) i ++
            (instOns d (keyAt defaultKey is j) (dynAt defaultVelocity is j) (startAt τ is j) i ++
             instOffs d (keyAt defaultKey is j) (startAt τ is j + τ i.values) i) := by
  rw [pieceLog_by_instance]
  simp only [List.flatMap_def]
  congr 1
  apply List.map_congr_left
  intro j _
  unfold instLogAt
  cases is[j]? <;> simp

/-- every note-on of an instance is stamped with the tick it is given, every note-off likewise, and both
lists strike/release the same keys in the same order with the same routing indices -/
theorem ons_offs_same_keys (d : Dict) (k : Key) (v : Dyn) (S E : Nat) (i : Instance) :
    (∀ e ∈ instOns d k v S i, e.1 = S) ∧ (∀ e ∈ instOffs d k E i, e.1 = E) ∧
    (instOns d k v S i).map (fun e => (e.2.1, match e.2.2 with | .noteOn c x _ => (c, x) | _ => (0, 0))) =
      (instOffs d k E i).map (fun e => (e.2.1, match e.2.2 with | .noteOff c x => (c, x) | _ => (0, 0))) := by
  have tick : ∀ (mk : Nat → Ev) (T i0 : Nat) (ks : List Nat), ∀ e ∈ fixedEvs mk T i0 ks, e.1 = T := by
    intro mk T i0 ks
    induction ks generalizing i0 with
    | nil => intro e he; simp [fixedEvs] at he
    | cons x xs ih =>
      intro e he
      simp only [fixedEvs, List.mem_cons] at he
      rcases he with rfl | he
      · rfl
      · exact ih _ e he
  have same : ∀ (vel S E i0 : Nat) (ks : List Nat),
      (fixedEvs (fun x => Ev.noteOn 0 x vel) S i0 ks).map (fun e => (e.2.1, match e.2.2 with | .noteOn c x _ => (c, x) | _ => (0, 0))) =
      (fixedEvs (fun x => Ev.noteOff 0 x) E i0 ks).map (fun e => (e.2.1, match e.2.2 with | .noteOff c x => (c, x) | _ => (0, 0))) := by
    intro vel S E i0 ks
    induction ks generalizing i0 with
    | nil => rfl
    | cons x xs ih => simp [fixedEvs, ih]
  cases hc : i.chord with
  | none => simp [instOns, instOffs, hc]
  | some c =>
    cases ha : applyChord d k c with
    | err e => simp [instOns, instOffs, hc, ha]
    | ok keys =>
      simp only [instOns, instOffs, hc, ha]
      exact ⟨tick _ _ _ _, tick _ _ _ _, same _ _ _ _ _⟩

/-- a rest emits no notes -/
theorem rest_is_silent (d : Dict) (k : Key) (v : Dyn) (S E : Nat) (i : Instance) (h : i.chord = none) :
    instOns d k v S i = [] ∧ instOffs d k E i = [] := by simp [instOns, instOffs, h]

/-- **release before strike**: in the timeline, everything instance `a` releases comes before everything the next
instance `b` strikes; since each track's timeline is a sub-list of the reference timeline in the same order
(C06 `every_track_ends_at_total`: it is a `filter`), the same holds in every track, also at equal ticks -/
theorem release_before_strike (τ : List Rat' → Nat) (d : Dict) (pre : List Instance) (a b : Instance) (post : List Instance) :
    ∀ (T : Nat) (first : Bool) (k0 : Key) (v0 : Dyn), ∃ (X Y : List LogE) (S : Nat) (ka kb : Key) (vb : Dyn),
      pieceLog τ d T first k0 v0 (pre ++ a :: b :: post) =
        X ++ instOffs d ka (S + τ a.values) a ++ (instSettings false (S + τ a.values) b ++ instOns d kb vb (S + τ a.values) b) ++ Y := by
  induction pre with
  | nil =>
    intro T first k0 v0
    refine ⟨instSettings first T a ++ instOns d (a.key.getD k0) (a.velocity.getD v0) T a,
      instOffs d (b.key.getD (a.key.getD k0)) (T + τ a.values + τ b.values) b ++
        pieceLog τ d (T + τ a.values + τ b.values) false (b.key.getD (a.key.getD k0)) (b.velocity.getD (a.velocity.getD v0)) post,
      T, a.key.getD k0, b.key.getD (a.key.getD k0), b.velocity.getD (a.velocity.getD v0), ?_⟩
    simp only [List.nil_append, pieceLog_cons, List.append_assoc]
  | cons p pre ih =>
    intro T first k0 v0
    obtain ⟨X, Y, S, ka, kb, vb, h⟩ := ih (T + τ p.values) false (p.key.getD k0) (p.velocity.getD v0)
    refine ⟨(instSettings first T p ++ (instOns d (p.key.getD k0) (p.velocity.getD v0) T p ++
      instOffs d (p.key.getD k0) (T + τ p.values) p)) ++ X, Y, S, ka, kb, vb, ?_⟩
    rw [List.cons_append, pieceLog_cons, h]
    simp only [List.append_assoc]

/-- filtering (the share of a track) and stripping preserve that order -/
theorem share_preserves_order (p : LogE → Bool) (A B C D : List LogE) :
    ((A ++ B ++ C ++ D).filter p).map stripT = (A.filter p).map stripT ++ (B.filter p).map stripT ++ (C.filter p).map stripT ++ (D.filter p).map stripT := by
  simp [List.filter_append, List.map_append]

/-! non-vacuity: fractional and multiple durations, leading / consecutive / trailing rests -/
def exDoc : List Instance :=
  [{ values := [⟨1, 3⟩] }, { chord := some ⟨⟨1, .perfect⟩, "", none⟩, values := [⟨1, 2⟩, ⟨1, 4⟩] },
   { values := [⟨1, 1⟩] }, { values := [⟨2, 3⟩] }, { chord := some ⟨⟨5, .perfect⟩, "7", none⟩, values := [⟨5, 7⟩] }, { values := [⟨1, 1⟩] }]
example : (List.range 7).map (startAt goTicks exDoc) = [0, 320, 1040, 2000, 2640, 3326, 4286] := by decide

end Crd.Props.C02
