import Crd.Float.Ticks
import Crd.Model.Play

/-!
# C02, rounding clause — "every instance occupies round(T × v) ticks … (either neighbour when exactly halfway)"

Proved over ℚ about the soft-float model of Go's arithmetic (`Crd/Model/F64.lean`, bit-compared with Go by the
`ticks` stream): each operation is one rounding to 53 bits; n+4 roundings accumulate to a relative error below
2(n+4)·2⁻⁵²; a value closer to N/D than 1/(2D) rounds to the nearest integer of N/D.  Mathlib is imported by this
proof module only (never by the model or the driver).

The hypothesis `4·(n+4)·N < 2^52` (N/D = T·v over any common denominator D of the written fractions) is not
decoration: without it the statement is false of the code, `float_rounding_can_miss` (D17, a known finding).
-/
namespace Crd.Props.C02
open Crd Crd.Generated

/-- **the length of an instance is the nearest integer of T·v** for every list of valid duration fractions whose
common denominator D and total satisfy `4·(n+4)·(T·v·D) < 2^52` — e.g. any 12 fractions with denominators dividing
5040 up to 2^28 ticks in total.  At an exact half either neighbour (the property allows both). -/
theorem instance_length_is_nearest (vs : List Rat') (hne : vs ≠ []) (D : Nat) (hD : 0 < D)
    (hv : ∀ r ∈ vs, r.valid = true ∧ r.den ∣ D)
    (hsafe : 4 * (4 + vs.length) * numOver ticksPerQuarter D (vs.map fun r => (r.num, r.den)) < 2 ^ 52) :
    let N := numOver ticksPerQuarter D (vs.map fun r => (r.num, r.den))
    goTicks vs = (2 * N + D) / (2 * D) ∨ ((2 * N + D) % (2 * D) = 0 ∧ goTicks vs + 1 = (2 * N + D) / (2 * D)) := by
  have h := ticks_nearest ticksPerQuarter (by decide) (vs.map fun r => (r.num, r.den)) (by simpa using hne) D hD
    (by
      intro p hp
      obtain ⟨r, hr, rfl⟩ := List.mem_map.mp hp
      obtain ⟨hval, hdvd⟩ := hv r hr
      unfold Rat'.valid at hval
      simp only [Bool.and_eq_true, decide_eq_true_eq] at hval
      exact ⟨by omega, by omega, hdvd⟩)
    (by simpa using hsafe)
  exact h

/-- N/D really is T·v -/
theorem numOver_is_exact (vs : List Rat') (D : Nat) (hD : 0 < D) (hv : ∀ r ∈ vs, r.valid = true ∧ r.den ∣ D) :
    ((numOver ticksPerQuarter D (vs.map fun r => (r.num, r.den)) : Nat) : ℚ) / D =
      (ticksPerQuarter : ℚ) * (vs.map fun r => (r.num : ℚ) / r.den).sum := by
  have := numOver_eq ticksPerQuarter D hD (vs.map fun r => (r.num, r.den))
    (by
      intro p hp
      obtain ⟨r, hr, rfl⟩ := List.mem_map.mp hp
      obtain ⟨hval, hdvd⟩ := hv r hr
      unfold Rat'.valid at hval
      simp only [Bool.and_eq_true, decide_eq_true_eq] at hval
      exact ⟨by omega, hdvd⟩)
  rw [this]; simp [sumQ, List.map_map, Function.comp_def]

/-- **the full-strength statement (no bound on the denominators) is false of the code** — a concrete piece below
2^28 ticks whose length is one tick off the nearest integer (D17; replayed on the real binary as a KNOWN-FINDING) -/
theorem float_rounding_can_miss :
    goTicks [⟨104, 65⟩, ⟨433505365742, 1099511627776⟩, ⟨108037, 3⟩] = 34573755 ∧
    (let D := 65 * 1099511627776 * 3
     let N := numOver ticksPerQuarter D [(104, 65), (433505365742, 1099511627776), (108037, 3)]
     (2 * N + D) / (2 * D) = 34573754 ∧ (2 * N + D) % (2 * D) ≠ 0) := by decide

/-! non-vacuity -/
example : goTicks [⟨1, 9⟩, ⟨1, 9⟩] = 213 := by
  have h := instance_length_is_nearest [⟨1, 9⟩, ⟨1, 9⟩] (by simp) 9 (by norm_num)
    (by intro r hr; simp at hr; subst hr; exact ⟨by decide, dvd_refl _⟩) (by decide)
  simp only [numOver] at h
  norm_num [ticksPerQuarter] at h
  exact h

end Crd.Props.C02
