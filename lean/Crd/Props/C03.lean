import Crd.Model.Conv
import Crd.Lemmas.Degree
import Crd.Props.C13

/-!
# C03 — text conv syllable: note names map to the right interval in every key

"For every supported key and every root and bass written as a letter with optional sharp or flat, whenever
`crd text conv syllable` succeeds the emitted degree has the number given by the letter distance from the tonic
(for the bass: from the chord root) and the size in semitones given by the pitch distance, so that tonic + degree
is the written note.  The seven notes of the key's own scale are always accepted — as roots, mapping to the
scale's own degrees, and as bass notes over one another; a note the notation cannot express is an error, never
a different degree."
-/
namespace Crd.Props.C03
open Crd Crd.Spec Crd.Props.C13

/-- the 21 spellings: 7 letters × natural/sharp/flat -/
def notes21 : List SNote := Letter.all.flatMap fun l => [⟨l, .natural⟩, ⟨l, .sharp⟩, ⟨l, .flat⟩]

/-- letter distance as an interval number: C→C = 1, C→D = 2, …, D→C = 7 (spec) -/
def letterDist (a b : SNote) : Nat := (letterIndex b.name + 7 - letterIndex a.name) % 7 + 1

/-- pitch distance by letter: upward distance between the natural letters (0..11) plus the difference of the
accidentals — so that `a + interval` is the WRITTEN note `b`, not merely an enharmonic of it (spec) -/
def pitchDist (a b : SNote) : Int :=
  (naturalPitch b.name - naturalPitch a.name).emod 12 + (accShift b.acc - accShift a.acc)

/-- the whole contract of the interval search in one decidable statement -/
def getDegreeSpec (a b : SNote) (sharpFirst : Bool) : Bool :=
  match a.getDegree b sharpFirst with
  | .ok d => d.value == letterDist a b && specSize d.value d.name == some (pitchDist a b)
  | .invalid => allQ.all fun q => specSize (letterDist a b) q != some (pitchDist a b) ||
      -- observed gap of the search lists (not required by the property): the diminished second/third/sixth/
      -- seventh ("bb2" …) is never tried, so e.g. C♯→D♭ is refused although "bb2" exists
      (q == .diminished && !perfectClass ((letterDist a b - 1) % 7))
  | .panic => false

/-- **soundness, completeness, never-a-different-degree**, for all 21 × 21 note pairs and both search orders:
success means number = letter distance and size = pitch distance; failure happens only when no quality of that
number has that size (the note is not expressible) or the only one is a diminished 2nd/3rd/6th/7th -/
theorem getDegree_spec : ∀ a ∈ notes21, ∀ b ∈ notes21, ∀ o ∈ [true, false], getDegreeSpec a b o = true := by decide

/-- the search order (sharp-first / flat-first, chosen from the key's tendency) never changes the answer -/
theorem order_irrelevant : ∀ a ∈ notes21, ∀ b ∈ notes21, a.getDegree b true = a.getDegree b false := by decide

/-- how many of the 441 ordered pairs are refused -/
theorem rejected_count : (notes21.flatMap fun a => notes21.filter fun b => a.getDegree b true == .invalid).length = 44 := by
  decide

/-! ### lifting to the converter: arbitrary tokens, every supported key -/

theorem lookup_mem_values {α β} [DecidableEq α] (k : α) : ∀ (l : List (α × β)) (v : β), lookup k l = some v → v ∈ l.map (·.2) := by
  intro l; induction l with
  | nil => intro v h; simp [lookup] at h
  | cons x xs ih =>
    intro v h; obtain ⟨a, b⟩ := x
    unfold lookup at h
    by_cases hab : a = k
    · simp [hab] at h; subst h; simp
    · simp [hab] at h; simp [ih v h]

theorem acc_tables : (∀ a ∈ Generated.accExtraSpellings.map (·.2), a = Acc.sharp ∨ a = Acc.flat) ∧
    (∀ p ∈ Generated.accStringTable, p.1 = Acc.natural ∨ p.1 = Acc.sharp ∨ p.1 = Acc.flat) := by decide

/-- `op.NewAccidental` never yields the unknown accidental -/
theorem acc_ofString (s : String) : Acc.ofString s = .natural ∨ Acc.ofString s = .sharp ∨ Acc.ofString s = .flat := by
  unfold Acc.ofString
  cases h : lookup s Generated.accExtraSpellings with
  | some a =>
    have := acc_tables.1 a (lookup_mem_values s _ a h)
    rcases this with rfl | rfl <;> simp
  | none =>
    simp only
    cases hf : Generated.accStringTable.find? (fun p => p.2 = s) with
    | none => simp
    | some p =>
      have := acc_tables.2 p (List.mem_of_find?_eq_some hf)
      simpa using this

theorem letter_ofString_cases (s : String) : Letter.ofString s = .unknown ∨ Letter.ofString s ∈ Letter.all := by
  cases h : Letter.ofString s <;> simp [Letter.all]

/-- a root/bass token that the converter accepts denotes one of the 21 spellings -/
theorem newScaleNote_mem (d : DegreeN) (n : SNote) (h : newScaleNote d = .ok n) : n ∈ notes21 := by
  unfold newScaleNote at h
  split at h
  · cases h
  · rename_i l hl
    cases h
    have hmem : Letter.ofString d.head.str ∈ Letter.all := by
      rcases letter_ofString_cases d.head.str with h | h
      · exact absurd h (by simpa using hl)
      · exact h
    have hacc : ∀ a : Acc, (a = .natural ∨ a = .sharp ∨ a = .flat) → (⟨Letter.ofString d.head.str, a⟩ : SNote) ∈ notes21 := by
      intro a ha
      simp only [notes21, List.mem_flatMap]
      exact ⟨_, hmem, by rcases ha with rfl | rfl | rfl <;> simp⟩
    cases d.acc with
    | none => exact hacc _ (Or.inl rfl)
    | some a => exact hacc _ (acc_ofString a.str)

/-- the tonic of every supported key is one of the 21 spellings -/
theorem tonic_mem : ∀ (k : Key) (s : Scale), newScale k = some s →
    (match s.notes.head? with | some t => decide (t ∈ notes21) | none => false) = true :=
  lift _ (by decide)

/-- **the converter is sound in every supported key, for any tokens**: whenever `text conv syllable` converts a
chord, the root degree measures tonic → root and the bass degree measures root → bass, by letter and by pitch -/
theorem conv_sound (k : Key) (s : Scale) (hs : newScale k = some s) (root : DegreeN) (base : Option DegreeN)
    (d : Degree) (b : Option Degree) (h : syllableDegrees s root base = .ok (d, b)) :
    ∃ tonic rn, s.notes.head? = some tonic ∧ tonic = ⟨k.name, k.acc⟩ ∧ newScaleNote root = .ok rn ∧
      d.value = letterDist tonic rn ∧ specSize d.value d.name = some (pitchDist tonic rn) ∧
      (match base, b with
       | none, none => True
       | some bt, some bd => ∃ bn, newScaleNote bt = .ok bn ∧
           bd.value = letterDist rn bn ∧ specSize bd.value bd.name = some (pitchDist rn bn)
       | _, _ => False) := by
  have hton := tonic_mem k s hs
  have hhead := letters_once_from_tonic k s hs
  simp only [Bool.and_eq_true, beq_iff_eq] at hhead
  obtain ⟨⟨_, hh⟩, _⟩ := hhead
  rw [hh] at hton
  have htm : (⟨k.name, k.acc⟩ : SNote) ∈ notes21 := by simpa using hton
  -- peel the do-block
  unfold syllableDegrees at h
  cases hrn : newScaleNote root with
  | error e => simp [hrn, bind, Except.bind] at h
  | ok rn =>
    have hrm := newScaleNote_mem root rn hrn
    cases ht : getTendency s rn with
    | error e => simp [hrn, ht, bind, Except.bind] at h
    | ok t =>
      simp only [hrn, ht, hh, bind, Except.bind, pure, Except.pure] at h
      have spec1 := getDegree_spec _ htm rn hrm (t == .sharp) (by cases (t == Acc.sharp) <;> simp)
      unfold getDegreeSpec at spec1
      cases hg : (⟨k.name, k.acc⟩ : SNote).getDegree rn (t == .sharp) with
      | invalid => simp [hg, liftGetDeg] at h
      | panic => simp [hg, liftGetDeg] at h
      | ok d0 =>
        simp only [hg, liftGetDeg, Bool.and_eq_true, beq_iff_eq] at h spec1
        refine ⟨⟨k.name, k.acc⟩, rn, hh, rfl, rfl, ?_⟩
        cases base with
        | none =>
          simp only [Except.ok.injEq, Prod.mk.injEq] at h
          obtain ⟨rfl, rfl⟩ := h
          exact ⟨spec1.1, spec1.2, trivial⟩
        | some bt =>
          cases hbn : newScaleNote bt with
          | error e => simp [hbn] at h
          | ok bn =>
            have hbm := newScaleNote_mem bt bn hbn
            cases hbt : getTendency s bn with
            | error e => simp [hbn, hbt] at h
            | ok t2 =>
              have spec2 := getDegree_spec rn hrm bn hbm (t2 == .sharp) (by cases (t2 == Acc.sharp) <;> simp)
              unfold getDegreeSpec at spec2
              cases hg2 : rn.getDegree bn (t2 == .sharp) with
              | invalid => simp [hbn, hbt, hg2] at h
              | panic => simp [hbn, hbt, hg2] at h
              | ok d2 =>
                simp only [hbn, hbt, hg2, Except.ok.injEq, Prod.mk.injEq, Bool.and_eq_true, beq_iff_eq] at h spec2
                obtain ⟨rfl, rfl⟩ := h
                exact ⟨spec1.1, spec1.2, bn, hbn, spec2.1, spec2.2⟩

/-- **the key's own notes are always accepted**: as roots they map to the scale's own degrees (number i+1, size =
the mode's step pattern), and as bass notes over one another to number ((j − i) mod 7) + 1 — all 28 keys -/
theorem scale_notes_accepted : ∀ (k : Key) (s : Scale), newScale k = some s →
    ((List.range 7).all fun i => (List.range 7).all fun j =>
      match s.notes[i]?, s.notes[j]?, s.notes.head? with
      | some ni, some nj, some tonic =>
        (match getTendency s ni, getTendency s nj with
         | .ok ti, .ok tj =>
           (match tonic.getDegree ni (ti == .sharp), ni.getDegree nj (tj == .sharp) with
            | .ok d, .ok b =>
              d.value == i + 1 &&
              d.semitone == some (((if k.minor then minorSteps else majorSteps).take i).foldl (· + ·) 0) &&
              b.value == (j + 7 - i) % 7 + 1
            | _, _ => false)
         | _, _ => false)
      | _, _, _ => false) = true :=
  lift _ (by decide)

/-! non-vacuity -/
example : (⟨.D, .flat⟩ : SNote).getDegree ⟨.C, .sharp⟩ true = .ok ⟨7, .augmented⟩ := by decide
example : pitchDist ⟨.D, .flat⟩ ⟨.C, .sharp⟩ = 12 ∧ letterDist ⟨.D, .flat⟩ ⟨.C, .sharp⟩ = 7 := by decide
example : ((cmdTextConvChars .syllable "Eb" "Ab/C[1]".toList).toOption.map (·.map (·.chord))) =
    some [some (ChordIn.mk ⟨4, .perfect⟩ "" (some ⟨3, .major⟩))] := by decide

end Crd.Props.C03
