import Crd.Lemmas.GrammarTie2
import Crd.Lemmas.ParserComplete2
import Crd.Lemmas.LexTotal
import Crd.Lemmas.LexFaithful

/-!
# C04 — the accepted chord language is exactly the documented grammar; trees faithful

"`crd text parse` / `text conv` accept a text if and only if it is a sentence of the grammar in
input/ast/chords.y under the documented tokenisation (spaces and `;` comments ignored, `_` introduces a symbol,
`{...}` switches to key=value mode), and for an accepted text the tree lists, in order, exactly the chords and
rests written, each with its root, accidental, symbol, bass, duration fractions and metadata pairs as written.
Anything else — including every proper prefix cut inside a chord — is rejected with an error; no suffix is ever
silently dropped.  The parser shipped is the one goyacc generates from that grammar file."

Proved here, for ALL token lists / strings: the model's parser decides exactly the language that the grammar
(as DATA regenerated from chords.y) derives; the tree is faithful; the lexer terminates and never stops silently
inside the input.  The last sentence is decided directly on every run by re-running goyacc (check `goyacc-regen`),
and the goyacc automaton is compared with the model's parser on all token strings up to a length bound plus
generated/mutated sentences (`tie:parse`).
-/
namespace Crd.Props.C04
open Crd Crd.Spec Crd.Generated

/-- the grammar the proofs are about is the one in chords.y: 28 productions over 16 tokens, start `result` -/
theorem grammar_shape : grammarRules.length = 28 ∧ grammarTokens.length = 16 ∧
    (grammarRules.head?.map (·.lhs)) = some .result := by decide

/-- **the parser decides the grammar**: a token list is accepted iff its kinds are derivable from the start
symbol by the productions of chords.y -/
theorem parser_decides_grammar (ts : List Tok) :
    (parseToks ts).isSome = true ↔ Derives grammarRules (.n .result) (kinds ts) := by
  rw [parseToks_iff, lang_iff_derives]

/-- **tree faithfulness**: the tree of an accepted token list lists, in order, exactly the tokens read (kind and
text of every root, accidental, symbol, bass, numerator, denominator, metadata key and value; punctuation by
kind); only the optional `_` before a symbol is not recorded.  Nothing is dropped, nothing invented, nothing
reordered; in particular a trailing suffix cannot be ignored. -/
theorem tree_faithful (ts : List Tok) (items : List Item) (h : parseToks ts = some items) :
    items ≠ [] ∧ sigs ts = items.flatMap rItem := by
  have := parseToks_sound ts items h
  exact ⟨this.2.1, this.2.2⟩

/-- the empty text has no tree -/
theorem empty_rejected : parseToks [] = none := by decide

/-- no suffix is silently dropped: if `ts ++ junk` is accepted then the tree accounts for every token of `junk`
too -/
theorem no_suffix_dropped (ts junk : List Tok) (items : List Item) (h : parseToks (ts ++ junk) = some items) :
    sigs ts ++ sigs junk = items.flatMap rItem := by
  rw [← sigs_append]; exact (tree_faithful _ items h).2

/-- a sentence cut inside a chord or rest is rejected: every accepted list ends with `]` or `}` -/
theorem accepted_ends_closed (ts : List Tok) (h : (parseToks ts).isSome = true) :
    ∃ t, ts.getLast? = some t ∧ (t.k = .RBRA ∨ t.k = .RCBRA) := by
  have hl := (parseToks_iff ts).mp h
  have last_item : ∀ i, LItem i → ∃ k, i.getLast? = some k ∧ (k = .RBRA ∨ k = .RCBRA) := by
    intro i hi
    have meta_last : ∀ (pre m : List TK), LMeta m → ∃ k, (pre ++ .RBRA :: m).getLast? = some k ∧ (k = .RBRA ∨ k = .RCBRA) := by
      intro pre m hm
      cases hm with
      | none => exact ⟨.RBRA, by simp, Or.inl rfl⟩
      | some ms _ =>
        refine ⟨.RCBRA, ?_, Or.inr rfl⟩
        have : pre ++ TK.RBRA :: (TK.LCBRA :: ms ++ [TK.RCBRA]) = (pre ++ TK.RBRA :: TK.LCBRA :: ms) ++ [TK.RCBRA] := by simp
        rw [this, List.getLast?_concat]
    cases hi with
    | rest vs m _ hm => simpa using meta_last (.REST :: .LBRA :: vs) m hm
    | chord d s b vs m _ _ _ _ hm => simpa [List.append_assoc] using meta_last (d ++ s ++ b ++ .LBRA :: vs) m hm
  have last_list : ∀ l, LList l → ∃ k, l.getLast? = some k ∧ (k = .RBRA ∨ k = .RCBRA) := by
    intro l hl
    cases hl with
    | one _ hi => exact last_item _ hi
    | more l' i _ hi =>
      obtain ⟨k, hk, hk'⟩ := last_item i hi
      exact ⟨k, by rw [List.getLast?_append, hk]; rfl, hk'⟩
  obtain ⟨k, hk, hk'⟩ := last_list _ hl
  have : (kinds ts).getLast? = ts.getLast?.map (·.k) := by simp [kinds, List.getLast?_map]
  rw [this] at hk
  cases hts : ts.getLast? with
  | none => simp [hts] at hk
  | some t => simp [hts] at hk; exact ⟨t, rfl, by rw [hk]; exact hk'⟩

/-- the lexer terminates on every input (no hang at end of input, D2 fixed): the outcome is a token list followed
by a silent end of input, or an "expect symbol" error -/
theorem lexer_total (s : List Char) : (∃ ts, lexChars s = .ok ts) ∨ (∃ ts, lexChars s = .err ts) := by
  cases h : lexChars s with
  | ok ts => exact Or.inl ⟨ts, rfl⟩
  | err ts => exact Or.inr ⟨ts, rfl⟩
  | hang ts => exact absurd h (lex_total s ts)

/-- the scanner's silent `default: return EOF` cannot fire inside the input: any rune that is not white space,
the comment start, a single-rune token or a digit starts a symbol -/
theorem no_silent_stop (c : Char) (hs : isSpace c = false) (hc : c ≠ commentStart) (ht : singleTok c = none) :
    isSymbolRune c = true := unhandled_is_symbol c hs hc ht

/-- **acceptance**: the text commands accept exactly the texts whose token stream ends silently at the end of
input and is a sentence of the grammar; everything else is an error (never a crash, never a hang) -/
theorem accepts_iff (s : List Char) :
    (∃ t, parseTextChars s = .ok t) ↔ ∃ ts, lexChars s = .ok ts ∧ Derives grammarRules (.n .result) (kinds ts) := by
  unfold parseTextChars
  constructor
  · rintro ⟨t, h⟩
    cases hl : lexChars s with
    | hang ts => simp [hl] at h
    | err ts => simp [hl] at h
    | ok ts =>
      simp only [hl] at h
      cases hp : parseToks ts with
      | none => simp [hp] at h
      | some items => exact ⟨ts, rfl, (parser_decides_grammar ts).mp (by simp [hp])⟩
  · rintro ⟨ts, hl, hd⟩
    have := (parser_decides_grammar ts).mpr hd
    cases hp : parseToks ts with
    | none => simp [hp] at this
    | some items => exact ⟨items, by simp [hl, hp]⟩

theorem never_crashes (s : List Char) : ∀ site, parseTextChars s ≠ .error (.hang site) ∧ parseTextChars s ≠ .error (.panic site) := by
  intro site
  unfold parseTextChars
  cases hl : lexChars s with
  | hang ts => exact absurd hl (lex_total s ts)
  | err ts => simp
  | ok ts => cases hp : parseToks ts <;> simp [hp]

/-- **every character of the text is accounted for** ("as written", "no suffix is ever silently dropped", at the level
of characters): when the lexer ends silently with the tokens `ts`, the text is exactly those tokens' own characters, in
order, with nothing but white space and `;` comments before, between and after them -/
theorem text_is_tokens_and_trivia (s : List Char) (ts : List Tok) (h : lexChars s = .ok ts) : ∃ gaps, Weave gaps ts s :=
  lex_faithful s ts h

/-! non-vacuity -/
example : (parseTextChars "C#m7b5[1] ;c\n Bb_7/D[1/4,2]{txt=hi there,key=Am}".toList).toOption.map (·.length) = some 2 := by decide
example : (parseTextChars "C[1".toList).toOption.isNone = true := by decide
example : (parseTextChars "C[1] ]".toList).toOption.isNone = true := by decide

end Crd.Props.C04
