import Crd.Lemmas.Progression
import Crd.Lemmas.Transpose

/-!
# C05 — one progression, one meaning: degrees vs note names in any key, with key changes

"A progression converts to the same instances whether it is written with degree numbers or with note names in any
supported key, including pieces that change key mid-way with {key=...} (the change applies from the chord that
carries it onwards).  Playing the same instances in two keys produces the same MIDI events with every pitch
shifted by the distance between the tonics and nothing else changed."
-/
namespace Crd.Props.C05
open Crd Crd.Spec

/-- **degrees vs note names**: for every abstract progression — roots on degrees 1..7 with ♭/♮/♯, any symbol,
optional bass (an interval above the root), rests, any durations, any metadata with key changes at arbitrary
positions — and every start key: whenever the progression can be spelled with note names at all (each note
needs at most one accidental), `text conv syllable` of that spelling yields exactly the instance list that
`text conv degree` yields for the degree spelling (same chords, basses, durations, settings, texts — and the
same failure if a duration or setting is malformed) -/
theorem degree_vs_syllable (p : List AItem) (hp : ∀ a ∈ p, a.WF) (s : Scale) (hs : IsScale s) (items : List Item)
    (h : sylItems s p = some items) (sd : Scale) :
    convItems .syllable s items = convItems .degree sd (p.map degItem) :=
  Crd.degree_vs_syllable p hp s hs items h sd

/-- the key change applies from the chord that carries it: the scale used to read an item is the one its own
`key=` names (if any), and it stays in force afterwards -/
theorem key_change_applies_from_carrier (s : Scale) (a : AItem) (s' : Scale) (h : keyAfter s a = some s') (i : Instance)
    (hm : modifyMeta { mta := convMeta a.mta } (convMeta a.mta) = .ok i) :
    (i.key = none → s' = s) ∧ (∀ k, i.key = some k → newScale k = some s') := by
  unfold keyAfter at h
  simp only [hm] at h
  constructor
  · intro hk; simp [hk] at h; exact h.symm
  · intro k hk; simp [hk] at h; exact h

/-- the spellable notes are exactly those needing at most one accidental: for every reference note and interval,
`spell` fails only if the required accidental is a double sharp or double flat -/
theorem spell_fails_only_on_double_accidentals : ∀ ref ∈ Crd.Props.C03.notes21, ∀ a ∈ aNotes,
    (spell ref a).isNone = true →
      ∃ size : Int, (degOf a).bind (fun d => specSize d.value d.name) = some size ∧
        (2 ≤ size - (naturalPitch (letterUp ref.name (a.n - 1)) - naturalPitch ref.name).emod 12 + accShift ref.acc ∨
         size - (naturalPitch (letterUp ref.name (a.n - 1)) - naturalPitch ref.name).emod 12 + accShift ref.acc ≤ -2) := by
  decide

/-- **transposition at chord level**: in key k₂ every key of a chord is the key in k₁ plus the distance between
the tonics -/
theorem chord_transposes (d : Dict) (k1 k2 : Key) (c : ChordIn) (ks1 : List Nat) (t1 t2 : Int)
    (h1 : applyChord d k1 c = .ok ks1) (hk1 : k1.semitone? = some t1) (hk2 : k2.semitone? = some t2) :
    applyChord d k2 c = .ok (ks1.map fun (x : Nat) => u8 ((x : Int) + (t2 - t1))) :=
  applyChord_shift d k1 k2 c ks1 t1 t2 h1 hk1 hk2

/-- **transposition of a piece**: the timeline of instances without key changes, played from key k₂, is the
timeline played from k₁ with every note-on/note-off key shifted by tonic(k₂) − tonic(k₁): same ticks, order,
routing, velocities and setting events; nothing else changed -/
theorem piece_transposes (τ : List Rat' → Nat) (d : Dict) (k1 k2 : Key) (t1 t2 : Int)
    (hk1 : k1.semitone? = some t1) (hk2 : k2.semitone? = some t2) (is : List Instance) (hkf : KeyFree is)
    (T : Nat) (v0 : Dyn) (hok : ∀ i ∈ is, ∀ c, i.chord = some c → ∃ ks, applyChord d k1 c = .ok ks) :
    pieceLog τ d T false k2 v0 is = (pieceLog τ d T false k1 v0 is).map (shiftLog (t2 - t1)) :=
  pieceLog_transpose τ d k1 k2 t1 t2 hk1 hk2 is hkf T v0 hok

/-- inside the MIDI range the byte arithmetic is plain addition -/
theorem shift_in_range (x : Nat) (δ : Int) (h : 0 ≤ (x : Int) + δ ∧ (x : Int) + δ ≤ 127) : ((u8 ((x : Int) + δ) : Nat) : Int) = x + δ := by
  rw [u8_cast, emod_eq]; omega

/-! non-vacuity: II–V–I with a key change on the second chord, spelled in E♭ -/
def exProg : List AItem :=
  [.chord ⟨2, 0⟩ (some ⟨.SYMBOL, "m7".toList⟩) none [⟨⟨.NUMBER, ['1']⟩, none⟩] none,
   .chord ⟨5, 0⟩ (some ⟨.SYMBOL, ['7']⟩) (some ⟨3, -1⟩) [⟨⟨.NUMBER, ['1']⟩, none⟩]
      (some [⟨⟨.METADATA, "key".toList⟩, ⟨.METADATA, "F#m".toList⟩⟩]),
   .chord ⟨7, -1⟩ none none [⟨⟨.NUMBER, ['2']⟩, none⟩] none]
example : ((newScale ⟨.E, false, .flat⟩).bind fun s => (sylItems s exProg).map fun its => its.map fun
    | .chord d _ b _ _ => (String.ofList (d.head.v ++ (d.acc.map (·.v)).getD []), b.map fun x => String.ofList (x.head.v ++ (x.acc.map (·.v)).getD []))
    | .rest _ _ => ("R", none)) =
    some [("F", none), ("C#", some "E"), ("E", none)] := by decide

end Crd.Props.C05
