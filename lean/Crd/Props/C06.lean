import Crd.Lemmas.Piece
import Crd.Lemmas.Buckets

/-!
# C06 — track count never changes the music; every track ends when the piece ends

"For any instances document, `crd write --track N` contains, for every N ≥ 1, the same events at the same
absolute ticks as `--track 1` once the tracks are merged; only their distribution over tracks differs.  Every
track's end-of-track marker sits at the total duration of the piece — the sum of all instance lengths, trailing
rests included — so all tracks have the same, exact length."

All statements hold for every instance list, every tick function (hence also Go's float arithmetic), every
track count 1 ≤ N ≤ 65535, every instrument/program.  They are corollaries of the end-to-end refinement
`Crd.write_refines` (induction over the op history with the invariant "every track's clock = global clock").
-/
namespace Crd.Props.C06
open Crd Crd.Generated

/-- events of a track other than its end-of-track, with absolute ticks -/
def nonEOT (t : Track) : List (Nat × Ev) := t.timeline.filter (fun e => e.2 != .close)

/-- all tracks merged (track after track) -/
def merged (ts : List Track) : List (Nat × Ev) := ts.flatMap nonEOT

/-- the index → track selector never leaves the track list (no index panic) -/
theorem selector_in_range (N : Nat) (h : 1 ≤ N) (t : OpT) : selectTrack N t < N := select_in_range N h t

/-- the dictionary, the overridden instances and all failure conditions other than the bounds on N do not
depend on the track count -/
theorem prepare_independent_of_tracks (f : WriteFlags) (is : List Instance) (d : Dict) (N : Nat) (is' : List Instance)
    (h : prepareWrite f is = .ok (d, N, is')) (n : Nat) (h1 : 1 ≤ n) (h2 : n ≤ maxTracks) :
    prepareWrite { f with track := (n : Int) } is = .ok (d, n, is') := by
  unfold prepareWrite at h ⊢
  simp only [bind, Except.bind, pure, Except.pure] at h ⊢
  have e1 : ¬ ((n : Int) < 1) := by omega
  have e2 : ¬ ((n : Int) > (maxTracks : Nat)) := by omega
  simp only [e1, e2, if_false]
  split at h
  · cases h
  · split at h
    · cases h
    · revert h
      cases newDict f.userAttrs f.userChords with
      | none => intro h; cases h
      | some d0 =>
        simp only
        cases is with
        | nil =>
          simp only
          split <;> intro h
          · cases h
          · simp only [Except.ok.injEq, Prod.mk.injEq] at h ⊢
            exact ⟨h.1, by simp, h.2.2⟩
        | cons i rest =>
          simp only
          have : overrideFromFlags { f with track := (n : Int) } i = overrideFromFlags f i := rfl
          rw [this]
          cases overrideFromFlags f i with
          | error e => intro h; cases h
          | ok i' =>
            simp only
            split <;> intro h
            · cases h
            · simp only [Except.ok.injEq, Prod.mk.injEq] at h ⊢
              exact ⟨h.1, by simp, h.2.2⟩

/-- no event of the piece's timeline is an end-of-track -/
theorem pieceLog_no_close (τ : List Rat' → Nat) (d : Dict) (is : List Instance) :
    ∀ T first k0 v0, ∀ e ∈ pieceLog τ d T first k0 v0 is, e.2.2 ≠ .close := by
  induction is with
  | nil => intro T first k0 v0 e he; simp [pieceLog] at he
  | cons i is ih =>
    intro T first k0 v0 e he
    simp only [pieceLog, List.mem_append] at he
    have fixed_no : ∀ (mk : Nat → Ev) (hmk : ∀ k, mk k ≠ .close) (T i : Nat) (ks : List Nat), ∀ e ∈ fixedEvs mk T i ks, e.2.2 ≠ .close := by
      intro mk hmk T i ks
      induction ks generalizing i with
      | nil => intro e he; simp [fixedEvs] at he
      | cons k ks ih2 =>
        intro e he
        simp only [fixedEvs, List.mem_cons] at he
        rcases he with rfl | he
        · exact hmk k
        · exact ih2 _ e he
    rcases he with (he | he) | he
    · simp only [List.mem_filterMap] at he
      obtain ⟨c, _, hc⟩ := he
      cases c <;> simp [WCall.metaEv] at hc <;> subst hc <;> simp
    · cases hc : i.chord with
      | none => simp [hc] at he
      | some c =>
        simp only [hc] at he
        cases ha : applyChord d (i.key.getD k0) c with
        | err _ => simp [ha] at he
        | ok keys =>
          simp only [ha, List.mem_append] at he
          rcases he with he | he
          · exact fixed_no _ (by intro k; simp) _ _ _ e he
          · exact fixed_no _ (by intro k; simp) _ _ _ e he
    · exact ih _ _ _ _ e he

theorem nonEOT_of (t : Track) (X : List (Nat × Ev)) (T : Nat) (htl : t.timeline = X ++ [(T, .close)])
    (hno : ∀ e ∈ X, (e.2 != Ev.close) = true) : nonEOT t = X := by
  rw [nonEOT, htl, List.filter_append, List.filter_eq_self.mpr hno]; simp

/-- the reference timeline of a run: the writer's three initial events, then the piece -/
def refTimeline (f : WriteFlags) (d : Dict) (is' : List Instance) : List LogE :=
  initLog f.instrument f.program defaultSequenceName ++ pieceLog goTicks d 0 true defaultKey defaultVelocity is'

theorem share_no_close (f : WriteFlags) (d : Dict) (is' : List Instance) (N i : Nat) :
    ∀ e ∈ (((refTimeline f d is').filter (fun e => route N e = i)).map stripT), (e.2 != Ev.close) = true := by
  intro e he
  simp only [List.mem_map, List.mem_filter, refTimeline, List.mem_append] at he
  obtain ⟨x, ⟨hx, _⟩, rfl⟩ := he
  rcases hx with hx | hx
  · simp only [initLog, List.mem_cons, List.mem_nil_iff, or_false] at hx
    rcases hx with rfl | rfl | rfl <;> simp [stripT]
  · have := pieceLog_no_close goTicks d is' 0 true defaultKey defaultVelocity x hx
    simpa [stripT] using this

/-- **every track, whatever N**: its events are the share of the reference timeline routed to it (order
preserved), and its end-of-track — the last event, and the only one — sits at the total duration of the piece -/
theorem every_track_ends_at_total (f : WriteFlags) (is : List Instance) (tracks : List Track)
    (h : cmdWriteTracks f is = .ok tracks) :
    ∃ (d : Dict) (N : Nat) (is' : List Instance), prepareWrite f is = .ok (d, N, is') ∧ tracks.length = N ∧
      ∀ i, i < N → ∃ t, tracks[i]? = some t ∧ t.pending = 0 ∧
        nonEOT t = ((refTimeline f d is').filter (fun e => route N e = i)).map stripT ∧
        t.timeline = nonEOT t ++ [(totalTicks goTicks is', .close)] := by
  obtain ⟨d, N, is', hp, _, _, hlen, hall⟩ := write_refines f is tracks h
  refine ⟨d, N, is', hp, hlen, ?_⟩
  intro i hi
  obtain ⟨t, ht, hp0, htl⟩ := hall i hi
  have hne := nonEOT_of t _ _ htl (share_no_close f d is' N i)
  exact ⟨t, ht, hp0, hne, by rw [hne]; exact htl⟩

/-- **the merged music does not depend on the track count**: for any two track counts for which the command
succeeds, the merged (tick, event) lists are permutations of each other (same events at the same absolute
ticks; only their distribution over tracks differs) -/
theorem merged_independent_of_tracks (f : WriteFlags) (is : List Instance) (n₁ n₂ : Nat)
    (ts₁ ts₂ : List Track)
    (h₁ : cmdWriteTracks { f with track := (n₁ : Int) } is = .ok ts₁)
    (h₂ : cmdWriteTracks { f with track := (n₂ : Int) } is = .ok ts₂) :
    (merged ts₁).Perm (merged ts₂) := by
  -- both are permutations of the same reference timeline
  have key : ∀ (n : Nat) (ts : List Track), cmdWriteTracks { f with track := (n : Int) } is = .ok ts →
      ∃ d is' N, prepareWrite { f with track := (n : Int) } is = .ok (d, N, is') ∧ 1 ≤ N ∧ N ≤ maxTracks ∧
        (merged ts).Perm ((refTimeline f d is').map stripT) := by
    intro n ts h
    obtain ⟨d, N, is', hp, hlen, hall⟩ := every_track_ends_at_total _ is ts h
    obtain ⟨_, _, _, hp', hN1, hN2, _⟩ := write_refines _ is ts h
    rw [hp] at hp'; cases hp'
    refine ⟨d, is', N, hp, hN1, hN2, ?_⟩
    have hts : ts.map nonEOT = (List.range N).map fun i => ((refTimeline f d is').filter (fun e => route N e = i)).map stripT := by
      apply List.ext_getElem?
      intro i
      simp only [List.getElem?_map]
      by_cases hi : i < N
      · obtain ⟨t, ht, _, hne, _⟩ := hall i hi
        simp only [ht, Option.map_some, List.getElem?_range hi]
        exact congrArg some hne
      · have : ts[i]? = none := by rw [List.getElem?_eq_none_iff]; omega
        simp [this, hi]
    have hm : merged ts = (buckets N (route N) (refTimeline f d is')).map stripT := by
      unfold merged buckets
      rw [List.flatMap_def, hts, List.map_flatMap, List.flatMap_def]
    rw [hm]
    exact (buckets_perm N (route N) _ (fun x _ => select_in_range N hN1 _)).map _
  obtain ⟨d₁, is₁, N₁, hp₁, _, _, p₁⟩ := key n₁ ts₁ h₁
  obtain ⟨d₂, is₂, N₂, hp₂, hb1, hb2, p₂⟩ := key n₂ ts₂ h₂
  -- the prepared data agree (they do not depend on the track count)
  have e := prepare_independent_of_tracks _ is d₁ N₁ is₁ hp₁ N₂ hb1 hb2
  have hN2 : N₂ = n₂ := by
    have := hp₂
    unfold prepareWrite at this
    simp only [bind, Except.bind, pure, Except.pure] at this
    repeat' split at this
    all_goals (first | cases this | skip)
    all_goals simp_all
  subst hN2
  have e' : prepareWrite { f with track := (N₂ : Int) } is = .ok (d₁, N₂, is₁) := e
  rw [hp₂] at e'
  cases e'
  exact p₁.trans p₂.symm

/-! non-vacuity: a three-instance piece ending in a rest, on 1, 2 and 5 tracks -/
def exPiece : List Instance :=
  [{ chord := some ⟨⟨1, .perfect⟩, "", none⟩, values := [⟨1, 1⟩] },
   { chord := some ⟨⟨2, .major⟩, "m7", none⟩, values := [⟨1, 2⟩], key := some ⟨.A, true, .natural⟩ },
   { values := [⟨3, 2⟩] }]
example : ((cmdWriteTracks { track := 2 } exPiece).toOption.map fun ts => ts.map fun t => t.timeline.getLast?) =
    some [some (2880, .close), some (2880, .close)] := by decide

end Crd.Props.C06
