import Crd.Lemmas.PieceIndex
import Crd.Model.Smf
import Crd.Props.C13
import Crd.Props.C06

/-!
# C07 — tempo, meter, key-signature and text events: right value at the right time

"At tick 0 the file states tempo, time signature and key signature (100 bpm, 4/4, C unless the first instance or a
--bpm, --meter, --key or --velocity flag says otherwise; flags replace the first instance's settings only), and each
later instance that sets bpm, meter or key produces the corresponding event at that instance's start with
microseconds-per-quarter = 60,000,000/bpm, the written numerator/denominator, and the conventional number of
sharps or flats and mode of the key.  `txt`, `lic`, `mrk` metadata become text, lyric and marker events with the
exact (UTF-8) text at the start of their instance; a dynamic (pp..ff) sets the velocity of all following notes,
louder never quieter."
-/
namespace Crd.Props.C07
open Crd Crd.Generated Crd.Spec Crd.Props.C13 Crd.Props.C06

theorem defaults : defaultBPM = 100 ∧ defaultMeter = (4, 4) ∧ defaultKey = ⟨.C, false, .natural⟩ ∧ defaultVelocity = .mp ∧
    metaTextKey = "txt" ∧ metaLyricKey = "lic" ∧ metaMarkerKey = "mrk" := by decide

/-- the first instance always states tempo, meter and key — its own values or the defaults — then its texts -/
theorem first_instance_states_all (i : Instance) :
    settingsCalls true i = (keySigCall (i.key.getD defaultKey)).map fun k =>
      [WCall.tempo (i.bpm.getD defaultBPM), meterCall (i.meter.getD ⟨defaultMeter.1, defaultMeter.2⟩), k] ++ textCalls (i.mta.getD []) := by
  unfold settingsCalls
  cases keySigCall (i.key.getD defaultKey) <;> simp

/-- a later instance emits an event exactly for each of bpm / meter / key / metadata it carries, with its own
value, in this order; nothing when it carries none -/
theorem later_instance_exactly_its_settings (i : Instance) :
    settingsCalls false i =
      (match i.key with | none => some [] | some k => (keySigCall k).map ([·])).map fun k =>
        (i.bpm.map WCall.tempo).toList ++ (i.meter.map meterCall).toList ++ k ++ (i.mta.map textCalls).getD [] := by
  cases hk : i.key <;> simp [settingsCalls, hk]

/-- texts: `txt`, `lic`, `mrk` with a non-empty value become text, lyric, marker calls carrying exactly that
value (an empty value counts as absent, as the code does) -/
theorem text_calls (m : List (String × String)) :
    textCalls m = (if metaGet m "txt" ≠ "" then [WCall.text (metaGet m "txt")] else []) ++
                  (if metaGet m "lic" ≠ "" then [WCall.lyric (metaGet m "lic")] else []) ++
                  (if metaGet m "mrk" ≠ "" then [WCall.marker (metaGet m "mrk")] else []) := by
  obtain ⟨_, _, _, _, h1, h2, h3⟩ := defaults
  unfold textCalls; rw [h1, h2, h3]

def isSetting (e : LogE) : Bool :=
  match e.2.2 with
  | .tempo _ | .meter _ _ | .keySig _ _ _ _ | .text _ | .lyric _ | .marker _ => true
  | _ => false

/-- **the right time**: the setting events of the whole piece are, instance by instance, that instance's setting
events, all stamped with the instance's start tick (the sum of the lengths before it) — first instance at 0 -/
theorem settings_at_instance_start (f : WriteFlags) (d : Dict) (is' : List Instance) :
    (refTimeline f d is').filter isSetting =
      (List.range is'.length).flatMap fun j => match is'[j]? with
        | none => []
        | some i => instSettings (j == 0) (startAt goTicks is' j) i := by
  unfold refTimeline
  rw [pieceLog_by_instance, List.filter_append, List.filter_flatMap]
  have h0 : (initLog f.instrument f.program defaultSequenceName).filter isSetting = [] := by simp [initLog, isSetting]
  rw [h0, List.nil_append]
  simp only [List.flatMap_def]
  congr 1
  apply List.map_congr_left
  intro j _
  unfold instLogAt
  cases is'[j]? with
  | none => rfl
  | some i =>
    simp only [Nat.zero_add, List.filter_append, Bool.true_and]
    have hs : (instSettings (j == 0) (startAt goTicks is' j) i).filter isSetting = instSettings (j == 0) (startAt goTicks is' j) i := by
      rw [List.filter_eq_self]
      intro e he
      simp only [instSettings, List.mem_filterMap] at he
      obtain ⟨c, _, hc⟩ := he
      cases c <;> simp [WCall.metaEv] at hc <;> subst hc <;> rfl
    have hfix : ∀ (mk : Nat → Ev), (∀ k, isSetting (0, OpT.metaT, mk k) = false) → ∀ (T i0 : Nat) (ks : List Nat),
        (fixedEvs mk T i0 ks).filter isSetting = [] := by
      intro mk hmk T i0 ks
      induction ks generalizing i0 with
      | nil => rfl
      | cons k ks ih => rw [fixedEvs, List.filter_cons_of_neg (by simpa [isSetting] using hmk k), ih]
    have hon : (instOns d (keyAt defaultKey is' j) (dynAt defaultVelocity is' j) (startAt goTicks is' j) i).filter isSetting = [] := by
      unfold instOns
      split
      · rfl
      · split
        · exact hfix _ (fun _ => rfl) _ _ _
        · rfl
    have hoff : (instOffs d (keyAt defaultKey is' j) (startAt goTicks is' j + goTicks i.values) i).filter isSetting = [] := by
      unfold instOffs
      split
      · rfl
      · split
        · exact hfix _ (fun _ => rfl) _ _ _
        · rfl
    rw [hs, hon, hoff]; simp

/-- flags: a flag left at its empty/zero default changes nothing; a set flag replaces that setting of the first
instance (and only of the first: `prepared_tail_unchanged` in C01) -/
theorem flags_override_first_instance (f : WriteFlags) (i i' : Instance) (h : overrideFromFlags f i = .ok i') :
    i'.bpm = (if f.bpm = 0 then i.bpm else some f.bpm) ∧
    (f.velocity = "" → i'.velocity = i.velocity) ∧ (f.velocity ≠ "" → i'.velocity = some (Dyn.ofString f.velocity) ∧ Dyn.ofString f.velocity ≠ .unknown) ∧
    (f.meter = "" → i'.meter = i.meter) ∧ (f.meter ≠ "" → i'.meter = parseRat f.meter.toList ∧ i'.meter.isSome) ∧
    (f.key = "" → i'.key = i.key) ∧ (f.key ≠ "" → i'.key = parseKey f.key.toList ∧ i'.key.isSome) ∧
    i'.mta = i.mta ∧ i'.chord = i.chord ∧ i'.values = i.values := by
  unfold overrideFromFlags at h
  simp only [bind, Except.bind, pure, Except.pure] at h
  repeat' split at h
  all_goals (first | cases h | skip)
  all_goals simp_all

/-! ### payloads -/

/-- time signature: numerator, log₂ of the denominator, 8, 8 — for every numerator and every power-of-two
denominator that fits a byte -/
theorem meter_payload (n : Nat) : ∀ k ∈ List.range 8, (Ev.meter n (2 ^ k)).bytes = [0xFF, 0x58, 4, n, k, 8, 8] := by
  have h : ∀ k ∈ List.range 8, dec2binDenom (2 ^ k) = k ∧ vlq 4 = [4] := by decide
  intro k hk
  obtain ⟨h1, h2⟩ := h k hk
  simp [Ev.bytes, metaMsg, h1, h2]

/-- key signature: for every supported key, sf = +sharps / −flats = the conventional signature (line of fifths,
C13's specification) as a two's-complement byte, mi = 1 for minor -/
theorem keysig_payload : ∀ k ∈ requiredKeys,
    (match keySigCall k with
     | some (.keySig t ma n fl) =>
        decide ((Ev.keySig t ma n fl).bytes = [0xFF, 0x59, 2, ((conventionalSignature k).emod 256).toNat, if k.minor then 1 else 0])
     | _ => false) = true := by decide

/-- text, lyric and marker events carry exactly the UTF-8 bytes of the value -/
theorem text_payload (s : String) :
    (Ev.text s).bytes = [0xFF, 0x01] ++ vlq (strBytes s).length ++ strBytes s ∧
    (Ev.lyric s).bytes = [0xFF, 0x05] ++ vlq (strBytes s).length ++ strBytes s ∧
    (Ev.marker s).bytes = [0xFF, 0x06] ++ vlq (strBytes s).length ++ strBytes s := ⟨rfl, rfl, rfl⟩

/-- tempo: three big-endian bytes of the value gomidi computes -/
theorem tempo_payload_shape (bpm : Nat) (h : tempoMicros bpm < 2 ^ 24) :
    (Ev.tempo bpm).bytes = [0xFF, 0x51, 3] ++ be 3 (tempoMicros bpm) := by
  have hv : vlq 3 = [3] := by decide
  have hl : (be 3 (tempoMicros bpm)).length = 3 := by simp [be]
  have hmin : min (tempoMicros bpm) 0x0FFFFFFF = tempoMicros bpm := by
    apply Nat.min_eq_left; have : (2:Nat) ^ 24 ≤ 0x0FFFFFFF := by decide
    omega
  simp [Ev.bytes, metaMsg, tempoPayload, hmin, h, hl, hv]

set_option maxRecDepth 1000000 in
/-- for the tempi musicians write (here: every integer from 4 to 1000 bpm) the value is 60,000,000/bpm rounded
to the nearest integer, halves up — kernel evaluation of the float model (a finite check; the general theorem
for 4 ≤ bpm < 2^26 is in `Crd/Lemmas/FloatTempo.lean` when present) -/
theorem tempo_value_partial : ∀ bpm ∈ List.range 1001, 4 ≤ bpm → tempoMicros bpm = (2 * 60000000 + bpm) / (2 * bpm) := by
  decide

/-! ### dynamics -/

/-- the six dynamics map to strictly increasing velocities pp < p < mp < mf < f < ff, all positive, none above 127 -/
theorem dynamics_monotone :
    0 < Dyn.velocity .pp ∧ Dyn.velocity .pp < Dyn.velocity .p ∧ Dyn.velocity .p < Dyn.velocity .mp ∧
    Dyn.velocity .mp < Dyn.velocity .mf ∧ Dyn.velocity .mf < Dyn.velocity .f ∧ Dyn.velocity .f < Dyn.velocity .ff ∧
    Dyn.velocity .ff ≤ 127 ∧
    [Dyn.ofString "pp", Dyn.ofString "p", Dyn.ofString "mp", Dyn.ofString "mf", Dyn.ofString "f", Dyn.ofString "ff"] =
      [.pp, .p, .mp, .mf, .f, .ff] := by decide

/-- a dynamic persists: the velocity of the notes of instance `j` is that of the most recent dynamic at or before
it (mp at the start) — `dynAt` is by definition that most recent value, and `instOns` uses it -/
theorem velocity_persists (v0 : Dyn) (is : List Instance) (j : Nat) :
    dynAt v0 is j = (((is.take (j + 1)).filterMap (·.velocity)).getLast?).getD v0 := rfl

/-! non-vacuity -/
example : settingsCalls true { values := [⟨1, 1⟩] } = some [.tempo 100, .meter 4 4, .keySig 0 true 0 false] := by decide
example : settingsCalls false { values := [⟨1, 1⟩], bpm := some 90, mta := some [("txt", "é")] } = some [.tempo 90, .text "é"] := by
  decide
example : tempoMicros 120 = 500000 := by decide

end Crd.Props.C07
