import Crd.Float.Ticks
import Crd.Props.C07

/-!
# C07, tempo value — "microseconds-per-quarter = 60,000,000 / bpm" for EVERY tempo

`Crd.Props.C07.tempo_value_partial` checks bpm ≤ 1000 by evaluation; here the statement is proved for all bpm ≥ 1 from
the error analysis of the soft-float model (three roundings; 60,000,000 is far below 2^52 / 12).
-/
namespace Crd.Props.C07
open Crd

/-- the tempo event carries the nearest integer of 60,000,000 / bpm, for every bpm ≥ 1 (the lower neighbour only when
the quotient is exactly halfway) -/
theorem tempo_value (bpm : Nat) (hb : 0 < bpm) :
    tempoMicros bpm = (2 * 60000000 + bpm) / (2 * bpm) ∨
      ((2 * 60000000 + bpm) % (2 * bpm) = 0 ∧ tempoMicros bpm + 1 = (2 * 60000000 + bpm) / (2 * bpm)) :=
  tempo_nearest bpm hb

/-- from 4 bpm upwards the value fits the three bytes of the event (below that it cannot: the known finding D12) -/
theorem tempo_fits (bpm : Nat) (hb : 4 ≤ bpm) : tempoMicros bpm < 2 ^ 24 := by
  have hq : (2 * 60000000 + bpm) / (2 * bpm) ≤ 15000001 := by
    apply Nat.div_le_of_le_mul
    nlinarith
  rcases tempo_value bpm (by omega) with h | ⟨_, h⟩ <;> omega

/-- so for every bpm ≥ 4 the event is `FF 51 03` followed by that value in three big-endian bytes -/
theorem tempo_event (bpm : Nat) (hb : 4 ≤ bpm) :
    (Ev.tempo bpm).bytes = [0xFF, 0x51, 3] ++ be 3 (tempoMicros bpm) := tempo_payload_shape bpm (tempo_fits bpm hb)

example : tempoMicros 7 = 8571429 := by
  rcases tempo_value 7 (by norm_num) with h | ⟨h, _⟩
  · simpa using h
  · norm_num at h

end Crd.Props.C07
