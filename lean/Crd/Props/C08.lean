import Crd.Props.C06
import Crd.Props.C02
import Crd.Model.Raw
import Crd.Spec.SmfStrict
import Crd.Lemmas.Deltas

/-!
# C08 — every file written is a well-formed Standard MIDI File

"Whatever `crd write` outputs on success parses under a strict reading of the SMF specification: a 6-byte header
declaring format 0 for one track and format 1 for several, exactly --track track chunks whose lengths add up to
the file, valid variable-length deltas, data bytes below 128, and in every track exactly one end-of-track event,
which is last.  Every note-on is closed by a note-off of the same key and channel (no hanging or unmatched
notes), and tempo, time- and key-signature events live in the first track only."

This file holds the structural theorems about the abstract tracks the model of `crd write` produces (any
instances, any track count, any instrument/program) and the header bytes.  The byte-level statement — the strict
reader accepts the encoder's output and recovers the events — is `Crd/Props/C08Bytes.lean`; in addition the
strict reader (`Crd.Spec.parseSMF`, written from the SMF specification) is run on the REAL bytes of every
generated file on every run (`tie:write`, oracle `smf-strict`).
-/
namespace Crd.Props.C08
open Crd Crd.Generated Crd.Props.C06

/-- exactly `--track` tracks, between 1 and 65535 -/
theorem track_count (f : WriteFlags) (is : List Instance) (tracks : List Track) (h : cmdWriteTracks f is = .ok tracks) :
    1 ≤ tracks.length ∧ tracks.length ≤ 65535 ∧ (tracks.length : Int) = f.track := by
  obtain ⟨d, N, is', hp, h1, h2, hl, _⟩ := write_refines f is tracks h
  refine ⟨by omega, by rw [hl]; exact h2, ?_⟩
  unfold prepareWrite at hp
  simp only [bind, Except.bind, pure, Except.pure] at hp
  repeat' split at hp
  all_goals (first | cases hp | skip)
  all_goals simp_all
  all_goals omega

/-- in every track exactly one end-of-track event, and it is the last event -/
theorem one_eot_and_last (f : WriteFlags) (is : List Instance) (tracks : List Track) (h : cmdWriteTracks f is = .ok tracks) :
    ∀ t ∈ tracks, ∃ T, t.timeline = nonEOT t ++ [(T, .close)] ∧ (∀ e ∈ nonEOT t, e.2 ≠ .close) := by
  obtain ⟨d, N, is', _, hlen, hall⟩ := every_track_ends_at_total f is tracks h
  intro t ht
  obtain ⟨i, hi, hget⟩ := List.getElem_of_mem ht
  obtain ⟨t', ht', _, _, htl⟩ := hall i (hlen ▸ hi)
  have : t' = t := by rw [List.getElem?_eq_getElem hi, hget] at ht'; exact (Option.some.inj ht').symm
  subst this
  refine ⟨_, htl, ?_⟩
  intro e he
  simp only [nonEOT, List.mem_filter, bne_iff_ne] at he
  exact he.2

def isMetaEv : Ev → Bool
  | .seqName _ | .instrument _ | .tempo _ | .meter _ _ | .keySig _ _ _ _ | .text _ | .lyric _ | .marker _ => true
  | _ => false

/-- every non-note event of the piece is routed as a meta-track op, i.e. to track 0 -/
theorem meta_routed_to_first (τ : List Rat' → Nat) (d : Dict) (is : List Instance) :
    ∀ T first k0 v0, ∀ e ∈ pieceLog τ d T first k0 v0 is, isMetaEv e.2.2 = true → e.2.1 = .metaT := by
  induction is with
  | nil => intro T first k0 v0 e he; simp [pieceLog] at he
  | cons i is ih =>
    intro T first k0 v0 e he hm
    rw [pieceLog_cons] at he
    simp only [List.mem_append] at he
    have fx : ∀ (mk : Nat → Ev), (∀ k, isMetaEv (mk k) = false) → ∀ (T i0 : Nat) (ks : List Nat), ∀ e ∈ fixedEvs mk T i0 ks, isMetaEv e.2.2 = false := by
      intro mk hmk T i0 ks
      induction ks generalizing i0 with
      | nil => intro e he; simp [fixedEvs] at he
      | cons x xs ih2 =>
        intro e he
        simp only [fixedEvs, List.mem_cons] at he
        rcases he with rfl | he
        · exact hmk x
        · exact ih2 _ e he
    rcases he with (he | he | he) | he
    · simp only [instSettings, List.mem_filterMap] at he
      obtain ⟨c, _, hc⟩ := he
      cases hce : c.metaEv with
      | none => simp [hce] at hc
      | some ev => simp [hce] at hc; subst hc; rfl
    · exfalso
      unfold instOns at he
      split at he
      · simp at he
      · split at he
        · have := fx _ (fun _ => rfl) _ _ _ e he; rw [this] at hm; cases hm
        · simp at he
    · exfalso
      unfold instOffs at he
      split at he
      · simp at he
      · split at he
        · have := fx _ (fun _ => rfl) _ _ _ e he; rw [this] at hm; cases hm
        · simp at he
    · exact ih _ _ _ _ e he hm

/-- tempo, time-signature, key-signature (and text) events live in the first track only -/
theorem timing_meta_only_in_first_track (f : WriteFlags) (is : List Instance) (tracks : List Track)
    (h : cmdWriteTracks f is = .ok tracks) :
    ∀ i t, 0 < i → tracks[i]? = some t → ∀ e ∈ t.timeline, isMetaEv e.2 = false := by
  obtain ⟨d, N, is', _, hlen, hall⟩ := every_track_ends_at_total f is tracks h
  intro i t hi ht e he
  have hiN : i < N := by
    rw [← hlen]; exact (List.getElem?_eq_some_iff.mp ht).1
  obtain ⟨t', ht', _, hne, htl⟩ := hall i hiN
  rw [ht] at ht'; cases ht'
  rw [htl, hne] at he
  simp only [List.mem_append, List.mem_map, List.mem_filter, List.mem_singleton] at he
  rcases he with ⟨x, ⟨hx, hr⟩, rfl⟩ | rfl
  · cases hm : isMetaEv x.2.2 with
    | false => simpa [stripT] using hm
    | true =>
      exfalso
      have hmt : x.2.1 = .metaT := by
        simp only [refTimeline, List.mem_append] at hx
        rcases hx with hx | hx
        · simp only [initLog, List.mem_cons, List.mem_nil_iff, or_false] at hx
          rcases hx with rfl | rfl | rfl <;> rfl
        · exact meta_routed_to_first goTicks d is' 0 true defaultKey defaultVelocity x hx hm
      have : route N x = 0 := by simp [route, hmt, selectTrack]
      simp only [decide_eq_true_eq] at hr
      omega
  · rfl

/-- which keys of a chord go to track `t`: the same selection for the note-ons and the note-offs -/
def sel (N t : Nat) : Nat → List Nat → List (Nat × Nat)
  | _, [] => []
  | i, k :: ks => (if selectTrack N (.fixed i) = t then [(i, k)] else []) ++ sel N t (i + 1) ks

theorem share_of_fixed (mk : Nat → Ev) (N t T : Nat) : ∀ (i0 : Nat) (ks : List Nat),
    (fixedEvs mk T i0 ks).filter (fun e => route N e = t) = (sel N t i0 ks).map fun p => (T, OpT.fixed p.1, mk p.2) := by
  intro i0 ks
  induction ks generalizing i0 with
  | nil => rfl
  | cons k ks ih =>
    have := ih (i0 + 1)
    simp only [route] at this
    simp only [fixedEvs, sel, List.filter_cons, List.map_append]
    by_cases hsel : selectTrack N (.fixed i0) = t
    · simp [route, hsel, this]
    · simp [route, hsel, this]

/-- **no hanging or unmatched notes**: in every track, the note-offs an instance contributes are for exactly the
keys (and routing indices) of the note-ons it contributes to that same track, in the same order; ons at the
instance's start, offs at its end — so every note-on is closed in its own track by a note-off of the same key and
channel, and nothing else is closed -/
theorem notes_paired_per_track (d : Dict) (k : Key) (v : Dyn) (S E : Nat) (i : Instance) (N t : Nat) :
    ∃ picked : List (Nat × Nat),
      (instOns d k v S i).filter (fun e => route N e = t) = picked.map (fun p => (S, OpT.fixed p.1, Ev.noteOn 0 p.2 (v.velocity % 256))) ∧
      (instOffs d k E i).filter (fun e => route N e = t) = picked.map (fun p => (E, OpT.fixed p.1, Ev.noteOff 0 p.2)) := by
  cases hc : i.chord with
  | none => exact ⟨[], by simp [instOns, hc], by simp [instOffs, hc]⟩
  | some c =>
    cases ha : applyChord d k c with
    | err e => exact ⟨[], by simp [instOns, hc, ha], by simp [instOffs, hc, ha]⟩
    | ok keys =>
      refine ⟨sel N t 0 keys, ?_, ?_⟩
      · simp only [instOns, hc, ha]; exact share_of_fixed _ N t S 0 keys
      · simp only [instOffs, hc, ha]; exact share_of_fixed _ N t E 0 keys

/-- the header: "MThd", length 6, format 0 for one track and 1 for several, the track count, the division -/
theorem header_bytes (tpq : Nat) (tracks : List Track) (bytes : Bytes) (h : smfEncode tpq tracks = some bytes)
    (hn : tracks.length < 65536) (ht : tpq ≤ 32767) :
    bytes.take 14 = [0x4D, 0x54, 0x68, 0x64, 0, 0, 0, 6, 0, (if tracks.length > 1 then 1 else 0),
      tracks.length / 256, tracks.length % 256, tpq / 256, tpq % 256] := by
  unfold smfEncode at h
  simp only at h
  split at h
  · cases h
  · cases h
    have hs : strBytes "MThd" = [0x4D, 0x54, 0x68, 0x64] := by decide
    have h256 : tracks.length / 256 % 256 = tracks.length / 256 := Nat.mod_eq_of_lt (by omega)
    have ht2 : tpq / 256 % 256 = tpq / 256 := Nat.mod_eq_of_lt (by omega)
    have hmin : min tpq 32767 = tpq := Nat.min_eq_left ht
    simp only [chunk, hs, be, List.length_map]
    by_cases h1 : tracks.length > 1 <;>
      simp [h1, List.range, List.range.loop, hmin, Nat.mod_eq_of_lt hn, h256, ht2]

theorem ticks_per_quarter : ticksPerQuarter = 960 := by decide


/-- **valid variable-length deltas**: every delta time of every track is at most 0x0FFFFFFF, is written in at most four
bytes, and the strict reader reads exactly it back (gomidi's encoder against the specification's decoder, for every
value that can occur) -/
theorem delta_times_fit (f : WriteFlags) (is : List Instance) (tracks : List Track) (h : cmdWriteTracks f is = .ok tracks) :
    ∀ t ∈ tracks, ∀ x ∈ t.ops, x.1 ≤ 0x0FFFFFFF ∧ ∀ rest, Crd.Spec.readVlq (vlq x.1 ++ rest) = some (x.1, rest) :=
  deltas_fit f is tracks h

/-- a piece longer than any delta time can span is refused (D22 fix), so no malformed delta is ever written -/
theorem too_long_refused (f : WriteFlags) (is : List Instance) (d : Dict) (N : Nat) (is' : List Instance)
    (hp : prepareWrite f is = .ok (d, N, is')) (hlong : pieceTicks goTicks is' > 0x0FFFFFFF) :
    ∃ e, cmdWriteTracks f is = .error e := by
  unfold cmdWriteTracks
  simp only [hp, bind, Except.bind]
  cases hw : playWrite d is' with
  | error e => exact ⟨e, rfl⟩
  | ok calls =>
    have : pieceTicks goTicks is' > maxTicks := hlong
    simp only [this, if_true]
    exact ⟨_, rfl⟩

/-! non-vacuity -/
example : ((cmdWrite {} [] [{ chord := some ⟨some "1", "m7", none⟩, values := ["1"] }]).toOption.map (·.take 22)) =
    some [0x4D, 0x54, 0x68, 0x64, 0, 0, 0, 6, 0, 0, 0, 1, 3, 192, 0x4D, 0x54, 0x72, 0x6B, 0, 0, 0, 77] := by decide

end Crd.Props.C08
