import Crd.Lemmas.SmfCrd
import Crd.Lemmas.SmfBalance
import Crd.Lemmas.Deltas
import Crd.Props.C08
import Crd.Props.C01

/-!
# C08 at byte level — the strict reader accepts every file `crd write` produces and recovers every event

"Whatever `crd write` outputs on success parses under a strict reading of the SMF specification: a 6-byte header
declaring format 0 for one track and format 1 for several, exactly --track track chunks whose lengths add up to the
file, valid variable-length deltas, data bytes below 128, and in every track exactly one end-of-track event, which
is last."

`Crd.Spec.parseSMF` is written from the SMF 1.0 specification and shares no code with the encoder model
(`smfEncode`, modelled on gomidi and byte-compared with it on every run).  The theorem composes the end-to-end
refinement of `crd write` (C01/C02/C06) with: VLQ round trip for every delta up to 0x0FFFFFFF (which the D22 fix
guarantees), running status on both sides, meta lengths, the key-signature range for every supported key, chunk
lengths, header fields.  The two size hypotheses are the format's own limits, stated rather than hidden: a text
shorter than 2^28 bytes, a track chunk shorter than 2^32 bytes.
-/
namespace Crd.Props.C08
open Crd Crd.Spec Crd.Generated Crd.Props.C06

/-- the flags never touch the texts of an instance -/
theorem prepare_keeps_texts (f : WriteFlags) (is is' : List Instance) (d : Dict) (N : Nat)
    (h : prepareWrite f is = .ok (d, N, is')) (ht : TextsFit is) : TextsFit is' := by
  have hov : ∀ i i', overrideFromFlags f i = .ok i' → i'.mta = i.mta := by
    intro i i' ho
    unfold overrideFromFlags at ho
    simp only [bind, Except.bind, pure, Except.pure, throw, throwThe, MonadExceptOf.throw] at ho
    repeat' split at ho
    all_goals (first | cases ho | skip)
    all_goals rfl
  cases is with
  | nil =>
    have : is' = [] := by
      unfold prepareWrite at h
      simp only [bind, Except.bind, pure, Except.pure, throw, throwThe, MonadExceptOf.throw] at h
      repeat' split at h
      all_goals (first | cases h | skip)
      all_goals rfl
    subst this
    intro j hj; cases hj
  | cons i rest =>
    obtain ⟨i', ho, rfl⟩ := Crd.Props.C01.prepared_tail_unchanged f i rest d N is' h
    intro j hj m hm kv hkv
    rcases List.mem_cons.mp hj with rfl | hj'
    · rw [hov i _ ho] at hm
      exact ht i (by simp) m hm kv hkv
    · exact ht j (by simp [hj']) m hm kv hkv

/-- **the strict reader accepts the file and recovers format, division, track count and every event of every track** -/
theorem written_file_parses (f : WriteFlags) (is : List Instance) (tracks : List Track)
    (h : cmdWriteTracks f is = .ok tracks)
    (hinstr : (strBytes f.instrument).length ≤ 0x0FFFFFFF) (htexts : TextsFit is)
    (hsize : ∀ t ∈ tracks, (trackData 0 t.ops).length < 2 ^ 32) :
    ∃ bytes, smfEncode ticksPerQuarter tracks = some bytes ∧
      parseSMF bytes = .ok ⟨if tracks.length > 1 then 1 else 0, ticksPerQuarter, tracks.map fun t => t.ops.map toS⟩ := by
  obtain ⟨d, N, is', hp, hN1, hN2, hlen, hall⟩ := write_refines f is tracks h
  have htf := prepare_keeps_texts f is is' d N hp htexts
  have hdel := deltas_fit f is tracks h
  -- facts about every track
  have key : ∀ t ∈ tracks, Closed t.ops ∧ ∀ x ∈ t.ops, GoodEv x.2 := by
    intro t ht
    obtain ⟨i, hi, hti⟩ := List.getElem_of_mem ht
    obtain ⟨t', ht', _, htl⟩ := hall i (by omega)
    have : t' = t := by
      rw [List.getElem?_eq_getElem hi] at ht'
      simpa [hti] using ht'.symm
    subst this
    have hnc := share_no_close f d is' N i
    have hev : t'.ops.map (·.2) = (((refTimeline f d is').filter (fun e => route N e = i)).map stripT).map (·.2) ++ [Ev.close] := by
      have := absTimes_events 0 t'.ops
      rw [show absTimes 0 t'.ops = t'.timeline from rfl, htl] at this
      simpa [refTimeline] using this.symm
    constructor
    · rw [closed_iff, hev]
      apply closedEvs_append
      intro e he
      obtain ⟨y, hy, rfl⟩ := List.mem_map.mp he
      have := hnc y hy
      simpa using this
    · intro x hx
      have hx2 : x.2 ∈ t'.ops.map (·.2) := List.mem_map.mpr ⟨x, hx, rfl⟩
      rw [hev] at hx2
      rcases List.mem_append.mp hx2 with hx2 | hx2
      · obtain ⟨y, hy, hyx⟩ := List.mem_map.mp hx2
        obtain ⟨z, hz, rfl⟩ := List.mem_map.mp hy
        have hz' := (List.mem_filter.mp hz).1
        simp only [stripT] at hyx
        rw [← hyx]
        simp only [refTimeline, List.mem_append] at hz'
        rcases hz' with hz' | hz'
        · simp only [initLog, List.mem_cons, List.mem_nil_iff, or_false] at hz'
          rcases hz' with rfl | rfl | rfl
          · exact good_seqName _ (by decide)
          · exact good_instrument _ hinstr
          · exact good_program _ _
        · exact pieceLog_good goTicks d is' htf _ _ _ _ z hz'
      · simp at hx2; rw [hx2]; exact good_close
  -- the encoder's tracks are the tracks themselves
  have hsm : tracks.map (fun t => smfTrack t.ops) = tracks.map (·.ops) := by
    apply List.map_congr_left
    intro t ht
    exact (smfTrack_closed t.ops (key t ht).1).1
  have hne : (tracks.map (·.ops)).isEmpty = false := by
    cases tracks with
    | nil => simp at hlen; omega
    | cons _ _ => rfl
  have hcl : (tracks.map (·.ops)).any (fun t => !isClosed t) = false := by
    rw [List.any_eq_false]
    intro t ht
    obtain ⟨t0, ht0, rfl⟩ := List.mem_map.mp ht
    simp [(smfTrack_closed t0.ops (key t0 ht0).1).2]
  have hlen' : (tracks.map (·.ops)).length = tracks.length := by simp
  have henc : smfEncode ticksPerQuarter tracks = some
      (chunk "MThd" (Crd.be 2 (if (tracks.map (·.ops)).length > 1 then 1 else 0) ++ Crd.be 2 ((tracks.map (·.ops)).length % 65536) ++
          Crd.be 2 (min ticksPerQuarter 32767)) ++ (tracks.map (·.ops)).flatMap fun t => chunk "MTrk" (trackData 0 t)) := by
    unfold smfEncode
    simp only [hsm, hne, hcl, Bool.or_false, Bool.false_eq_true, if_false]
  refine ⟨_, henc, ?_⟩
  have := parse_encode ticksPerQuarter (tracks.map (·.ops)) (by rw [hlen']; unfold maxTracks at hN2; omega) (by decide)
    (by
      intro t ht
      obtain ⟨t0, ht0, rfl⟩ := List.mem_map.mp ht
      exact ⟨(key t0 ht0).1, fun x hx => ⟨(hdel t0 ht0 x hx).1, ((key t0 ht0).2 x hx).1⟩, hsize t0 ht0⟩)
    (by
      intro t ht x hx
      obtain ⟨t0, ht0, rfl⟩ := List.mem_map.mp ht
      exact ((key t0 ht0).2 x hx).2)
  rw [this, hlen']
  simp [List.map_map, Function.comp_def]

end Crd.Props.C08

namespace Crd.Props.C08
open Crd Crd.Spec Crd.Generated

theorem decode_keeps_texts (r : RawInstance) (i : Instance) (h : decodeInstance r = .ok i) : i.mta = r.mta := by
  unfold decodeInstance at h
  obtain ⟨_, _, h⟩ := bind_ok h
  obtain ⟨_, _, h⟩ := bind_ok h
  obtain ⟨_, _, h⟩ := bind_ok h
  obtain ⟨_, _, h⟩ := bind_ok h
  obtain ⟨_, _, h⟩ := bind_ok h
  obtain ⟨_, _, h⟩ := bind_ok h
  cases h; rfl

/-- **from the instances document to the bytes**: whatever `crd write` outputs on success is accepted by the strict
reader, with the declared format, 960 ticks per quarter, and exactly `--track` tracks -/
theorem write_output_parses (f : WriteFlags) (attrs : List RawAttr) (rs : List RawInstance) (b : Bytes)
    (h : cmdWrite f attrs rs = .ok b)
    (hinstr : (strBytes f.instrument).length ≤ 0x0FFFFFFF)
    (htexts : ∀ r ∈ rs, ∀ m, r.mta = some m → ∀ kv ∈ m, (strBytes kv.2).length ≤ 0x0FFFFFFF)
    (hsize : ∀ (f' : WriteFlags) (is : List Instance) (ts : List Track), cmdWriteTracks f' is = .ok ts →
      ∀ t ∈ ts, (trackData 0 t.ops).length < 2 ^ 32) :
    ∃ file, parseSMF b = .ok file ∧ (file.tracks.length : Int) = f.track ∧ file.division = 960 ∧
      file.format = (if file.tracks.length > 1 then 1 else 0) := by
  unfold cmdWrite at h
  simp only [bind, Except.bind, pure, Except.pure, throw, throwThe, MonadExceptOf.throw] at h
  cases h1 : rs.mapM decodeInstance with
  | error e => simp [h1] at h
  | ok is =>
    simp only [h1] at h
    cases h2 : loadAttrs attrs with
    | error e => simp [h2] at h
    | ok as =>
      simp only [h2] at h
      cases h3 : cmdWriteTracks { f with userAttrs := as } is with
      | error e => simp [h3] at h
      | ok ts =>
        simp only [h3] at h
        have htf : TextsFit is := by
          have : ∀ (l : List RawInstance) (is : List Instance), l.mapM decodeInstance = .ok is →
              (∀ r ∈ l, ∀ m, r.mta = some m → ∀ kv ∈ m, (strBytes kv.2).length ≤ 0x0FFFFFFF) → TextsFit is := by
            intro l
            induction l with
            | nil => intro is hm _ i hi; simp [pure, Except.pure] at hm; subst hm; cases hi
            | cons a as' ih =>
              intro is hm hd i hi
              simp only [List.mapM_cons, bind, Except.bind, pure, Except.pure] at hm
              cases ha : decodeInstance a with
              | error _ => simp [ha] at hm
              | ok y =>
                simp only [ha] at hm
                cases has : as'.mapM decodeInstance with
                | error _ => simp [has] at hm
                | ok ys =>
                  simp [has] at hm; subst hm
                  rcases List.mem_cons.mp hi with rfl | hi'
                  · intro m hm' kv hkv
                    rw [decode_keeps_texts a _ ha] at hm'
                    exact hd a (by simp) m hm' kv hkv
                  · exact ih ys has (fun r hr => hd r (by simp [hr])) i hi'
          exact this rs is h1 htexts
        obtain ⟨bytes, henc, hparse⟩ := written_file_parses { f with userAttrs := as } is ts h3 hinstr htf
          (hsize _ _ _ h3)
        rw [henc] at h
        simp at h; subst h
        obtain ⟨_, _, hcnt⟩ := track_count { f with userAttrs := as } is ts h3
        refine ⟨_, hparse, ?_, rfl, ?_⟩
        · simpa using hcnt
        · simp

/-- non-vacuity: a two-track piece with a key change; the strict reader returns its 2 tracks of 8 and 19 events -/
example : ((cmdWriteTracks { track := 2 } Crd.Props.C01.exDoc).toOption.bind fun ts =>
      (smfEncode ticksPerQuarter ts).bind fun b => (parseSMF b).toOption.map fun f => (f.format, f.division, f.tracks.map (·.length))) =
    some (1, 960, [8, 19]) := by decide

end Crd.Props.C08

namespace Crd.Props.C08
open Crd Crd.Spec Crd.Generated Crd.Props.C06

/-- the flags only ever put a known dynamic on the first instance -/
theorem prepare_keeps_dyns (f : WriteFlags) (is is' : List Instance) (d : Dict) (N : Nat)
    (h : prepareWrite f is = .ok (d, N, is')) (hk : KnownDyns is) : KnownDyns is' := by
  have hov0 : ∀ i i', overrideFromFlags f i = .ok i' → i'.velocity = i.velocity ∨ ∃ d, d ≠ Dyn.unknown ∧ i'.velocity = some d := by
    intro i i' ho
    unfold overrideFromFlags at ho
    simp only [bind, Except.bind, pure, Except.pure, throw, throwThe, MonadExceptOf.throw] at ho
    repeat' split at ho
    all_goals (first | cases ho | skip)
    all_goals first
      | (left; rfl)
      | (right; refine ⟨_, ?_, rfl⟩; assumption)
  have hov : ∀ i i', overrideFromFlags f i = .ok i' → ∀ v, i'.velocity = some v → v ∈ sixDyns ∨ i.velocity = some v := by
    intro i i' ho v hv
    rcases hov0 i i' ho with h1 | ⟨dd, hd, h1⟩
    · right; rw [← h1]; exact hv
    · left; rw [h1] at hv; cases hv; exact dyn_mem _ hd
  cases is with
  | nil =>
    have : is' = [] := by
      unfold prepareWrite at h
      simp only [bind, Except.bind, pure, Except.pure, throw, throwThe, MonadExceptOf.throw] at h
      repeat' split at h
      all_goals (first | cases h | skip)
      all_goals rfl
    subst this
    intro j hj; cases hj
  | cons i rest =>
    obtain ⟨i', ho, rfl⟩ := Crd.Props.C01.prepared_tail_unchanged f i rest d N is' h
    intro j hj v hv
    rcases List.mem_cons.mp hj with rfl | hj'
    · rcases hov i _ ho v hv with h1 | h1
      · exact h1
      · exact hk i (by simp) v h1
    · exact hk j (by simp [hj']) v hv

/-- **no hanging or unmatched notes, as the strict reader sees the file**: in every track of the parsed file every
note-on is closed by a later note-off of the same key and channel, nothing is closed that is not open, nothing stays
open (`Crd.Spec.notesBalanced`) -/
theorem written_tracks_balanced (f : WriteFlags) (is : List Instance) (tracks : List Track)
    (h : cmdWriteTracks f is = .ok tracks) (hk : KnownDyns is) :
    ∀ t ∈ tracks, notesBalanced (t.ops.map toS) = true := by
  obtain ⟨d, N, is', hp, hN1, hN2, hlen, hall⟩ := write_refines f is tracks h
  have hk' := prepare_keeps_dyns f is is' d N hp hk
  intro t ht
  obtain ⟨i, hi, hti⟩ := List.getElem_of_mem ht
  obtain ⟨t', ht', _, htl⟩ := hall i (by omega)
  have : t' = t := by
    rw [List.getElem?_eq_getElem hi] at ht'
    simpa [hti] using ht'.symm
  subst this
  have hev : t'.ops.map (·.2) = (((refTimeline f d is').filter (fun e => route N e = i)).map stripT).map (·.2) ++ [Ev.close] := by
    have := absTimes_events 0 t'.ops
    rw [show absTimes 0 t'.ops = t'.timeline from rfl, htl] at this
    simpa [refTimeline] using this.symm
  unfold notesBalanced
  have hc : notesBalanced.go [] (t'.ops.map toS) = notesBalanced.go [] ((t'.ops.map (·.2)).map evS) := by
    apply go_congr
    · simp only [List.map_map]; apply List.map_congr_left; intro x _; exact (toS_on x).1
    · simp only [List.map_map]; apply List.map_congr_left; intro x _; exact (toS_on x).2
  rw [hc, hev]
  simp only [refTimeline, List.filter_append, List.map_append, List.map_map, List.append_assoc]
  -- initial events: ignored
  rw [go_skip_all]
  · have hb := pieceLog_balanced goTicks d N i is' hk' 0 true defaultKey defaultVelocity (by simp) [] ([Ev.close].map evS)
    simp only [Function.comp_def, stripT] at hb ⊢
    rw [hb]
    simp [notesBalanced.go, (evS_meta .close (Or.inr (Or.inl rfl))).1, (evS_meta .close (Or.inr (Or.inl rfl))).2]
  · intro e he
    obtain ⟨x, hx, rfl⟩ := List.mem_map.mp he
    have hx' := (List.mem_filter.mp hx).1
    simp only [initLog, List.mem_cons, List.mem_nil_iff, or_false] at hx'
    simp only [Function.comp_def, stripT]
    rcases hx' with rfl | rfl | rfl
    · exact evS_meta _ (Or.inl rfl)
    · exact evS_meta _ (Or.inl rfl)
    · exact evS_meta _ (Or.inr (Or.inr ⟨_, _, rfl⟩))

end Crd.Props.C08
