import Crd.Lemmas.NoCrash2
import Crd.Props.C10
import Crd.Generated.Sites

/-!
# C09 — no input crashes or hangs crd; failures are signalled; nonsense is refused

"For every byte sequence given as chord text, instances YAML or dictionary file and every combination of flag
values, each crd command terminates promptly without panic, fatal error or signal, and either succeeds or fails
with a non-zero exit status, a diagnostic on stderr and no result on stdout.  Musically meaningless input - zero
or zero-denominator durations, an instance without durations, tempo 0, an unknown dynamic, an unknown chord symbol
or modifier command, a key crd has no scale for, notation mixing letters and numbers, an empty piece - makes the
first command that has to interpret it fail in that way, whether it arrives as text metadata, as a YAML field or
as a flag value; it never reaches a MIDI file and is never silently turned into different music."

PARTIAL.  Proved here, for ALL inputs: the models of `text conv`, `write`, `write conv` (in which every `Must…`,
`logx.Panic`, unguarded loop of the Go code is an explicit `panic`/`hang` outcome) never produce such an outcome;
every nonsense kind named in the statement is refused on every path it can arrive on; a successful `write`
implies a sane piece.  NOT provable in a model: wall-clock promptness, the Go runtime's fatal errors, what cobra
and yaml.v3 do with bytes before crd's own code sees them, exit status / stderr / stdout of the process.  Those
are observed on the real binary by the `robust` stream (watchdog fuzz of every subcommand); a theorem about them
would be about an invented model of the OS.
-/
namespace Crd.Props.C09
open Crd Crd.Spec Crd.Generated

/-! ## never a crash, never a hang -/

/-- `crd text conv syllable|degree`, any `--key`, ANY byte sequence -/
theorem text_conv_never_crashes (mode : Mode) (key : String) (input : List Nat) :
    ∀ e, cmdTextConv mode key input = .error e → e.isCrash = false :=
  textConv_safe mode key (decodeUtf8 input)

/-- `crd text parse`, ANY byte sequence -/
theorem text_parse_never_crashes (input : List Nat) :
    ∀ e, parseText input = .error e → e.isCrash = false := by
  intro e h
  have := Crd.Props.C04.never_crashes (decodeUtf8 input)
  cases e with
  | hang site => exact absurd h (this site).1
  | panic site => exact absurd h (this site).2
  | _ => rfl

/-- `crd write`, ANY instances document (as scalar strings), attribute file and flag values -/
theorem write_never_crashes (f : WriteFlags) (attrs : List RawAttr) (rs : List RawInstance) :
    ∀ e, cmdWrite f attrs rs = .error e → e.isCrash = false := cmdWrite_safe f attrs rs

/-- `crd write conv` -/
theorem write_conv_never_crashes (f : WriteFlags) (attrs : List RawAttr) (cs : List String) (rs : List RawInstance) :
    ∀ e, cmdWriteConv f attrs cs rs = .error e → e.isCrash = false := cmdWriteConv_safe f attrs cs rs

/-- the lexer's loops stop at the end of input (the D2 fix), as a regenerated fact about lexer.go -/
theorem lexer_loops_guarded : eofSafe = true := by decide

/-! ## nonsense is refused — on every path it can arrive on -/

/-- zero numerator or zero denominator, as a YAML `values:` / `meter:` scalar -/
theorem zero_duration_refused_yaml (s : String) (r : Rat') (h : parseRat s.toList = some r) (hz : r.num = 0 ∨ r.den = 0) :
    decodeRat s = .error .invalid := by
  unfold decodeRat
  have : r.valid = false := by unfold Rat'.valid; rcases hz with hz | hz <;> simp [hz]
  simp [h, this]

/-- … as a duration written in chord text -/
theorem zero_duration_refused_text (v : ValueN) (r : Rat') (h : convValue v = .ok r) : 0 < r.num ∧ 0 < r.den := by
  have := (convValue_valid v r h).1
  unfold Rat'.valid at this
  simp at this; omega

/-- … as the `--meter` flag -/
theorem zero_meter_flag_refused (f : WriteFlags) (i i' : Instance) (h : overrideFromFlags f i = .ok i') (hm : f.meter ≠ "") :
    ∃ r, i'.meter = some r ∧ 0 < r.num ∧ 0 < r.den := by
  unfold overrideFromFlags at h
  simp only [bind, Except.bind, pure, Except.pure, throw, throwThe, MonadExceptOf.throw, hm, if_false] at h
  repeat' split at h
  all_goals (first | cases h | skip)
  all_goals (refine ⟨_, rfl, ?_⟩; simp_all [Rat'.valid]; omega)

/-- a YAML document containing a refused scalar anywhere in `values:` is refused as a whole -/
theorem bad_value_refuses_instance (r : RawInstance) (s : String) (hs : s ∈ r.values) (e : Err) (he : decodeRat s = .error e) :
    ∃ e', decodeInstance r = .error e' := by
  cases h : decodeInstance r with
  | error e' => exact ⟨e', rfl⟩
  | ok i =>
    exfalso
    unfold decodeInstance at h
    obtain ⟨chord, _, h⟩ := bind_ok h
    obtain ⟨values, hv, _⟩ := bind_ok h
    have : ∀ (l : List String) (vs : List Rat'), l.mapM decodeRat = .ok vs → ∀ x ∈ l, ∃ y, decodeRat x = .ok y := by
      intro l
      induction l with
      | nil => intro _ _ x hx; cases hx
      | cons a as ih =>
        intro vs hm x hx
        simp only [List.mapM_cons, bind, Except.bind, pure, Except.pure] at hm
        cases ha : decodeRat a with
        | error _ => simp [ha] at hm
        | ok y =>
          simp only [ha] at hm
          cases has : as.mapM decodeRat with
          | error _ => simp [has] at hm
          | ok ys =>
            rcases List.mem_cons.mp hx with rfl | hx'
            · exact ⟨y, ha⟩
            · exact ih ys has x hx'
    obtain ⟨y, hy⟩ := this _ _ hv s hs
    rw [he] at hy; cases hy

/-- tempo 0 as a YAML field and as text metadata (`--bpm 0` is the flag's default and means "no override") -/
theorem tempo_zero_refused (s : String) (h : parseUint s.toList = some 0) (m : List (String × String)) (i : Instance)
    (hm : metaGet m metaBPMKey = s) (hs : s ≠ "") :
    decodeBPM s = .error .invalid ∧ setBPM m i = .error .invalid := by
  refine ⟨by simp [decodeBPM, h], ?_⟩
  unfold setBPM
  simp [hm, hs, h]

/-- an unknown dynamic: YAML field, text metadata, `--velocity` flag -/
theorem unknown_dynamic_refused (s : String) (h : Dyn.ofString s = .unknown) (hs : s ≠ "") :
    decodeDyn s = .error .invalid ∧
    (∀ m i, metaGet m metaVelocityKey = s → setVelocity m i = .error .invalid) ∧
    (∀ f i, f.velocity = s → ∃ e, overrideFromFlags f i = .error e) := by
  refine ⟨by simp [decodeDyn, h], ?_, ?_⟩
  · intro m i hm; unfold setVelocity; simp [hm, hs, h]
  · intro f i hf
    cases hov : overrideFromFlags f i with
    | error e => exact ⟨e, rfl⟩
    | ok i' =>
      exfalso
      unfold overrideFromFlags at hov
      simp only [bind, Except.bind, pure, Except.pure, throw, throwThe, MonadExceptOf.throw, hf, hs, if_false, h] at hov
      cases hov

/-- what a successful `write` preparation guarantees: every chord symbol is in the dictionary (an unknown
symbol fails before anything is played) -/
theorem unknown_chord_refused (f : WriteFlags) (is is' : List Instance) (d : Dict) (n : Nat)
    (h : prepareWrite f is = .ok (d, n, is')) : ∀ i ∈ is', ∀ c, i.chord = some c → (d.chord c.name).isSome = true := by
  unfold prepareWrite at h
  simp only [bind, Except.bind, pure, Except.pure, throw, throwThe, MonadExceptOf.throw] at h
  repeat' split at h
  all_goals (first | cases h | skip)
  all_goals
    rename_i hany
    intro i hi c hc
    rw [Bool.not_eq_true, List.any_eq_false] at hany
    have := hany i hi
    simp only [hc] at this
    cases hd : d.chord c.name <;> simp_all

/-- an unknown modifier command of `write conv` -/
theorem unknown_modifier_refused (f : WriteFlags) (attrs : List RawAttr) (cs : List String) (rs : List RawInstance)
    (c : String) (hc : c ∈ cs) (hne : c ≠ "cmt") : ∃ e, cmdWriteConv f attrs cs rs = .error e := by
  unfold cmdWriteConv
  split
  · exact ⟨_, rfl⟩
  cases hd : rs.mapM decodeInstance with
  | error e => exact ⟨e, rfl⟩
  | ok is =>
    have : cs.any (· ≠ "cmt") = true := List.any_eq_true.mpr ⟨c, hc, by simpa using hne⟩
    simp only [Except.bind, this, if_true]
    exact ⟨_, rfl⟩

/-- what a successful play guarantees: the piece is not empty, every instance has durations, every key named
has a scale, every chord could be voiced -/
theorem played_piece_is_sane (d : Dict) (is : List Instance) (calls : List WCall) (h : playWrite d is = .ok calls) :
    is ≠ [] ∧ ∀ i ∈ is, i.values ≠ [] ∧ (∀ k, i.key = some k → (newScale k).isSome = true) := by
  rw [playWrite_eq_spec] at h
  split at h
  · cases h
  rename_i hne
  refine ⟨by simpa using hne, ?_⟩
  have : ∀ (is : List Instance) first k0 v0 calls, specLoop d first k0 v0 is = .ok calls →
      ∀ i ∈ is, i.values ≠ [] ∧ (∀ k, i.key = some k → (newScale k).isSome = true) := by
    intro is
    induction is with
    | nil => intro _ _ _ _ _ i hi; cases hi
    | cons a as ih =>
      intro first k0 v0 calls h i hi
      simp only [specLoop] at h
      split at h
      · cases h
      split at h
      · cases h
      rename_i hv hk
      have hrec : ∃ c', specLoop d false (a.key.getD k0) (a.velocity.getD v0) as = .ok c' := by
        repeat' split at h
        all_goals (first | cases h | skip)
        all_goals
          cases hr : specLoop d false (a.key.getD k0) (a.velocity.getD v0) as with
          | error e => simp [hr, Except.map] at h
          | ok c' => exact ⟨c', rfl⟩
      rcases List.mem_cons.mp hi with rfl | hi'
      · refine ⟨by simpa using hv, ?_⟩
        intro k hk'
        simp only [keyHasNoScale, hk'] at hk
        cases hn : newScale k <;> simp_all
      · obtain ⟨c', hc'⟩ := hrec
        exact ih _ _ _ _ hc' i hi'
  exact this is _ _ _ _ h

/-- the empty piece is refused by `write` (and has no text form: `Crd.Props.C04.empty_rejected`) -/
theorem empty_piece_refused (d : Dict) : playWrite d [] = .error .invalid := rfl

/-- a key without a scale in syllable text, and as `--key` of `text conv syllable` -/
theorem key_without_scale_refused (k : Key) (hk : newScale k = none) :
    (∀ s i, i.key = some k → changeScale .syllable s i = .error .notFound) ∧
    (∀ key, key ≠ "" → parseKey key.toList = some k → scaleOfFlag key = .error .notFound) := by
  refine ⟨?_, ?_⟩
  · intro s i hi; simp [changeScale, hi, hk]
  · intro key hne hp; simp [scaleOfFlag, hne, hp, hk]

/-- notation mixing letters and numbers -/
theorem mixed_notation_refused (t : List Item) (d1 d2 : DegreeN) (h1 : d1 ∈ t.flatMap Item.degrees)
    (h2 : d2 ∈ t.flatMap Item.degrees) (t1 : degreeType d1 = some .syllable) (t2 : degreeType d2 = some .degree) :
    classify t = .error .invalid := by
  have key : ∀ (ds : List DegreeN) (cur : Option AstType) (ty : AstType), classify.go cur ds = .ok ty →
      (∀ d ∈ ds, degreeType d = some ty) := by
    intro ds
    induction ds with
    | nil => intro _ _ _ d hd; cases hd
    | cons a as ih =>
      intro cur ty h d hd
      simp only [classify.go] at h
      cases ha : degreeType a with
      | none => simp [ha] at h
      | some ta =>
        simp only [ha] at h
        have cur_ok : ∀ (ds : List DegreeN) (c ty : AstType), classify.go (some c) ds = .ok ty → c = ty := by
          intro ds
          induction ds with
          | nil => intro c ty h; simpa [classify.go] using h
          | cons b bs ihb =>
            intro c ty h
            simp only [classify.go] at h
            cases hb : degreeType b with
            | none => simp [hb] at h
            | some tb =>
              simp only [hb] at h
              split at h
              · exact ihb c ty h
              · cases h
        cases cur with
        | none =>
          simp only at h
          have := cur_ok as ta ty h
          rcases List.mem_cons.mp hd with rfl | hd'
          · rw [ha, this]
          · exact ih _ _ h d hd'
        | some c =>
          simp only at h
          split at h
          · rename_i hct
            have := cur_ok as c ty h
            rcases List.mem_cons.mp hd with rfl | hd'
            · rw [ha, ← hct, this]
            · exact ih _ _ h d hd'
          · cases h
  cases hc : classify t with
  | error e =>
    have := classify_safe t e hc
    have inv : ∀ (ds : List DegreeN) (cur : Option AstType) e, classify.go cur ds = .error e → e = .invalid := by
      intro ds
      induction ds with
      | nil => intro cur e h; cases cur <;> simp [classify.go] at h; exact h.symm
      | cons a as ih =>
        intro cur e h
        simp only [classify.go] at h
        repeat' split at h
        all_goals (first | (cases h; rfl) | exact ih _ _ h)
    rw [inv _ _ e hc]
  | ok ty =>
    have a1 := key _ _ ty hc d1 h1
    have a2 := key _ _ ty hc d2 h2
    rw [t1] at a1; rw [t2] at a2; cases a1; cases a2

/-! ## never silently different music -/

/-- a successful `write` read a document every scalar of which is meaningful (given that chords carry their
degree), so nothing was replaced by a default on the way -/
theorem written_piece_was_valid (f : WriteFlags) (attrs : List RawAttr) (rs : List RawInstance) (b : Bytes)
    (h : cmdWrite f attrs rs = .ok b) (hdeg : ∀ r ∈ rs, ∀ c, r.chord = some c → c.degree.isSome = true) :
    ∃ is, rs.mapM decodeInstance = .ok is ∧ is ≠ [] ∧ ∀ i ∈ is, ValidInstance i := by
  unfold cmdWrite at h
  simp only [bind, Except.bind, pure, Except.pure] at h
  cases h1 : rs.mapM decodeInstance with
  | error e => simp [h1] at h
  | ok is =>
    refine ⟨is, rfl, ?_, ?_⟩
    · intro hnil
      subst hnil
      simp only [h1] at h
      cases h2 : loadAttrs attrs with
      | error e => simp [h2] at h
      | ok as =>
        simp only [h2, cmdWriteTracks, bind, Except.bind, pure, Except.pure] at h
        cases h3 : prepareWrite { f with userAttrs := as } [] with
        | error e => simp [h3] at h
        | ok p =>
          obtain ⟨d, n, is'⟩ := p
          have : is' = [] := by
            unfold prepareWrite at h3
            simp only [bind, Except.bind, pure, Except.pure, throw, throwThe, MonadExceptOf.throw] at h3
            repeat' split at h3
            all_goals (first | cases h3 | skip)
            all_goals rfl
          subst this
          simp [h3, playWrite] at h
    · have : ∀ (l : List RawInstance) (is : List Instance), l.mapM decodeInstance = .ok is →
          (∀ r ∈ l, ∀ c, r.chord = some c → c.degree.isSome = true) → ∀ i ∈ is, ValidInstance i := by
        intro l
        induction l with
        | nil => intro is hm _ i hi; simp [pure, Except.pure] at hm; subst hm; cases hi
        | cons a as ih =>
          intro is hm hd i hi
          simp only [List.mapM_cons, bind, Except.bind, pure, Except.pure] at hm
          cases ha : decodeInstance a with
          | error _ => simp [ha] at hm
          | ok y =>
            simp only [ha] at hm
            cases has : as.mapM decodeInstance with
            | error _ => simp [has] at hm
            | ok ys =>
              simp [has] at hm; subst hm
              rcases List.mem_cons.mp hi with rfl | hi'
              · exact Crd.Props.C10.decoded_is_valid a _ ha (hd a (by simp))
              · exact ih ys has (fun r hr => hd r (by simp [hr])) i hi'
      exact this rs is h1 hdeg


/-! ## every call that panics by design is known, and is fed only what cannot make it panic -/

/-- site (regenerated spelling, arguments as written) and why it cannot fire on user input -/
def expectedPanicSites : List (String × String) :=
  [("must cmd/flag.go getScale op.MustParseKey(\"C\")", "constant"),
   ("must note/degree.go <init> util.MustInverseMap(stringCoerceDegreeNameMap)", "start-up table, injective (C12 inverted_tables_injective)"),
   ("must note/name.go <init> util.MustInverseMap(nameStringMap)", "start-up table, injective"),
   ("must note/name.go <init> util.MustNewRing(C, D, E, F, G, A, B)", "constants, non-empty"),
   ("must note/note.go <init> regexp.MustCompile(`([A-G])([#b♯♭]?)`)", "constant pattern"),
   ("must op/circle.go circleMemberSeed.member MustNewScale(MustParseKey(x))", "x ranges over the circle seeds: C14 circles_build"),
   ("must op/circle.go circleMemberSeed.member MustParseKey(x)", "x ranges over the circle seeds: C14 circles_build"),
   ("must op/circle.go circleSeed.circle util.MustNewRing(xs)", "twelve seeds, non-empty"),
   ("must op/key.go <init> regexp.MustCompile(`([A-G])([#b♯♭]?)(m?)`)", "constant pattern (C10 key_pattern_modelled)"),
   ("must op/key.go <init> util.MustInverseMap(accidentalStringMap)", "start-up table, injective"),
   ("must op/scale.go keySignatures MustParseKey(k)", "k ranges over the keys of keyStringSignatures: signature_keys_parse"),
   ("must op/scale.go newRawScaleNotes util.MustNewRing(note.C, note.D, note.E, note.F, note.G, note.A, note.B)", "constants, non-empty"),
   ("must op/velocity.go <init> util.MustInverseMap(stringDynamicSignMap)", "start-up table, injective"),
   ("must play/args.go midiArgs.writeWhenUpdated op.MustNewScale(v)", "modelled as the `MustNewScale` panic outcome of settingsCalls: unreachable, write_never_crashes"),
   ("must play/write.go <init> op.MustNewMeter(4, 4)", "constants"),
   ("must play/write.go <init> op.MustParseKey(\"C\")", "constant"),
   ("panic chord/attribute.go BasicAttributes logx.Panic(err)", "embedded attribute.yml parses: regenerated as Generated.builtinAttrs"),
   ("panic chord/chord.go BasicChords logx.PanicOnError(err)", "embedded chord.yml parses: regenerated as Generated.builtinChords"),
   ("panic logx/log.go Panic panic(err)", "the helper itself"),
   ("panic midix/track.go TrackNoSelectorImpl.Select logx.Panic(errorx.Unexpected(\"TrackOp: %#v\", opType))", "only the two op types exist: C06 selector_in_range"),
   ("panic note/accidental.go Accidental.Semitone logx.Panic(fmt.Errorf(\"%w: %v\", ErrUnknownAccidental, a))", "modelled as `none` of NAcc.semitone?; only reached with the five accidentals"),
   ("panic note/degree.go CoerceDegreeName.String logx.Panic(ErrInvalidDegree)", "modelled as coercePanicText inside Sprintf (recovered by fmt); valid degrees never reach it: C10"),
   ("panic note/degree.go MustNewDegree logx.Panic(errorx.Unexpected(\"MustNewDegree(%d, %s)\", value, name))", "only called on table constants"),
   ("panic note/name.go Name.AddDegree logx.Panic(ErrUnknownName)", "modelled as the panic outcome of Note.addDegree; only `info` commands on parsed notes"),
   ("panic note/name.go Name.Semitone logx.Panic(ErrUnknownName)", "modelled as the `Name.Semitone` panic outcome: unreachable, write_never_crashes / text_conv_never_crashes"),
   ("panic note/value.go MustNewValue logx.PanicOnError(err)", "only called on constants"),
   ("panic op/key.go MustParseKey logx.PanicOnError(err)", "see the MustParseKey call sites above"),
   ("panic op/meter.go MustNewMeter logx.PanicOnError(err)", "see the MustNewMeter call site above"),
   ("panic op/scale.go MustNewScale logx.PanicOnError(err)", "see the MustNewScale call sites above"),
   ("panic util/conv.go MustInverseMap logx.PanicOnError(err)", "see the MustInverseMap call sites above"),
   ("panic util/ring.go MustNewRing logx.PanicOnError(err)", "see the MustNewRing call sites above")]

/-- **the list of panicking calls regenerated from /repo (with their arguments as written) is exactly the list
accounted for here**: a new `Must…`/`panic` call, or a constant argument replaced by a variable, breaks this obligation -/
theorem panic_sites_accounted : Crd.Generated.panicSites = expectedPanicSites.map (·.1) := by decide

/-- every key string of the signature table parses (so `MustParseKey(k)` at start-up cannot fire) and has a scale -/
theorem signature_keys_parse : ∀ e ∈ Crd.Generated.keyStringSignatures, (parseKey e.1.toList).isSome = true := by decide

/-! non-vacuity -/
example : decodeRat "0/4" = .error .invalid ∧ decodeRat "1/0" = .error .invalid ∧ decodeBPM "0" = .error .invalid := by decide
example : Dyn.ofString "loud" = .unknown := by decide
example : ∃ k, parseKey "G#".toList = some k ∧ newScale k = none := ⟨_, rfl, by decide⟩
example : (cmdTextConvChars .syllable "" "C[1] 1[1]".toList).toOption.isNone = true := by decide

end Crd.Props.C09
