import Crd.Lemmas.ConvValid2

/-!
# C10 — instances YAML is a faithful interchange format between the stages

"Everything `crd text conv` prints is accepted by `crd write` and means the same chords, bass notes, durations,
tempo, meter, dynamics, key and metadata texts that were written; every value of every scalar field (interval,
key, fraction, meter, dynamic, bpm, free text with any valid UTF-8 characters) survives printing and re-reading
unchanged.  The same holds for the output of `crd write conv`, whose only purpose is to be piped into `crd write`."

crd's own share of the format — the `MarshalYAML`/`UnmarshalYAML` methods and `String`/`Parse…` functions of every
scalar type — is modelled and proved to round-trip for ALL values.  yaml.v3 is assumed to carry string scalars
(any valid UTF-8 text) and the mapping/sequence structure unchanged; that assumption is exercised by the tie with
YAML-significant, multi-line and non-ASCII texts.
-/
namespace Crd.Props.C10
open Crd

/-- intervals: every valid interval whose number fits Go's uint -/
theorem degree_survives (d : Degree) (hv : d.valid = true) (hb : d.value < 2 ^ 64) : decodeDegree d.str = .ok d :=
  decodeDegree_rt d hv hb

/-- keys: all 42 spellings -/
theorem key_survives : ∀ k ∈ properKeys, decodeKey k.str = .ok k := key_roundtrip

/-- fractions (durations and meters): all n, d; the validators accept exactly positive numerator and denominator -/
theorem fraction_survives (r : Rat') (hv : r.valid = true) (hn : r.num < 2 ^ 64) (hd : r.den < 2 ^ 64) : decodeRat r.str = .ok r :=
  decodeRat_rt r hv hn hd

/-- dynamics -/
theorem dynamic_survives : ∀ d ∈ sixDyns, decodeDyn d.str = .ok d := dyn_roundtrip

/-- tempo -/
theorem bpm_survives (n : Nat) (h0 : 0 < n) (hn : n < 2 ^ 64) : decodeBPM (toString n) = .ok n := bpm_roundtrip n h0 hn

/-- free text is carried as the string itself by crd (no transformation on either side) -/
theorem text_survives (i : Instance) : (encodeInstance i).mta = i.mta := rfl

/-- a whole instance: print then read is the identity on every valid instance -/
theorem instance_survives (i : Instance) (h : ValidInstance i) : decodeInstance (encodeInstance i) = .ok i :=
  instance_roundtrip i h

/-- **`text conv` → `write`**: every instance `text conv` emits (any text, either notation, any key) is read back
by `write` as exactly the instance that was converted -/
theorem text_conv_output_readable (mode : Mode) (key : String) (input : List Char) (is : List Instance)
    (h : cmdTextConvChars mode key input = .ok is) : is.mapM (fun i => decodeInstance (encodeInstance i)) = .ok is := by
  have := conv_output_roundtrips mode key input is h
  clear h
  induction is with
  | nil => rfl
  | cons i rest ih =>
    have h1 := this i (by simp)
    have h2 := ih (fun x hx => this x (by simp [hx]))
    simp only [List.mapM_cons, h1, h2, bind, Except.bind, pure, Except.pure]

/-- what `write` reads is a valid instance as soon as every chord carries its degree -/
theorem decoded_is_valid (r : RawInstance) (i : Instance) (h : decodeInstance r = .ok i)
    (hdeg : ∀ c, r.chord = some c → c.degree.isSome = true) : ValidInstance i := by
  unfold decodeInstance at h
  obtain ⟨chord, hc, h⟩ := bind_ok h
  obtain ⟨values, hv, h⟩ := bind_ok h
  obtain ⟨bpm, hb, h⟩ := bind_ok h
  obtain ⟨vel, hve, h⟩ := bind_ok h
  obtain ⟨meter, hm, h⟩ := bind_ok h
  obtain ⟨key, hk, h⟩ := bind_ok h
  cases h
  have degOK : ∀ s d, decodeDegree s = .ok d → d.valid = true ∧ goUint d.value := by
    intro s d hd
    unfold decodeDegree at hd
    split at hd
    · rename_i x hx; cases hd; exact ⟨parse_valid _ _ hx, parseDegree_bound _ _ hx⟩
    · cases hd
  have ratOK : ∀ s r', decodeRat s = .ok r' → r'.valid = true ∧ goUint r'.num ∧ goUint r'.den := by
    intro s r' hd
    unfold decodeRat at hd
    split at hd
    · cases hd
    · rename_i x hx
      split at hd
      · rename_i hval; cases hd; exact ⟨hval, parseRat_bound _ _ hx⟩
      · cases hd
  refine ⟨?_, ?_, ?_, ?_, ?_, ?_, ?_⟩
  · intro c hcc
    simp only at hcc
    cases hrc : r.chord with
    | none => simp [hrc, optM] at hc; rw [← hc] at hcc; cases hcc
    | some rc =>
      simp only [hrc, optM, Except.map] at hc
      cases hdc : decodeChord rc with
      | error e => simp [hdc] at hc
      | ok c0 =>
        simp only [hdc, Except.ok.injEq] at hc
        rw [← hc] at hcc; simp only [Option.some.injEq] at hcc; subst hcc
        unfold decodeChord at hdc
        obtain ⟨d, hd, hdc⟩ := bind_ok hdc
        obtain ⟨b, _, hdc⟩ := bind_ok hdc
        cases hdc
        have := hdeg rc hrc
        cases hdg : rc.degree with
        | none => simp [hdg] at this
        | some s => simp only [hdg] at hd; exact degOK s d hd
  · intro c b hcc hbb
    simp only at hcc
    cases hrc : r.chord with
    | none => simp [hrc, optM] at hc; rw [← hc] at hcc; cases hcc
    | some rc =>
      simp only [hrc, optM, Except.map] at hc
      cases hdc : decodeChord rc with
      | error e => simp [hdc] at hc
      | ok c0 =>
        simp only [hdc, Except.ok.injEq] at hc
        rw [← hc] at hcc; simp only [Option.some.injEq] at hcc; subst hcc
        unfold decodeChord at hdc
        obtain ⟨d, _, hdc⟩ := bind_ok hdc
        obtain ⟨b0, hb0, hdc⟩ := bind_ok hdc
        cases hdc
        simp only at hbb
        subst hbb
        cases hrb : rc.base with
        | none => simp [hrb, optM] at hb0
        | some s =>
          simp only [hrb, optM, Except.map] at hb0
          cases hds : decodeDegree s with
          | error e => simp [hds] at hb0
          | ok d' => simp only [hds, Except.ok.injEq, Option.some.injEq] at hb0; subst hb0; exact degOK s d' hds
  · exact mapM_all decodeRat _ ratOK r.values values hv
  · intro b hbb
    simp only at hbb; subst hbb
    cases hrb : r.bpm with
    | none => simp [hrb, optM] at hb
    | some s =>
      simp only [hrb, optM, Except.map] at hb
      cases hd : decodeBPM s with
      | error e => simp [hd] at hb
      | ok n =>
        simp only [hd, Except.ok.injEq, Option.some.injEq] at hb; subst hb
        unfold decodeBPM at hd
        cases hp : parseUint s.toList with
        | none => simp [hp] at hd
        | some m =>
          simp only [hp] at hd
          cases m with
          | zero => simp at hd
          | succ k => simp at hd; subst hd; exact ⟨by omega, parseUint_bound _ _ hp⟩
  · intro v hvv
    simp only at hvv; subst hvv
    cases hrv : r.velocity with
    | none => simp [hrv, optM] at hve
    | some s =>
      simp only [hrv, optM, Except.map] at hve
      cases hd : decodeDyn s with
      | error e => simp [hd] at hve
      | ok d =>
        simp only [hd, Except.ok.injEq, Option.some.injEq] at hve; subst hve
        unfold decodeDyn at hd
        split at hd
        · cases hd
        · rename_i d' hne; cases hd; exact dyn_mem _ (by intro he; exact hne he)
  · intro m hmm
    simp only at hmm; subst hmm
    cases hrm : r.meter with
    | none => simp [hrm, optM] at hm
    | some s =>
      simp only [hrm, optM, Except.map] at hm
      cases hd : decodeRat s with
      | error e => simp [hd] at hm
      | ok x => simp only [hd, Except.ok.injEq, Option.some.injEq] at hm; subst hm; exact ratOK s x hd
  · intro k hkk
    simp only at hkk; subst hkk
    cases hrk : r.key with
    | none => simp [hrk, optM] at hk
    | some s =>
      simp only [hrk, optM, Except.map] at hk
      cases hd : decodeKey s with
      | error e => simp [hd] at hk
      | ok x =>
        simp only [hd, Except.ok.injEq, Option.some.injEq] at hk; subst hk
        unfold decodeKey at hd
        split at hd
        · rename_i k' hk'; cases hd; exact parseKey_proper _ _ hk'
        · cases hd

/-- the key pattern the model's `parseKey` implements is the one in op/key.go (regenerated on every run) -/
theorem key_pattern_modelled : Crd.Generated.keyRegexSource = "([A-G])([#b♯♭]?)(m?)" := by decide

/-! non-vacuity -/
def exInst : Instance :=
  { chord := some ⟨⟨13, .minor⟩, "m7b5", some ⟨3, .major⟩⟩
    values := [⟨3, 8⟩, ⟨2, 1⟩]
    bpm := some 132
    velocity := some .ff
    meter := some ⟨5, 4⟩
    key := some ⟨.E, true, .flat⟩
    mta := some [("txt", "a: b # é")] }
example : decodeInstance (encodeInstance exInst) = .ok exInst := by decide
example : (cmdWriteConv {} [] ["cmt"] [{ chord := some ⟨some "2", "m", some "b3"⟩, values := ["1"] }]).toOption.map
    (·.map (·.mta)) = some [some [("txt", "2.m on b3")]] := by decide

end Crd.Props.C10
