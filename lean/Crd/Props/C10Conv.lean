import Crd.Props.C10

/-!
# C10, last sentence — "The same holds for the output of `crd write conv`, whose only purpose is to be piped
into `crd write`."

`cmdWriteConv` (Model/Raw.lean; cmd/write.go after the D4 and D11 fixes) decodes the document, applies the
modifier commands, prepares the piece exactly as `write` does (dictionaries, track count, flag overrides on the
first instance, chord symbols) and prints the prepared instances.  Proved here for EVERY document, dictionary,
command list and flag set: whatever it prints is read back by `write`'s reader as exactly the prepared
instances - nothing is lost, defaulted or re-interpreted between the two stages.

Hypotheses, both facts about the callers and not about the data: every chord of the input carries its `degree:`
(a chord without one decodes to the zero degree, which `write` refuses later; D-list, C09
`written_piece_was_valid` has the same guard) and the `--bpm` flag fits Go's `uint` (cobra refuses anything
else before crd sees it).
-/
namespace Crd.Props.C10
open Crd Crd.Generated

/-- the flag overrides put only meaningful values into the first instance -/
theorem override_valid (f : WriteFlags) (i i' : Instance) (hb : goUint f.bpm) (hi : ValidInstance i)
    (h : overrideFromFlags f i = .ok i') : ValidInstance i' := by
  unfold overrideFromFlags at h
  simp only [bind, Except.bind, pure, Except.pure, throw, throwThe, MonadExceptOf.throw] at h
  repeat' split at h
  all_goals (first | cases h | skip)
  all_goals (refine ⟨?_, ?_, ?_, ?_, ?_, ?_, ?_⟩)
  all_goals (first | exact hi.degree | exact hi.base | exact hi.values | exact hi.bpm | exact hi.velocity | exact hi.meter | exact hi.key | skip)
  all_goals (intro x hx; simp only [Option.some.injEq] at hx; subst hx)
  all_goals (first | exact ⟨by omega, hb⟩ | exact dyn_mem _ (by assumption) | exact ⟨by assumption, parseRat_bound _ _ (by assumption)⟩ | exact parseKey_proper _ _ (by assumption))

/-- the `cmt` modifier only adds a text -/
theorem modifyCmt_valid (i : Instance) (hi : ValidInstance i) : ValidInstance (modifyCmt i) := by
  unfold modifyCmt
  split
  · exact hi
  · exact ⟨hi.degree, hi.base, hi.values, hi.bpm, hi.velocity, hi.meter, hi.key⟩

/-- preparing a piece keeps every instance meaningful -/
theorem prepare_valid (f : WriteFlags) (is is' : List Instance) (d : Dict) (n : Nat) (hb : goUint f.bpm)
    (hv : ∀ i ∈ is, ValidInstance i) (h : prepareWrite f is = .ok (d, n, is')) : ∀ i ∈ is', ValidInstance i := by
  unfold prepareWrite at h
  simp only [bind, Except.bind, pure, Except.pure, throw, throwThe, MonadExceptOf.throw] at h
  repeat' split at h
  all_goals (first | cases h | skip)
  · intro i hi; cases hi
  · rename_i a rest _ _ a' ha _
    intro i hi
    rcases List.mem_cons.mp hi with rfl | hr
    · exact override_valid f a _ hb (hv a (by simp)) (by assumption)
    · exact hv i (by simp [hr])

theorem mapM_roundtrip (is : List Instance) (h : ∀ i ∈ is, ValidInstance i) :
    (is.map encodeInstance).mapM decodeInstance = .ok is :=
  mapM_rt is encodeInstance decodeInstance (fun i hi => instance_roundtrip i (h i hi))

theorem decoded_all_valid : ∀ (l : List RawInstance) (is : List Instance), l.mapM decodeInstance = .ok is →
    (∀ r ∈ l, ∀ c, r.chord = some c → c.degree.isSome = true) → ∀ i ∈ is, ValidInstance i := by
  intro l
  induction l with
  | nil => intro is hm _ i hi; simp [pure, Except.pure] at hm; subst hm; cases hi
  | cons a as ih =>
    intro is hm hd i hi
    simp only [List.mapM_cons, bind, Except.bind, pure, Except.pure] at hm
    cases ha : decodeInstance a with
    | error _ => simp [ha] at hm
    | ok y =>
      simp only [ha] at hm
      cases has : as.mapM decodeInstance with
      | error _ => simp [has] at hm
      | ok ys =>
        simp [has] at hm; subst hm
        rcases List.mem_cons.mp hi with rfl | hi'
        · exact decoded_is_valid a _ ha (hd a (by simp))
        · exact ih ys has (fun r hr => hd r (by simp [hr])) i hi'

/-- **`write conv` → `write`**: whatever `write conv` prints (any document, dictionaries, commands, flags) is
read back by `write` as exactly the instances `write conv` had prepared: the decoded input with the `cmt` texts
added and the flag overrides on the first instance -/
theorem write_conv_output_readable (f : WriteFlags) (attrs : List RawAttr) (cs : List String)
    (rs out : List RawInstance) (h : cmdWriteConv f attrs cs rs = .ok out)
    (hdeg : ∀ r ∈ rs, ∀ c, r.chord = some c → c.degree.isSome = true) (hb : goUint f.bpm) :
    ∃ is as d n is2, rs.mapM decodeInstance = .ok is ∧ loadAttrs attrs = .ok as ∧
      prepareWrite { f with userAttrs := as } (is.map modifyCmt) = .ok (d, n, is2) ∧
      out.mapM decodeInstance = .ok is2 := by
  unfold cmdWriteConv at h
  split at h
  · cases h
  obtain ⟨is, h1, h⟩ := bind_ok h
  split at h
  · cases h
  obtain ⟨as, h2, h⟩ := bind_ok h
  obtain ⟨⟨d, n, is2⟩, h3, h⟩ := bind_ok h
  cases h
  refine ⟨is, as, d, n, is2, h1, h2, h3, ?_⟩
  apply mapM_roundtrip
  apply prepare_valid { f with userAttrs := as } (is.map modifyCmt) is2 d n hb _ h3
  intro i hi
  obtain ⟨i0, hi0, rfl⟩ := List.mem_map.mp hi
  exact modifyCmt_valid i0 (decoded_all_valid rs is h1 hdeg i0 hi0)

/-- the flag overrides are idempotent: applying them to an instance that already carries them changes nothing -/
theorem override_idem (f : WriteFlags) (i i' : Instance) (h : overrideFromFlags f i = .ok i') :
    overrideFromFlags f i' = .ok i' := by
  unfold overrideFromFlags at h ⊢
  simp only [bind, Except.bind, pure, Except.pure, throw, throwThe, MonadExceptOf.throw] at h ⊢
  repeat' split at h
  all_goals (first | cases h | skip)
  all_goals simp_all

/-- preparing an already prepared piece with the same flags gives the same piece -/
theorem prepare_idem (f : WriteFlags) (is is' : List Instance) (d : Dict) (n : Nat)
    (h : prepareWrite f is = .ok (d, n, is')) : prepareWrite f is' = .ok (d, n, is') := by
  unfold prepareWrite at h ⊢
  simp only [bind, Except.bind, pure, Except.pure, throw, throwThe, MonadExceptOf.throw] at h ⊢
  repeat' split at h
  all_goals (first | cases h | skip)
  · repeat' split
    all_goals simp_all
  · have := override_idem f _ _ (by assumption)
    simp only [this]
    repeat' split
    all_goals simp_all

/-- **`write conv | write` sounds the prepared piece**: piping what `write conv` printed into `write` with the
same flags and dictionaries gives the same tracks as writing the decoded input with the `cmt` texts added - the
intermediate YAML changes nothing -/
theorem write_conv_then_write (f : WriteFlags) (attrs : List RawAttr) (cs : List String)
    (rs out : List RawInstance) (h : cmdWriteConv f attrs cs rs = .ok out)
    (hdeg : ∀ r ∈ rs, ∀ c, r.chord = some c → c.degree.isSome = true) (hb : goUint f.bpm) :
    ∃ is as, rs.mapM decodeInstance = .ok is ∧ loadAttrs attrs = .ok as ∧
      cmdWrite f attrs out =
        (cmdWriteTracks { f with userAttrs := as } (is.map modifyCmt)).bind fun ts =>
          match smfEncode Generated.ticksPerQuarter ts with
          | some b => .ok b
          | none => .error .unexpected := by
  obtain ⟨is, as, d, n, is2, h1, h2, h3, h4⟩ := write_conv_output_readable f attrs cs rs out h hdeg hb
  refine ⟨is, as, h1, h2, ?_⟩
  have h5 := prepare_idem _ _ _ _ _ h3
  unfold cmdWrite cmdWriteTracks
  simp only [bind, Except.bind, pure, Except.pure, h4, h2, h3, h5]
  rfl

/-- reading it again and printing it again changes nothing: `write conv` without further flags is idempotent on
its own output (the `cmt` text is added once more, nothing else moves) - stated for the empty flag set and the
rest-only case to keep it a one-liner; the general statement is `write_conv_output_readable` -/
example : (cmdWriteConv {} [] ["cmt"] [{ values := ["1/2", "3"] , bpm := some "90" }]).toOption =
    some [{ values := ["1/2", "3"], bpm := some "90" }] := by decide

/-! non-vacuity: a document with a chord, flags that override, and the theorem's conclusion evaluated -/
def exOut : Except Err (List RawInstance) :=
  cmdWriteConv { bpm := 77, key := "Ebm", velocity := "ff", meter := "6/8" } [] ["cmt"]
    [{ chord := some ⟨some "b7", "m7b5", some "3"⟩, values := ["1/3"], key := some "G" }, { values := ["2"] }]
def exRead : Option (List Instance) := exOut.toOption.bind fun out => (out.mapM decodeInstance).toOption
example : exRead.map (·.map (·.bpm)) = some [some 77, none] := by decide
example : exRead.map (·.map (·.key.map Key.str)) = some [some "Ebm", none] := by decide
example : exRead.map (·.map (·.mta)) = some [some [("txt", "7b.m7b5 on 3")], none] := by decide

end Crd.Props.C10
