import Crd.Lemmas.LexCut
import Crd.Model.Conv
import Crd.Props.C03

/-!
# C11 — spelling variants of the same chord text give byte-identical results

"Inserting or removing spaces, tabs, newlines and `;` comments between tokens, writing `_` before a symbol that
does not need it, writing durations with leading zeros, and writing accidentals as # / b or as the Unicode signs
the lexer equally accepts, never changes what `text conv` prints.  An accidental that is accepted is honoured: no
accepted spelling is read as a different note."

Everything after the lexer is a function of the token list (and, after the parser, of the tree), so "same tokens"
/ "same tree" / "same converted chord" imply byte-identical output.
-/
namespace Crd.Props.C11
open Crd Crd.Generated

/-- **trivia before any token** (in particular at the start of the text): white space in every lexer state;
white space and newline-terminated `;` comments outside `{…}` and not directly after `_` -/
theorem trivia_before_token (es em : Bool) (w : List Char) (h : TriviaIn es em w) (inp : List Char) (acc : List Tok) :
    lexFrom es em (w ++ inp) acc = lexFrom es em inp acc := lexFrom_trivia es em w h inp acc

/-- **trivia after any token that is not a key/value run**: the token, the state it leaves and everything that
follows are unchanged.  Read left to right this is insertion, right to left removal.  (Inside `{…}` white space
after a key or value belongs to it — the documented key=value mode — so METADATA runs are excluded; before them
white space is trivia by the previous theorem.) -/
theorem trivia_after_token (es em : Bool) (x : List Char) (t : Tok) (es' em' : Bool) (r : List Char)
    (h : lexStep true es em x = .emit t es' em' r) (hk : t.k ≠ .METADATA) (w : List Char) (hw : TriviaIn es' em' w)
    (acc : List Tok) :
    ∃ consumed, x = consumed ++ r ∧ lexFrom es em (consumed ++ (w ++ r)) acc = lexFrom es em x acc :=
  Crd.trivia_after_token es em x t es' em' r h hk w hw acc

/-- at the very start of a text -/
theorem trivia_at_start (w s : List Char) (h : Trivia w) : lexChars (w ++ s) = lexChars s := Crd.trivia_at_start w s h

/-- a trailing comment without final newline, and trailing white space, are ignored too: the text ends there -/
theorem trivia_at_end (w : List Char) (h : Trivia w) (acc : List Tok) : lexFrom false false w acc = .ok acc := by
  have := lexFrom_trivia false false w (by simpa [TriviaIn] using h) [] acc
  simp only [List.append_nil] at this
  rw [this, lexFrom_step]
  rfl

/-- `_` before a symbol is optional: the parser builds the same symbol node with and without it -/
theorem underscore_optional (u s : Tok) (r : List Tok) (hu : u.k = .UNDERSCORE) (hs : s.k = .SYMBOL) :
    pSymbol (u :: s :: r) = pSymbol (s :: r) := by
  simp [pSymbol, hu, hs]

/-- … hence the same chord: the whole item parses identically (same tree, same remaining input) -/
theorem underscore_optional_item (pre : List Tok) (u s : Tok) (r : List Tok) (d : DegreeN)
    (hu : u.k = .UNDERSCORE) (hs : s.k = .SYMBOL)
    (h1 : pDegree (pre ++ u :: s :: r) = some (d, u :: s :: r)) (h2 : pDegree (pre ++ s :: r) = some (d, s :: r))
    (hne : ∀ t rest, pre = t :: rest → t.k ≠ .REST) (hpre : pre ≠ []) :
    pItem (pre ++ u :: s :: r) = pItem (pre ++ s :: r) := by
  obtain ⟨t, rest, rfl⟩ : ∃ t rest, pre = t :: rest := by cases pre <;> simp_all
  have hnr := hne t rest rfl
  simp only [List.cons_append] at h1 h2 ⊢
  simp only [pItem, hnr, if_false, h1, h2, underscore_optional u s r hu hs]

/-- leading zeros do not change a number -/
theorem leading_zero (ds : List Char) (hne : ds ≠ []) : parseUint ('0' :: ds) = parseUint ds := by
  unfold parseUint
  have h0 : isDigit '0' = true := by decide
  have hv : digitsVal ('0' :: ds) = digitsVal ds := by simp [digitsVal]
  cases ds with
  | nil => exact absurd rfl hne
  | cons d t => simp [h0, hv]

/-- … hence durations written with leading zeros convert to the same fraction -/
theorem duration_leading_zeros (k : TK) (ns : List Char) (hn : ns ≠ []) (den : Option Tok) :
    convValue ⟨⟨k, '0' :: ns⟩, den⟩ = convValue ⟨⟨k, ns⟩, den⟩ ∧
    (∀ (num : Tok) (k' : TK) (ds : List Char), ds ≠ [] →
      convValue ⟨num, some ⟨k', '0' :: ds⟩⟩ = convValue ⟨num, some ⟨k', ds⟩⟩) := by
  constructor
  · simp [convValue, leading_zero ns hn]
  · intro num k' ds hd
    simp [convValue, leading_zero ds hd]
    cases ds with
    | nil => exact absurd rfl hd
    | cons _ _ => simp

/-- the Unicode sharp and flat signs are lexed as the same token kinds as `#` and `b` … -/
theorem unicode_signs_lex :
    (singleTok '♯').map (·.1) = some .SHARP ∧ (singleTok '#').map (·.1) = some .SHARP ∧
    (singleTok '♭').map (·.1) = some .FLAT ∧ (singleTok 'b').map (·.1) = some .FLAT := by decide

/-- … and are read as the same accidental by both converters (after the D7 fix) -/
theorem unicode_signs_mean : Acc.ofString "♯" = .sharp ∧ Acc.ofString "#" = .sharp ∧
    Acc.ofString "♭" = .flat ∧ Acc.ofString "b" = .flat ∧
    (Acc.ofString "♯").str = "#" ∧ (Acc.ofString "♭").str = "b" := by decide

/-- **every sign the lexer accepts as a sharp or a flat is read as that accidental**: for each entry of the lexer's
token table (regenerated from the source on every run) whose kind is SHARP or FLAT, the converters' reading of that
very rune is sharp, respectively flat — no accepted sign falls through to "natural" -/
theorem every_accepted_sign_known : ∀ e ∈ Generated.singleRuneTokens,
    (e.2.1 = TK.SHARP → Acc.ofString (String.singleton e.1) = .sharp) ∧
    (e.2.1 = TK.FLAT → Acc.ofString (String.singleton e.1) = .flat) := by decide

/-- two accidental tokens that denote the same accidental give the same converted chord, in both modes, in
every key — so `C♯` and `C#`, `3♭` and `3b` convert identically -/
theorem same_accidental_same_chord (mode : Mode) (s : Scale) (h : Tok) (a a' : Tok) (sym : Option Tok) (base : Option DegreeN)
    (heq : Acc.ofString a.str = Acc.ofString a'.str) :
    convChord mode s ⟨h, some a⟩ sym base = convChord mode s ⟨h, some a'⟩ sym base := by
  cases mode <;> simp [convChord, syllableDegrees, newScaleNote, convDegreeText, heq]

/-- **an accepted accidental is honoured**: whenever the syllable converter accepts a root written with an
accidental, the emitted degree measures exactly the pitch of the written note (letter AND accidental) above the
tonic — never the natural letter, never another note (C03 `conv_sound`) -/
theorem accepted_accidental_honoured (k : Key) (s : Scale) (hs : newScale k = some s) (root : DegreeN)
    (d : Degree) (b : Option Degree) (h : syllableDegrees s root none = .ok (d, b)) :
    ∃ rn, newScaleNote root = .ok rn ∧
      Spec.specSize d.value d.name = some (Crd.Props.C03.pitchDist ⟨k.name, k.acc⟩ rn) ∧
      (∀ a, root.acc = some a → rn.acc = Acc.ofString a.str) := by
  obtain ⟨tonic, rn, _, ht, hrn, _, hsize, _⟩ := Crd.Props.C03.conv_sound k s hs root none d b h
  subst ht
  refine ⟨rn, hrn, hsize, ?_⟩
  intro a ha
  unfold newScaleNote at hrn
  split at hrn
  · cases hrn
  · cases hrn; simp [ha]

/-! non-vacuity -/
example : lexChars "C#m7 [ 1 ] ;x\n".toList = lexChars "C#m7[1]".toList := by decide
example : Trivia " ;c\n\t".toList := by
  refine Trivia.space ' ' _ (by decide) ?_
  exact Trivia.comment ['c'] _ (by decide) (Trivia.space '\t' _ (by decide) Trivia.nil)
example : (cmdTextConvChars .syllable "D" "C♯_m7[01/004]".toList).toOption.map (·.map (·.chord)) =
    (cmdTextConvChars .syllable "D" "C#m7[1/4]".toList).toOption.map (·.map (·.chord)) := by decide

end Crd.Props.C11
