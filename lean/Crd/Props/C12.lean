import Crd.Lemmas.Order
import Crd.Props.C14
import Crd.Generated.Sites

/-!
# C12 — same command, same input, same bytes: on every run and every I/O path

"Every data-producing crd command prints byte-identical standard output (and the same success/failure) each
time it is run with the same arguments and input, regardless of CPU count, goroutine scheduling and the --debug
flag.  The result is also the same whether input arrives on stdin, as `-` or as a FILE argument and whether
output goes to stdout or to the -o file."

PARTIAL.  A Lean function is deterministic by construction, so the content of a proof here is that the MODEL IS
ENTITLED to be a function: every place where the Go code's behaviour can depend on something other than its
input is (1) enumerated from the type-checked source on every run (`sites_accounted`: ranges over maps,
channels and iterator functions, goroutines, channel sends, clock/random/environment reads, and the sort calls
that neutralise a map order), and (2) for each map-order site the modelled loop is shown to give the same result
for EVERY iteration order (any permutation of the map's entries).  What no model can carry - the Go scheduler,
cobra's and the OS's file handling, `--debug` logging - is observed by the `repeat` stream on the real binary
(repeated runs under different GOMAXPROCS, stdin / `-` / FILE, stdout / -o, with and without --debug).
-/
namespace Crd.Props.C12
open Crd Crd.Generated Crd.Props.C13 Crd.Props.C14

/-! ## 1. every order-sensitive site of the source is known -/

/-- site (regenerated spelling) and how it is accounted for -/
def expectedSites : List (String × String) :=
  [("chansend input/ast/iter_visitor.go IterVisitor.send", "one producer, one consumer, FIFO channel: document order (assumed of Go channels; repeat stream)"),
   ("collect op/circle.go CircleMember.Head slices.Collect(maps.Values(c.scales))", "unused by any command"),
   ("collect op/circle.go CircleMember.Keys slices.Collect(maps.Keys(c.scales))", "feeds a Set (membership only) or chain_order_irrelevant"),
   ("env op/circle.go CircleMember.Head maps.Values", "unused by any command"),
   ("env op/circle.go CircleMember.Keys maps.Keys", "feeds a Set (membership only) or chain_order_irrelevant"),
   ("env op/op.go Meta.MarshalYAML maps.Keys", "meta_marshal_order_irrelevant (the keys are sorted before use)"),
   ("go input/ast/iter_visitor.go IterVisitor.All", "single producer goroutine of the channel above"),
   ("mapcall cmd/info.go infoKeyCmdConv result.Keys().All", "listings_sorted"),
   ("mapcall op/circle.go KeyConversionChain.Convert m.Keys().All", "chain_order_irrelevant"),
   ("range-chan input/ast/iter_visitor.go IterVisitor.All s.nodeC", "FIFO consumer"),
   ("range-chan input/ast/iter_visitor.go IterVisitor.All s.nodeC", "drain on early exit"),
   ("range-func astconv/validate.go ASTTypeClassifier.Classify ast.NewIterVisitor().All()", "consumes the FIFO channel in document order"),
   ("range-func chord/attribute.go GenerateAttributes note.GenerateDegrees()", "iterator over nested integer/slice loops"),
   ("range-func cmd/info.go infoKeyCmdConv result.Keys().All()", "listings_sorted"),
   ("range-func cmd/write.go writeCmdEvent midix.NewReader().Events()", "iterator over the decoded tracks in file order"),
   ("range-func op/circle.go KeyConversionChain.Convert m.Keys().All()", "chain_order_irrelevant"),
   ("range-map chord/map.go Map.validate m.chords", "validation_order_irrelevant (only the wording of the joined diagnostic on stderr varies)"),
   ("range-map note/accidental.go NewAccidental accidentalStringMap", "accidental_order_irrelevant"),
   ("range-map note/degree.go Degree.Semitone degreeSemitoneMap", "semitone_order_irrelevant"),
   ("range-map op/circle.go CircleMember.String c.scales", "only in --debug log records on stderr"),
   ("range-map op/op.go Meta.MarshalYAML m", "meta_marshal_order_irrelevant (does any text begin with a line break?)"),
   ("range-map op/scale.go AllScales keySignatures", "listings_sorted"),
   ("range-map op/scale.go keySignatures keyStringSignatures", "key_signature_map_order_irrelevant"),
   ("range-map op/velocity.go GetDynamicSignStrings stringDynamicSignMap", "only in the --velocity usage text (not a data-producing command)"),
   ("range-map util/conv.go InverseMap d", "inverse_maps_order_irrelevant"),
   ("range-map util/set.go Set.All s", "callers: chain_order_irrelevant, listings_sorted"),
   ("sort cmd/info.go infoKeyCmdConv slices.Sort", "the sort listings_sorted relies on"),
   ("sort op/op.go Meta.MarshalYAML slices.Sorted", "the sort meta_marshal_order_irrelevant relies on"),
   ("sort op/scale.go AllScales slices.SortFunc", "the sort listings_sorted relies on")]

/-- **the list of order-sensitive sites regenerated from /repo is exactly the list accounted for here**: a new map
range, goroutine, channel, clock/random read, or a removed sort breaks this obligation -/
theorem sites_accounted : orderSites = expectedSites.map (·.1) := by decide

/-! ## 2. each map-order loop gives the same result for every order -/

def adjQ (q : Quality) (k : Degree × Int) : Option Int :=
  match q, k.1.name with
  | .augmented, .major | .augmented, .perfect => some (k.2 + 1)
  | .diminished, .minor | .diminished, .perfect => some (k.2 - 1)
  | .daug, .major | .daug, .perfect => some (k.2 + 2)
  | .ddim, .minor | .ddim, .perfect => some (k.2 - 2)
  | _, _ => none

theorem adj_unique : ∀ q ∈ Quality.unknown :: Quality.all, ∀ a ∈ degreeSemitoneTable, ∀ b ∈ degreeSemitoneTable,
    a.1.value = b.1.value → (adjQ q a).isSome = true → (adjQ q b).isSome = true → adjQ q a = adjQ q b := by decide

theorem adjust_order_irrelevant (order : List (Degree × Int)) (hp : order.Perm degreeSemitoneTable) (d : Degree) :
    adjustSemitone order d = adjustSemitone degreeSemitoneTable d := by
  unfold adjustSemitone
  apply findSome?_perm_of_agree _ hp
  intro a ha b hb x y hx hy
  have ha' := hp.mem_iff.mp ha
  have hb' := hp.mem_iff.mp hb
  obtain ⟨ka, va⟩ := a
  obtain ⟨kb, vb⟩ := b
  simp only at hx hy
  split at hx
  · cases hx
  split at hy
  · cases hy
  rename_i h1 h2
  have e1 : ka.value = kb.value := by
    have h1' : ka.value = d.value := by simpa using h1
    have h2' : kb.value = d.value := by simpa using h2
    rw [h1', h2']
  have qa : adjQ d.name (ka, va) = some x := by
    unfold adjQ; cases hdn : d.name <;> cases hkn : ka.name <;> simp_all
  have qb : adjQ d.name (kb, vb) = some y := by
    unfold adjQ; cases hdn : d.name <;> cases hkn : kb.name <;> simp_all
  have hq : d.name ∈ Quality.unknown :: Quality.all := by cases d.name <;> simp [Quality.all]
  have := adj_unique d.name hq _ ha' _ hb' e1 (by rw [qa]; rfl) (by rw [qb]; rfl)
  rw [qa, qb] at this
  exact Option.some.inj this

/-- **`Degree.Semitone`**: the quality-adjustment loop ranges over a Go map; every iteration order gives the same
size, for every interval -/
theorem semitone_order_irrelevant (order : List (Degree × Int)) (hp : order.Perm degreeSemitoneTable) (d : Degree) :
    d.semitoneWith order = d.semitone := by
  unfold Degree.semitone Degree.semitoneWith simpleSemitone baseSemitone
  simp only [adjust_order_irrelevant order hp]

/-- `note.NewAccidental` with the map's iteration order as a parameter -/
def naccOfStringWith (order : List (NAcc × String × String)) (s : String) : NAcc :=
  match order.find? (fun p => p.2.1 = s || p.2.2 = s) with
  | some p => p.1
  | none => .unknown

theorem nacc_spellings_disjoint : ∀ a ∈ naccStringTable, ∀ b ∈ naccStringTable, a ≠ b →
    a.2.1 ≠ b.2.1 ∧ a.2.1 ≠ b.2.2 ∧ a.2.2 ≠ b.2.1 ∧ a.2.2 ≠ b.2.2 := by decide

theorem nacc_entry_unique (order : List (NAcc × String × String)) (hp : order.Perm naccStringTable) (s : String) :
    ∀ a ∈ order, ∀ b ∈ order, (decide (a.2.1 = s) || decide (a.2.2 = s)) = true →
      (decide (b.2.1 = s) || decide (b.2.2 = s)) = true → a = b := by
  intro a ha b hb pa pb
  by_cases hab : a = b
  · exact hab
  · exfalso
    obtain ⟨h1, h2, h3, h4⟩ := nacc_spellings_disjoint a (hp.mem_iff.mp ha) b (hp.mem_iff.mp hb) hab
    simp only [Bool.or_eq_true, decide_eq_true_eq] at pa pb
    rcases pa with pa | pa <;> rcases pb with pb | pb
    · exact h1 (pa.trans pb.symm)
    · exact h2 (pa.trans pb.symm)
    · exact h3 (pa.trans pb.symm)
    · exact h4 (pa.trans pb.symm)

/-- **`note.NewAccidental`**: no string is a spelling of two accidentals, so the map order is irrelevant -/
theorem accidental_order_irrelevant (order : List (NAcc × String × String)) (hp : order.Perm naccStringTable) (s : String) :
    naccOfStringWith order s = NAcc.ofString s := by
  unfold naccOfStringWith NAcc.ofString
  have e : order.find? (fun p => p.2.1 = s || p.2.2 = s) = naccStringTable.find? (fun p => p.2.1 = s || p.2.2 = s) :=
    find?_perm_of_unique _ hp (nacc_entry_unique order hp s)
  rw [e]
  generalize List.find? _ naccStringTable = r
  cases r <;> rfl

/-- the tables `util.MustInverseMap` inverts have pairwise distinct values (otherwise crd panics at start-up) -/
theorem inverted_tables_injective :
    (nameStringTable.map (·.2)).Nodup ∧ (stringCoerceTable.map (·.2)).Nodup ∧ (accStringTable.map (·.2)).Nodup ∧
    (dynamicStrings.map (·.2)).Nodup := by decide

/-- **`util.InverseMap`**: the inverse look-up finds the same entry whatever order the map was walked in -/
theorem inverse_maps_order_irrelevant {α β} [DecidableEq β] (table order : List (α × β)) (hp : order.Perm table)
    (nd : (table.map (·.2)).Nodup) (x : β) : order.find? (fun p => p.2 = x) = table.find? (fun p => p.2 = x) := by
  apply find?_perm_of_unique _ hp
  intro a ha b hb pa pb
  have pa' : a.2 = x := by simpa using pa
  have pb' : b.2 = x := by simpa using pb
  have nd' : (order.map (·.2)).Nodup := (hp.map (·.2)).symm.nodup nd
  have : ∀ (l : List (α × β)), (l.map (·.2)).Nodup → ∀ a ∈ l, ∀ b ∈ l, a.2 = b.2 → a = b := by
    intro l
    induction l with
    | nil => intro _ a ha; cases ha
    | cons c cs ih =>
      intro nd a ha b hb hab
      simp only [List.map_cons, List.nodup_cons, List.mem_map, not_exists, not_and] at nd
      rcases List.mem_cons.mp ha with rfl | ha' <;> rcases List.mem_cons.mp hb with rfl | hb'
      · rfl
      · exact absurd hab.symm (nd.1 b hb')
      · exact absurd hab (nd.1 a ha')
      · exact ih nd.2 a ha' b hb' hab
  exact this order nd' a ha b hb (pa'.trans pb'.symm)

/-- the key strings of `keyStringSignatures` parse to pairwise distinct keys -/
theorem signature_keys_distinct : (keySignatureTable.map (·.1)).Nodup := by decide

/-- **`keySignatures`** (a map built by ranging over a map): the signature found for a key does not depend on the
order -/
theorem key_signature_map_order_irrelevant (order : List (Option Key × Int)) (hp : order.Perm keySignatureTable) (k : Key) :
    lookup (some k) order = signatureOf k := by
  unfold signatureOf
  exact lookup_perm_of_nodup _ hp ((hp.map (·.1)).symm.nodup signature_keys_distinct)

/-- **`KeyConversionChain.Convert`** walks a Set (a Go map) and returns at the first key that converts: any two
orders give the same member, for every supported key and every chain (from C14) -/
theorem chain_order_irrelevant (ord₁ ord₂ : Member → Member) (h₁ : OrdOK ord₁) (h₂ : OrdOK ord₂)
    (k : Key) (hk : k ∈ requiredKeys) (chain : List KConv) (hc : ∀ x ∈ chain, x ∈ moves) :
    chainConvert C ord₁ k chain = chainConvert C ord₂ k chain := spelling_independent ord₁ ord₂ h₁ h₂ k hk chain hc

/-- what `info key list` / `info key conv` print: names collected in map order, then sorted -/
def listing (order : List Key) : List String := (order.map Key.str).mergeSort (fun a b => decide (a ≤ b))

/-- **listings**: collected in any order, the sorted listing is the same -/
theorem listings_sorted (o₁ o₂ : List Key) (hp : o₁.Perm o₂) : listing o₁ = listing o₂ :=
  sorted_perm (hp.map Key.str)

/-- `Map.validate` with the order in which the chords map is walked -/
def validateWith (d : Dict) (order : List ChordDef) : Bool :=
  order.all fun c =>
    c.attributes.all (fun a => (d.attr a).isSome) &&
    (c.parent = "" || (d.chord c.parent).isSome) &&
    d.chainEnds ((d.chords.map (·.1)).eraseDups.length + 1) c

/-- **`Map.validate`**: whether a dictionary is accepted does not depend on the order its chords are checked in -/
theorem validation_order_irrelevant (d : Dict) (order : List ChordDef) (hp : order.Perm d.entries) :
    validateWith d order = d.validate := all_perm _ hp

/-- **`Meta.MarshalYAML`** (added by the D21 fix): whether some text begins with a line break, and the sorted key list,
do not depend on the order the map is walked in -/
theorem meta_marshal_order_irrelevant (o₁ o₂ : List (String × String)) (hp : o₁.Perm o₂) :
    o₁.any (fun kv => kv.2.startsWith "\n") = o₂.any (fun kv => kv.2.startsWith "\n") ∧
    (o₁.map (·.1)).mergeSort (fun a b => decide (a ≤ b)) = (o₂.map (·.1)).mergeSort (fun a b => decide (a ≤ b)) := by
  refine ⟨?_, sorted_perm (hp.map (·.1))⟩
  rw [Bool.eq_iff_iff]; simp only [List.any_eq_true]
  exact ⟨fun ⟨a, ha, h⟩ => ⟨a, hp.mem_iff.mp ha, h⟩, fun ⟨a, ha, h⟩ => ⟨a, hp.mem_iff.mpr ha, h⟩⟩

/-! non-vacuity: orders that differ -/
example : (degreeSemitoneTable.reverse).Perm degreeSemitoneTable ∧ degreeSemitoneTable.reverse ≠ degreeSemitoneTable :=
  ⟨List.reverse_perm _, by decide⟩
example : (⟨4, .augmented⟩ : Degree).semitoneWith degreeSemitoneTable.reverse = some 6 := by decide
example : listing (supportedKeys.reverse) = listing supportedKeys := listings_sorted _ _ (List.reverse_perm _)

end Crd.Props.C12
