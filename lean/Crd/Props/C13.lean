import Crd.Model.Scale
import Crd.Spec.Theory

/-!
# C13 — every supported key has the right scale and the right key signature

"For every key crd supports — at least the fifteen major keys from seven flats to seven sharps and the
thirteen minor keys Am Em Bm F#m C#m G#m D#m Dm Gm Cm Fm Bbm Ebm — the seven scale notes use each letter once
starting on the tonic and follow the major (2-2-1-2-2-2-1) or natural-minor (2-1-2-2-1-2-2) step pattern, and
the reported number of sharps or flats is the conventional signature of that key, with the altered notes being
the first n of F C G D A E B (sharps) or B E A D G C F (flats).  Relative major/minor pairs therefore share
notes and signature."

`Key` is a finite type (8 × 2 × 4 = 64 values), so each clause is decided by kernel evaluation of the model
(`newScale`, over the REGENERATED `keyStringSignatures` / `flatSequence` / ring) for ALL 64 keys and lifted to
`∀ k : Key`.  The right-hand sides come from `Crd.Spec.Theory` (line of fifths), not from crd's table.
-/
namespace Crd.Props.C13
open Crd Crd.Spec

def allKeys : List Key :=
  [Letter.unknown, .C, .D, .E, .F, .G, .A, .B].flatMap fun l =>
    [false, true].flatMap fun m => [Acc.unknown, .natural, .sharp, .flat].map fun a => ⟨l, m, a⟩

theorem mem_allKeys (k : Key) : k ∈ allKeys := by
  obtain ⟨l, m, a⟩ := k
  cases l <;> cases m <;> cases a <;> decide

/-- the keys the property names -/
def requiredKeys : List Key :=
  [ -- fifteen major keys, seven flats .. seven sharps
    ⟨.C, false, .flat⟩, ⟨.G, false, .flat⟩, ⟨.D, false, .flat⟩, ⟨.A, false, .flat⟩, ⟨.E, false, .flat⟩,
    ⟨.B, false, .flat⟩, ⟨.F, false, .natural⟩, ⟨.C, false, .natural⟩, ⟨.G, false, .natural⟩, ⟨.D, false, .natural⟩,
    ⟨.A, false, .natural⟩, ⟨.E, false, .natural⟩, ⟨.B, false, .natural⟩, ⟨.F, false, .sharp⟩, ⟨.C, false, .sharp⟩,
    -- thirteen minor keys
    ⟨.A, true, .natural⟩, ⟨.E, true, .natural⟩, ⟨.B, true, .natural⟩, ⟨.F, true, .sharp⟩, ⟨.C, true, .sharp⟩,
    ⟨.G, true, .sharp⟩, ⟨.D, true, .sharp⟩, ⟨.D, true, .natural⟩, ⟨.G, true, .natural⟩, ⟨.C, true, .natural⟩,
    ⟨.F, true, .natural⟩, ⟨.B, true, .flat⟩, ⟨.E, true, .flat⟩ ]

def pitch (n : SNote) : Int := naturalPitch n.name + accShift n.acc

/-- consecutive pitch differences, wrapping to the tonic, modulo 12 -/
def steps (notes : List SNote) : List Int :=
  (notes.zip (notes.drop 1 ++ notes.take 1)).map fun (a, b) => (pitch b - pitch a).emod 12

def onScale (P : Key → Scale → Bool) (k : Key) : Bool :=
  match newScale k with | some s => P k s | none => true

theorem lift (P : Key → Scale → Bool) (h : ∀ k ∈ allKeys, onScale P k = true) :
    ∀ (k : Key) (s : Scale), newScale k = some s → P k s = true := by
  intro k s hs
  have := h k (mem_allKeys k)
  simpa [onScale, hs] using this

/-- at least the 15 + 13 named keys are supported -/
theorem supports_required : ∀ k ∈ requiredKeys, (newScale k).isSome = true := by decide

/-- and nothing else: every other spelling `[A-G][#b]?m?` (and every ill-formed key) has no scale -/
theorem unsupported_rejected : ∀ k : Key, k ∉ requiredKeys → newScale k = none := by
  have h : ∀ k ∈ allKeys, (k ∈ requiredKeys ∨ newScale k = none) := by decide
  intro k hk
  rcases h k (mem_allKeys k) with h' | h'
  · exact absurd h' hk
  · exact h'

/-- seven notes, each letter once, in letter order starting on the tonic (letter and accidental) -/
theorem letters_once_from_tonic : ∀ (k : Key) (s : Scale), newScale k = some s →
    (s.notes.map (·.name) == lettersFrom k.name && s.notes.head? == some ⟨k.name, k.acc⟩ && s.key == k) = true :=
  lift _ (by decide)

/-- the step pattern 2-2-1-2-2-2-1 (major) / 2-1-2-2-1-2-2 (natural minor) -/
theorem step_pattern : ∀ (k : Key) (s : Scale), newScale k = some s →
    (steps s.notes == (if k.minor then minorSteps else majorSteps)) = true :=
  lift _ (by decide)

/-- the reported count of sharps/flats is the conventional signature (line of fifths), never both -/
theorem signature_conventional : ∀ (k : Key) (s : Scale), newScale k = some s →
    (((s.sharp : Int) - (s.flat : Int) == conventionalSignature k) && (s.sharp == 0 || s.flat == 0)) = true :=
  lift _ (by decide)

/-- the altered notes are exactly the first n of F C G D A E B (sharps) / B E A D G C F (flats) -/
theorem altered_are_first_n : ∀ (k : Key) (s : Scale), newScale k = some s →
    (s.notes.all fun n =>
      n.acc == (if (orderOfSharps.take s.sharp).contains n.name then Acc.sharp
                else if (orderOfFlats.take s.flat).contains n.name then Acc.flat else Acc.natural)) = true :=
  lift _ (by decide)

/-- relative pairs: for every supported minor key, the major key on its third note is supported and has the
same notes (rotated) and the same signature; and whenever the minor key on the sixth note of a supported major
key is itself supported (Cb and C# major have no supported relative) it shares notes and signature -/
theorem relative_pairs_share : ∀ (k : Key) (s : Scale), newScale k = some s →
    (if k.minor then
      (match s.notes[2]? with
       | some t => (match newScale ⟨t.name, false, t.acc⟩ with
         | some r => r.notes == s.notes.drop 2 ++ s.notes.take 2 && r.sharp == s.sharp && r.flat == s.flat
         | none => false)
       | none => false)
     else
      (match s.notes[5]? with
       | some t => (match newScale ⟨t.name, true, t.acc⟩ with
         | some r => r.notes == s.notes.drop 5 ++ s.notes.take 5 && r.sharp == s.sharp && r.flat == s.flat
         | none => true)
       | none => false)) = true :=
  lift _ (by decide)

/-! non-vacuity -/
example : newScale ⟨.E, false, .flat⟩ = some ⟨⟨.E, false, .flat⟩,
    [⟨.E, .flat⟩, ⟨.F, .natural⟩, ⟨.G, .natural⟩, ⟨.A, .flat⟩, ⟨.B, .flat⟩, ⟨.C, .natural⟩, ⟨.D, .natural⟩], 3, 0⟩ := by decide
example : conventionalSignature ⟨.G, true, .sharp⟩ = 5 := by decide
example : requiredKeys.length = 28 := by decide

end Crd.Props.C13
