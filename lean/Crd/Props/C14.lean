import Crd.Model.Scale
import Crd.Spec.Theory
import Crd.Props.C13

/-!
# C14 — circle-of-fifths conversions obey their laws for every key and every chain

"For every supported key, dominant moves the tonic up and subdominant down a perfect fifth keeping the mode,
relative keeps the key signature and switches mode, parallel keeps the tonic pitch and switches mode, and the
result always lists every supported spelling of the target key.  Consequently every chain of conversions of any
length succeeds and equals the composition of its steps: dominant and subdominant are inverses, relative and
parallel are involutions, twelve dominants return to the start, and the answer does not depend on which
enharmonic spelling an intermediate result is read by."

Finite facts are decided by kernel evaluation of the model over the regenerated ring seeds and deltas; chains of
ANY length and ANY iteration order of the member set are handled by induction.
-/
namespace Crd.Props.C14
open Crd Crd.Spec Crd.Props.C13

/-- the rings build without a `Must*` panic -/
theorem circles_build : circles?.isSome = true := by decide

/-- the circle of fifths crd builds at start-up -/
def C : Circles := circles?.getD ⟨[], []⟩

abbrev Pos := Bool × Nat          -- (minor?, slot index)

def positions : List Pos := [false, true].flatMap fun m => (List.range 12).map fun i => (m, i)

def slot (p : Pos) : Member := (C.ring p.1)[p.2]!

/-- what each conversion does to a position: the specification of the four moves in ℤ/12 -/
def absStep (p : Pos) : KConv → Pos
  | .dominant => (p.1, (p.2 + 1) % 12)
  | .subdominant => (p.1, (p.2 + 11) % 12)
  | .relative => (!p.1, p.2)
  | .parallel => (!p.1, if p.1 then (p.2 + 3) % 12 else (p.2 + 9) % 12)
  | .unknown => p

def tonicPC (k : Key) : Int := (naturalPitch k.name + accShift k.acc).emod 12

def moves : List KConv := [.parallel, .relative, .dominant, .subdominant]

/-- the musical meaning of each move, between two keys (spec side, no tables).  Signatures are compared up to
enharmonic equivalence (12 fifths): the slot B/Cb holds 5 sharps and 7 flats. -/
def related (x : KConv) (a b : Key) : Bool :=
  match x with
  | .dominant => b.minor == a.minor && tonicPC b == (tonicPC a + 7).emod 12
  | .subdominant => b.minor == a.minor && tonicPC b == (tonicPC a + 5).emod 12
  | .relative => b.minor != a.minor && (conventionalSignature b - conventionalSignature a).emod 12 == 0
  | .parallel => b.minor != a.minor && tonicPC b == tonicPC a
  | .unknown => false

/-- **rings aligned**: both rings have 12 non-empty slots, every supported key sits in exactly the slots of its
own mode that contain it, and every key of a slot is supported -/
theorem rings_aligned :
    C.majors.length = 12 ∧ C.minors.length = 12 ∧
    (∀ p ∈ positions, slot p ≠ [] ∧ ∀ k ∈ slot p, k.minor = p.1 ∧ (newScale k).isSome = true ∧ ringIndex (C.ring k.minor) k = some p.2) ∧
    (∀ k ∈ requiredKeys, ∃ p ∈ positions, k ∈ slot p) := by decide

/-- **each move means what theory says, from every supported key, and lists every supported spelling** -/
theorem step_semantics : ∀ k ∈ requiredKeys, ∀ x ∈ moves,
    ∃ m, x.apply C k = some m ∧ m ≠ [] ∧ (∀ k' ∈ m, related x k k' = true) ∧
      (∀ k'' ∈ requiredKeys, related x k k'' = true → k'' ∈ m) := by decide

/-- every key of a slot is sent, by every move, to the whole slot the abstract step names -/
theorem step_on_slots : ∀ p ∈ positions, ∀ k ∈ slot p, ∀ x ∈ moves, x.apply C k = some (slot (absStep p x)) := by
  decide

theorem absStep_mem : ∀ p ∈ positions, ∀ x ∈ moves, absStep p x ∈ positions := by decide

/-- order oracle: Go iterates the member's key set in an arbitrary order; any selection of at least one key -/
def OrdOK (ord : Member → Member) : Prop := ∀ m, m ≠ [] → ord m ≠ [] ∧ ∀ k ∈ ord m, k ∈ m

theorem chainStep_slot (ord : Member → Member) (ho : OrdOK ord) (p : Pos) (hp : p ∈ positions)
    (m : Member) (hne : m ≠ []) (hsub : ∀ k ∈ m, k ∈ slot p) (x : KConv) (hx : x ∈ moves) :
    chainStep C ord m x = some (slot (absStep p x)) := by
  obtain ⟨hne', hsub'⟩ := ho m hne
  unfold chainStep
  cases hom : ord m with
  | nil => exact absurd hom hne'
  | cons k ks =>
    have hk : k ∈ slot p := hsub k (hsub' k (by rw [hom]; simp))
    simp [step_on_slots p hp k hk x hx]

theorem chainFold_slot (ord : Member → Member) (ho : OrdOK ord) (chain : List KConv) (hc : ∀ x ∈ chain, x ∈ moves) :
    ∀ (p : Pos), p ∈ positions → ∀ (m : Member), m ≠ [] → (∀ k ∈ m, k ∈ slot p) → chain ≠ [] →
      chainFold C ord m chain = some (slot (chain.foldl absStep p)) := by
  induction chain with
  | nil => intro p _ m _ _ h; exact absurd rfl h
  | cons x xs ih =>
    intro p hp m hne hsub _
    have hx : x ∈ moves := hc x (by simp)
    have hstep := chainStep_slot ord ho p hp m hne hsub x hx
    have hp' := absStep_mem p hp x hx
    have hslot := (rings_aligned.2.2.1 (absStep p x) hp').1
    simp only [chainFold, hstep, List.foldl_cons]
    cases xs with
    | nil => simp [chainFold]
    | cons y ys =>
      exact ih (fun z hz => hc z (by simp [hz])) (absStep p x) hp' (slot (absStep p x)) hslot (fun _ h => h) (by simp)

/-- **every chain succeeds and equals the composition of its steps, whatever spelling is read at each step** -/
theorem chain_is_composition (ord : Member → Member) (ho : OrdOK ord) (k : Key) (hk : k ∈ requiredKeys)
    (chain : List KConv) (hne : chain ≠ []) (hc : ∀ x ∈ chain, x ∈ moves) :
    ∃ p ∈ positions, k ∈ slot p ∧ chainConvert C ord k chain = some (slot (chain.foldl absStep p)) := by
  obtain ⟨p, hp, hkp⟩ := rings_aligned.2.2.2 k hk
  refine ⟨p, hp, hkp, ?_⟩
  have hs := supports_required k hk
  unfold chainConvert
  cases hns : newScale k with
  | none => simp [hns] at hs
  | some s =>
    have hkey : s.key = k := by
      have := letters_once_from_tonic k s hns
      simp only [Bool.and_eq_true, beq_iff_eq] at this
      exact this.2
    simp only [hkey]
    exact chainFold_slot ord ho chain hc p hp [k] (by simp) (by intro k' hk'; simp at hk'; subst hk'; exact hkp) hne

/-- the result does not depend on the iteration order (the enharmonic spelling read at each step) -/
theorem spelling_independent (ord₁ ord₂ : Member → Member) (h₁ : OrdOK ord₁) (h₂ : OrdOK ord₂)
    (k : Key) (hk : k ∈ requiredKeys) (chain : List KConv) (hc : ∀ x ∈ chain, x ∈ moves) :
    chainConvert C ord₁ k chain = chainConvert C ord₂ k chain := by
  cases chain with
  | nil => simp [chainConvert, chainFold]
  | cons x xs =>
    obtain ⟨p, hp, hkp, e₁⟩ := chain_is_composition ord₁ h₁ k hk (x :: xs) (by simp) hc
    obtain ⟨q, hq, hkq, e₂⟩ := chain_is_composition ord₂ h₂ k hk (x :: xs) (by simp) hc
    have hpq : p = q := by
      have a := ((rings_aligned.2.2.1 p hp).2 k hkp)
      have b := ((rings_aligned.2.2.1 q hq).2 k hkq)
      have h1 : p.1 = q.1 := by rw [← a.1, ← b.1]
      have h2 : p.2 = q.2 := by
        have := a.2.2; rw [b.2.2] at this; exact (Option.some.inj this).symm
      exact Prod.ext h1 h2
    rw [e₁, e₂, hpq]

/-- group laws of the abstract moves: d∘s = s∘d = id, r∘r = id, p∘p = id, d¹² = s¹² = id -/
theorem move_laws : ∀ p ∈ positions,
    absStep (absStep p .dominant) .subdominant = p ∧ absStep (absStep p .subdominant) .dominant = p ∧
    absStep (absStep p .relative) .relative = p ∧ absStep (absStep p .parallel) .parallel = p ∧
    (List.replicate 12 KConv.dominant).foldl absStep p = p ∧
    (List.replicate 12 KConv.subdominant).foldl absStep p = p := by decide

/-- consequently, for chains: appending d·s, s·d, r·r, p·p or twelve d's to any non-empty chain changes nothing -/
theorem chain_laws (ord : Member → Member) (ho : OrdOK ord) (k : Key) (hk : k ∈ requiredKeys)
    (chain : List KConv) (hne : chain ≠ []) (hc : ∀ x ∈ chain, x ∈ moves)
    (tail : List KConv) (ht : tail ∈ [[.dominant, .subdominant], [.subdominant, .dominant], [.relative, .relative],
      [.parallel, .parallel], List.replicate 12 KConv.dominant, List.replicate 12 KConv.subdominant]) :
    chainConvert C ord k (chain ++ tail) = chainConvert C ord k chain := by
  have htm : ∀ x ∈ tail, x ∈ moves := by
    simp only [List.mem_cons, List.mem_nil_iff, or_false] at ht
    rcases ht with rfl | rfl | rfl | rfl | rfl | rfl <;> decide
  obtain ⟨p, hp, hkp, e₁⟩ := chain_is_composition ord ho k hk chain hne hc
  obtain ⟨q, hq, hkq, e₂⟩ := chain_is_composition ord ho k hk (chain ++ tail) (by simp [hne])
    (by intro x hx; rcases List.mem_append.mp hx with h | h; exact hc x h; exact htm x h)
  have hpq : p = q := by
    have a := ((rings_aligned.2.2.1 p hp).2 k hkp)
    have b := ((rings_aligned.2.2.1 q hq).2 k hkq)
    have h1 : p.1 = q.1 := by rw [← a.1, ← b.1]
    have h2 : p.2 = q.2 := by
      have := a.2.2; rw [b.2.2] at this; exact (Option.some.inj this).symm
    exact Prod.ext h1 h2
  subst hpq
  rw [e₁, e₂, List.foldl_append]
  have hmem : ∀ (l : List KConv), (∀ x ∈ l, x ∈ moves) → ∀ r ∈ positions, l.foldl absStep r ∈ positions := by
    intro l; induction l with
    | nil => intro _ r hr; exact hr
    | cons y ys ih => intro h r hr; exact ih (fun z hz => h z (by simp [hz])) _ (absStep_mem r hr y (h y (by simp)))
  have hr := hmem chain hc p hp
  have laws := move_laws _ hr
  simp only [List.mem_cons, List.mem_nil_iff, or_false] at ht
  rcases ht with rfl | rfl | rfl | rfl | rfl | rfl
  · simp [laws.1]
  · simp [laws.2.1]
  · simp [laws.2.2.1]
  · simp [laws.2.2.2.1]
  · rw [laws.2.2.2.2.1]
  · rw [laws.2.2.2.2.2]

/-! ### runs of dominants and subdominants: only the net rotation counts -/

theorem dominants_rotate (n : Nat) : ∀ (p : Pos), p.2 < 12 →
    (List.replicate n KConv.dominant).foldl absStep p = (p.1, (p.2 + n) % 12) := by
  induction n with
  | zero => intro p hp; simp [Nat.mod_eq_of_lt hp]
  | succ n ih =>
    intro p hp
    rw [List.replicate_succ, List.foldl_cons]
    have h1 : (absStep p .dominant).2 < 12 := by simp only [absStep]; omega
    rw [ih _ h1]
    simp only [absStep]
    congr 1
    omega

theorem subdominants_rotate (n : Nat) : ∀ (p : Pos), p.2 < 12 →
    (List.replicate n KConv.subdominant).foldl absStep p = (p.1, (p.2 + 11 * n) % 12) := by
  induction n with
  | zero => intro p hp; simp [Nat.mod_eq_of_lt hp]
  | succ n ih =>
    intro p hp
    rw [List.replicate_succ, List.foldl_cons]
    have h1 : (absStep p .subdominant).2 < 12 := by simp only [absStep]; omega
    rw [ih _ h1]
    simp only [absStep]
    congr 1
    omega

theorem positions_lt : ∀ p ∈ positions, p.2 < 12 := by decide

theorem foldl_mem_positions (l : List KConv) (h : ∀ x ∈ l, x ∈ moves) : ∀ r ∈ positions, l.foldl absStep r ∈ positions := by
  induction l with
  | nil => intro r hr; exact hr
  | cons y ys ih => intro r hr; exact ih (fun z hz => h z (by simp [hz])) _ (absStep_mem r hr y (h y (by simp)))

/-- the slot position of a supported key is unique -/
theorem pos_unique (k : Key) (p q : Pos) (hp : p ∈ positions) (hq : q ∈ positions) (hkp : k ∈ slot p) (hkq : k ∈ slot q) : p = q := by
  have a := ((rings_aligned.2.2.1 p hp).2 k hkp)
  have b := ((rings_aligned.2.2.1 q hq).2 k hkq)
  have h1 : p.1 = q.1 := by rw [← a.1, ← b.1]
  have h2 : p.2 = q.2 := by
    have := a.2.2; rw [b.2.2] at this; exact (Option.some.inj this).symm
  exact Prod.ext h1 h2

/-- **only the net rotation of a run counts**: anywhere inside a command, `a` dominants followed by `b`
subdominants may be replaced by `(a + 11·b) mod 12` dominants — for every `a` and `b`, however many turns of the
circle the run makes in either direction (a run of thirteen subdominants is one subdominant, not nothing).  The
command that remains must not be empty: an empty command answers with the one spelling it was given, a command
that cancels out with every spelling of that key. -/
theorem net_rotation (ord : Member → Member) (ho : OrdOK ord) (k : Key) (hk : k ∈ requiredKeys) (a b : Nat)
    (pre post : List KConv) (hne : pre ++ List.replicate ((a + 11 * b) % 12) KConv.dominant ++ post ≠ []) (hpre : ∀ x ∈ pre, x ∈ moves) (hpost : ∀ x ∈ post, x ∈ moves) :
    chainConvert C ord k (pre ++ (List.replicate a .dominant ++ List.replicate b .subdominant) ++ post) =
    chainConvert C ord k (pre ++ List.replicate ((a + 11 * b) % 12) .dominant ++ post) := by
  have hrep : ∀ (n : Nat) (y : KConv), y ∈ moves → ∀ x ∈ List.replicate n y, x ∈ moves := by
    intro n y hy x hx; rw [(List.mem_replicate.mp hx).2]; exact hy
  have hd : KConv.dominant ∈ moves := by decide
  have hs : KConv.subdominant ∈ moves := by decide
  have hc1 : ∀ x ∈ pre ++ (List.replicate a .dominant ++ List.replicate b .subdominant) ++ post, x ∈ moves := by
    intro x hx
    simp only [List.mem_append] at hx
    rcases hx with (h | h | h) | h
    · exact hpre x h
    · exact hrep a _ hd x h
    · exact hrep b _ hs x h
    · exact hpost x h
  have hc2 : ∀ x ∈ pre ++ List.replicate ((a + 11 * b) % 12) .dominant ++ post, x ∈ moves := by
    intro x hx
    simp only [List.mem_append] at hx
    rcases hx with (h | h) | h
    · exact hpre x h
    · exact hrep _ _ hd x h
    · exact hpost x h
  have hne1 : pre ++ (List.replicate a KConv.dominant ++ List.replicate b KConv.subdominant) ++ post ≠ [] := by
    intro h
    simp only [List.append_eq_nil_iff, List.replicate_eq_nil_iff] at h
    obtain ⟨⟨h1, h2, h3⟩, h4⟩ := h
    apply hne
    simp [h1, h2, h3, h4]
  obtain ⟨p, hp, hkp, e₁⟩ := chain_is_composition ord ho k hk _ hne1 hc1
  obtain ⟨q, hq, hkq, e₂⟩ := chain_is_composition ord ho k hk _ hne hc2
  have hpq := pos_unique k p q hp hq hkp hkq
  subst hpq
  rw [e₁, e₂]
  congr 2
  simp only [List.foldl_append]
  have hr := foldl_mem_positions pre hpre p hp
  have hlt := positions_lt _ hr
  generalize pre.foldl absStep p = r at hr hlt
  rw [dominants_rotate a r hlt, subdominants_rotate b _ (by simp only; omega), dominants_rotate _ r hlt]
  congr 2
  simp only
  omega

/-! non-vacuity -/
example : chainConvert C id ⟨.C, false, .natural⟩ (List.replicate 13 .subdominant) = some [⟨.F, false, .natural⟩] := by decide
/-- why `net_rotation` asks for a non-empty remainder: a command that cancels out names both spellings of B/Cb, the
empty command only the one it was given -/
example : (chainConvert C id ⟨.C, false, .flat⟩ [.dominant, .subdominant]).map List.length = some 2 ∧
    (chainConvert C id ⟨.C, false, .flat⟩ []).map List.length = some 1 := by decide
example : OrdOK id := fun _ h => ⟨h, fun _ hk => hk⟩
example : OrdOK List.reverse := fun _ h => ⟨by simpa using h, fun _ hk => by simpa using hk⟩
example : chainConvert C id ⟨.E, false, .natural⟩ [.dominant, .parallel, .relative, .subdominant] =
    some [⟨.G, false, .natural⟩] := by decide
example : (⟨.E, false, .natural⟩ : Key) ∈ requiredKeys := by decide

end Crd.Props.C14
