import Crd.Lemmas.Degree
import Crd.Lemmas.DegreeParse
import Crd.Lemmas.AddDegree

/-!
# C15 — every interval name has its textbook size and prints and parses back

"Every interval (number n ≥ 1 with quality major, minor, perfect, augmented, diminished, doubly augmented
or doubly diminished where that quality exists for n) measures what theory says …; impossible combinations
such as 'major fourth' are rejected.  Its printed notation reads back as the same interval, and
`crd info attr|chord describe` reports for every root a note whose pitch class and octave offset are
root + interval, spelled natural when possible and otherwise with the requested accidental."

Property theorems only; proofs call `Crd/Lemmas`.  Model functions: `Crd/Model/Note.lean`
(tied to note/*.go by `tie:note`, `tie:describe`); tables: `Crd/Generated/Tables.lean` (regenerated).
-/
namespace Crd.Props.C15
open Crd Crd.Spec

/-- size = major-scale size of the simple interval + 12 per octave, −1 minor, +1 augmented, −1/−2
diminished, one more for doubly — for EVERY n and quality (no bound on n) -/
theorem size_is_textbook (n : Nat) (q : Quality) : (Degree.mk n q).semitone = specSize n q :=
  semitone_eq_spec ⟨n, q⟩

/-- impossible combinations are rejected, for every n: major/minor of the perfect class (unison, fourth,
fifth and compounds), perfect of the others, anything of number 0, and the unknown quality -/
theorem impossible_rejected (n : Nat) :
    (perfectClass ((n - 1) % 7) = true → (Degree.mk n .major).semitone = none ∧ (Degree.mk n .minor).semitone = none) ∧
    (perfectClass ((n - 1) % 7) = false → (Degree.mk n .perfect).semitone = none) ∧
    (Degree.mk n .unknown).semitone = none ∧ (∀ q, (Degree.mk 0 q).semitone = none) := by
  refine ⟨?_, ?_, ?_, ?_⟩
  · intro h; simp only [semitone_eq_spec, specSize, h]; by_cases h0 : n = 0 <;> simp [h0]
  · intro h; simp only [semitone_eq_spec, specSize, h]; by_cases h0 : n = 0 <;> simp [h0]
  · simp only [semitone_eq_spec, specSize]; by_cases h0 : n = 0 <;> simp [h0]
  · intro q; simp [semitone_eq_spec, specSize]

/-- and every other combination exists -/
theorem possible_accepted (n : Nat) (h : 1 ≤ n) :
    (perfectClass ((n - 1) % 7) = false → (Degree.mk n .major).valid ∧ (Degree.mk n .minor).valid) ∧
    (perfectClass ((n - 1) % 7) = true → (Degree.mk n .perfect).valid) ∧
    (Degree.mk n .augmented).valid ∧ (Degree.mk n .diminished).valid ∧
    (Degree.mk n .daug).valid ∧ (Degree.mk n .ddim).valid := by
  have h0 : ¬ n = 0 := by omega
  refine ⟨?_, ?_, ?_, ?_, ?_, ?_⟩ <;> (try intro hp) <;>
    simp only [Degree.valid, semitone_eq_spec, specSize, h0, if_false] <;>
    (try simp only [hp]) <;> (try cases perfectClass ((n - 1) % 7)) <;> simp

/-- printed notation reads back as the same interval (any valid interval whose number fits Go's uint) -/
theorem print_parse_roundtrip (d : Degree) (hv : d.valid) (hb : d.value < 2 ^ 64) :
    parseDegree d.str.toList = some d := degree_roundtrip d hv hb

/-- the notation reader never invents an interval that does not exist -/
theorem parse_only_valid (s : List Char) (d : Degree) (h : parseDegree s = some d) : d.valid :=
  parse_valid s d h

/-- `info attr|chord describe`: root + interval, natural when possible, else the requested accidental -/
theorem describe_pitch (root : Note) (hr : root ∈ roots) (d : Degree) (hv : d.valid) (pref : Bool) :
    ∃ (r : Note) (oct pc rs ds : Int),
      root.addDegree d pref = .ok r oct ∧ root.semitone? = some rs ∧ d.semitone = some ds ∧
      r.semitone? = some pc ∧ 0 ≤ pc ∧ pc < 12 ∧ 12 * oct + pc = rs + ds ∧
      (if naturalAt pc then r.acc = .natural else r.acc = (if pref then .sharp else .flat)) :=
  addDegree_pitch root hr d hv pref

/-! non-vacuity: concrete non-trivial inputs satisfy the hypotheses, and the statements say something -/
example : (Degree.mk 13 .minor).valid ∧ (13 : Nat) < 2 ^ 64 := by decide
example : (Degree.mk 13 .minor).semitone = some 20 := by decide
example : (Degree.mk 11 .augmented).str = "#11" := by decide
example : (⟨.E, .flat⟩ : Note) ∈ roots ∧ (Degree.mk 7 .minor).valid := by decide
example : (⟨.E, .flat⟩ : Note).addDegree ⟨7, .minor⟩ false = .ok ⟨.D, .flat⟩ 1 := by decide

end Crd.Props.C15
