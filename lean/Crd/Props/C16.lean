import Crd.Lemmas.Dict
import Crd.Lemmas.DictLast
import Crd.Lemmas.Degree

/-!
# C16 — the chord dictionary means what chord symbols mean, and is safely extensible

"Each built-in symbol resolves to its conventional set of intervals above the root (…), a chord's long name and
its display symbol are interchangeable everywhere, every built-in attribute name denotes the interval its
English name says, and the embedded attribute list is what `crd gen attr` generates.  Chords and attributes
supplied with --chord and --attr are usable like built-ins, `extends` inheriting all of the parent's notes
transitively; a dictionary with a dangling attribute, a dangling or cyclic `extends`, or an unnamed entry is
rejected with an error."

Built-ins: kernel evaluation over the embedded YAML files (re-read by the extractor on every run).
User dictionaries: theorems for ARBITRARY lists appended after the built-ins.
-/
namespace Crd.Props.C16
open Crd Crd.Generated

/-- chord theory: intervals above the root, in semitones, for the 21 symbols the property names -/
def conventional : List (String × List Int) :=
  [("", [0,4,7]), ("m", [0,3,7]), ("dim", [0,3,6]), ("aug", [0,4,8]), ("7", [0,4,7,10]), ("M7", [0,4,7,11]),
   ("maj7", [0,4,7,11]), ("m7", [0,3,7,10]), ("mM7", [0,3,7,11]), ("m7b5", [0,3,6,10]), ("dim7", [0,3,6,9]),
   ("augM7", [0,4,8,11]), ("9", [0,4,7,10,14]), ("m9", [0,3,7,10,14]), ("M9", [0,4,7,11,14]), ("maj9", [0,4,7,11,14]),
   ("mM9", [0,3,7,11,14]), ("sus4", [0,5,7]), ("7sus4", [0,5,7,10]), ("6", [0,4,7,9]), ("m6", [0,3,7,9]),
   ("add9", [0,4,7,14]), ("sus2", [0,2,7])]

/-- English interval names (spec side) -/
def english : Quality → Option String
  | .major => some "Major" | .minor => some "Minor" | .perfect => some "Perfect"
  | .augmented => some "Augmented" | .diminished => some "Diminished" | _ => none

def builtin : Dict := (newDict [] []).getD ⟨[], []⟩

/-- insertion sort (kernel-reducible) -/
def insertSorted (x : Int) : List Int → List Int
  | [] => [x]
  | y :: ys => if x ≤ y then x :: y :: ys else y :: insertSorted x ys
def isort (l : List Int) : List Int := l.foldr insertSorted []

def semis (d : Dict) (n : String) : Option (List Int) :=
  (d.chordAttrs n).bind fun as => as.mapM fun a => a.degree.semitone

/-- every `degree:` of the embedded attribute file is readable (so no entry is a placeholder) -/
theorem builtin_attrs_parse : ∀ a ∈ rawAttributes, (parseDegree a.2.toList).isSome = true := by decide

/-- the built-in dictionary loads (no `Must*` panic, validation passes) -/
theorem builtin_loads : (newDict [] []).isSome = true := by decide

/-- each of the named symbols resolves — inherited notes included — to its conventional intervals, and as a set
(sorted) these are exactly the listed ones -/
theorem builtin_intervals : ∀ e ∈ conventional,
    ((semis builtin e.1).map isort) = some e.2 := by decide

/-- every built-in chord is found by its long name and by its display symbol, as the same entry, and both
resolve to the same notes; no two built-ins collide -/
theorem name_display_interchangeable : ∀ c ∈ builtinChords,
    builtin.chord c.name = some c ∧ builtin.chord c.display = some c ∧
    semis builtin c.name = semis builtin c.display ∧ (semis builtin c.name).isSome = true := by decide

/-- every symbol of the property's list is a built-in display symbol, and every built-in is in the list -/
theorem symbols_are_the_builtins :
    (∀ e ∈ conventional, ∃ c ∈ builtinChords, c.display = e.1) ∧ (∀ c ∈ builtinChords, ∃ e ∈ conventional, e.1 = c.display) := by
  decide

/-- every built-in attribute name is `<English quality><number>` of the (valid) interval it denotes -/
theorem attr_names_mean : ∀ a ∈ builtinAttrs,
    a.degree.valid = true ∧ (english a.degree.name).map (· ++ toString a.degree.value) = some a.name := by decide

/-- the embedded attribute list is exactly what `crd gen attr -d <N>` generates (N from the go:generate line) -/
theorem embedded_is_generated : generateAttributes genAttrMaxDegree = builtinAttrs := by decide

/-! ### user dictionaries: arbitrary lists appended after the built-ins -/

/-- acceptance is exactly: every user entry is well-formed (named, displayable, non-empty) and the combined
dictionary has no dangling attribute, no dangling parent and no `extends` chain that fails to end -/
theorem accept_iff (ua : List Attr) (uc : List ChordDef) :
    (newDict ua uc).isSome = true ↔
      (ua.all Attr.valid && uc.all ChordDef.valid) = true ∧
      (buildRaw (builtinAttrs ++ ua) (builtinChords ++ uc)).validate = true := by
  unfold newDict build
  by_cases h : (ua.all Attr.valid && uc.all ChordDef.valid) = true <;> simp [h]

/-- an unnamed attribute or chord, a chord without display symbol, or a chord with neither notes nor parent
is rejected -/
theorem unnamed_rejected (ua : List Attr) (uc : List ChordDef)
    (h : (∃ a ∈ ua, a.name = "") ∨ (∃ c ∈ uc, c.name = "" ∨ (c.display = "" ∧ c.name ≠ "MajorTriad") ∨ (c.attributes = [] ∧ c.parent = ""))) :
    newDict ua uc = none := by
  unfold newDict
  have : (ua.all Attr.valid && uc.all ChordDef.valid) = false := by
    rcases h with ⟨a, ha, hn⟩ | ⟨c, hc, hn⟩
    · have : ua.all Attr.valid = false := by
        rw [List.all_eq_false]; exact ⟨a, ha, by simp [Attr.valid, hn]⟩
      simp [this]
    · have : uc.all ChordDef.valid = false := by
        rw [List.all_eq_false]; refine ⟨c, hc, ?_⟩
        rcases hn with hn | ⟨h1, h2⟩ | ⟨h1, h2⟩ <;> simp [ChordDef.valid, *]
      simp [this]
  simp [this]

/-- a visible entry with a dangling attribute or a dangling parent makes the load fail -/
theorem dangling_rejected (ua : List Attr) (uc : List ChordDef) (d : Dict)
    (hd : d = buildRaw (builtinAttrs ++ ua) (builtinChords ++ uc)) (n : String) (c : ChordDef)
    (hc : d.chord n = some c)
    (h : (∃ a ∈ c.attributes, d.attr a = none) ∨ (c.parent ≠ "" ∧ d.chord c.parent = none)) :
    newDict ua uc = none := by
  cases hnd : newDict ua uc with
  | none => rfl
  | some d' =>
    exfalso
    have hs : (newDict ua uc).isSome = true := by simp [hnd]
    have hv := ((accept_iff ua uc).mp hs).2
    rw [← hd] at hv
    have wf := validate_wf d hv
    rcases h with ⟨a, ha, hn⟩ | ⟨hp, hn⟩
    · have := wf.attrs n c hc a ha; simp [hn] at this
    · rcases wf.parent n c hc with h | h
      · exact hp h
      · simp [hn] at h

/-- a visible entry on an `extends` cycle makes the load fail -/
theorem cyclic_rejected (ua : List Attr) (uc : List ChordDef) (d : Dict)
    (hd : d = buildRaw (builtinAttrs ++ ua) (builtinChords ++ uc)) (n : String) (c : ChordDef)
    (hc : d.chord n = some c) (hcyc : d.Reach c c) : newDict ua uc = none := by
  cases hnd : newDict ua uc with
  | none => rfl
  | some d' =>
    exfalso
    have hs : (newDict ua uc).isSome = true := by simp [hnd]
    have hv := ((accept_iff ua uc).mp hs).2
    rw [← hd] at hv
    have := (validate_wf d hv).ends n c hc
    rw [cycle_never_ends d d.bound c hcyc] at this
    cases this

/-- in an accepted dictionary every chord (built-in or user, by name or display) resolves to its parent's notes
— transitively — followed by its own; the lookup never runs out of fuel (= never overflows the stack) -/
theorem resolve_inherits (ua : List Attr) (uc : List ChordDef) (d : Dict) (hd : newDict ua uc = some d)
    (n : String) (c : ChordDef) (hc : d.chord n = some c) :
    d.chordAttrs n = some (d.resolve d.bound c) ∧
    (c.parent ≠ "" → ∃ p, d.chord c.parent = some p ∧
        d.chordAttrs n = some ((d.chordAttrs c.parent).getD [] ++ d.own c) ∧ (d.chordAttrs c.parent).isSome = true) := by
  have hv : d.validate = true := by
    have hs : (newDict ua uc).isSome = true := by simp [hd]
    have h2 := ((accept_iff ua uc).mp hs).2
    have : d = buildRaw (builtinAttrs ++ ua) (builtinChords ++ uc) := by
      unfold newDict build at hd
      simp only [((accept_iff ua uc).mp hs).1, if_true, h2] at hd
      exact (Option.some.inj hd).symm
    rw [this]; exact h2
  have wf := validate_wf d hv
  have main := chordAttrsF_eq d wf.parent
  have h1 := main d.bound n c hc (wf.ends n c hc) d.fuel (bound_le_fuel d)
  refine ⟨h1, ?_⟩
  intro hp
  rcases wf.parent n c hc with h | h
  · exact absurd h hp
  · obtain ⟨p, hpc⟩ : ∃ p, d.chord c.parent = some p := by cases hx : d.chord c.parent <;> simp_all
    -- one step of the chain test, then the fuel lemma for the parent with one unit less
    have he := wf.ends n c hc
    unfold Dict.bound at he
    have he' : d.chainEnds (d.chords.map (·.1)).eraseDups.length p = true := by
      simpa [Dict.chainEnds, hp, hpc] using he
    have A := main _ c.parent p hpc he'
    have hpar : d.chordAttrs c.parent = some (d.resolve (d.chords.map (·.1)).eraseDups.length p) := by
      unfold Dict.chordAttrs Dict.fuel; exact A _ (by omega)
    refine ⟨p, hpc, ?_, by rw [hpar]; rfl⟩
    rw [hpar]
    unfold Dict.chordAttrs Dict.fuel
    have A1 := A ((d.chords.map (·.1)).eraseDups.length + 1) (by omega)
    rw [show (d.chords.map (·.1)).eraseDups.length + 2 = ((d.chords.map (·.1)).eraseDups.length + 1) + 1 from rfl,
      chordAttrsF_succ d _ n c hc, if_neg hp, A1]

/-- an accepted dictionary IS the built-in entries followed by the user's, indexed by name and by symbol -/
theorem accepted_is_built (ua : List Attr) (uc : List ChordDef) (d : Dict) (hd : newDict ua uc = some d) :
    d = buildRaw (builtinAttrs ++ ua) (builtinChords ++ uc) := by
  have hs : (newDict ua uc).isSome = true := by simp [hd]
  have h2 := ((accept_iff ua uc).mp hs).2
  unfold newDict build at hd
  simp only [((accept_iff ua uc).mp hs).1, if_true, h2] at hd
  exact (Option.some.inj hd).symm

/-- **long names and display symbols share one space of names, and the last definition that claims a name has
it**: in every accepted dictionary the chord found under `n` is the last entry of (built-ins, then the user's chords
in the order given) whose display symbol or long name is `n` — whatever that entry itself is otherwise called,
and however the entry that lost the name is called -/
theorem last_definition_wins (ua : List Attr) (uc : List ChordDef) (d : Dict) (hd : newDict ua uc = some d) (n : String) :
    d.chord n = (builtinChords ++ uc).reverse.find? (fun c => c.display = n || c.name = n) := by
  rw [accepted_is_built ua uc d hd]
  exact chord_lookup_last _ _ n

/-- a user chord that claims a name (as its long name or as its symbol) and is not followed by another claimant
has it, also when a built-in chord is called so -/
theorem user_takes_over (ua : List Attr) (pre post : List ChordDef) (u : ChordDef) (d : Dict)
    (hd : newDict ua (pre ++ u :: post) = some d) (n : String) (hu : u.display = n ∨ u.name = n)
    (hpost : ∀ c ∈ post, c.display ≠ n ∧ c.name ≠ n) : d.chord n = some u := by
  rw [last_definition_wins ua _ d hd n]
  simp only [List.reverse_append, List.reverse_cons, List.append_assoc, List.find?_append]
  have h1 : List.find? (fun c => c.display = n || c.name = n) post.reverse = none := by
    rw [List.find?_eq_none]
    intro c hc
    have := hpost c (List.mem_reverse.mp hc)
    simp [this.1, this.2]
  have h2 : List.find? (fun c => c.display = n || c.name = n) [u] = some u := by
    rcases hu with h | h <;> simp [List.find?_cons, h]
  simp [h1, h2]

/-- a name no user chord claims keeps its built-in meaning -/
theorem builtin_name_untouched (ua : List Attr) (uc : List ChordDef) (d : Dict) (hd : newDict ua uc = some d) (n : String)
    (hn : ∀ c ∈ uc, c.display ≠ n ∧ c.name ≠ n) : d.chord n = builtin.chord n := by
  rw [last_definition_wins ua uc d hd n]
  have hb : builtin = buildRaw (builtinAttrs ++ []) (builtinChords ++ []) := by
    have : newDict [] [] = some builtin := by
      unfold builtin
      cases h : newDict [] [] with
      | none => exact absurd h (by have := builtin_loads; simp_all)
      | some x => rfl
    exact accepted_is_built [] [] builtin this
  rw [hb, chord_lookup_last]
  simp only [List.append_nil, List.reverse_append, List.find?_append]
  have h1 : List.find? (fun c => c.display = n || c.name = n) uc.reverse = none := by
    rw [List.find?_eq_none]
    intro c hc
    have := hn c (List.mem_reverse.mp hc)
    simp [this.1, this.2]
  simp [h1]

/-! non-vacuity: a user dictionary with a two-level inheritance chain is accepted and resolves transitively;
a two-entry cycle is rejected -/
def exAttrs : List Attr := [⟨"Eleventh", ⟨11, .perfect⟩⟩]
def exChords : List ChordDef := [⟨"Mine", "mine", ["Eleventh"], "m7"⟩, ⟨"Mine2", "mine2", ["Major9"], "Mine"⟩]
example : ((newDict exAttrs exChords).bind fun d => semis d "mine2") = some [0, 3, 7, 10, 17, 14] := by decide
example : newDict [] [⟨"X", "x", [], "Y"⟩, ⟨"Y", "y", [], "X"⟩] = none := by decide
example : newDict [] [⟨"X", "x", ["Nope"], ""⟩] = none := by decide
/-- a user chord named like the diminished triad's symbol takes `dim` over; the triad stays reachable by its long name -/
example : ((newDict [] [⟨"dim", "o", ["Perfect1", "Minor3", "Diminished5", "Major6"], ""⟩]).bind fun d => semis d "dim") = some [0, 3, 6, 9] ∧
    ((newDict [] [⟨"dim", "o", ["Perfect1", "Minor3", "Diminished5", "Major6"], ""⟩]).bind fun d => semis d "DiminishedTriad") = some [0, 3, 6] := by decide

end Crd.Props.C16
