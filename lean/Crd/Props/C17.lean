import Crd.Lemmas.Diatonic0
import Crd.Lemmas.Diatonic1
import Crd.Lemmas.Diatonic2
import Crd.Lemmas.Diatonic3

/-!
# C17 — the diatonic chords crd reports for a key are playable and stay inside that key

"For every supported key, the seven triads and seven seventh chords printed by `crd info key describe` are written
in crd's own chord notation on the seven scale notes in order, carry the qualities of the major-key (maj min min
maj maj min dim / maj7 m7 m7 maj7 7 m7 m7b5) or natural-minor harmonisation, and — fed back through
`text conv syllable --key K` and `write --key K` — sound only notes of that key's scale."

Decided by kernel evaluation THROUGH THE COMPOSED MODEL (lexer, parser, classifier, syllable converter,
dictionary, Key.Apply) for all 28 keys × 14 chords; the expected qualities come from stacking thirds on the
step pattern (`Crd.Spec.diatonicSymbol`), not from crd's name tables.
-/
namespace Crd.Props.C17
open Crd Crd.Spec Crd.Props.C13

/-- the harmonisation computed from the step patterns is the textbook one -/
theorem harmonisation_is_textbook :
    (List.range 7).map (diatonicSymbol false false) = [some "", some "m", some "m", some "", some "", some "m", some "dim"] ∧
    (List.range 7).map (diatonicSymbol false true) = [some "maj7", some "m7", some "m7", some "maj7", some "7", some "m7", some "m7b5"] ∧
    (List.range 7).map (diatonicSymbol true false) = [some "m", some "dim", some "", some "m", some "m", some "", some ""] ∧
    (List.range 7).map (diatonicSymbol true true) = [some "m7", some "m7b5", some "maj7", some "m7", some "m7", some "maj7", some "7"] := by
  decide

/-- all 28 supported keys pass the composed check -/
theorem all_keys_ok : ∀ k ∈ requiredKeys, diatonicKeyOK k = true := by
  intro k hk
  have hsplit : requiredKeys = (requiredKeys.drop 0).take 7 ++ ((requiredKeys.drop 7).take 7 ++
      ((requiredKeys.drop 14).take 7 ++ (requiredKeys.drop 21).take 7)) := by decide
  rw [hsplit] at hk
  simp only [List.mem_append] at hk
  rcases hk with h | h | h | h
  · exact diatonic_part0 k h
  · exact diatonic_part1 k h
  · exact diatonic_part2 k h
  · exact diatonic_part3 k h

/-- **C17**: for every key with a scale, every listed triad and seventh chord `str` (the i-th of its list):
it lexes and parses as ONE chord, is written on the i-th scale note, converts (in key K) to degree number i+1
without bass, its symbol is the harmonisation's and is in the dictionary, and playing it in key K sounds
4 (5) notes whose pitch classes all belong to the key's scale. -/
theorem diatonic_chords_playable_in_key (k : Key) (s : Scale) (hs : newScale k = some s)
    (seventh : Bool) (i : Nat) (hi : i < 7) :
    ∃ str, (diatonicChords s seventh)[i]? = some str ∧ diatonicChordOK k s seventh i str = true := by
  have hk : k ∈ requiredKeys := by
    by_cases h : k ∈ requiredKeys
    · exact h
    · have := unsupported_rejected k h; rw [hs] at this; cases this
  have h := all_keys_ok k hk
  unfold diatonicKeyOK at h
  simp only [hs, List.all_eq_true, Bool.and_eq_true] at h
  have h2 := h seventh (by cases seventh <;> simp)
  have h3 := h2.2 i (by simp; exact hi)
  cases hstr : (diatonicChords s seventh)[i]? with
  | none => simp [hstr] at h3
  | some str => exact ⟨str, rfl, by simpa [hstr] using h3⟩

/-! non-vacuity -/
example : (newScale ⟨.E, false, .flat⟩).map (fun s => (diatonicChords s true)) =
    some ["Ebmaj7", "Fm7", "Gm7", "Abmaj7", "Bb_7", "Cm7", "Dm7b5"] := by decide
example : scaleOffsets true = [0, 2, 3, 5, 7, 8, 10] := by decide

end Crd.Props.C17
