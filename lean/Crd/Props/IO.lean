import Crd.Generated.Sites

/-!
# Input is read whole, output is written through one route (shared by C04, C09, C10, C12, C14)

The properties about `text parse`, `text conv`, `write`, `write conv` and `info key conv` quantify over inputs of
every length.  The model takes the whole input as a list of bytes; it is entitled to do so only while the real
commands hand their whole input to the parser.  Every use of the `io`, `bufio`, `os`, `io/ioutil` and `io/fs`
packages, and every direct `Read`/`Peek`/`Scan`/`Seek`/`Stat`… on a reader, is listed from the type-checked source
on every run; the list has to be exactly the one accounted for here: the input file or stdin is opened once and read
to the end (`io.ReadAll`, or the lexer's own read to EOF), no reader is limited, windowed, scanned token-wise with
a bounded buffer, or inspected (`Stat`) to decide a route, and output goes to one `os.Create`d file or to stdout.
-/
namespace Crd.Props.IO
open Crd.Generated

def expectedIoSites : List (String × String) :=
  [("cmd/io.go getOutput os.Create", "the -o file, created once per run"),
   ("cmd/io.go getOutput os.Stdout", "otherwise stdout"),
   ("cmd/io.go parseTextOneChordSymbol io.ReadAll", "the -t chord text, read to the end"),
   ("cmd/io.go readFileOrStdin os.Open", "FILE argument"),
   ("cmd/io.go readFileOrStdin os.Stdin", "no argument or `-`"),
   ("cmd/main.go main os.Exit", "exit status"),
   ("cmd/root.go rootCmd os.Stderr", "log output"),
   ("util/conv.go OpenAndParse os.Open", "dictionary files"),
   ("util/conv.go ReadAndParse io.ReadAll", "YAML input, read to the end")]

/-- **the uses of the input/output packages regenerated from /repo are exactly those accounted for**: a limited or
token-wise reader, a size cap, a second way of opening the output, or a route chosen by inspecting the input file
breaks this obligation -/
theorem io_sites_accounted : ioSites = expectedIoSites.map (·.1) := by decide

end Crd.Props.IO
