import Crd.Model.Types

/-!
# Context-free derivations over a grammar given as DATA, and the chord language spelled out

`Derives G s ts` is ordinary CFG derivability (height-indexed so that plain induction on the height works);
`G` will be `Crd.Generated.grammarRules`, re-extracted from input/ast/chords.y on every run.

`Lang` is the same language written out nonterminal by nonterminal (each constructor cites the rule of
chords.y it stands for).  `Crd/Lemmas/GrammarTie.lean` proves `Lang a ts ↔ Derives grammarRules (.n a) ts`.
-/
namespace Crd.Spec
open Crd

/-- a sequence of symbols derives the concatenation of what its members derive -/
def SeqD (D : Sym → List TK → Prop) : List Sym → List TK → Prop
  | [], ts => ts = []
  | s :: ss, ts => ∃ t1 t2, ts = t1 ++ t2 ∧ D s t1 ∧ SeqD D ss t2

/-- derivations of height at most `n` -/
def DerN (G : List Rule) : Nat → Sym → List TK → Prop
  | _, .t k, ts => ts = [k]
  | 0, .n _, _ => False
  | n+1, .n a, ts => ∃ r, r ∈ G ∧ r.lhs = a ∧ SeqD (DerN G n) r.rhs ts

/-- `s ⇒* ts` in grammar `G` -/
def Derives (G : List Rule) (s : Sym) (ts : List TK) : Prop := ∃ n, DerN G n s ts

/-! ## the chord language, nonterminal by nonterminal (token kinds only) -/

inductive LDegree : List TK → Prop
  | syl : LDegree [.SYLLABLE]                 -- degree: degree_head;  degree_head: SYLLABLE
  | num : LDegree [.NUMBER]                   -- degree_head: NUMBER
  | sylSharp : LDegree [.SYLLABLE, .SHARP]    -- degree: degree_head accidental; accidental: SHARP
  | sylFlat : LDegree [.SYLLABLE, .FLAT]      -- accidental: FLAT
  | numSharp : LDegree [.NUMBER, .SHARP]
  | numFlat : LDegree [.NUMBER, .FLAT]

inductive LSymbol : List TK → Prop
  | none : LSymbol []                         -- symbol: ε
  | plain : LSymbol [.SYMBOL]                 -- symbol: simple_symbol; simple_symbol: SYMBOL
  | under : LSymbol [.UNDERSCORE, .SYMBOL]    -- symbol: UNDERSCORE simple_symbol

inductive LBase : List TK → Prop
  | none : LBase []                                           -- base: ε
  | slash (d) (h : LDegree d) : LBase (.SLASH :: d)           -- base: SLASH degree

inductive LValue : List TK → Prop
  | whole : LValue [.NUMBER]                                  -- value: NUMBER
  | frac : LValue [.NUMBER, .SLASH, .NUMBER]                  -- value: NUMBER SLASH NUMBER

inductive LValues : List TK → Prop
  | one (v) (h : LValue v) : LValues v                                           -- values: value
  | more (vs v) (h1 : LValues vs) (h2 : LValue v) : LValues (vs ++ .COMMA :: v)   -- values: values COMMA value

inductive LMetaInt : List TK → Prop
  | one : LMetaInt [.METADATA, .EQUAL, .METADATA]                                 -- meta_internal: metadata
  | more (ms) (h : LMetaInt ms) : LMetaInt (ms ++ [.COMMA, .METADATA, .EQUAL, .METADATA])  -- meta_internal COMMA metadata

inductive LMeta : List TK → Prop
  | none : LMeta []                                                               -- meta: ε
  | some (ms) (h : LMetaInt ms) : LMeta (.LCBRA :: ms ++ [.RCBRA])                -- meta: LCBRA meta_internal RCBRA

inductive LItem : List TK → Prop
  | rest (vs m) (h1 : LValues vs) (h2 : LMeta m) : LItem (.REST :: .LBRA :: vs ++ .RBRA :: m)   -- rest
  | chord (d s b vs m) (hd : LDegree d) (hs : LSymbol s) (hb : LBase b) (hv : LValues vs) (hm : LMeta m) :
      LItem (d ++ s ++ b ++ .LBRA :: vs ++ .RBRA :: m)                                          -- chod

inductive LList : List TK → Prop
  | one (i) (h : LItem i) : LList i                                   -- chord_list: chord_or_rest
  | more (l i) (h1 : LList l) (h2 : LItem i) : LList (l ++ i)         -- chord_list: chord_list chord_or_rest

/-- the language of each nonterminal -/
def Lang : NT → List TK → Prop
  | .result, ts => LList ts
  | .chord_list, ts => LList ts
  | .chord_or_rest, ts => LItem ts
  | .rest, ts => ∃ vs m, LValues vs ∧ LMeta m ∧ ts = .REST :: .LBRA :: vs ++ .RBRA :: m
  | .chod, ts => ∃ d s b vs m, LDegree d ∧ LSymbol s ∧ LBase b ∧ LValues vs ∧ LMeta m ∧ ts = d ++ s ++ b ++ .LBRA :: vs ++ .RBRA :: m
  | .degree, ts => LDegree ts
  | .degree_head, ts => ts = [.SYLLABLE] ∨ ts = [.NUMBER]
  | .accidental, ts => ts = [.SHARP] ∨ ts = [.FLAT]
  | .symbol, ts => LSymbol ts
  | .simple_symbol, ts => ts = [.SYMBOL]
  | .base, ts => LBase ts
  | .values, ts => LValues ts
  | .value, ts => LValue ts
  | .metaN, ts => LMeta ts
  | .meta_internal, ts => LMetaInt ts
  | .metadata, ts => ts = [.METADATA, .EQUAL, .METADATA]

end Crd.Spec
