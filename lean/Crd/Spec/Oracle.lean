import Crd.Spec.Theory

/-!
# Specification-only oracles: what theory says crd should print, computed WITHOUT crd's tables

Used by the violation search: the real code's replies are compared with these, so that a table entry changed
consistently in the code (which the regenerated model follows) still yields a concrete failing input.
Nothing here reads `Crd.Generated`; spellings of letters and accidentals are literals.
-/
namespace Crd.Spec
open Crd

def letterStr : Letter → String
  | .C => "C" | .D => "D" | .E => "E" | .F => "F" | .G => "G" | .A => "A" | .B => "B" | .unknown => "?"

def accStr : Acc → String
  | .sharp => "#" | .flat => "b" | _ => ""

def letterOfChar : Char → Option Letter
  | 'C' => some .C | 'D' => some .D | 'E' => some .E | 'F' => some .F | 'G' => some .G | 'A' => some .A | 'B' => some .B
  | _ => none

/-- exactly `[A-G][#b]?` followed by `rest` -/
def parseNoteSimple (s : List Char) : Option (Letter × Acc × List Char) :=
  match s with
  | [] => none
  | c :: r =>
    match letterOfChar c with
    | none => none
    | some l =>
      match r with
      | '#' :: r' => some (l, .sharp, r')
      | 'b' :: r' => some (l, .flat, r')
      | _ => some (l, .natural, r)

/-- exactly `[A-G][#b]?m?` -/
def parseKeySimple (s : List Char) : Option Key :=
  match parseNoteSimple s with
  | some (l, a, []) => some ⟨l, false, a⟩
  | some (l, a, ['m']) => some ⟨l, true, a⟩
  | _ => none

def keyStr (k : Key) : String := letterStr k.name ++ accStr k.acc ++ (if k.minor then "m" else "")
def snoteStr (n : SNote) : String := letterStr n.name ++ accStr n.acc

def pitchOf (l : Letter) (a : Acc) : Int := naturalPitch l + accShift a

/-- the seven notes of the key: consecutive letters from the tonic, each altered so that the step pattern of the
mode holds; `none` if a double accidental would be needed -/
def specScaleNotes (k : Key) : Option (List SNote) :=
  let letters := lettersFrom k.name
  let offs := scaleOffsets k.minor
  (List.range 7).mapM fun i =>
    let l := letters.getD i .unknown
    let np : Int := naturalPitch l + (if letterIndex l < letterIndex k.name then 12 else 0)
    let need : Int := pitchOf k.name k.acc + offs.getD i 0
    match need - np with
    | 0 => some ⟨l, .natural⟩
    | 1 => some ⟨l, .sharp⟩
    | -1 => some ⟨l, .flat⟩
    | _ => none

/-- (flats, sharps) of the conventional signature -/
def specSignature (k : Key) : Nat × Nat :=
  let s := conventionalSignature k
  if s < 0 then (s.natAbs, 0) else (0, s.natAbs)

/-- the interval from (l₁,a₁) up to (l₂,a₂): its number (by letters) and its size in semitones, the size taken
nearest to the major-scale size of that number (so C up to Cb is a unison of -1, not a seventh) -/
def specInterval (l₁ : Letter) (a₁ : Acc) (l₂ : Letter) (a₂ : Acc) : Nat × Int :=
  let step := (letterIndex l₂ + 7 - letterIndex l₁) % 7
  let dist : Int := (pitchOf l₂ a₂ - pitchOf l₁ a₁).emod 12
  let alt0 : Int := dist - majorScale step
  let alt : Int := if alt0 > 6 then alt0 - 12 else if alt0 < -6 then alt0 + 12 else alt0
  (step + 1, majorScale step + alt)

end Crd.Spec
