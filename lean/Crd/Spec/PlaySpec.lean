import Crd.Model.Play

/-!
# What `crd write` plays, stated without the writer's internal `Opt` cells (specification side of C01, C07)

For each instance: which setting events it emits (`settingsCalls`) and what it sounds, given the key and the
dynamic in force.  `specLoop` strings the instances together.  `Crd/Lemmas/Play.lean` proves that the model of
`play.MIDIWriter.Write` (with its five updated-flags) computes exactly this.
-/
namespace Crd
open Generated

/-- the setting events of one instance: the first instance states tempo, meter and key (its own or the
defaults); a later instance emits an event exactly for each setting it carries -/
def settingsCalls (first : Bool) (i : Instance) : Option (List WCall) :=
  let t := if first then [WCall.tempo (i.bpm.getD defaultBPM)] else (i.bpm.map WCall.tempo).toList
  let m := if first then [meterCall (i.meter.getD ⟨defaultMeter.1, defaultMeter.2⟩)] else (i.meter.map meterCall).toList
  let k? : Option (List WCall) :=
    if first then (keySigCall (i.key.getD defaultKey)).map ([·])
    else match i.key with
      | none => some []
      | some k => (keySigCall k).map ([·])
  let x := if first then textCalls (i.mta.getD []) else (i.mta.map textCalls).getD []
  k?.map fun k => t ++ m ++ k ++ x

/-- one pass over the instances with the key `k0` and dynamic `v0` in force before the first of them -/
def specLoop (d : Dict) : Bool → Key → Dyn → List Instance → Except Err (List WCall)
  | _, _, _, [] => .ok [.close]
  | first, k0, v0, i :: is =>
    if i.values.isEmpty then .error .invalid
    else if keyHasNoScale i then .error .notFound
    else
      let k := i.key.getD k0
      let v := i.velocity.getD v0
      match settingsCalls first i with
      | none => .error (.panic "MustNewScale")
      | some calls =>
        match i.chord with
        | none => (specLoop d false k v is).map fun r => calls ++ [.rest i.values] ++ r
        | some c =>
          match applyChord d k c with
          | .err e => .error e
          | .ok keys => (specLoop d false k v is).map fun r => calls ++ [.note i.values (v.velocity % 256) keys] ++ r

/-- key in force at each instance: the most recent `key` at or before it, else the one before the list -/
def keysInForce (k0 : Key) : List Instance → List Key
  | [] => []
  | i :: r => (i.key.getD k0) :: keysInForce (i.key.getD k0) r

/-- dynamic in force at each instance -/
def dynsInForce (v0 : Dyn) : List Instance → List Dyn
  | [] => []
  | i :: r => (i.velocity.getD v0) :: dynsInForce (i.velocity.getD v0) r

end Crd
