import Crd.Model.Conv
import Crd.Spec.Theory

/-!
# Abstract progressions and their two spellings (specification side of C05)

A progression is written once, abstractly: each chord root is an interval above the tonic (number 1..7 with an
optional flat or sharp), the bass an interval above the root.  `degItem` spells it with degree numbers,
`sylItem` with note names in the key in force.  Both produce parse trees (`Item`), so the statement "one
progression, one meaning" is about the converters, independently of the lexer and parser.
-/
namespace Crd.Spec
open Crd

/-- an interval as degree text can write it: a number and an optional single accidental -/
structure ANote where
  n : Nat          -- 1..7
  alt : Int        -- -1 flat, 0 none, +1 sharp
deriving DecidableEq, Repr

inductive AItem
  | chord (root : ANote) (sym : Option Tok) (bass : Option ANote) (vals : List ValueN) (mta : Option (List MetaKV))
  | rest (vals : List ValueN) (mta : Option (List MetaKV))
deriving Repr

def accTok (alt : Int) : Option Tok :=
  if alt = -1 then some ⟨.FLAT, ['b']⟩ else if alt = 1 then some ⟨.SHARP, ['#']⟩ else none

/-- degree spelling of an interval: NUMBER token + accidental token -/
def degNode (a : ANote) : DegreeN := ⟨⟨.NUMBER, (toString a.n).toList⟩, accTok a.alt⟩

def degItem : AItem → Item
  | .chord r s b v m => .chord (degNode r) s (b.map degNode) v m
  | .rest v m => .rest v m

/-- the letter `k` steps above a letter -/
def letterUp (l : Letter) (k : Nat) : Letter :=
  ([Letter.C, .D, .E, .F, .G, .A, .B] : List Letter).getD ((letterIndex l + k) % 7) .C

/-- the interval as a Degree: what the notation `n`, `nb`, `n#` denotes -/
def degOf (a : ANote) : Option Degree :=
  let q : List Quality := if a.alt = -1 then [.minor, .diminished] else if a.alt = 1 then [.augmented] else [.major, .perfect]
  q.findSome? fun x => if (specSize a.n x).isSome then some ⟨a.n, x⟩ else none

def accOfInt (a : Int) : Option Acc := if a = 0 then some .natural else if a = 1 then some .sharp else if a = -1 then some .flat else none

/-- the written note that lies the interval `a` above the reference note: letter by counting, accidental so that
the pitch is right; `none` when that needs more than one sharp or flat -/
def spell (ref : SNote) (a : ANote) : Option SNote :=
  match degOf a with
  | none => none
  | some d =>
    match specSize d.value d.name with
    | none => none
    | some size =>
      let l := letterUp ref.name (a.n - 1)
      let natural := (naturalPitch l - naturalPitch ref.name).emod 12
      (accOfInt (size - natural + accShift ref.acc)).map fun acc => ⟨l, acc⟩

def noteNode (x : SNote) : DegreeN :=
  ⟨⟨.SYLLABLE, x.name.str.toList⟩, match x.acc with | .sharp => some ⟨.SHARP, ['#']⟩ | .flat => some ⟨.FLAT, ['b']⟩ | _ => none⟩

/-- note-name spelling of an item in a key with tonic `tonic`; `none` if a note is not spellable -/
def sylItem (tonic : SNote) : AItem → Option Item
  | .chord r s b v m =>
    match spell tonic r with
    | none => none
    | some rn =>
      match b with
      | none => some (.chord (noteNode rn) s none v m)
      | some ba => (spell rn ba).map fun bn => .chord (noteNode rn) s (some (noteNode bn)) v m
  | .rest v m => some (.rest v m)

def AItem.mta : AItem → Option (List MetaKV) | .chord _ _ _ _ m => m | .rest _ m => m

/-- the key in force for an item and after it: its own `key=` metadata if present, else the one before -/
def keyAfter (s : Scale) (a : AItem) : Option Scale :=
  match modifyMeta { mta := convMeta a.mta } (convMeta a.mta) with
  | .error _ => none
  | .ok i => match i.key with
    | none => some s
    | some k => newScale k

/-- spell a whole progression with note names, starting in scale `s` and following its key changes -/
def sylItems : Scale → List AItem → Option (List Item)
  | _, [] => some []
  | s, a :: rest =>
    match keyAfter s a with
    | none => none
    | some s' =>
      match s'.notes.head? with
      | none => none
      | some tonic =>
        match sylItem tonic a, sylItems s' rest with
        | some it, some its => some (it :: its)
        | _, _ => none

end Crd.Spec
