/-!
# A strict reader of Standard MIDI Files, written from the SMF 1.0 specification

Shares no code with the encoder model (`Crd/Model/Smf.lean`) nor with gomidi.  Used (a) as the right-hand
side of the C08 round-trip theorem and (b) executably on the bytes the real `crd write` produced.
Core Lean only.
-/
namespace Crd.Spec

inductive SEvent
  | midi (delta status d1 : Nat) (d2 : Option Nat)     -- channel voice message, status byte resolved
  | mta (delta typ : Nat) (data : List Nat)            -- meta event FF typ len data
deriving DecidableEq, Repr, Inhabited

def SEvent.delta : SEvent → Nat
  | .midi d _ _ _ => d
  | .mta d _ _ => d

structure SmfFile where
  format : Nat
  division : Nat
  tracks : List (List SEvent)
deriving DecidableEq, Repr

def be (bs : List Nat) : Nat := bs.foldl (fun a b => a * 256 + b) 0

/-- variable-length quantity: at most 4 bytes, canonical (no leading 0x80 group), value and rest -/
def vlqAux : Nat → Nat → List Nat → Option (Nat × List Nat)
  | 0, _, _ => none
  | _+1, _, [] => none
  | f+1, acc, b :: bs =>
    if b < 128 then some (acc * 128 + b, bs)
    else if b < 256 then vlqAux f (acc * 128 + (b - 128)) bs
    else none

def readVlq (bs : List Nat) : Option (Nat × List Nat) :=
  match bs with
  | 0x80 :: _ => none            -- non-canonical: leading zero group
  | _ => vlqAux 4 0 bs

def isData (b : Nat) : Bool := b < 128

/-- fixed payload lengths the specification prescribes -/
def metaLenOK (typ len : Nat) : Bool :=
  if typ = 0x2F then len = 0
  else if typ = 0x51 then len = 3
  else if typ = 0x58 then len = 4
  else if typ = 0x59 then len = 2
  else if typ = 0x00 then len = 2
  else if typ = 0x20 then len = 1
  else if typ = 0x54 then len = 5
  else true

/-- events of one track chunk; `rs` is the running status (0 = none); must end with exactly one EOT -/
def readEvents : Nat → Nat → List Nat → Except String (List SEvent)
  | 0, _, _ => .error "fuel"
  | f+1, rs, bs =>
    match readVlq bs with
    | none => .error "bad delta"
    | some (d, r) =>
      match r with
      | [] => .error "truncated event"
      | 0xFF :: typ :: r1 =>
        if !isData typ then .error "meta type >= 128" else
        match readVlq r1 with
        | none => .error "bad meta length"
        | some (len, r2) =>
          if (r2.take len).length < len then .error "meta data truncated"
          else if !metaLenOK typ len then .error "wrong meta length"
          else
            let data := r2.take len
            let rest := r2.drop len
            if typ = 0x2F then
              if rest.isEmpty then .ok [.mta d typ data] else .error "data after end of track"
            else if typ = 0x59 ∧ !((data[0]! ≤ 7 ∨ 249 ≤ data[0]!) ∧ data[1]! ≤ 1) then .error "bad key signature"
            else if rest.isEmpty then .error "missing end of track"
            else (readEvents f 0 rest).map (SEvent.mta d typ data :: ·)
      | b :: r1 =>
        if b = 0xF0 ∨ b = 0xF7 then .error "sysex not expected"
        else if b ≥ 0xF0 then .error "system message in file"
        else
          let (status, dataBytes) := if b ≥ 0x80 then (b, r1) else (rs, b :: r1)
          if status = 0 then .error "running status without status" else
          let one := 0xC0 ≤ status ∧ status ≤ 0xDF
          match dataBytes with
          | d1 :: rest1 =>
            if !isData d1 then .error "data byte >= 128" else
            if one then
              if rest1.isEmpty then .error "missing end of track"
              else (readEvents f status rest1).map (SEvent.midi d status d1 none :: ·)
            else match rest1 with
              | d2 :: rest2 =>
                if !isData d2 then .error "data byte >= 128"
                else if rest2.isEmpty then .error "missing end of track"
                else (readEvents f status rest2).map (SEvent.midi d status d1 (some d2) :: ·)
              | [] => .error "truncated event"
          | [] => .error "truncated event"

def readChunks : Nat → Nat → List Nat → Except String (List (List SEvent))
  | 0, 0, [] => .ok []
  | 0, 0, _ => .error "trailing bytes after last track"
  | 0, _+1, _ => .error "fuel"
  | _+1, 0, [] => .ok []
  | _+1, 0, _ => .error "trailing bytes after last track"
  | f+1, n+1, bs =>
    match bs with
    | 0x4D :: 0x54 :: 0x72 :: 0x6B :: l0 :: l1 :: l2 :: l3 :: r =>
      let len := be [l0, l1, l2, l3]
      if (r.take len).length < len then .error "track chunk truncated"
      else do
        let evs ← readEvents (len + 1) 0 (r.take len)
        let rest ← readChunks f n (r.drop len)
        pure (evs :: rest)
    | _ => .error "expected MTrk"

def parseSMF (bs : List Nat) : Except String SmfFile :=
  match bs with
  | 0x4D :: 0x54 :: 0x68 :: 0x64 :: 0 :: 0 :: 0 :: 6 :: f0 :: f1 :: n0 :: n1 :: d0 :: d1 :: r =>
    let fmt := be [f0, f1]
    let n := be [n0, n1]
    let div := be [d0, d1]
    if ¬ bs.all (· < 256) then .error "not bytes"
    else if n = 0 then .error "no tracks"
    else if fmt = 0 ∧ n ≠ 1 then .error "format 0 with several tracks"
    else if fmt ≠ 0 ∧ (fmt ≠ 1 ∨ n = 1) then .error "format must be 0 for one track and 1 for several"
    else if div = 0 ∨ div ≥ 32768 then .error "bad division"
    else (readChunks (n + 1) n r).map fun ts => ⟨fmt, div, ts⟩
  | _ => .error "bad header"

/-! ## derived views used by the property oracles -/

/-- absolute ticks of a track's events -/
def absTimes : Nat → List SEvent → List (Nat × SEvent)
  | _, [] => []
  | c, e :: r => (c + e.delta, e) :: absTimes (c + e.delta) r

def isNoteOn : SEvent → Option (Nat × Nat × Nat)     -- channel, key, velocity
  | .midi _ st k (some v) => if 0x90 ≤ st ∧ st ≤ 0x9F ∧ v > 0 then some (st - 0x90, k, v) else none
  | _ => none

def isNoteOff : SEvent → Option (Nat × Nat)
  | .midi _ st k (some v) =>
    if 0x80 ≤ st ∧ st ≤ 0x8F then some (st - 0x80, k)
    else if 0x90 ≤ st ∧ st ≤ 0x9F ∧ v = 0 then some (st - 0x90, k) else none
  | _ => none

/-- every note-on is later closed by a note-off of the same key and channel, nothing is closed that is not
open, nothing stays open: a counter per (channel, key) walk -/
def notesBalanced (t : List SEvent) : Bool :=
  let rec go : List (Nat × Nat) → List SEvent → Bool
    | open_, [] => open_.isEmpty
    | open_, e :: r =>
      match isNoteOn e with
      | some (c, k, _) => go ((c, k) :: open_) r
      | none => match isNoteOff e with
        | some ck => if open_.contains ck then go (open_.erase ck) r else false
        | none => go open_ r
  go [] t

def isTimingMeta : SEvent → Bool
  | .mta _ typ _ => typ = 0x51 || typ = 0x58 || typ = 0x59
  | _ => false

/-- the C08 conditions beyond parsing: track count, balance, tempo/time/key only in the first track -/
def wellFormed (f : SmfFile) (ntracks : Nat) : Bool :=
  f.tracks.length = ntracks &&
  f.tracks.all notesBalanced &&
  (f.tracks.drop 1).all (fun t => t.all (fun e => !isTimingMeta e))

end Crd.Spec
