import Crd.Model.Types

/-!
# Music theory, stated independently of crd's tables (the specification side)

Nothing here reads `Crd.Generated`.  Short enough to audit in minutes.
-/
namespace Crd.Spec
open Crd

/-- semitones of the major scale above its tonic, by scale step 0..6 -/
def majorScale : Nat → Int
  | 0 => 0 | 1 => 2 | 2 => 4 | 3 => 5 | 4 => 7 | 5 => 9 | _ => 11

/-- unison, fourth and fifth (and their compounds) are the *perfect* class -/
def perfectClass (step : Nat) : Bool := step = 0 || step = 3 || step = 4

/-- textbook size of interval number `n` (1 = unison) with a quality:
major-scale size of the simple interval + 12 per octave; minor = major − 1; augmented = +1;
diminished = perfect − 1 or major − 2; doubly: one more.  Impossible combinations are `none`. -/
def specSize (n : Nat) (q : Quality) : Option Int :=
  if n = 0 then none else
  let step := (n - 1) % 7
  let oct : Int := ((n - 1) / 7 : Nat)
  let b := majorScale step + 12 * oct
  match q, perfectClass step with
  | .major, false => some b
  | .minor, false => some (b - 1)
  | .perfect, true => some b
  | .augmented, _ => some (b + 1)
  | .diminished, true => some (b - 1)
  | .diminished, false => some (b - 2)
  | .daug, _ => some (b + 2)
  | .ddim, true => some (b - 2)
  | .ddim, false => some (b - 3)
  | _, _ => none

/-! ## letters, pitch classes, the line of fifths -/

/-- position of a letter in C D E F G A B -/
def letterIndex : Letter → Nat
  | .C => 0 | .D => 1 | .E => 2 | .F => 3 | .G => 4 | .A => 5 | .B => 6 | .unknown => 0

/-- pitch class of the natural letter -/
def naturalPitch (l : Letter) : Int := majorScale (letterIndex l)

def accShift : Acc → Int
  | .sharp => 1 | .flat => -1 | _ => 0

/-- position of a natural letter on the line of fifths F C G D A E B (C = 0) -/
def fifthsOfLetter : Letter → Int
  | .F => -1 | .C => 0 | .G => 1 | .D => 2 | .A => 3 | .E => 4 | .B => 5 | .unknown => 0

/-- conventional key signature (positive = sharps, negative = flats): position of the tonic on the
line of fifths (7 per accidental); a minor key has the signature of its relative major, 3 fifths lower -/
def conventionalSignature (k : Key) : Int :=
  fifthsOfLetter k.name + 7 * accShift k.acc - (if k.minor then 3 else 0)

/-- order in which sharps appear; flats appear in the reverse order -/
def orderOfSharps : List Letter := [.F, .C, .G, .D, .A, .E, .B]
def orderOfFlats : List Letter := [.B, .E, .A, .D, .G, .C, .F]

def majorSteps : List Int := [2, 2, 1, 2, 2, 2, 1]
def minorSteps : List Int := [2, 1, 2, 2, 1, 2, 2]

/-- letters in order starting from a given one -/
def lettersFrom (l : Letter) : List Letter :=
  let all : List Letter := [.C, .D, .E, .F, .G, .A, .B]
  all.drop (letterIndex l) ++ all.take (letterIndex l)

end Crd.Spec

namespace Crd.Spec
/-! ## diatonic harmonisation by stacked thirds (no chord names copied from crd) -/

/-- size of the interval from scale step `i` up `n` steps, from the mode's step pattern -/
def stackSize (steps : List Int) (i n : Nat) : Int :=
  ((List.range n).map fun j => steps.getD ((i + j) % 7) 0).foldl (· + ·) 0

/-- conventional symbol of a triad / seventh chord from its third, fifth (and seventh) sizes -/
def triadSymbol : Int → Int → Option String
  | 4, 7 => some "" | 3, 7 => some "m" | 3, 6 => some "dim" | 4, 8 => some "aug" | _, _ => none
def seventhSymbol : Int → Int → Int → Option String
  | 4, 7, 11 => some "maj7" | 3, 7, 10 => some "m7" | 4, 7, 10 => some "7" | 3, 6, 10 => some "m7b5" | _, _, _ => none

/-- the chord the harmonisation puts on scale step i -/
def diatonicSymbol (minor seventh : Bool) (i : Nat) : Option String :=
  let st := if minor then minorSteps else majorSteps
  if seventh then seventhSymbol (stackSize st i 2) (stackSize st i 4) (stackSize st i 6)
  else triadSymbol (stackSize st i 2) (stackSize st i 4)

/-- pitch classes (relative to the tonic) of the scale -/
def scaleOffsets (minor : Bool) : List Int :=
  (List.range 7).map fun i => stackSize (if minor then minorSteps else majorSteps) 0 i
end Crd.Spec
