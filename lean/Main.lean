import Crd.Model.Raw
import Crd.Spec.SmfStrict
import Crd.Spec.Oracle
import Crd.Generated.Grammar
import Crd.Generated.Defaults

/-!
# Line-protocol driver: one request per line on stdin, one reply per line on stdout.

Fields are separated by single spaces.  Strings are `x` + hex of their UTF-8 bytes (`x` alone = empty);
byte strings likewise.  Replies: `ok …`, `err`, `none`, `bad-op` (never a default).
-/
open Crd

def hexDigit (n : Nat) : Char := if n < 10 then Char.ofNat (48 + n) else Char.ofNat (87 + n)
def hexOfBytes (bs : List Nat) : String := String.ofList ('x' :: bs.flatMap fun b => [hexDigit (b / 16), hexDigit (b % 16)])
def hexOfString (s : String) : String := hexOfBytes (strBytes s)

def hexVal (c : Char) : Option Nat :=
  if '0' ≤ c ∧ c ≤ '9' then some (c.toNat - 48)
  else if 'a' ≤ c ∧ c ≤ 'f' then some (c.toNat - 87)
  else none

def bytesOfHexL : List Char → Option (List Nat)
  | [] => some []
  | a :: b :: r => do
    let x ← hexVal a; let y ← hexVal b; let rest ← bytesOfHexL r
    pure ((x * 16 + y) :: rest)
  | _ => none

def bytesOfHex (s : String) : Option (List Nat) :=
  match s.toList with
  | 'x' :: r => bytesOfHexL r
  | _ => none

def stringOfHex (s : String) : Option String := (bytesOfHex s).map fun bs => String.ofList (decodeUtf8 bs)

/-! token reader -/
abbrev R := StateT (List String) Option

def tok : R String := do
  match (← get) with
  | [] => failure
  | t :: r => set r; pure t
def rNat : R Nat := do let t ← tok; match t.toNat? with | some n => pure n | none => failure
def rInt : R Int := do let t ← tok; match t.toInt? with | some n => pure n | none => failure
def rStr : R String := do let t ← tok; match stringOfHex t with | some s => pure s | none => failure
def rBytes : R (List Nat) := do let t ← tok; match bytesOfHex t with | some s => pure s | none => failure
def rBool : R Bool := do let t ← tok; match t with | "1" => pure true | "0" => pure false | _ => failure
def rOpt {α} (p : R α) : R (Option α) := do
  let t ← tok
  match t with
  | "~" => pure none
  | "+" => some <$> p
  | _ => failure
def rList {α} (p : R α) : R (List α) := do
  let n ← rNat
  let rec go : Nat → R (List α)
    | 0 => pure []
    | k+1 => do let x ← p; let r ← go k; pure (x :: r)
  go n

def qualityOfNat : Nat → Quality
  | 1 => .major | 2 => .minor | 3 => .perfect | 4 => .augmented | 5 => .diminished | 6 => .daug | 7 => .ddim | _ => .unknown
def Crd.Quality.toNat : Quality → Nat
  | .unknown => 0 | .major => 1 | .minor => 2 | .perfect => 3 | .augmented => 4 | .diminished => 5 | .daug => 6 | .ddim => 7

def rDegree : R Degree := do let v ← rNat; let q ← rNat; pure ⟨v, qualityOfNat q⟩

def rRawChord : R RawChord := do
  let d ← rOpt rStr; let n ← rStr; let b ← rOpt rStr; pure ⟨d, n, b⟩

def rRawInstance : R RawInstance := do
  let chord ← rOpt rRawChord
  let values ← rList rStr
  let bpm ← rOpt rStr
  let velocity ← rOpt rStr
  let meter ← rOpt rStr
  let key ← rOpt rStr
  let mta ← rOpt (rList (do let k ← rStr; let v ← rStr; pure (k, v)))
  pure { chord, values, bpm, velocity, meter, key, mta }

def rAttr : R RawAttr := do
  let n ← rStr; let d ← rOpt rStr; pure ⟨n, d⟩

def rChordDef : R ChordDef := do
  let n ← rStr; let disp ← rStr; let as ← rList rStr; let p ← rStr; pure ⟨n, disp, as, p⟩

def rFlags : R WriteFlags := do
  let bpm ← rNat; let velocity ← rStr; let meter ← rStr; let key ← rStr; let track ← rInt
  let instrument ← rStr; let program ← rNat
  pure { bpm, velocity, meter, key, track, instrument, program }

/-! printers -/
def pOpt {α} (f : α → String) : Option α → String | none => "~" | some a => "+ " ++ f a
def pList {α} (f : α → String) (l : List α) : String :=
  String.intercalate " " (toString l.length :: l.map f)

def sortPairs (l : List (String × String)) : List (String × String) :=
  (l.toArray.qsort (fun a b => a.1 < b.1)).toList

/-- Go map semantics: last binding wins, then sorted by key -/
def canonMeta (m : List (String × String)) : List (String × String) :=
  let keys := (m.map (·.1)).eraseDups
  sortPairs (keys.map fun k => (k, metaGet m k))

def pRawInstance (r : RawInstance) : String :=
  String.intercalate " " [
    pOpt (fun c => String.intercalate " " [pOpt hexOfString c.degree, hexOfString c.name, pOpt hexOfString c.base]) r.chord,
    pList hexOfString r.values,
    pOpt hexOfString r.bpm, pOpt hexOfString r.velocity, pOpt hexOfString r.meter, pOpt hexOfString r.key,
    pOpt (fun m => pList (fun kv => hexOfString kv.1 ++ " " ++ hexOfString kv.2) (canonMeta m)) r.mta]

def pTok (t : Tok) : String := toString (repr t.k) ++ ":" ++ hexOfString (String.ofList t.v)
def tkName (k : TK) : String :=
  match k with
  | .SYLLABLE => "SYLLABLE" | .SLASH => "SLASH" | .LBRA => "LBRA" | .RBRA => "RBRA" | .COMMA => "COMMA"
  | .SEMICOLON => "SEMICOLON" | .SHARP => "SHARP" | .FLAT => "FLAT" | .NUMBER => "NUMBER" | .SYMBOL => "SYMBOL"
  | .REST => "REST" | .UNDERSCORE => "UNDERSCORE" | .LCBRA => "LCBRA" | .RCBRA => "RCBRA" | .EQUAL => "EQUAL"
  | .METADATA => "METADATA"
def pTok' (t : Tok) : String := tkName t.k ++ ":" ++ hexOfString (String.ofList t.v)

def pDegN (d : DegreeN) : String := pTok' d.head ++ " " ++ pOpt pTok' d.acc
def pVals (vs : List ValueN) : String := pList (fun v => pTok' v.num ++ " " ++ pOpt pTok' v.den) vs
def pMetaN (m : Option (List MetaKV)) : String := pOpt (pList fun kv => pTok' kv.key ++ " " ++ pTok' kv.value) m
def pItem' : Item → String
  | .chord d s b vs m => String.intercalate " " ["chord", pDegN d, pOpt pTok' s, pOpt pDegN b, pVals vs, pMetaN m]
  | .rest vs m => String.intercalate " " ["rest", pVals vs, pMetaN m]

def errStr (e : Err) : String := if e.isCrash then "crash " ++ e.tag else "err " ++ e.tag

def letterOfNat : Nat → Letter
  | 1 => .C | 2 => .D | 3 => .E | 4 => .F | 5 => .G | 6 => .A | 7 => .B | _ => .unknown
def accOfNat : Nat → Acc | 1 => .natural | 2 => .sharp | 3 => .flat | _ => .unknown
def naccOfNat : Nat → NAcc | 1 => .natural | 2 => .sharp | 3 => .flat | 4 => .dsharp | 5 => .dflat | _ => .unknown

def pEv : Ev → String
  | .seqName s => "seqname " ++ hexOfString s
  | .instrument s => "instrument " ++ hexOfString s
  | .program c p => s!"program {c} {p}"
  | .noteOn c k v => s!"on {c} {k} {v}"
  | .noteOff c k => s!"off {c} {k}"
  | .tempo b => s!"tempo {b}"
  | .meter n d => s!"meter {n} {d}"
  | .keySig k ma n fl => s!"keysig {k} {if ma then 1 else 0} {n} {if fl then 1 else 0}"
  | .text s => "text " ++ hexOfString s
  | .lyric s => "lyric " ++ hexOfString s
  | .marker s => "marker " ++ hexOfString s
  | .close => "close"

def pSmfEvent (e : Spec.SEvent) : String :=
  match e with
  | .midi d st a b => s!"midi {d} {st} {a} {pOpt toString b}"
  | .mta d ty data => s!"meta {d} {ty} {hexOfBytes data}"

def pSmf (f : Spec.SmfFile) : String :=
  s!"ok {f.format} {f.division} " ++ pList (fun t => pList pSmfEvent t) f.tracks

/-- history ops for the midix state-machine tie -/
def rMidixOp : R (MW → MW) := do
  let t ← tok
  match t with
  | "note" => do let ticks ← rNat; let vel ← rNat; let keys ← rList rNat; pure fun w => w.note ticks vel keys
  | "rest" => do let ticks ← rNat; pure fun w => w.rest ticks
  | "tempo" => do let b ← rNat; pure fun w => w.emitMeta (.tempo b)
  | "meter" => do let n ← rNat; let d ← rNat; pure fun w => w.emitMeta (.meter n d)
  | "text" => do let s ← rStr; pure fun w => w.emitMeta (.text s)
  | "close" => pure fun w => w.close
  | _ => failure

def handle (op : String) : R String := do
  match op with
  | "semitone" => do
    let d ← rDegree
    pure (match d.semitone with | some n => s!"ok {n}" | none => "none")
  | "specsize" => do          -- specification only (no generated table): textbook size of an interval
    let d ← rDegree
    pure (match Spec.specSize d.value d.name with | some n => s!"ok {n}" | none => "none")
  | "specscale" => do         -- specification only: the notes and signature theory gives a key
    let s ← rStr
    pure (match Spec.parseKeySimple s.toList with
      | none => "none"
      | some k => match Spec.specScaleNotes k with
        | none => "none"
        | some ns =>
          let sg := Spec.specSignature k
          s!"ok {hexOfString (Spec.keyStr k)} {sg.1} {sg.2} " ++ pList (fun n => hexOfString (Spec.snoteStr n)) ns)
  | "specconv" => do          -- specification only: ROOT[/BASS][1] in a key, as (number, size) of root and bass
    let key ← rStr; let bs ← rBytes
    let txt := (bs.map fun b => Char.ofNat b)
    let k? := if key = "" then some (⟨.C, false, .natural⟩ : Key) else Spec.parseKeySimple key.toList
    pure (match k?, Spec.parseNoteSimple txt with
      | some k, some (rl, ra, rest) =>
        let r := Spec.specInterval k.name k.acc rl ra
        (match rest with
         | ['[', '1', ']'] => s!"ok {r.1} {r.2}"
         | '/' :: r2 =>
           (match Spec.parseNoteSimple r2 with
            | some (bl, ba, ['[', '1', ']']) =>
              let b := Spec.specInterval rl ra bl ba
              s!"ok {r.1} {r.2} {b.1} {b.2}"
            | _ => "none")
         | _ => "none")
      | _, _ => "none")
  | "degstr" => do let d ← rDegree; pure ("ok " ++ hexOfString d.str)
  | "parsedeg" => do
    let s ← rStr
    pure (match parseDegree s.toList with | some d => s!"ok {d.value} {d.name.toNat}" | none => "none")
  | "parsekey" => do
    let s ← rStr
    pure (match parseKey s.toList with | some k => "ok " ++ hexOfString k.str | none => "none")
  | "newscale" => do
    let s ← rStr
    pure (match (parseKey s.toList).bind newScale with
      | some sc => s!"ok {hexOfString sc.key.str} {sc.flat} {sc.sharp} " ++ pList (fun n => hexOfString n.str) sc.notes ++ " " ++
          pList hexOfString (diatonicChords sc false) ++ " " ++ pList hexOfString (diatonicChords sc true)
      | none => "none")
  | "keptscale" => do
    let s ← rStr
    pure (match (parseKey s.toList).bind newScale with
      | some sc => s!"ok {hexOfString sc.key.str} {sc.flat} {sc.sharp} " ++ pList (fun n => hexOfString n.str) sc.notes
      | none => "none")
  | "keylist" => do
    let entries := allScales.map fun sc => (sc.key.str, s!"{hexOfString sc.key.str} {sc.flat} {sc.sharp} " ++ pList (fun n => hexOfString n.str) sc.notes)
    let sorted := (entries.toArray.qsort (fun a b => a.1 < b.1)).toList
    pure ("ok " ++ pList (·.2) sorted)
  | "getdeg" => do
    let n1 ← rNat; let a1 ← rNat; let n2 ← rNat; let a2 ← rNat; let sh ← rBool
    pure (match (SNote.mk (letterOfNat n1) (accOfNat a1)).getDegree ⟨letterOfNat n2, accOfNat a2⟩ sh with
      | .ok d => "ok " ++ hexOfString d.str | .invalid => "err invalid" | .panic => "crash panic")
  | "chain" => do
    let k ← rStr; let chain ← rStr
    pure (match circles?, parseKey k.toList with
      | some c, some key =>
        (match chainConvert c id key (chain.toList.map KConv.ofChar) with
         | some m => "ok " ++ pList hexOfString ((m.map Key.str).toArray.qsort (· < ·)).toList
         | none => "err")
      | _, _ => "err")
  | "adddeg" => do
    let n ← rNat; let a ← rNat; let d ← rDegree; let sh ← rBool
    pure (match (Note.mk (letterOfNat n) (naccOfNat a)).addDegree d sh with
      | .ok r oct => s!"ok {hexOfString r.str} {oct}" | .invalid => "err invalid" | .panic => "crash panic")
  | "cdescribe" => do          -- `info chord describe`: every interval of a chord applied to a root, with user dictionaries
    let n ← rNat; let a ← rNat; let sym ← rStr; let sh ← rBool
    let attrs ← rList rAttr; let chords ← rList rChordDef
    pure (match loadAttrs attrs with
      | .error e => errStr e
      | .ok as =>
        match newDict as chords with
        | none => "err dictionary"
        | some d =>
          match d.chord sym, d.chordAttrs sym with
          | some _, some cas =>
            let root := Note.mk (letterOfNat n) (naccOfNat a)
            let rs := cas.map fun (ca : Attr) =>
              match (d.attr ca.name).bind (fun x => x.degree.semitone), (d.attr ca.name).map (fun x => root.addDegree x.degree sh) with
              | some st, some (.ok r oct) => some s!"{hexOfString ca.name} {st} {hexOfString r.str} {oct}"
              | _, _ => none
            if rs.all Option.isSome then "ok " ++ pList id (rs.filterMap id) else "err describe"
          | _, _ => "err notfound")
  | "parsenote" => do
    let s ← rStr
    pure (match parseNote s.toList with | some n => "ok " ++ hexOfString n.str | none => "none")
  | "genattr" => do
    let n ← rNat
    pure ("ok " ++ pList (fun a => hexOfString a.name ++ " " ++ hexOfString a.degree.str) (generateAttributes n))
  | "ticks" => do
    let fr ← rList (do let n ← rNat; let d ← rNat; pure (n, d))
    let t := ticksF Generated.ticksPerQuarter fr
    pure (if t > maxTicks then "toolong" else s!"ok {t}")
  | "tempo" => do let b ← rNat; pure ("ok " ++ hexOfBytes (tempoPayload b))
  | "lex" => do
    let bs ← rBytes
    pure (match lexBytes bs with
      | .ok ts => "ok " ++ pList pTok' ts
      | .err ts => "err " ++ pList pTok' ts
      | .hang ts => "crash hang " ++ pList pTok' ts)
  | "parse" => do
    let bs ← rBytes
    pure (match parseText bs with
      | .ok t => "ok " ++ pList pItem' t
      | .error e => errStr e)
  | "parsetoks" => do
    let ks ← rList rNat
    let ts := ks.map fun k => (Tok.mk (Generated.grammarTokens.getD k .SYLLABLE) [])
    pure (match parseToks ts with | some t => s!"ok {t.length}" | none => "err")
  | "conv" => do
    let mode ← tok; let key ← rStr; let bs ← rBytes
    let m ← (match mode with | "syllable" => pure Mode.syllable | "degree" => pure Mode.degree | _ => failure)
    pure (match cmdTextConvRaw m key bs with
      | .ok rs => "ok " ++ pList pRawInstance rs
      | .error e => errStr e)
  | "write" => do
    let f ← rFlags
    let attrs ← rList rAttr
    let chords ← rList rChordDef
    let rs ← rList rRawInstance
    pure (match cmdWrite { f with userChords := chords } attrs rs with
      | .ok b => "ok " ++ hexOfBytes b
      | .error e => errStr e)
  | "wconv" => do
    let f ← rFlags
    let attrs ← rList rAttr
    let chords ← rList rChordDef
    let cmds ← rList rStr
    let rs ← rList rRawInstance
    pure (match cmdWriteConv { f with userChords := chords } attrs cmds rs with
      | .ok out => "ok " ++ pList pRawInstance out
      | .error e => errStr e)
  | "tracks" => do
    let f ← rFlags
    let rs ← rList rRawInstance
    pure (match (rs.mapM decodeInstance).bind (cmdWriteTracks f) with
      | .ok ts => "ok " ++ pList (fun t => s!"{t.pending} " ++ pList (fun (de : Nat × Ev) => s!"{de.1} {pEv de.2}") t.ops) ts
      | .error e => errStr e)
  | "midix" => do
    let n ← rNat
    let ops ← rList rMidixOp
    let w := ops.foldl (fun w f => f w) (MW.new n "Piano" 0 "crd")
    pure ("ok " ++ pList (fun t => pList (fun (de : Nat × Ev) => s!"{de.1} {hexOfBytes de.2.bytes}") (smfTrack t.ops)) w.tracks)
  | "smfcheck" => do
    let n ← rNat
    let bs ← rBytes
    pure (match Spec.parseSMF bs with
      | .ok f =>
        if f.tracks.length ≠ n then s!"violates track-count {f.tracks.length} expected {n}"
        else if !(f.tracks.all Spec.notesBalanced) then "violates unbalanced-notes"
        else if !((f.tracks.drop 1).all (fun t => t.all (fun e => !Spec.isTimingMeta e))) then "violates timing-meta-outside-first-track"
        else if f.division ≠ Generated.ticksPerQuarter then s!"violates division {f.division}"
        else "holds"
      | .error e => "violates strict-parse: " ++ e)
  | "smfparse" => do
    let bs ← rBytes
    pure (match Spec.parseSMF bs with
      | .ok f => pSmf f
      | .error e => "err " ++ e)
  | _ => failure

def step (line : String) : String :=
  let ws := (line.splitOn " ").filter (· ≠ "")
  match ws with
  | [] => "bad-op"
  | op :: args =>
    match (handle op).run args with
    | some (out, []) => out
    | _ => "bad-op"

partial def loop (h : IO.FS.Stream) (out : IO.FS.Stream) : IO Unit := do
  let line ← h.getLine
  if line.isEmpty then return ()
  let l := String.ofList (line.toList.filter (fun c => c ≠ '\n' && c ≠ '\r'))
  out.putStrLn (step l)
  loop h out

def main : IO Unit := do
  let out ← IO.getStdout
  loop (← IO.getStdin) out
  out.flush
