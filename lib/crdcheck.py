"""Orchestration of the crd verification checks (stdlib only).

Per property:  regenerate facts from /repo  ->  lake build of the property's theorems (proof obligations)
->  axiom audit + forbidden-construct scan  ->  correspondence (real code vs Lean model, same inputs)
->  property oracles evaluated on the REAL observations  ->  evidence file.
A broken obligation or tie triggers a search for a concrete failing input (see DESIGN.md section 5).
"""
import hashlib, json, os, re, shutil, subprocess, sys, tempfile, time

VERIF = os.path.dirname(os.path.dirname(os.path.abspath(__file__)))
REPO = os.environ.get('CRD_REPO', '/repo')
LEAN = os.path.join(VERIF, 'lean')
BIN = os.path.join(VERIF, 'bin')
GEN = os.path.join(LEAN, 'Crd', 'Generated')
DRIVER = os.path.join(LEAN, '.lake', 'build', 'bin', 'crd_driver')
ALLOWED_AXIOMS = {'propext', 'Classical.choice', 'Quot.sound'}
FORBIDDEN = re.compile(r'\bsorry\b|\badmit\b|^axiom\s|\bnative_decide\b|\bbv_decide\b|\bimplemented_by\b|\bunsafe\s|maxHeartbeats\s+0')

TRUSTED_BASE = [
    "Lean 4.33.0 kernel; axioms allowed: propext, Classical.choice, Quot.sound (audited by #print axioms on every run)",
    "no sorry/admit/native_decide/bv_decide/own axioms (scanned on every run)",
    "extractor /verif/extract (go/parser over /repo's source, yaml.v3 for chord.yml/attribute.yml): reads the tables it claims to read",
    "hand-written Lean model tied to the Go code by differential correspondence on generated inputs (counts below)",
    "modelled, not verified: gomidi SMF writer, ybase reader loop, goyacc LALR construction, strconv/strings/regexp/math.Round, IEEE-754 binary64",
    "assumed: yaml.v3 string-scalar and structure round trip, cobra flag typing, Go runtime, OS file I/O",
]

# ---------------------------------------------------------------------------------------------------
# property table: proof modules, tie streams (harness stream names), notes
# ---------------------------------------------------------------------------------------------------
PROPS = {
    'C01': dict(streams=['write', 'dict']),
    'C02': dict(streams=['ticks', 'midix', 'write'], modules=['C02', 'C02Float']),
    'C03': dict(streams=['scale', 'conv']),
    'C04': dict(streams=['lex', 'parse', 'conv', 'sizes'], modules=['C04', 'IO']),
    'C05': dict(streams=['threeway', 'conv', 'write']),
    'C06': dict(streams=['midix', 'write']),
    'C07': dict(streams=['ticks', 'write'], modules=['C07', 'C07Float']),
    'C08': dict(streams=['midix', 'write'], modules=['C08', 'C08Bytes']),
    'C09': dict(streams=['robust', 'conv', 'write', 'dict', 'sizes'], modules=['C09', 'IO']),
    'C10': dict(streams=['conv', 'wconv', 'note', 'scale', 'sizes', 'repeat'], modules=['C10', 'C10Conv', 'IO']),
    'C11': dict(streams=['variants', 'lex', 'sizes']),
    'C12': dict(streams=['repeat', 'chain', 'scale'], race=True, modules=['C12', 'IO']),
    'C13': dict(streams=['scale', 'diatonic', 'conv', 'write']),
    'C14': dict(streams=['chain', 'keyconv'], modules=['C14', 'IO']),
    'C15': dict(streams=['note', 'describe', 'cdescribe', 'repeat']),
    'C16': dict(streams=['dict', 'note', 'write']),
    'C17': dict(streams=['scale', 'diatonic', 'conv']),
}

class Infra(Exception):
    pass

def goenv():
    e = dict(os.environ)
    e['GOFLAGS'] = '-mod=mod'
    e['GOPROXY'] = 'off'
    e.pop('GOSUMDB', None)
    e.pop('GOTOOLCHAIN', None)
    e.pop('GOWORK', None)
    return e

def run(cmd, cwd=None, env=None, timeout=3600, stdin=None, check=False):
    p = subprocess.run(cmd, cwd=cwd, env=env, stdout=subprocess.PIPE, stderr=subprocess.PIPE, timeout=timeout, input=stdin)
    if check and p.returncode != 0:
        raise Infra("command failed: %s\n%s\n%s" % (' '.join(cmd), p.stdout.decode(errors='replace')[-2000:], p.stderr.decode(errors='replace')[-4000:]))
    return p

def log(*a):
    print(*a, file=sys.stderr, flush=True)

# ---------------------------------------------------------------------------------------------------
# build steps
# ---------------------------------------------------------------------------------------------------
def build_extractor():
    os.makedirs(BIN, exist_ok=True)
    run(['go', 'build', '-o', os.path.join(BIN, 'extract'), '.'], cwd=os.path.join(VERIF, 'extract'), env=goenv(), check=True)

def regenerate():
    """re-extract Crd/Generated from /repo's working tree; returns (ok, message)"""
    build_extractor()
    tmp = tempfile.mkdtemp(prefix='crdgen-')
    try:
        p = run([os.path.join(BIN, 'extract'), REPO, tmp])
        if p.returncode != 0:
            return False, p.stderr.decode(errors='replace')
        os.makedirs(GEN, exist_ok=True)
        for f in os.listdir(tmp):
            src = open(os.path.join(tmp, f), 'rb').read()
            dst = os.path.join(GEN, f)
            if not os.path.exists(dst) or open(dst, 'rb').read() != src:
                open(dst, 'wb').write(src)
        for f in os.listdir(GEN):
            if f not in os.listdir(tmp):
                os.remove(os.path.join(GEN, f))
        return True, ''
    finally:
        shutil.rmtree(tmp, ignore_errors=True)

def build_real(scratch):
    """the real crd binary and the harness, from /repo's current working tree"""
    crd = os.path.join(scratch, 'crd')
    p = run(['go', 'build', '-o', crd, './cmd'], cwd=REPO, env=goenv())
    if p.returncode != 0:
        raise Infra("/repo does not build:\n" + p.stderr.decode(errors='replace')[-3000:])
    hdir = os.path.join(VERIF, 'harness')
    shutil.copyfile(os.path.join(REPO, 'go.sum'), os.path.join(hdir, 'go.sum'))
    harness = os.path.join(scratch, 'harness')
    p = run(['go', 'build', '-tags', 'verif', '-o', harness, '.'], cwd=hdir, env=goenv())
    if p.returncode != 0:
        # the library streams call /repo's exported API in-process; if that API changed they cannot be built.  The
        # streams that drive the real binary do not depend on it: fall back to them and report the rest as a broken tie.
        err = p.stderr.decode(errors='replace')[-1500:]
        p2 = run(['go', 'build', '-tags', 'verif cliharness', '-o', harness, '.'], cwd=hdir, env=goenv())
        if p2.returncode != 0:
            raise Infra("harness does not build:\n" + p2.stderr.decode(errors='replace')[-3000:])
        LIB_BROKEN.append(err)
    return crd, harness

LIB_STREAMS = {'note', 'describe', 'scale', 'chain', 'ticks', 'midix', 'lex', 'parse'}
LIB_BROKEN = []

def lake_build(targets):
    p = run(['lake', 'build'] + targets, cwd=LEAN, timeout=7200)
    out = p.stdout.decode(errors='replace') + p.stderr.decode(errors='replace')
    return p.returncode == 0, out

def theorem_at(path, line):
    """name of the theorem/def enclosing a line of a Lean file"""
    name = None
    try:
        for i, l in enumerate(open(os.path.join(LEAN, path), encoding='utf-8'), 1):
            m = re.match(r'\s*(?:private\s+)?(?:theorem|lemma|def|example|instance)\s+([^\s:({\[]+)?', l)
            if m and i <= line:
                name = m.group(1) or 'example@%d' % i
            if i > line:
                break
    except OSError:
        pass
    return name

def broken_obligations(out):
    res = []
    for m in re.finditer(r'error: (Crd/[\w/]+\.lean|Main\.lean):(\d+):(\d+): (.*)', out):
        path, line, msg = m.group(1), int(m.group(2)), m.group(4)
        res.append(dict(file=path, line=line, theorem=theorem_at(path, line), message=msg[:400]))
    return res

def prop_modules(pid):
    return PROPS[pid].get('modules', [pid])

def prop_theorems(pid):
    names = []
    for mod in prop_modules(pid):
        path = os.path.join(LEAN, 'Crd', 'Props', mod + '.lean')
        ns = 'Crd.Props.%s' % pid
        for l in open(path, encoding='utf-8'):
            m = re.match(r'namespace\s+(\S+)', l)
            if m:
                ns = m.group(1)
            m = re.match(r'theorem\s+([^\s:({\[]+)', l)
            if m:
                names.append('%s.%s' % (ns, m.group(1)))
    return names

def audit(pid):
    """run #print axioms on every property theorem; returns (dict name -> axioms, problems)"""
    names = prop_theorems(pid)
    src = ''.join('import Crd.Props.%s\n' % m for m in prop_modules(pid)) + ''.join('#print axioms %s\n' % n for n in names)
    path = os.path.join(LEAN, 'Crd', 'Audit', pid + '.lean')
    if not os.path.exists(path) or open(path).read() != src:
        open(path, 'w').write(src)
    p = run(['lake', 'env', 'lean', path], cwd=LEAN)
    out = p.stdout.decode(errors='replace') + p.stderr.decode(errors='replace')
    found, problems = {}, []
    for m in re.finditer(r"'([^']+)' depends on axioms: \[([^\]]*)\]", out):
        found[m.group(1)] = [a.strip() for a in m.group(2).split(',') if a.strip()]
    for m in re.finditer(r"'([^']+)' does not depend on any axioms", out):
        found[m.group(1)] = []
    for n in names:
        if n not in found:
            problems.append("no axiom report for %s" % n)
        else:
            bad = [a for a in found[n] if a not in ALLOWED_AXIOMS]
            if bad:
                problems.append("%s depends on %s" % (n, bad))
    if p.returncode != 0:
        problems.append("audit file failed to check: " + out[-500:])
    return names, found, problems

def scan_forbidden():
    hits = []
    for root, _, files in os.walk(LEAN):
        if '.lake' in root:
            continue
        for f in files:
            if not f.endswith('.lean'):
                continue
            path = os.path.join(root, f)
            in_block = 0
            for i, l in enumerate(open(path, encoding='utf-8'), 1):
                # strip comments (block comments tracked coarsely, line comments exactly)
                s = l
                if in_block:
                    if '-/' in s:
                        s = s.split('-/', 1)[1]
                        in_block = 0
                    else:
                        continue
                while '/-' in s:
                    a, b = s.split('/-', 1)
                    if '-/' in b:
                        s = a + b.split('-/', 1)[1]
                    else:
                        s = a
                        in_block = 1
                        break
                s = s.split('--', 1)[0]
                if FORBIDDEN.search(s):
                    hits.append('%s:%d: %s' % (os.path.relpath(path, LEAN), i, l.strip()[:120]))
    return hits

# ---------------------------------------------------------------------------------------------------
# correspondence
# ---------------------------------------------------------------------------------------------------
def canon(line):
    line = line.rstrip('\n')
    if line.startswith('ok'):
        return line
    w = line.split()
    return w[0] if w else ''

def run_stream(name, harness, crd, scratch, seed, tier):
    out = os.path.join(scratch, 'tie')
    os.makedirs(out, exist_ok=True)
    p = run([harness, name, out, str(seed), tier, crd], timeout=7200)
    if p.returncode != 0:
        raise Infra("harness stream %s failed:\n%s" % (name, p.stderr.decode(errors='replace')[-3000:]))
    req = os.path.join(out, name + '.req')
    with open(req, 'rb') as f:
        m = run([DRIVER], stdin=f.read(), timeout=7200)
    if m.returncode != 0:
        raise Infra("driver failed on stream %s: %s" % (name, m.stderr.decode(errors='replace')[-2000:]))
    reqs = open(req, encoding='utf-8').read().split('\n')
    real = open(os.path.join(out, name + '.real'), encoding='utf-8').read().split('\n')
    model = m.stdout.decode('utf-8', errors='replace').split('\n')
    stats = {}
    samples = []
    for l in open(os.path.join(out, name + '.stats'), encoding='utf-8'):
        w = l.rstrip('\n').split(' ', 2)
        if w[0] == 'stat':
            stats[w[1]] = int(w[2])
        elif w[0] == 'sample':
            samples.append(l.rstrip('\n')[7:])
    diffs = []
    n = 0
    for i, r in enumerate(reqs):
        if not r:
            continue
        n += 1
        a = real[i] if i < len(real) else '<missing>'
        b = model[i] if i < len(model) else '<missing>'
        if canon(a) != canon(b):
            diffs.append(dict(stream=name, request=r, real=a, model=b))
    distinct = len(set(x for x in reqs if x))
    oracle = []
    opath = os.path.join(out, name + '.oracle')
    if os.path.exists(opath):
        for l in open(opath, encoding='utf-8'):
            if l.strip():
                oracle.append(json.loads(l))
    return dict(name=name, cases=n, distinct=distinct, diffs=diffs, stats=stats, samples=samples, oracle=oracle)

# ---------------------------------------------------------------------------------------------------
# known findings
# ---------------------------------------------------------------------------------------------------
def load_findings():
    path = os.path.join(VERIF, 'known_findings.json')
    if not os.path.exists(path):
        return dict(findings=[], fixed=[])
    return json.load(open(path))

def probe_finding(f, crd):
    """re-run the recorded example of a known finding on the real binary; True if it still fails"""
    pr = f.get('probe')
    if not pr:
        return False
    stdin = pr.get('stdin', '').encode()
    if 'stdin_hex' in pr:
        stdin = bytes.fromhex(pr['stdin_hex'])
    args = pr['args']
    if pr.get('pipe_from'):
        p0 = run([crd] + pr['pipe_from'], stdin=stdin, timeout=60)
        stdin = p0.stdout
    p = run([crd] + args, stdin=stdin, timeout=60)
    out = p.stdout
    exp = pr['fails_when']
    if 'stdout_hex_contains' in exp:
        return bytes.fromhex(exp['stdout_hex_contains']) in out
    if 'stdout_contains' in exp:
        return exp['stdout_contains'].encode() in out
    if 'exit' in exp:
        return p.returncode == exp['exit']
    return False

# ---------------------------------------------------------------------------------------------------
# evidence, replays
# ---------------------------------------------------------------------------------------------------
def write_replay(pid, payload):
    d = os.environ.get('CRD_REPLAY_DIR', os.path.join(VERIF, 'replays'))
    os.makedirs(d, exist_ok=True)
    h = hashlib.sha1(json.dumps(payload, sort_keys=True).encode()).hexdigest()[:12]
    path = os.path.join(d, '%s-%s.json' % (pid, h))
    json.dump(payload, open(path, 'w'), indent=1, ensure_ascii=False)
    return path

def write_evidence(pid, tier, seed, t0, obligations, discharged, checker_cmd, streams, violations, extra):
    evdir = os.environ.get('CRD_EVIDENCE_DIR', os.path.join(VERIF, 'evidence'))
    os.makedirs(evdir, exist_ok=True)
    samples = []
    for s in streams:
        samples += ['%s: %s' % (s['name'], x) for x in s['samples'][:3]]
    for n in extra.get('theorems', [])[:40]:
        samples.append('theorem ' + n)
    cov = dict(
        obligations=obligations, discharged=discharged, checker_cmd=checker_cmd, trusted_base=TRUSTED_BASE,
        evaluations=sum(s['cases'] for s in streams), distinct_nontrivial=sum(s['distinct'] for s in streams),
        rule="proof obligations = property theorems of lean/Crd/Props/%s*.lean, each checked by the Lean kernel and audited with #print axioms; "
             "correspondence cases = harness streams (seeded generators + exhaustive finite products) run through the real Go code and the Lean model; "
             "distinct = distinct request lines" % pid,
        samples=samples or ['(no samples)'],
        traces_validated_against_impl=sum(s['cases'] for s in streams),
        disagreements_checked=sum(len(s['diffs']) for s in streams),
        streams={s['name']: dict(cases=s['cases'], distinct=s['distinct'], disagreements=len(s['diffs']), distribution=s['stats']) for s in streams},
    )
    cov.update(extra.get('coverage', {}))
    ev = dict(property_id=pid, tier=tier, seed=seed, level='proof', coverage=cov,
              assumptions=TRUSTED_BASE + extra.get('assumptions', []),
              wall_s=round(time.time() - t0, 2), violations=violations)
    json.dump(ev, open(os.path.join(evdir, pid + '.json'), 'w'), indent=1, ensure_ascii=False)

# ---------------------------------------------------------------------------------------------------
# the check of one property
# ---------------------------------------------------------------------------------------------------
def check_property(pid, tier, seed):
    import props_extra
    cfg = dict(PROPS[pid])
    cfg.update(props_extra.EXTRA.get(pid, {}))
    t0 = time.time()
    scratch = tempfile.mkdtemp(prefix='crdverif-')
    problems = []      # things that no longer check: dicts with kind, detail
    extra_cov = {}
    streams = []
    violations = []    # concrete failing inputs
    known_lines = []
    try:
        ok, msg = regenerate()
        if not ok:
            problems.append(dict(kind='regenerate', detail='extractor could not read the source: ' + msg.strip()[:500]))
        crd, harness = build_real(scratch)
        os.environ.pop('CRD_RACE_BIN', None)
        if cfg.get('race'):
            race = os.path.join(scratch, 'crd-race')
            p = run(['go', 'build', '-race', '-o', race, './cmd'], cwd=REPO, env=goenv())
            if p.returncode == 0:
                os.environ['CRD_RACE_BIN'] = race
            else:
                problems.append(dict(kind='race-build', detail=p.stderr.decode(errors='replace')[-500:]))
        targets = ['Crd.Props.' + m for m in prop_modules(pid)] + ['crd_driver']
        built, out = lake_build(targets)
        names = []
        discharged = 0
        if not built:
            for b in broken_obligations(out) or [dict(file='?', line=0, theorem=None, message=out[-800:])]:
                problems.append(dict(kind='proof', detail=b))
            # the driver is needed for the search: try to build it alone
            okd, outd = lake_build(['crd_driver'])
            if not okd:
                for b in broken_obligations(outd):
                    problems.append(dict(kind='model', detail=b))
            names = prop_theorems(pid)
        else:
            names, found, aproblems = audit(pid)
            for a in aproblems:
                problems.append(dict(kind='audit', detail=a))
            discharged = sum(1 for n in names if n in found and all(a in ALLOWED_AXIOMS for a in found[n]))
            if tier == 'thorough':
                # independent re-check of the compiled proof modules by the toolchain's external checker
                for m in prop_modules(pid):
                    p = run(['lake', 'env', 'leanchecker', 'Crd.Props.' + m], cwd=LEAN, timeout=3600)
                    if p.returncode != 0:
                        problems.append(dict(kind='leanchecker', detail=(p.stdout + p.stderr).decode(errors='replace')[-600:]))
                    else:
                        extra_cov.setdefault('leanchecker', []).append('Crd.Props.' + m)
        # the obligation about how input is read no longer checks: widen the search for a concrete failing input (longer inputs)
        os.environ.pop('CRD_ESCALATE', None)
        if any(p['kind'] == 'proof' and isinstance(p['detail'], dict) and 'Props/IO.lean' in str(p['detail'].get('file')) for p in problems):
            os.environ['CRD_ESCALATE'] = '1'
        for h in scan_forbidden():
            problems.append(dict(kind='forbidden-construct', detail=h))
        # correspondence + oracles on real observations
        if os.path.exists(DRIVER):
            import smfdec
            if LIB_BROKEN:
                problems.append(dict(kind='tie', detail=dict(note='the in-process streams cannot be built against /repo: its exported API changed',
                                                             compiler=LIB_BROKEN[0][-600:])))
            for sname in cfg.get('streams', []):
                if LIB_BROKEN and sname in LIB_STREAMS:
                    continue
                st = run_stream(sname, harness, crd, scratch, seed, tier)
                streams.append(st)
                # property violations the harness observed directly on the real code (real-vs-real oracles)
                for o in st.get('oracle', []):
                    if o.get('property') in (None, pid):
                        violations.append(dict(what=o.get('what', ''), input=o.get('input'), stream=sname, observed=o.get('observed')))
                # a disagreement between the real code and the model: the model is proved to meet the specification,
                # so a difference that survives the property's projection is a concrete failing input
                for d in st['diffs'][:200]:
                    ra, mo = smfdec.project(pid, d['real']), smfdec.project(pid, d['model'])
                    if ra != mo:
                        violations.append(dict(what='real crd differs from the verified model on the observation %s talks about' % pid,
                                               input=d['request'][:4000], stream=sname,
                                               observed=dict(real=str(ra)[:1500], model=str(mo)[:1500])))
                    else:
                        problems.append(dict(kind='tie', detail=dict(stream=sname, request=d['request'][:600], real=d['real'][:300], model=d['model'][:300],
                                                                     note='difference not visible in the projection of ' + pid)))
            for fn in cfg.get('oracles', []):
                res = fn(dict(crd=crd, harness=harness, scratch=scratch, seed=seed, tier=tier, driver=DRIVER, streams=streams))
                streams.append(res['stream'])
                violations += res['violations']
        else:
            problems.append(dict(kind='model', detail='driver not built'))
        # known findings
        findings = [f for f in load_findings()['findings'] if f['property'] == pid]
        for f in findings:
            if probe_finding(f, crd):
                known_lines.append("KNOWN-FINDING: property=%s %s" % (pid, f['what']))
        unknown = []
        for v in violations:
            hit = [f for f in findings if props_extra.matches(f, v)]
            if hit:
                line = "KNOWN-FINDING: property=%s %s" % (pid, hit[0]['what'])
                if line not in known_lines:
                    known_lines.append(line)
            else:
                unknown.append(v)
        for l in known_lines:
            print(l)
        rc = 0
        if unknown:
            for v in unknown[:5]:
                path = write_replay(pid, dict(property=pid, kind='failing-input', seed=seed, tier=tier, **v))
                print("VIOLATION property=%s replay=%s" % (pid, path))
            rc = 1
        elif problems:
            # a proof obligation or the tie no longer checks and no concrete failing input was found
            path = write_replay(pid, dict(property=pid, kind='unchecked', seed=seed, tier=tier, no_longer_checks=problems[:20],
                                          note='no failing input found by the search; the property is no longer shown to hold'))
            print("VIOLATION property=%s replay=%s no-failing-input-found" % (pid, path))
            rc = 1
        write_evidence(pid, tier, seed, t0, max(len(names), 1), discharged if not problems else min(discharged, len(names)),
                       "cd /verif/lean && lake build %s && lake env lean Crd/Audit/%s.lean" % (' '.join('Crd.Props.' + m for m in prop_modules(pid)), pid),
                       streams, len(unknown) + (1 if (problems and not unknown) else 0),
                       dict(theorems=names, coverage=dict(problems=[str(p)[:300] for p in problems[:10]], known_findings=known_lines, **extra_cov),
                            assumptions=cfg.get('assumptions', [])))
        log("%s %s: %d obligations, %d discharged, %d tie cases, %d problems, %d violations, %.1fs" % (
            pid, tier, len(names), discharged, sum(s['cases'] for s in streams), len(problems), len(unknown), time.time() - t0))
        return rc
    finally:
        shutil.rmtree(scratch, ignore_errors=True)

def setup():
    ok, msg = regenerate()
    if not ok:
        raise Infra("extractor failed: " + msg)
    scratch = tempfile.mkdtemp(prefix='crdverif-')
    try:
        build_real(scratch)
    finally:
        shutil.rmtree(scratch, ignore_errors=True)
    built, out = lake_build(['Crd', 'crd_driver'])
    if not built:
        raise Infra("lake build failed:\n" + out[-4000:])
    return 0

def replay(path):
    """re-run what a replay file records against /repo's CURRENT tree: the stream that produced the failing input
    (same seed and tier, so the same input is generated again) or, for an unchecked obligation, the whole check.
    exit 1 + VIOLATION line if it still fails, 0 if it no longer does."""
    r = json.load(open(path))
    pid = r.get('property')
    seed, tier = int(r.get('seed', 1)), r.get('tier', 'quick')
    print("replaying %s (%s): %s" % (path, r.get('kind'), str(r.get('what', r.get('note', '')))[:300]))
    if r.get('kind') != 'failing-input' or r.get('stream') not in all_stream_names():
        return check_property(pid, tier, seed)
    import smfdec
    scratch = tempfile.mkdtemp(prefix='crdverif-')
    try:
        ok, msg = regenerate()
        crd, harness = build_real(scratch)
        built, out = lake_build(['crd_driver'])
        if not built:
            raise Infra("driver does not build:\n" + out[-2000:])
        st = run_stream(r['stream'], harness, crd, scratch, seed, tier)
        again = False
        for o in st.get('oracle', []):
            if o.get('input') == r.get('input') and o.get('what') == r.get('what'):
                again = True
                print("still fails: %s\n  input: %s\n  observed: %s" % (o.get('what'), str(o.get('input'))[:1000], str(o.get('observed'))[:1000]))
        for d in st['diffs']:
            if d['request'][:4000] == r.get('input'):
                ra, mo = smfdec.project(pid, d['real']), smfdec.project(pid, d['model'])
                if ra != mo:
                    again = True
                    print("still fails: real crd differs from the verified model\n  request: %s\n  real:  %s\n  model: %s" % (d['request'][:1000], str(ra)[:800], str(mo)[:800]))
        if again:
            print("VIOLATION property=%s replay=%s" % (pid, path))
            return 1
        print("the recorded input no longer fails on the current tree")
        return 0
    finally:
        shutil.rmtree(scratch, ignore_errors=True)

def all_stream_names():
    names = set()
    for c in PROPS.values():
        names.update(c.get('streams', []))
    return names

def main(argv):
    try:
        if len(argv) == 1 and argv[0] == 'setup':
            return setup()
        if len(argv) == 2 and argv[0] == 'replay':
            return replay(argv[1])
        if len(argv) == 2 and argv[0] in PROPS and argv[1] in ('quick', 'thorough'):
            seed = int(os.environ.get('VERIF_SEED', '1'))
            tier = argv[1]
            return check_property(argv[0], tier, seed)
        print(__doc__)
        print("usage: check setup | check <%s> quick|thorough | check replay <file>" % '|'.join(sorted(PROPS)))
        return 2
    except Infra as e:
        log("INFRASTRUCTURE ERROR:", e)
        return 2
