"""Per-property additions: oracle runs on real observations, known-finding matching, replay."""
import os, re, subprocess, tempfile, shutil

def goyacc_regen(ctx):
    """C04, last sentence: the shipped parser is what goyacc generates from chords.y (decided directly)."""
    import crdcheck
    tmp = tempfile.mkdtemp(prefix='crdgy-')
    try:
        out = os.path.join(tmp, 'out.go')
        p = crdcheck.run(['go', 'tool', 'goyacc', '-o', out, '-v', os.path.join(tmp, 'y.output'), 'input/ast/chords.y'],
                         cwd=crdcheck.REPO, env=crdcheck.goenv())
        def norm(path):
            return [l for l in open(path, encoding='utf-8').read().split('\n')
                    if not l.startswith('//line') and not l.startswith('// Code generated')]
        violations = []
        if p.returncode != 0 or not os.path.exists(out):
            violations.append(dict(what='goyacc cannot regenerate the parser from chords.y: ' + p.stderr.decode(errors='replace')[-300:],
                                   input='input/ast/chords.y', stream='goyacc-regen'))
            n = 0
        else:
            a, b = norm(out), norm(os.path.join(crdcheck.REPO, 'input/ast/chords_goyacc_generated.go'))
            n = len(a)
            if a != b:
                diff = next((i for i, (x, y) in enumerate(zip(a, b)) if x != y), min(len(a), len(b)))
                violations.append(dict(what='the committed parser is not what goyacc generates from chords.y (first difference at line %d)' % (diff + 1),
                                       input='input/ast/chords.y vs input/ast/chords_goyacc_generated.go', stream='goyacc-regen',
                                       regenerated=a[diff:diff + 3], committed=b[diff:diff + 3]))
        return dict(stream=dict(name='goyacc-regen', cases=1, distinct=1, diffs=[], stats={'lines-compared': n},
                                samples=['go tool goyacc -o <tmp> input/ast/chords.y == chords_goyacc_generated.go (modulo header and //line)']),
                    violations=violations)
    finally:
        shutil.rmtree(tmp, ignore_errors=True)

def smf_strict(ctx):
    """C08: the strict SMF reader written from the specification (Lean, Crd.Spec.parseSMF) is run on the REAL bytes
    of every file the `write`-type streams produced, together with note balance and first-track checks."""
    import crdcheck
    reqs, keys = [], []
    tie = os.path.join(ctx['scratch'], 'tie')
    for name in ('write', 'dict', 'diatonic'):
        rq, rl = os.path.join(tie, name + '.req'), os.path.join(tie, name + '.real')
        if not (os.path.exists(rq) and os.path.exists(rl)):
            continue
        for a, b in zip(open(rq, encoding='utf-8'), open(rl, encoding='utf-8')):
            w = a.split()
            r = b.split()
            if len(w) > 6 and w[0] == 'write' and len(r) == 2 and r[0] == 'ok':
                reqs.append('smfcheck %s %s' % (w[5], r[1]))
                keys.append(a.strip())
    violations = []
    if reqs:
        m = crdcheck.run([ctx['driver']], stdin=('\n'.join(reqs) + '\n').encode(), timeout=3600)
        out = m.stdout.decode().split('\n')
        for k, r, o in zip(keys, reqs, out):
            if o.strip() != 'holds':
                violations.append(dict(what='the file crd wrote is not a well-formed SMF under the strict reader: ' + o.strip(),
                                       input=k[:4000], stream='smf-strict', observed=r[:3000]))
    return dict(stream=dict(name='smf-strict', cases=len(reqs), distinct=len(set(reqs)), diffs=[],
                            stats={'real-files-read-by-strict-parser': len(reqs)},
                            samples=[r[:160] + ' => holds' for r in reqs[:2]]),
                violations=violations)


def matches(finding, violation):
    """does a concrete violation fall under a recorded known finding?"""
    m = finding.get('match', {})
    if m.get('kind') == 'exact-input':
        return violation.get('input') == m.get('input')
    if m.get('kind') == 'input-class':
        fn = CLASSES.get(m.get('predicate'))
        return bool(fn and fn(violation))
    return False

def _hex_strings(text):
    out = []
    for w in str(text).split():
        if w.startswith('x') and len(w) > 1:
            try:
                out.append(bytes.fromhex(w[1:]).decode('utf-8', 'replace'))
            except ValueError:
                pass
    return out

def _comment_after_underscore(v):
    txt = str(v.get('input', ''))
    cands = [txt] + _hex_strings(txt)
    return any(re.search(r'_[ \t\r\n\\nrt]*;', c) for c in cands)

def _debug_parse_error(v):
    # the repeat stream itself established that the ONLY difference is goyacc's trace lines and that the run failed both times
    return '--debug' in str(v.get('input', '')) and str(v.get('what', '')).startswith("with --debug a syntax error makes goyacc print")

def _not_float_safe(v):
    for s in _hex_strings(v.get('input', '')):
        m = re.fullmatch(r'(\d+)/(\d+)', s)
        if m and int(m.group(2)) >= 700000000:
            return True
    return False

def _unrepresentable(v):
    for s in _hex_strings(v.get('input', '')):
        m = re.fullmatch(r'(\d+)/(\d+)', s)
        if m:
            n, d = int(m.group(1)), int(m.group(2))
            if n > 255 or d > 255 or d == 0 or (d & (d - 1)) != 0:
                return True
    return False

CLASSES = {
    'comment-after-underscore': _comment_after_underscore,
    'debug-parse-error': _debug_parse_error,
    'not-float-safe': _not_float_safe,
    'unrepresentable-setting': _unrepresentable,
}

def replay(r):
    print("replay: re-run the recorded request through `check <Cxx> quick` streams; see DESIGN.md section 5")
    return 0

def _simple_conv(req):
    """`conv syllable xKEY xTEXT` where TEXT is ROOT[/BASS][1] with single accidentals"""
    w = req.split()
    if len(w) != 4 or w[1] != 'syllable':
        return None
    try:
        key = bytes.fromhex(w[2][1:]).decode()
        txt = bytes.fromhex(w[3][1:]).decode()
    except (ValueError, UnicodeDecodeError):
        return None
    if not re.fullmatch(r'[A-G][#b]?(/[A-G][#b]?)?\[1\]', txt) or not re.fullmatch(r'([A-G][#b]?m?)?', key):
        return None
    return 'specconv %s %s' % (w[2], w[3])

def _simple_key(req):
    w = req.split()
    try:
        key = bytes.fromhex(w[1][1:]).decode()
    except (ValueError, UnicodeDecodeError, IndexError):
        return None
    return 'specscale ' + w[1] if re.fullmatch(r'[A-G][#b]?m?', key) else None

_MAJOR = [0, 2, 4, 5, 7, 9, 11]

def _degree_meaning(s):
    """(number, size in semitones) of a degree in crd's notation: b/# prefixes count semitones against the major scale,
    except that on the perfect numbers (1, 4, 5 and compounds) `b` and `bb` both name the diminished interval"""
    m = re.fullmatch(r'(b*|#*)(\d+)', s)
    if not m or int(m.group(2)) == 0:
        return None
    pre, n = m.group(1), int(m.group(2))
    step, octv = (n - 1) % 7, (n - 1) // 7
    perfect = step in (0, 3, 4)
    if pre.startswith('b'):
        k = len(pre)
        alt = -(max(1, k - 1) if perfect else k)
    else:
        alt = len(pre)
    return (n, _MAJOR[step] + 12 * octv + alt)

def _conv_meaning(reply):
    """a `conv` reply for one chord as the specification states it: number and size of root (and bass)"""
    w = reply.split()
    # ok 1 + + xDEG xNAME (~ | + xBASE) 1 x31 ~ ~ ~ ~ ~
    if len(w) < 7 or w[0] != 'ok' or w[1] != '1' or w[2] != '+' or w[3] != '+':
        return reply
    try:
        deg = _degree_meaning(bytes.fromhex(w[4][1:]).decode())
        if w[6] == '~':
            return 'ok %d %d' % deg
        base = _degree_meaning(bytes.fromhex(w[7][1:]).decode())
        return 'ok %d %d %d %d' % (deg + base)
    except Exception:
        return reply

SPEC_ORACLES = {
    # property: [(stream, request prefix, spec request builder)]
    'C13': [('scale', 'keptscale ', _simple_key)],
    'C17': [('scale', 'keptscale ', _simple_key)],
    'C15': [('note', 'semitone ', lambda r: 'specsize ' + r.split(' ', 1)[1])],
    'C03': [('conv', 'conv syllable ', _simple_conv)],
    'C05': [('conv', 'conv syllable ', _simple_conv)],
}

def spec_oracle(pid):
    """the replies of the REAL code compared with a specification that reads none of crd's tables (Crd/Spec/Oracle.lean,
    Crd/Spec/Theory.lean): turns a table entry changed consistently in the code (which the regenerated model follows)
    into a concrete failing input"""
    def run(ctx):
        import crdcheck
        tie = os.path.join(ctx['scratch'], 'tie')
        reqs, keys, reals = [], [], []
        for stream, prefix, build in SPEC_ORACLES[pid]:
            rq, rl = os.path.join(tie, stream + '.req'), os.path.join(tie, stream + '.real')
            if not (os.path.exists(rq) and os.path.exists(rl)):
                continue
            for a, b in zip(open(rq, encoding='utf-8'), open(rl, encoding='utf-8')):
                a, b = a.rstrip('\n'), b.rstrip('\n')
                if not a.startswith(prefix):
                    continue
                s = build(a)
                if s is None:
                    continue
                reqs.append(s); keys.append(a); reals.append(b)
        violations = []
        agree = 0
        if reqs:
            m = crdcheck.run([ctx['driver']], stdin=('\n'.join(reqs) + '\n').encode(), timeout=3600)
            out = m.stdout.decode().split('\n')
            for k, r, real, spec in zip(keys, reqs, reals, out):
                spec = spec.strip()
                # the specification answers for every well-formed request; crd may support less (fewer keys) but whatever
                # it does answer must be what theory says.  For interval sizes both directions count.
                if pid in ('C03', 'C05'):
                    real = _conv_meaning(real)
                if real.startswith('ok') or (pid == 'C15' and spec.startswith('ok')):
                    if real != spec:
                        violations.append(dict(what='real crd disagrees with the specification (which reads none of crd\'s tables)',
                                               input=k[:2000], stream='spec-oracle', observed=dict(real=real[:600], specification=spec[:600])))
                    else:
                        agree += 1
        return dict(stream=dict(name='spec-oracle', cases=len(reqs), distinct=len(set(reqs)), diffs=[],
                                stats={'real-replies-compared-with-specification': len(reqs), 'agree': agree},
                                samples=['%s  =>  %s' % (k[:100], r[:60]) for k, r in list(zip(keys, reals))[:2]]),
                    violations=violations)
    return run

EXTRA = {
    'C03': dict(oracles=[spec_oracle('C03')]),
    'C04': dict(oracles=[goyacc_regen]),
    'C05': dict(oracles=[spec_oracle('C05')]),
    'C08': dict(oracles=[smf_strict]),
    'C13': dict(oracles=[spec_oracle('C13')]),
    'C15': dict(oracles=[spec_oracle('C15')]),
    'C17': dict(oracles=[spec_oracle('C17')]),
}
