"""Per-property additions: oracle runs on real observations, known-finding matching, replay."""
import os, re, subprocess, tempfile, shutil

def goyacc_regen(ctx):
    """C04, last sentence: the shipped parser is what goyacc generates from chords.y (decided directly)."""
    import crdcheck
    tmp = tempfile.mkdtemp(prefix='crdgy-')
    try:
        out = os.path.join(tmp, 'out.go')
        p = crdcheck.run(['go', 'tool', 'goyacc', '-o', out, '-v', os.path.join(tmp, 'y.output'), 'input/ast/chords.y'],
                         cwd=crdcheck.REPO, env=crdcheck.goenv())
        def norm(path):
            return [l for l in open(path, encoding='utf-8').read().split('\n')
                    if not l.startswith('//line') and not l.startswith('// Code generated')]
        violations = []
        if p.returncode != 0 or not os.path.exists(out):
            violations.append(dict(what='goyacc cannot regenerate the parser from chords.y: ' + p.stderr.decode(errors='replace')[-300:],
                                   input='input/ast/chords.y', stream='goyacc-regen'))
            n = 0
        else:
            a, b = norm(out), norm(os.path.join(crdcheck.REPO, 'input/ast/chords_goyacc_generated.go'))
            n = len(a)
            if a != b:
                diff = next((i for i, (x, y) in enumerate(zip(a, b)) if x != y), min(len(a), len(b)))
                violations.append(dict(what='the committed parser is not what goyacc generates from chords.y (first difference at line %d)' % (diff + 1),
                                       input='input/ast/chords.y vs input/ast/chords_goyacc_generated.go', stream='goyacc-regen',
                                       regenerated=a[diff:diff + 3], committed=b[diff:diff + 3]))
        return dict(stream=dict(name='goyacc-regen', cases=1, distinct=1, diffs=[], stats={'lines-compared': n},
                                samples=['go tool goyacc -o <tmp> input/ast/chords.y == chords_goyacc_generated.go (modulo header and //line)']),
                    violations=violations)
    finally:
        shutil.rmtree(tmp, ignore_errors=True)

EXTRA = {
    'C04': dict(oracles=[goyacc_regen]),
}

def matches(finding, violation):
    """does a concrete violation fall under a recorded known finding?"""
    m = finding.get('match', {})
    if m.get('kind') == 'exact-input':
        return violation.get('input') == m.get('input')
    if m.get('kind') == 'input-class':
        fn = CLASSES.get(m.get('predicate'))
        return bool(fn and fn(violation))
    return False

CLASSES = {}

def replay(r):
    print("replay: re-run the recorded request through `check <Cxx> quick` streams; see DESIGN.md section 5")
    return 0
