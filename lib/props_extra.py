"""Per-property additions: oracle runs on real observations, known-finding matching, replay."""
EXTRA = {}

def matches(finding, violation):
    """does a concrete violation fall under a recorded known finding?"""
    m = finding.get('match', {})
    if m.get('kind') == 'exact-input':
        return violation.get('input') == m.get('input')
    if m.get('kind') == 'input-class':
        fn = CLASSES.get(m.get('predicate'))
        return bool(fn and fn(violation))
    return False

CLASSES = {}

def replay(r):
    print("replay: re-run the recorded request through `check <Cxx> quick` streams; see DESIGN.md section 5")
    return 0
