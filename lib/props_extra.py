"""Per-property additions: oracle runs on real observations, known-finding matching, replay."""
import os, re, subprocess, tempfile, shutil

def goyacc_regen(ctx):
    """C04, last sentence: the shipped parser is what goyacc generates from chords.y (decided directly)."""
    import crdcheck
    tmp = tempfile.mkdtemp(prefix='crdgy-')
    try:
        out = os.path.join(tmp, 'out.go')
        p = crdcheck.run(['go', 'tool', 'goyacc', '-o', out, '-v', os.path.join(tmp, 'y.output'), 'input/ast/chords.y'],
                         cwd=crdcheck.REPO, env=crdcheck.goenv())
        def norm(path):
            return [l for l in open(path, encoding='utf-8').read().split('\n')
                    if not l.startswith('//line') and not l.startswith('// Code generated')]
        violations = []
        if p.returncode != 0 or not os.path.exists(out):
            violations.append(dict(what='goyacc cannot regenerate the parser from chords.y: ' + p.stderr.decode(errors='replace')[-300:],
                                   input='input/ast/chords.y', stream='goyacc-regen'))
            n = 0
        else:
            a, b = norm(out), norm(os.path.join(crdcheck.REPO, 'input/ast/chords_goyacc_generated.go'))
            n = len(a)
            if a != b:
                diff = next((i for i, (x, y) in enumerate(zip(a, b)) if x != y), min(len(a), len(b)))
                violations.append(dict(what='the committed parser is not what goyacc generates from chords.y (first difference at line %d)' % (diff + 1),
                                       input='input/ast/chords.y vs input/ast/chords_goyacc_generated.go', stream='goyacc-regen',
                                       regenerated=a[diff:diff + 3], committed=b[diff:diff + 3]))
        return dict(stream=dict(name='goyacc-regen', cases=1, distinct=1, diffs=[], stats={'lines-compared': n},
                                samples=['go tool goyacc -o <tmp> input/ast/chords.y == chords_goyacc_generated.go (modulo header and //line)']),
                    violations=violations)
    finally:
        shutil.rmtree(tmp, ignore_errors=True)

def smf_strict(ctx):
    """C08: the strict SMF reader written from the specification (Lean, Crd.Spec.parseSMF) is run on the REAL bytes
    of every file the `write`-type streams produced, together with note balance and first-track checks."""
    import crdcheck
    reqs, keys = [], []
    tie = os.path.join(ctx['scratch'], 'tie')
    for name in ('write', 'dict', 'diatonic'):
        rq, rl = os.path.join(tie, name + '.req'), os.path.join(tie, name + '.real')
        if not (os.path.exists(rq) and os.path.exists(rl)):
            continue
        for a, b in zip(open(rq, encoding='utf-8'), open(rl, encoding='utf-8')):
            w = a.split()
            r = b.split()
            if len(w) > 6 and w[0] == 'write' and len(r) == 2 and r[0] == 'ok':
                reqs.append('smfcheck %s %s' % (w[5], r[1]))
                keys.append(a.strip())
    violations = []
    if reqs:
        m = crdcheck.run([ctx['driver']], stdin=('\n'.join(reqs) + '\n').encode(), timeout=3600)
        out = m.stdout.decode().split('\n')
        for k, r, o in zip(keys, reqs, out):
            if o.strip() != 'holds':
                violations.append(dict(what='the file crd wrote is not a well-formed SMF under the strict reader: ' + o.strip(),
                                       input=k[:4000], stream='smf-strict', observed=r[:3000]))
    return dict(stream=dict(name='smf-strict', cases=len(reqs), distinct=len(set(reqs)), diffs=[],
                            stats={'real-files-read-by-strict-parser': len(reqs)},
                            samples=[r[:160] + ' => holds' for r in reqs[:2]]),
                violations=violations)

EXTRA = {
    'C04': dict(oracles=[goyacc_regen]),
    'C08': dict(oracles=[smf_strict]),
}

def matches(finding, violation):
    """does a concrete violation fall under a recorded known finding?"""
    m = finding.get('match', {})
    if m.get('kind') == 'exact-input':
        return violation.get('input') == m.get('input')
    if m.get('kind') == 'input-class':
        fn = CLASSES.get(m.get('predicate'))
        return bool(fn and fn(violation))
    return False

def _hex_strings(text):
    out = []
    for w in str(text).split():
        if w.startswith('x') and len(w) > 1:
            try:
                out.append(bytes.fromhex(w[1:]).decode('utf-8', 'replace'))
            except ValueError:
                pass
    return out

def _comment_after_underscore(v):
    txt = str(v.get('input', ''))
    cands = [txt] + _hex_strings(txt)
    return any(re.search(r'_[ \t\r\n\\nrt]*;', c) for c in cands)

def _debug_parse_error(v):
    # the repeat stream itself established that the ONLY difference is goyacc's trace lines and that the run failed both times
    return '--debug' in str(v.get('input', '')) and str(v.get('what', '')).startswith("with --debug a syntax error makes goyacc print")

def _not_float_safe(v):
    for s in _hex_strings(v.get('input', '')):
        m = re.fullmatch(r'(\d+)/(\d+)', s)
        if m and int(m.group(2)) >= 700000000:
            return True
    return False

def _unrepresentable(v):
    for s in _hex_strings(v.get('input', '')):
        m = re.fullmatch(r'(\d+)/(\d+)', s)
        if m:
            n, d = int(m.group(1)), int(m.group(2))
            if n > 255 or d > 255 or d == 0 or (d & (d - 1)) != 0:
                return True
    return False

CLASSES = {
    'comment-after-underscore': _comment_after_underscore,
    'debug-parse-error': _debug_parse_error,
    'not-float-safe': _not_float_safe,
    'unrepresentable-setting': _unrepresentable,
}

def replay(r):
    print("replay: re-run the recorded request through `check <Cxx> quick` streams; see DESIGN.md section 5")
    return 0
