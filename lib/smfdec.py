"""A small SMF decoder used only by the violation SEARCH (projection of real vs model bytes per property).
Third implementation, independent of gomidi and of the Lean reader; lenient on purpose (strictness is the Lean
reader's job)."""

def _vlq(b, i):
    v = 0
    while True:
        c = b[i]; i += 1
        v = v * 128 + (c & 0x7F)
        if c < 0x80:
            return v, i

def decode(data):
    """-> dict(format, ntrks, division, tracks=[ [ (abs_tick, kind, payload...) ] ])"""
    if data[:4] != b'MThd':
        raise ValueError('no MThd')
    fmt = int.from_bytes(data[8:10], 'big'); n = int.from_bytes(data[10:12], 'big'); div = int.from_bytes(data[12:14], 'big')
    i = 14
    tracks = []
    while i < len(data):
        if data[i:i+4] != b'MTrk':
            raise ValueError('no MTrk at %d' % i)
        ln = int.from_bytes(data[i+4:i+8], 'big')
        b = data[i+8:i+8+ln]; i += 8 + ln
        j = 0; t = 0; rs = 0; evs = []
        while j < len(b):
            d, j = _vlq(b, j); t += d
            c = b[j]
            if c == 0xFF:
                typ = b[j+1]; l, k = _vlq(b, j+2); evs.append((t, 'meta', typ, bytes(b[k:k+l]))); j = k + l; rs = 0
            elif c in (0xF0, 0xF7):
                l, k = _vlq(b, j+1); evs.append((t, 'sysex', c, bytes(b[k:k+l]))); j = k + l; rs = 0
            else:
                if c >= 0x80:
                    rs = c; j += 1
                st = rs
                nd = 1 if 0xC0 <= st <= 0xDF else 2
                evs.append((t, 'midi', st, bytes(b[j:j+nd]))); j += nd
        tracks.append(evs)
    return dict(format=fmt, ntrks=n, division=div, tracks=tracks)

def note_ons(f):
    return sorted((t, e[3][0]) for tr in f['tracks'] for (t, *e) in [x for x in tr] if e[0] == 'midi' and e[1] & 0xF0 == 0x90 and e[2][1] > 0) if False else \
        sorted((ev[0], ev[3][0]) for tr in f['tracks'] for ev in tr if ev[1] == 'midi' and ev[2] & 0xF0 == 0x90 and ev[3][1] > 0)

def notes_in_order(f):
    out = []
    for ti, tr in enumerate(f['tracks']):
        for ev in tr:
            if ev[1] == 'midi' and ev[2] & 0xF0 in (0x80, 0x90):
                out.append((ti, ev[0], 'on' if (ev[2] & 0xF0 == 0x90 and ev[3][1] > 0) else 'off', ev[3][0]))
    return out

def merged(f):
    return sorted((ev[0], ev[1], ev[2], ev[3].hex()) for tr in f['tracks'] for ev in tr if not (ev[1] == 'meta' and ev[2] == 0x2F))

def eots(f):
    return [[ev[0] for ev in tr if ev[1] == 'meta' and ev[2] == 0x2F] for tr in f['tracks']]

def settings(f):
    return [(ti, ev[0], ev[2], ev[3].hex()) for ti, tr in enumerate(f['tracks']) for ev in tr
            if ev[1] == 'meta' and ev[2] in (0x51, 0x58, 0x59, 0x01, 0x05, 0x06)] + \
           [('vel', ev[0], ev[3][0], ev[3][1]) for tr in f['tracks'] for ev in tr if ev[1] == 'midi' and ev[2] & 0xF0 == 0x90]

def pitch_classes(f):
    return sorted(set(k % 12 for (_, k) in note_ons(f)))

def pitch_groups(f):
    """the pitches struck together, in order of time (ticks dropped: timing is C02's business)"""
    ons = sorted((ev[0], ev[3][0]) for tr in f['tracks'] for ev in tr if ev[1] == 'midi' and ev[2] & 0xF0 == 0x90 and ev[3][1] > 0)
    groups, last = [], None
    for t, k in ons:
        if t != last:
            groups.append([]); last = t
        groups[-1].append(k)
    return [sorted(g) for g in groups]

def note_timing(f):
    """when notes start and stop, per track, in file order (pitches dropped: they are C01's business)"""
    return [(ti, ev[0], 'on' if (ev[2] & 0xF0 == 0x90 and ev[3][1] > 0) else 'off')
            for ti, tr in enumerate(f['tracks']) for ev in tr if ev[1] == 'midi' and ev[2] & 0xF0 in (0x80, 0x90)]

# what each property says about a written file.  C06 (N tracks vs one track) is decided on the real code alone by the
# harness (sibling runs), C08 by the strict reader on the real bytes, C09 only by the outcome class: for those a
# difference between real bytes and model bytes is not by itself a failing input.
PROJECTIONS = {
    'C01': lambda f: pitch_groups(f),
    'C02': lambda f: note_timing(f),
    'C05': lambda f: note_ons(f),
    'C06': lambda f: (f['ntrks'], eots(f)),
    'C07': lambda f: settings(f),
    'C08': lambda f: 'a file (well-formedness is decided by the strict reader on the real bytes)',
    'C09': lambda f: 'a file',
    'C16': lambda f: pitch_groups(f),
    'C17': lambda f: pitch_classes(f),
}

def project(pid, hexreply):
    """projection of an `ok x<hex>` reply for a property; None if the reply is not a byte reply"""
    w = hexreply.split()
    if len(w) != 2 or w[0] != 'ok' or not w[1].startswith('x') or not w[1][1:9].lower().startswith('4d546864'):
        # not an SMF reply: the streams registered for a property observe the quantities its theorems talk about
        # (interval sizes, scale notes, parse trees, converted instances ...), so the whole ok-reply is the
        # projection; failures are compared by outcome class.  C09 only talks about the outcome class.
        if pid == 'C09' or not hexreply.startswith('ok'):
            return ('class', w[0] if w else '')
        return ('reply', hexreply)
    try:
        f = decode(bytes.fromhex(w[1][1:]))
    except Exception as e:
        return ('undecodable', str(e))
    fn = PROJECTIONS.get(pid)
    return fn(f) if fn else ('bytes', w[1])
