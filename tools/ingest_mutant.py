#!/usr/bin/env python3
"""Confirm a seeded change produced by a sub-agent in its scratch worktree and store it under /verif/seeded/.
usage: ingest_mutant.py <Cxx> <i>   (reads /tmp/mut/out/<Cxx>/patch<i>.diff, demo<i>.sh, meta<i>.json; worktree /tmp/mut/<Cxx>)"""
import json, os, shutil, subprocess, sys
V = os.path.dirname(os.path.dirname(os.path.abspath(__file__)))
pid, i = sys.argv[1], sys.argv[2]
base = os.environ.get('MUT_BASE', '/tmp/mut')
wt, out = base + '/' + pid, base + '/out/' + pid
env = dict(os.environ, GOFLAGS='-mod=mod', GOPROXY='off')
def sh(cmd, cwd=None, timeout=1200):
    return subprocess.run(cmd, cwd=cwd, env=env, stdout=subprocess.PIPE, stderr=subprocess.STDOUT, timeout=timeout)
def clean():
    sh(['git', 'checkout', '--', '.'], cwd=wt); sh(['git', 'clean', '-fdq'], cwd=wt)
clean()
patch = os.path.join(out, 'patch%s.diff' % i)
demo = os.path.join(out, 'demo%s.sh' % i)
conf = {}
p = sh(['go', 'build', '-o', os.path.join(out, 'crd.pristine.confirm'), './cmd'], cwd=wt); assert p.returncode == 0, p.stdout
p = sh(['git', 'apply', patch], cwd=wt)
conf['applies'] = p.returncode == 0
if not conf['applies']:
    print(p.stdout.decode()); sys.exit(1)
try:
    p = sh(['go', 'build', '-o', os.path.join(out, 'crd.mut.confirm'), './cmd'], cwd=wt)
    conf['builds'] = p.returncode == 0
    p = sh(['go', 'test', '-vet=off', '-count=1', './...'], cwd=wt)
    conf['tests_pass'] = p.returncode == 0
    if p.returncode != 0:
        print(p.stdout.decode()[-2000:])
    changed = sh(['git', 'diff', '--stat'], cwd=wt).stdout.decode()
    conf['touches_tests'] = '_test.go' in changed or 'testdata' in changed
finally:
    clean()
pm = sh(['bash', demo, os.path.join(out, 'crd.mut.confirm')], cwd=out, timeout=300)
pp = sh(['bash', demo, os.path.join(out, 'crd.pristine.confirm')], cwd=out, timeout=300)
conf['demo_exit_changed'], conf['demo_exit_pristine'] = pm.returncode, pp.returncode
conf['demo_outputs_differ'] = pm.stdout != pp.stdout
print(json.dumps(conf, indent=1))
print('--- demo on changed build (tail)'); print(pm.stdout.decode(errors='replace')[-1200:])
print('--- demo on pristine build (tail)'); print(pp.stdout.decode(errors='replace')[-600:])
ok = conf['builds'] and conf['tests_pass'] and not conf['touches_tests'] and conf['demo_outputs_differ']
dst = os.path.join(V, 'seeded', '%s-%s%s' % (pid, os.environ.get('MUT_TAG', ''), i))
if ok:
    os.makedirs(dst, exist_ok=True)
    shutil.copyfile(patch, os.path.join(dst, 'patch.diff'))
    shutil.copyfile(demo, os.path.join(dst, 'demo.sh'))
    meta = json.load(open(os.path.join(out, 'meta%s.json' % i)))
    meta['confirmed'] = conf
    meta['origin'] = 'fresh sub-agent given only the property text and a scratch worktree'
    json.dump(meta, open(os.path.join(dst, 'meta.json'), 'w'), indent=1, ensure_ascii=False)
    print('stored', dst)
else:
    print('NOT CONFIRMED')
for f in ('crd.mut.confirm', 'crd.pristine.confirm'):
    try: os.remove(os.path.join(out, f))
    except OSError: pass
