#!/usr/bin/env python3
"""Regenerates /verif/MANIFEST.json from the table below (keeps it schema-valid at all times)."""
import json, os, subprocess
V = os.path.dirname(os.path.dirname(os.path.abspath(__file__)))
ids = [json.loads(l)['id'] for l in open(os.path.join(V, 'properties.jsonl'))]

NOTE = ("Trusted: Lean 4.33 kernel (axioms propext, Classical.choice, Quot.sound only; no sorry/native_decide; audited every run); "
        "the extractor that regenerates Crd/Generated from /repo; the hand-written Lean model, tied to the Go code by the "
        "differential correspondence streams named here (agreement on generated inputs, not a proof of the tie). ")

CLAIMS = {
 'C15': dict(
   text="Lean theorems for ALL interval numbers n and all qualities: crd's size function = textbook size (size_is_textbook), impossible "
        "combinations rejected / possible accepted, print-parse round trip for every valid interval < 2^64, parse yields only valid "
        "intervals, and describe's root+interval pitch/octave/spelling law for all 21 roots, every valid interval, both preferences. "
        "Model tied to note/*.go by exhaustive n<=64 (thorough 200) x 8 qualities, all notation strings over {b,#,0-9} up to length 4 (5), "
        "and 21 roots x (67 attributes + 16..40 numbers x 7 qualities) x 2 preferences through desc.Attribute.Describe / Note.AddDegree.",
   note="Degree.Semitone multiplies octaves in Go int (wraps above 2^59 octaves); the model is exact. ParseDegree strings outside "
        "'prefix+digits' are compared with the model only (quirks such as '3b' = 'b3' are modelled, not specified).",
   technique="Lean 4 proof: closed-form/induction in steps of 7 + kernel decide on the regenerated 14-entry table; differential tie", ref="6 (C15)"),
}

def main():
    checks = []
    na = []
    for i in ids:
        c = CLAIMS.get(i)
        if not c:
            na.append(dict(property_id=i, reason="check under construction (DESIGN.md section 10); claimed once its theorems and tie run"))
            continue
        checks.append(dict(
            property_id=i, quick_cmd="./check %s quick" % i, thorough_cmd="./check %s thorough" % i,
            evidence_file="/verif/evidence/%s.json" % i, replay_cmd_template="./check replay {path}", engine="lean-crd",
            level_claimed=dict(category=c.get('category', 'proof'), text=c['text'], design_ref="DESIGN.md section " + c['ref']),
            level_note=NOTE + c['note'], technique=c['technique']))
    hooks = dict(guard="verif", enable="go build -tags verif (the harness links /repo's packages through their exported API; no hook files were needed)",
                 baseline_off_cmd="cd /repo && GOFLAGS=-mod=mod GOPROXY=off go test -json -vet=off -count=1 ./...",
                 source_commits=[], add_only=True)
    m = dict(version=1, setup_cmd="./check setup", hooks=hooks,
             engines=[dict(name="lean-crd", path="/verif/lean", serves_properties=[c['property_id'] for c in checks],
                           kind_free_text="Lean 4 model + theorems (lake project Crd), regenerated tables (extract/), Go harness (harness/) and line-protocol driver")],
             checks=checks, not_applicable=na,
             notes="Machine-checked proof in Lean 4; see DESIGN.md. Fix commits in /repo are listed in known_findings.json (fixed).")
    json.dump(m, open(os.path.join(V, 'MANIFEST.json'), 'w'), indent=1)
main()
