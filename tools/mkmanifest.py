#!/usr/bin/env python3
"""Regenerates /verif/MANIFEST.json from the table below (keeps it schema-valid at all times)."""
import json, os, subprocess
V = os.path.dirname(os.path.dirname(os.path.abspath(__file__)))
ids = [json.loads(l)['id'] for l in open(os.path.join(V, 'properties.jsonl'))]

NOTE = ("Trusted: Lean 4.33 kernel (axioms propext, Classical.choice, Quot.sound only; no sorry/native_decide; audited every run); "
        "the extractor that regenerates Crd/Generated from /repo; the hand-written Lean model, tied to the Go code by the "
        "differential correspondence streams named here (agreement on generated inputs, not a proof of the tie). ")

CLAIMS = {
 'C12': dict(
   text="PARTIAL (proof that the model is entitled to be a function + repeated observation of the process). Lean theorems: sites_accounted (the list of every "
        "construct of /repo whose behaviour can depend on something other than its input - ranges over maps, channels and iterator functions, goroutines, channel "
        "sends, clock/random/environment reads, and the sort calls that neutralise a map order - regenerated from the TYPE-CHECKED source on every run, equals the "
        "list accounted for one by one); for every map-order loop the modelled result is the same for EVERY iteration order (any permutation of the entries): "
        "semitone_order_irrelevant (Degree.Semitone), accidental_order_irrelevant (NewAccidental), inverse_maps_order_irrelevant + inverted_tables_injective "
        "(util.InverseMap, 4 tables), key_signature_map_order_irrelevant, chain_order_irrelevant (KeyConversionChain over a Set, from C14), listings_sorted "
        "(info key list / conv: collected in any order then sorted = same list; String order total/antisymmetric), validation_order_irrelevant (Map.validate). "
        "Observed on the real binary by the `repeat` stream, real vs real: every data-producing command (text parse/conv, write, write event/conv/parse, info "
        "attr/chord/key list/describe/conv, gen attr) on 340 (3,000) argument/input cases x 3 (8) re-runs under GOMAXPROCS 1,2,4,16,3,8, with --debug, input as "
        "`-` and as FILE, output to -o FILE (file = stdout bytes, stdout empty, nothing left on failure), plus a -race build of crd on the text-conv cases and "
        "every 7th other case (no DATA RACE report, same bytes).",
   note="Known finding kept: with --debug a syntax error makes goyacc print `state-N saw TOKEN` on stdout (the only difference, established per case by the "
        "stream). Not provable in any model: the Go scheduler and channel FIFO order (assumed: one producer, one consumer), cobra/OS file handling. The "
        "--velocity usage text lists the dynamics in map order (help text, not a data-producing command; recorded in DESIGN.md, not checked).",
   technique="Lean 4 proof: permutation-invariance lemmas (findSome?/find?/lookup/all/mergeSort under List.Perm) applied to every map-order loop enumerated by a go/types site extractor; real-vs-real repetition incl. race-detector build",
   ref="6 (C12)"),
 'C09': dict(
   text="PARTIAL (proof for the modelled logic, watchdog observation for the process). Lean theorems for ALL inputs: text_conv_never_crashes / "
        "text_parse_never_crashes (any byte sequence, either notation, any --key), write_never_crashes / write_conv_never_crashes (any instances document as "
        "scalar strings, any attribute file, any flag values): in the model every Must…/logx.Panic/unguarded loop of the Go code is an explicit panic/hang "
        "outcome and is proved unreachable (MustNewScale only sees keys that have a scale, Name.Semitone only names, the tonic always exists, the lexer's loops "
        "stop at end of input - a regenerated fact); refusal of every nonsense kind on every path it can arrive on (zero_duration_refused_yaml/_text, "
        "zero_meter_flag_refused, bad_value_refuses_instance, tempo_zero_refused, unknown_dynamic_refused incl. --velocity, unknown_chord_refused, "
        "unknown_modifier_refused, key_without_scale_refused, mixed_notation_refused, empty_piece_refused, played_piece_is_sane, written_piece_was_valid). "
        "Observed on the real binary by the `robust` stream (5,300 / 36,000 runs); panic_sites_accounted: every `Must...`/`panic`/`logx.Panic` call of /repo, with its arguments as written, is regenerated on every run and must equal the list accounted for one by one (a new such call or a constant argument turned into a variable breaks the obligation): every subcommand on random, truncated, mutated, repeated, over-long input on "
        "stdin and as FILE, 80 YAML shapes, every flag with 46 hostile values and random combinations, arbitrary bytes as dictionary files, and a "
        "(nonsense kind x path) matrix planted at the start, middle and end of valid pieces; oracles: no panic/fatal/signal/time-out (20 s, re-run alone with "
        "90 s before calling it a hang), failure => exit != 0, stderr diagnostic, empty stdout and empty -o file, planted nonsense => refused.",
   note="What a theorem cannot carry: wall-clock promptness, runtime fatal errors (memory), and what cobra / yaml.v3 / gomidi do with bytes before or after crd's own "
        "code - those are covered only as far as the watchdog stream exercises them (it found the gomidi int16 track index panic, fixed in 84c61b3). "
        "`gen attr -d N` produces output proportional to N by definition; N is kept small in the stream.",
   technique="Lean 4 proof: explicit crash outcomes in the model proved unreachable by invariants over the instance list + per-path refusal theorems; watchdog fuzz of the real binary with exit/stdout/stderr oracles",
   ref="6 (C09)"),
 'C05': dict(
   text="Lean theorems: degree_vs_syllable, by induction over the progression with the converter's carried scale: for EVERY abstract progression (roots on "
        "degrees 1..7 with flat/natural/sharp, any symbol, optional bass as an interval above the root, rests, any durations, any metadata with key changes at "
        "arbitrary positions) and every start key, whenever it can be spelled with note names (spell_fails_only_on_double_accidentals), `text conv syllable` of "
        "the spelling = `text conv degree` of the degree spelling (instances and failures alike); core: from any of the 21 written reference notes the written "
        "note an interval above it converts back to that interval (decide over 21 x 21 x 2); key_change_applies_from_carrier; chord_transposes / "
        "piece_transposes (for any tick function, any dictionary: the timeline in key k2 is the timeline in k1 with every note key shifted by the tonic "
        "distance, nothing else changed; byte arithmetic = plain addition in range). Tie + real-vs-real oracle: 500 (8,000) random progressions rendered as "
        "degree text and as note names in random keys with key changes through `crd text conv degree` / `syllable --key K` (outputs compared byte for byte), "
        "and the converted document through `crd write event --key K1` / `--key K2` (note-ons compared up to the shift).",
   note="Transposition is stated for instance lists without their own key changes (a later `key` overrides --key by design). Compound degrees (9, 11, 13) have no "
        "note-name spelling that converts back to them (note names always give 1..7) and are outside the first clause.",
   technique="Lean 4 proof: induction over progressions with carried state + kernel decide on the finite note/interval product + modular arithmetic; real-vs-real differential", ref="6 (C05)"),
 'C10': dict(
   text="Lean theorems for ALL values: degree_survives (every valid interval < 2^64 prints and reads back), key_survives (42 spellings), fraction_survives (all "
        "n/d, bare n when d = 1, validators), dynamic_survives, bpm_survives, text_survives, instance_survives (decodeInstance (encodeInstance i) = ok i for every "
        "valid instance), text_conv_output_readable (for ANY chord text, either notation, any key: every instance `text conv` emits is valid - "
        "convItems_valid by induction, using C03/C15 - hence read back by `write` as exactly the converted instance), decoded_is_valid (what `write` reads "
        "is valid), write_conv_output_readable (Crd/Props/C10Conv.lean: for EVERY document, dictionary, command list and flag set, whatever `write conv` prints "
        "is read back by `write` as exactly the instances `write conv` had prepared - decoded input + `cmt` texts + flag overrides on the first instance; "
        "override_valid, modifyCmt_valid, prepare_valid carry validity through the stages; write_conv_then_write: `write conv | write` with the same flags writes the prepared piece - override_idem, prepare_idem). Tie: `crd text conv` output re-read as raw YAML scalars and compared with the model's "
        "printed strings; `crd write conv -c cmt` (800 / 12,000 documents incl. flags, unknown and repeated commands) compared with the model, and on the real "
        "code `write conv | write event` compared with `write event` of the original document (real-vs-real oracle).",
   note="ASSUMED (not modelled): yaml.v3 Marshal/Unmarshal carries string scalars (any valid UTF-8) and mapping/sequence structure unchanged; exercised with "
        "YAML-significant, multi-line and non-ASCII texts. A chord without `degree:` prints a garbage degree in `write conv` and is refused by `write` (as the "
        "original document is).",
   technique="Lean 4 proof: print/parse bijections over List Char (core digit lemmas), validity invariant by induction over the converter; differential tie + real-vs-real pipeline oracle", ref="6 (C10)"),
 'C11': dict(
   text="Lean theorems over ALL inputs: trivia_before_token (white space in every lexer state, white space and newline-terminated comments outside {…}), "
        "trivia_after_token (after ANY token that is not a key/value run, inserting trivia admitted in the state it leaves changes neither that token, nor the "
        "state, nor anything after it: the `cut` lemma on maximal-munch runs with the generated rune tables), trivia_at_start / trivia_at_end, "
        "underscore_optional (+ item level), leading_zero / duration_leading_zeros, unicode_signs_lex / unicode_signs_mean / same_accidental_same_chord, "
        "accepted_accidental_honoured (from C03's conv_sound: the emitted degree measures the written letter AND accidental). Tie: 700 (10,000) pairs "
        "(canonical text, random spelling variant: trivia placements, underscore, leading zeros, Unicode signs) through the real `crd text conv`, the two real "
        "outputs compared byte for byte with each other and both with the model.",
   note="Known finding (kept, not fixed): a `;` comment directly after `_` is an error (white space there is fine) - the theorems state the admitted trivia per "
        "lexer state precisely (after `_` and inside {…} only white space).",
   technique="Lean 4 proof: lexer as a step function, fuel-independence, cut lemma for maximal-munch runs; real-vs-real differential pairs", ref="6 (C11)"),
 'C04': dict(
   text="Lean theorems for ALL token lists and ALL strings: parser_decides_grammar (the model's parser accepts a token list iff its kinds are derivable from "
        "`result` by the 28 productions of chords.y, taken as DATA regenerated from the .y file on every run: Derives <-> spelled-out language <-> "
        "recursive-descent parser, soundness and completeness), tree_faithful / no_suffix_dropped (the tree lists in order exactly the tokens read, kind and "
        "text; only the optional `_` is not recorded), empty_rejected, accepted_ends_closed (a text cut inside a chord or rest is rejected), text_is_tokens_and_trivia (when the lexer ends silently the text is exactly the tokens' own characters in order with only white space "
        "and comments before, between and after them), lexer_total "
        "(never hangs: fuel sufficiency with the generated EOF guards), no_silent_stop (the scanner's silent EOF cannot fire inside the input: generated rune "
        "tables), accepts_iff, never_crashes. Decided directly on every run: goyacc regenerates the committed parser from chords.y (modulo header and //line). "
        "Tie: the real lexer (token stream) on all strings over a 19-symbol alphabet up to length 3 (4) + 3,000 (40,000) generated/mutated texts; the real goyacc "
        "parser vs the model's parser on ALL token strings over 15 token representatives up to length 4 (5: 813,616) + 4,000 (60,000) generated, mutated and "
        "truncated texts, comparing the whole tree; `crd text conv` through the binary.",
   note="goyacc's LALR construction is trusted (regenerated and differentially compared, not re-proved). The lexer/parser compose lazily in Go and eagerly in "
        "the model; with the EOF guards in place both give the same outcome class (argued in DESIGN.md, checked by the tie).",
   technique="Lean 4 proof: CFG derivations over regenerated grammar data <-> recursive-descent parser (soundness+completeness), lexer termination; goyacc regeneration; differential tie", ref="6 (C04)"),
 'C01': dict(
   text="Lean theorems for any instance list, any interval number, any accepted dictionary, every key with a scale, any track count: chord_pitches (Key.Apply "
        "= bass first: 60+tonic+degree+bass-12, then 60+tonic+degree+each interval of the symbol, in uint8 arithmetic always and without wrap inside the MIDI "
        "range; sizes are the textbook sizes of C15), tones_inherit (parent's tones transitively, from C16), note_ons_by_instance (the note-ons of the whole "
        "reference timeline are, instance by instance, exactly the note-ons of that chord in the key in force; rests, settings, note-offs contribute none), "
        "key_in_force (most recent key at or before the chord, else the start key), flag_key_first_instance_only + prepared_tail_unchanged (--key replaces "
        "the first instance's key only), default C; composed with the C06 refinement these are statements about the tracks crd writes. Tie: 2,000 (30,000) "
        "generated documents (degrees 1..15 and altered/compound, all symbols and long names, basses, key changes on chords and rests, --key, 1..32 tracks, "
        "~15% malformed incl. out-of-range chords) through the real `crd write`, byte comparison with the model; 600 (8,000) user dictionaries.",
   note="Out-of-range chords (uint8 wrap, gomidi's clamp to 127) are modelled and tied, but outside the property.",
   technique="Lean 4 proof: refinement + induction over instances (Opt-cell writer = specification loop) + modular arithmetic; differential tie on SMF bytes", ref="6 (C01)"),
 'C02': dict(
   text="Lean theorems for an ARBITRARY tick function (hence independent of rounding), any instance list, any track count: starts_gapless (first instance at "
        "0, each starts where the previous ended), total_is_sum, timeline_by_instance (settings at the instance's start, all note-ons at its start, all "
        "note-offs at start+length, nothing else), ons_offs_same_keys, rest_is_silent, release_before_strike (in the reference timeline, hence in every "
        "track's order-preserving share, an instance's releases precede the next instance's strikes, also at equal ticks). ROUNDING CLAUSE, proved over Q about the exact soft-float model of Go's arithmetic (Crd/Props/C02Float.lean, Mathlib tactics in "
        "the proof module only): instance_length_is_nearest - for every list of n valid fractions and any common denominator D with N/D = 960*v exactly "
        "(numOver_is_exact), if 4(n+4)N < 2^52 the length is floor(960v + 1/2), or one less only at an exact half (each operation = one rounding to 53 bits, "
        "relative error <= 2^-53; n+4 roundings; a value nearer to N/D than 1/(2D) rounds to its nearest integer); float_rounding_can_miss - without the "
        "hypothesis the clause is FALSE of the code (concrete piece below 2^28 ticks, one tick off; kernel evaluation). "
        "Tie: 6,000 (140,000) adversarial duration lists through the real midix writer vs the exact soft-float model (bit-identical ticks), op histories, documents.",
   note="The soft-float model (positive doubles as m*2^e, round-to-nearest-even to 53 bits; no subnormals/overflow, which crd's operands cannot reach) is tied to "
        "Go's float64 bit-for-bit by the `ticks` stream. Outside the hypothesis the rounding clause is false of the code: known finding D17 (proved, and replayed "
        "on the binary).",
   technique="Lean 4 proof: invariant/refinement by induction for any tick function; exact soft-float model of Go's arithmetic tied bit-for-bit", ref="6 (C02)"),
 'C07': dict(
   text="Lean theorems: first_instance_states_all (tempo, meter, key signature of the first instance or the defaults 100, 4/4, C, then its texts), "
        "later_instance_exactly_its_settings, text_calls, settings_at_instance_start (the setting events of the whole timeline are, instance by instance, that "
        "instance's settings stamped with its start tick, for any list; on chords and on rests alike), flags_override_first_instance, payloads: meter "
        "[n, log2 d, 8, 8] for every n and power-of-two d < 256, key signature sf/mi = conventional signature (C13 spec) for all 28 keys, text/lyric/marker = "
        "exact UTF-8 bytes, tempo: tempo_value (Crd/Props/C07Float.lean, for EVERY bpm >= 1 the value is the nearest integer of 60,000,000/bpm - three roundings "
        "of the soft-float model, error analysis over Q), tempo_fits / tempo_event (for every bpm >= 4 it fits and the event is FF 51 03 + 3 big-endian "
        "bytes), dynamics_monotone, velocity_persists. Tie: tempo payloads for 2,000 (40,000) bpm values through gomidi; "
        "2,000 (30,000) documents with settings on every kind of instance and every flag subset through `crd write`, byte comparison.",
   note="Unrepresentable values (meter denominators that are not powers of two or > 255, bpm 1..3 or > 6e7) are silently altered by gomidi: known finding D12; "
        "the model reproduces them and the tie compares them.",
   technique="Lean 4 proof: induction over instances + kernel decide on payload tables; differential tie on SMF bytes", ref="6 (C07)"),
 'C08': dict(
   text="Lean theorems about the tracks the model of `crd write` produces, for any document, 1..65535 tracks, any instrument/program: track_count, "
        "one_eot_and_last, timing_meta_only_in_first_track (every meta event is routed to track 0), notes_paired_per_track (per track and instance, the "
        "note-offs are for exactly the keys and routing indices of the note-ons, in order), header_bytes (MThd, 6, format 0 iff one track, count, division), "
        "written_file_parses / write_output_parses (Crd/Props/C08Bytes.lean: for EVERY document `crd write` accepts, the strict reader written from the SMF "
        "specification accepts the encoder's bytes and returns format 0/1, division 960, `--track` tracks and exactly the written events of every track - "
        "running status on both sides, meta lengths, key-signature range for every supported key, chunk lengths; hypotheses: texts < 2^28 bytes, chunks < 2^32 "
        "bytes, the format's own limits), written_tracks_balanced (in every track of the file as the strict reader sees it, every note-on is closed by a note-off of the same key "
        "and channel, nothing else is closed, nothing stays open: Crd.Spec.notesBalanced), delta_times_fit (every delta time of every track is at most the piece length <= 0x0FFFFFFF, and gomidi's variable-length encoding of it is read back "
        "exactly by the strict reader: encoder against the specification's decoder for EVERY value that can occur), too_long_refused (D22 fix). "
        "The strict SMF reader (Crd.Spec.parseSMF, written from the specification, shares no code with the encoder or gomidi) is executed on the REAL bytes of "
        "every generated file on every run, together with the note-balance and first-track checks (oracle smf-strict). Tie: byte equality of real output and "
        "model encoder over 2,000 (30,000) documents x 1..32 tracks x instrument/program flags.",
   note="gomidi's serialiser is modelled (Crd/Model/Smf.lean) and tied by bytes, not verified. The byte-level theorem 'parseSMF (encode tracks) = ok' is in "
        "Crd/Props/C08Bytes.lean when present.",
   technique="Lean 4 proof: refinement invariants on abstract tracks + independent strict reader executed on real bytes; differential tie on SMF bytes", ref="6 (C08)"),
 'C06': dict(
   text="Lean theorems, for EVERY instance list, every track count 1..65535, every instrument/program: end-to-end refinement write_refines (induction over "
        "the op history with the invariant 'every track's clock + writer pending = reference time'): track i holds exactly the events of the piece's "
        "reference timeline that the selector routes to it, at their reference ticks, in order; every_track_ends_at_total: each track's only end-of-track "
        "is its last event and sits at the sum of all instance lengths (trailing rests included); merged_independent_of_tracks: for any two track counts the "
        "merged (tick,event) lists are permutations of each other (bucket-permutation lemma); selector_in_range. Tie: 1,500 (20,000) random op histories "
        "on the real midix.MIDIWriter with 1..32 tracks, compared track by track (delta, message bytes); 2,000 (30,000) documents through `crd write "
        "--track N` with byte comparison.",
   note="Tick arithmetic is on Nat (Go: uint32; totals are bounded below 2^28 by the property). The refinement is stated for Go's tick function goTicks "
        "and proved for an arbitrary one.",
   technique="Lean 4 proof: invariant by induction over histories + refinement to a track-count-free reference timeline + permutation lemma", ref="6 (C06)"),
 'C17': dict(
   text="Lean theorem diatonic_chords_playable_in_key, decided by kernel evaluation THROUGH THE COMPOSED MODEL (lexer, parser, classifier, syllable converter "
        "in key K, dictionary, Key.Apply in key K) for all 28 keys x 14 listed chords: each string lexes and parses as one chord written on the i-th scale "
        "note, converts to degree number i+1 without bass, carries the symbol that stacking thirds on the mode's step pattern prescribes (spec, not crd's "
        "name tables; shown equal to maj min min maj maj min dim / maj7 m7 m7 maj7 7 m7 m7b5 and the natural-minor rotation), is in the dictionary, and "
        "sounds 4 (5) notes whose pitch classes belong to the key's scale. Tie: all 42 spellings through `crd info key describe`, and each of the 392 listed "
        "strings through `crd text conv syllable --key K | crd write --key K` on the real binary with byte comparison of the MIDI output (every run).",
   note="The SMF bytes of the real pipeline are compared with the model's encoder output; gomidi is modelled, not verified.",
   technique="Lean 4 proof: kernel decide through the composed executable model, split in four parallel modules", ref="6 (C17)"),
 'C03': dict(
   text="Lean theorems: for all 21x21 written-note pairs and both search orders the interval search returns exactly the degree whose number is the "
        "letter distance and whose textbook size is the pitch distance BY LETTER (so reference + degree is the written note), fails only when no "
        "quality has that size (or only a diminished 2nd/3rd/6th/7th, an observed gap), search order irrelevant (kernel decide over 882 cases); lifted by "
        "a general proof (conv_sound) to the converter for ARBITRARY root/bass tokens in every supported key; the key's own seven notes are accepted as "
        "roots with the scale's own degrees and as basses over one another (decide over 28 keys x 7 x 7). Tie: exhaustive 21x21x2 GetDegree in-process, "
        "`crd text conv syllable --key K` through the real binary (quick: 1,200 sampled single chords + 1,500 generated texts; thorough: all 12,936 chords).",
   note="The YAML printed by the binary is re-read by the harness as raw scalars (no crd types) and compared with the model's printed degrees.",
   technique="Lean 4 proof: kernel decide over the finite note product + general lifting lemma; differential tie through the CLI", ref="6 (C03)"),
 'C13': dict(
   text="Lean theorems decided by kernel evaluation of the model's NewScale over ALL 64 values of the Key type against a line-of-fifths specification "
        "(not crd's table): the 15+13 named keys are supported and nothing else is; letters once from the tonic; step pattern 2212221/2122122; "
        "signature = conventional signature, never both sharps and flats; altered notes = first n of FCGDAEB / BEADGCF; relative pairs share notes and "
        "signature. Tables (keyStringSignatures, flatSequence, ring) are re-extracted from op/scale.go on every run. Tie: ParseKey/NewScale/diatonic "
        "chords for all 42 spellings + malformed strings in-process.",
   note="ParseKey is modelled as 'first match of ([A-G])([#b]?)(m?) anywhere' (Go regexp leftmost-first); the regexp engine itself is trusted.",
   technique="Lean 4 proof: decide over the whole finite key space lifted to forall k : Key; regenerated tables", ref="6 (C13)"),
 'C14': dict(
   text="Lean theorems: rings aligned (12 non-empty slots each, every supported key in exactly its slot, all slot members supported), each move from every "
        "supported key means what theory says (dominant +7 semitones same mode, subdominant +5, relative: other mode and signature equal up to 12 "
        "fifths, parallel: other mode same tonic pitch class) and lists every supported spelling; by INDUCTION over the chain, for chains of any length "
        "and ANY iteration order of the member set: every chain succeeds and equals the composition of abstract steps in Bool x Z/12 "
        "(chain_is_composition), independence of the spelling read (spelling_independent), and the laws d.s = s.d = r.r = p.p = d^12 = id as chain "
        "suffix laws. Tie: KeyConversionChain.Convert in-process for 28 keys x all chains up to length 4 (thorough 6: 152,880) + random chains to length 200.",
   note="Go's map iteration order is modelled as an arbitrary selection function on the member set (OrdOK); the scheduler is not involved.",
   technique="Lean 4 proof: decide on regenerated ring seeds + induction over chains with an order oracle", ref="6 (C14)"),
 'C16': dict(
   text="Lean theorems over the embedded chord.yml/attribute.yml (re-read every run): each of the 23 listed symbols resolves (inherited notes included) to "
        "its conventional interval set; name and display resolve to the same entry and notes; attribute names = English quality + number of a valid "
        "interval; embedded list = GenerateAttributes(N) with N from the go:generate line. For ARBITRARY user lists appended after the built-ins: "
        "acceptance iff every user entry is well formed and the combined map validates; unnamed entries, dangling attributes/parents and entries on an "
        "extends cycle are rejected (cycle_never_ends by induction); in every accepted dictionary GetChordAttributes = parent's notes (transitively) ++ own "
        "and never exhausts its fuel (= no unbounded recursion). Tie: 600 (8,000) random user dictionaries incl. each inconsistency kind through "
        "`crd write --attr/--chord`, byte comparison of the MIDI output.",
   note="Go maps are modelled as association lists with last-binding-wins; validation errors are compared as a class, not by text.",
   technique="Lean 4 proof: decide on regenerated YAML + fuel/cycle induction for arbitrary dictionaries", ref="6 (C16)"),
 'C15': dict(
   text="Lean theorems for ALL interval numbers n and all qualities: crd's size function = textbook size (size_is_textbook), impossible "
        "combinations rejected / possible accepted, print-parse round trip for every valid interval < 2^64, parse yields only valid "
        "intervals, and describe's root+interval pitch/octave/spelling law for all 21 roots, every valid interval, both preferences. "
        "Model tied to note/*.go by exhaustive n<=64 (thorough 200) x 8 qualities, all notation strings over {b,#,0-9} up to length 4 (5), "
        "and 21 roots x (67 attributes + 16..40 numbers x 7 qualities) x 2 preferences through desc.Attribute.Describe / Note.AddDegree.",
   note="Degree.Semitone multiplies octaves in Go int (wraps above 2^59 octaves); the model is exact. ParseDegree strings outside "
        "'prefix+digits' are compared with the model only (quirks such as '3b' = 'b3' are modelled, not specified).",
   technique="Lean 4 proof: closed-form/induction in steps of 7 + kernel decide on the regenerated 14-entry table; differential tie", ref="6 (C15)"),
}

IO = (" Shared obligation io_sites_accounted (Crd/Props/IO.lean): every use of the io, bufio, os, io/ioutil and io/fs packages and every direct "
      "Read/Peek/Scan/Seek/Stat on their readers, listed from the type-checked source on every run, equals the nine uses accounted for (input opened once and "
      "read to the end, output through one os.Create or stdout; no limited, windowed or token-wise reader); when it breaks the `sizes` stream climbs to 272 MB "
      "looking for the length at which a result changes.")
ADDENDA = {
 'C01': " The YAML documents of the tie are written in four spellings (double-quoted, plain incl. flow sequences, single-quoted, anchors/aliases/`<<` merges); "
        "fixed families: user chords named by digits next to ambiguous interval numbers, chords taking over another chord's symbol or long name.",
 'C02': " Documents in four YAML spellings incl. zero-padded numbers written plain (`values: [010]`).",
 'C06': " Fixed pieces: user chords of 255..300 notes between rests on 1..5 tracks.",
 'C03': " Every seventh `conv` case runs with --debug; the same key named twice in one brace block. Pieces with three key declarations (first key or its enharmonic twin again third; each on a chord or a rest; all key pairs thorough).",
 'C04': IO + " Stream `sizes` (padding oracles 70 KB .. 17 MB, thorough 68 MB).",
 'C05': " Key-triple pieces in `conv`; `threeway` returns to an earlier key a third of the time.",
 'C07': " A ninth of the documents run with --debug; free-form metadata named like settings (key, bpm, vel, mtr) stays text. Documents in four YAML spellings: texts and whole metadata maps repeated through aliases and `<<` merges, zero-padded bpm/meter written plain.",
 'C09': IO,
 'C10': IO + " `wconv` texts include several-line texts beginning with a tab, U+2028/U+2029, NEL, BOM, NBSP and the keys `<<`, `\\nkey`, `\\tk\\nk` (found D24, fixed in 85c2e47).",
 'C11': " every_accepted_sign_known: every entry of the regenerated token table of kind SHARP/FLAT is read as sharp/flat by the converters. `variants` probes the "
        "real lexer with ~1,000 candidate runes and uses every rune lexed like `#`/`b` as an equivalent spelling; leading zeros in runs of up to 1,000.",
 'C12': IO + " `repeat` also runs dictionaries with one faulty entry among good ones 40 (120) times each.",
 'C13': " Also runs the `conv` stream (the scale applied after key changes carried by chords and rests, a --key without a scale next to a text with its own key) "
        "and the `write` stream (key signature events, also several at tick 0).",
 'C17': " Also runs the `conv` stream (relative, parallel and enharmonic key changes in one piece).",
 'C14': " net_rotation: inside any command, a dominants followed by b subdominants may be replaced by (a + 11b) mod 12 dominants, for all a, b (non-empty remainder)." + IO + " Stream `keyconv`: `crd info key conv` through the binary, commands of up to 100,000 (131,000) letters incl. 65,535..65,537, every third case via -o onto an existing file.",
 'C15': " Interval sizes also for 2^k-1, 2^k, 2^k+1 (k = 8..62), powers of ten and random numbers up to 5.3e18. Stream `cdescribe` (a fifth of the roots written with the Unicode signs; found D25, fixed in 2bdb0ee): `crd info chord describe` through the binary with user attributes/chords (compound intervals before and after simple ones of the "
        "same class, repeated intervals, attribute files also written without quotes), each interval compared with the model and with `info attr describe` alone.",
 'C16': " last_definition_wins / user_takes_over / builtin_name_untouched: in every accepted dictionary the chord found under a name is the last entry of "
        "(built-ins, then the user's chords) whose display symbol or long name is that name. Fixed families: user chords whose long name is another chord's symbol (or whose symbol is another chord's long name), alone, with a child, defined after the child.",
}

def main():
    checks = []
    na = []
    for i in ids:
        c = CLAIMS.get(i)
        if not c:
            na.append(dict(property_id=i, reason="check under construction (DESIGN.md section 10); claimed once its theorems and tie run"))
            continue
        checks.append(dict(
            property_id=i, quick_cmd="./check %s quick" % i, thorough_cmd="./check %s thorough" % i,
            evidence_file="/verif/evidence/%s.json" % i, replay_cmd_template="./check replay {path}", engine="lean-crd",
            level_claimed=dict(category=c.get('category', 'proof'), text=c['text'] + ADDENDA.get(i, ''), design_ref="DESIGN.md section " + c['ref']),
            level_note=NOTE + c['note'], technique=c['technique']))
    hooks = dict(guard="verif", enable="go build -tags verif (the harness links /repo's packages through their exported API; no hook files were needed)",
                 baseline_off_cmd="cd /repo && GOFLAGS=-mod=mod GOPROXY=off go test -json -vet=off -count=1 ./...",
                 source_commits=[], add_only=True)
    m = dict(version=1, setup_cmd="./check setup", hooks=hooks,
             engines=[dict(name="lean-crd", path="/verif/lean", serves_properties=[c['property_id'] for c in checks],
                           kind_free_text="Lean 4 model + theorems (lake project Crd), regenerated tables (extract/), Go harness (harness/) and line-protocol driver")],
             checks=checks, not_applicable=na,
             notes="Machine-checked proof in Lean 4; see DESIGN.md. Fix commits in /repo are listed in known_findings.json (fixed).")
    json.dump(m, open(os.path.join(V, 'MANIFEST.json'), 'w'), indent=1)
main()
