#!/usr/bin/env python3
"""Builds the table of seeded changes x checks (DESIGN.md section 15.6) from seeded/*/result_all.json and writes it
between the markers <!-- MATRIX:BEGIN --> / <!-- MATRIX:END --> (or replaces the placeholder __MATRIX__)."""
import json, os, re, glob
V = os.path.dirname(os.path.dirname(os.path.abspath(__file__)))
ids = [json.loads(l)['id'] for l in open(os.path.join(V, 'properties.jsonl'))]
rows = []
tot = conc = 0
elsewhere, nowhere = [], []
for d in sorted(glob.glob(os.path.join(V, 'seeded', '*')), key=lambda p: (os.path.basename(p).split('-')[0], 'r2' in p, p)):
    name = os.path.basename(d)
    meta = json.load(open(os.path.join(d, 'meta.json')))
    target = meta.get('property', name.split('-')[0])
    rp = os.path.join(d, 'result_all.json')
    partial = False
    if not os.path.exists(rp):
        rp = os.path.join(d, 'result.json'); partial = True
    if not os.path.exists(rp):
        continue
    res = json.load(open(rp))['results']
    cells = []
    for pid in ids:
        r = res.get(pid)
        if r is None:
            cells.append(' ')
        elif r['rc'] == 0:
            cells.append('·')
        elif r['rc'] == 1:
            concrete = any('no-failing-input-found' not in (x.get('line') or '') for x in r.get('detail', []))
            cells.append('**X**' if concrete else 'x')
        else:
            cells.append('!')
    t = res.get(target, {})
    tot += 1
    if t.get('rc') == 1:
        conc += 1
    elif any(r.get('rc') == 1 for r in res.values()):
        elsewhere.append(name)
    else:
        nowhere.append(name)
    files = ', '.join(os.path.basename(f) for f in meta.get('files', []))[:40]
    trig = re.sub(r'\s+', ' ', meta.get('trigger', ''))[:110]
    note = ' (neutralised by a later fix)' if meta.get('note_after_fix') else ''
    rows.append('| %s | %s | %s%s | %s |' % (name, files, trig.replace('|', '/'), note, ' | '.join(cells)))
head = '| change | files | what it needs to manifest | ' + ' | '.join(i[1:] for i in ids) + ' |\n|---|---|---|' + '---|' * len(ids)
legend = ("Columns 01…17 = `./check Cxx quick` with the change applied to /repo. **X** = exit 1 with a concrete failing input in the replay; "
          "x = exit 1 `no-failing-input-found` (a proof obligation or the tie broke, nothing concrete on that property's observation); "
          "· = exit 0; ! = infrastructure error; blank = that check was not run against this change (only the check of its own property was). %d of %d changes are caught by the check of the property they were written against; "
          "%s by the check of the property that owns the route they use (see the text below); %s by none - it no longer breaks its property on the "
          "current tree (see below). Off-diagonal marks are the shared `write`/`conv` ties doing their job: most changes break several properties, or at "
          "least the correspondence several properties rest on. Rows were computed with the machinery as it stood after each round's strengthening "
          "(first two rounds: before the third round's additions; rounds 4 to 6: after that round's strengthening; round 6: target checks only)." % (conc, tot, ', '.join(elsewhere) or 'none', ', '.join(nowhere) or 'none'))
table = head + '\n' + '\n'.join(rows) + '\n\n' + legend + '\n'
p = os.path.join(V, 'DESIGN.md')
s = open(p).read()
block = '<!-- MATRIX:BEGIN -->\n' + table + '<!-- MATRIX:END -->'
if '<!-- MATRIX:BEGIN -->' in s:
    s = re.sub(r'<!-- MATRIX:BEGIN -->.*?<!-- MATRIX:END -->', lambda m: block, s, flags=re.S)
else:
    s = s.replace('__MATRIX__', block)
open(p, 'w').write(s)
print('rows', len(rows), 'caught on target', conc, 'of', tot)
