#!/usr/bin/env python3
"""Apply a seeded change to /repo, run the registered checks against it, undo it.

usage: runmutant.py <seeded-dir-or-patch.diff> [Cxx ...]     (default: every property, quick tier)
Results go to <seeded-dir>/result.json; evidence and replays of these runs go to a scratch directory so that
the committed evidence always comes from the unchanged tree."""
import json, os, subprocess, sys, tempfile, shutil, time
V = os.path.dirname(os.path.dirname(os.path.abspath(__file__)))
REPO = '/repo'
ALL = [json.loads(l)['id'] for l in open(os.path.join(V, 'properties.jsonl'))]

def sh(cmd, **kw):
    return subprocess.run(cmd, stdout=subprocess.PIPE, stderr=subprocess.STDOUT, **kw)

def main():
    target = sys.argv[1]
    pids = sys.argv[2:] or ALL
    patch = target if target.endswith('.diff') else os.path.join(target, 'patch.diff')
    outdir = os.path.dirname(os.path.abspath(patch))
    if sh(['git', '-C', REPO, 'status', '--porcelain']).stdout.strip():
        sys.exit("/repo is not clean")
    scratch = tempfile.mkdtemp(prefix='crdmut-')
    env = dict(os.environ, CRD_EVIDENCE_DIR=os.path.join(scratch, 'evidence'), CRD_REPLAY_DIR=os.path.join(scratch, 'replays'))
    res = {}
    try:
        p = sh(['git', '-C', REPO, 'apply', os.path.abspath(patch)])
        if p.returncode != 0:
            sys.exit("patch does not apply: " + p.stdout.decode())
        for pid in pids:
            t0 = time.time()
            p = sh([os.path.join(V, 'check'), pid, 'quick'], env=env, cwd=V)
            out = p.stdout.decode(errors='replace')
            lines = [l for l in out.split('\n') if l.startswith('VIOLATION')]
            detail = []
            for l in lines[:3]:
                try:
                    path = l.split('replay=')[1].split()[0]
                    r = json.load(open(path))
                    detail.append(dict(line=l.replace(scratch, '<scratch>'), kind=r.get('kind'), what=str(r.get('what', ''))[:300], stream=r.get('stream'),
                                       input=str(r.get('input', ''))[:300], no_longer_checks=[str(x)[:300] for x in r.get('no_longer_checks', [])[:4]]))
                except Exception as e:
                    detail.append(dict(line=l, error=str(e)))
            res[pid] = dict(rc=p.returncode, violations=len(lines), detail=detail, seconds=round(time.time() - t0, 1),
                            tail=out.strip().split('\n')[-1][:300])
            print(pid, 'rc=%d' % p.returncode, res[pid]['tail'], flush=True)
    finally:
        sh(['git', '-C', REPO, 'checkout', '--', '.'])
        sh(['git', '-C', REPO, 'clean', '-fdq'])
        shutil.rmtree(scratch, ignore_errors=True)
    caught = [p for p, r in res.items() if r['rc'] == 1]
    json.dump(dict(patch=os.path.relpath(patch, V), checked=pids, caught_by=caught, results=res), open(os.path.join(outdir, os.environ.get('RESULT_NAME', 'result.json')), 'w'), indent=1)
    print("caught by:", caught)

main()
